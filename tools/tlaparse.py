"""Parser for TLC's textual TLA+ values and for behaviour files written by
`tlc -simulate file=<prefix>,num=N` (one file per behaviour) or printed counterexamples.

TLA+ value -> Python:
  123 -> int, "s" -> str, TRUE/FALSE -> bool, modelvalue -> str,
  <<a, b>> -> list, {a, b} -> ('set', [..]) rendered as sorted list under key "__set",
  [f |-> v, ...] -> dict, (k :> v @@ ...) -> list of [k, v] pairs under {"__fun": [...]}
Functions whose keys are all strings become dicts; integer-keyed 1..n functions become lists.
"""
import re
import sys
import json


class P:
    def __init__(self, s):
        self.s = s
        self.i = 0

    def ws(self):
        while self.i < len(self.s) and self.s[self.i] in ' \t\r\n':
            self.i += 1

    def peek(self, k=1):
        return self.s[self.i:self.i + k]

    def expect(self, t):
        self.ws()
        if not self.s.startswith(t, self.i):
            raise ValueError('expected %r at %d: %r' % (t, self.i, self.s[self.i:self.i + 40]))
        self.i += len(t)

    def value(self):
        self.ws()
        c = self.peek()
        if c == '"':
            return self.string()
        if self.peek(2) == '<<':
            self.i += 2
            return self.seq('>>')
        if c == '{':
            self.i += 1
            return {'__set': self.seq('}')}
        if c == '[':
            self.i += 1
            return self.record()
        if c == '(':
            self.i += 1
            return self.fun()
        m = re.compile(r'-?\d+').match(self.s, self.i)
        if m:
            self.i = m.end()
            v = int(m.group())
            self.ws()
            if self.peek(2) == '..':
                self.i += 2
                hi = self.value()
                return {'__set': list(range(v, hi + 1))}
            return v
        m = re.compile(r'[A-Za-z_][A-Za-z0-9_]*').match(self.s, self.i)
        if m:
            self.i = m.end()
            w = m.group()
            if w == 'TRUE':
                return True
            if w == 'FALSE':
                return False
            return w
        raise ValueError('bad value at %d: %r' % (self.i, self.s[self.i:self.i + 40]))

    def string(self):
        assert self.s[self.i] == '"'
        self.i += 1
        out = []
        while True:
            c = self.s[self.i]
            if c == '\\':
                n = self.s[self.i + 1]
                out.append({'n': '\n', 't': '\t', 'r': '\r', 'f': '\f'}.get(n, n))
                self.i += 2
            elif c == '"':
                self.i += 1
                return ''.join(out)
            else:
                out.append(c)
                self.i += 1

    def seq(self, close):
        res = []
        self.ws()
        if self.s.startswith(close, self.i):
            self.i += len(close)
            return res
        while True:
            res.append(self.value())
            self.ws()
            if self.s.startswith(close, self.i):
                self.i += len(close)
                return res
            self.expect(',')

    def record(self):
        res = {}
        self.ws()
        if self.peek() == ']':
            self.i += 1
            return res
        while True:
            self.ws()
            m = re.compile(r'[A-Za-z_][A-Za-z0-9_]*').match(self.s, self.i)
            if not m:
                raise ValueError('bad field at %d' % self.i)
            self.i = m.end()
            self.expect('|->')
            res[m.group()] = self.value()
            self.ws()
            if self.peek() == ']':
                self.i += 1
                return res
            self.expect(',')

    def fun(self):
        pairs = []
        while True:
            k = self.value()
            self.expect(':>')
            v = self.value()
            pairs.append([k, v])
            self.ws()
            if self.peek() == ')':
                self.i += 1
                break
            self.expect('@@')
        if all(isinstance(k, str) for k, _ in pairs):
            return {k: v for k, v in pairs}
        ks = [k for k, _ in pairs]
        if all(isinstance(k, int) for k in ks) and sorted(ks) == list(range(1, len(ks) + 1)):
            d = dict((k, v) for k, v in pairs)
            return [d[i] for i in range(1, len(ks) + 1)]
        return {'__fun': pairs}


def parse_value(s):
    p = P(s)
    v = p.value()
    p.ws()
    if p.i != len(p.s):
        raise ValueError('trailing text at %d: %r' % (p.i, p.s[p.i:p.i + 40]))
    return v


_HDR = re.compile(r'^(?:\\\* )?(?:State \d+: )?<([A-Za-z_][A-Za-z0-9_]*)(\(.*\))? line \d+, col \d+ to line \d+, col \d+ of module ([A-Za-z0-9_]+)>\s*$')
_INIT = re.compile(r'^(?:\\\* )?(?:State \d+: )?<Initial predicate>\s*$')


def parse_state_block(lines):
    """lines: text lines '/\\ var = value' possibly multi-line. Returns dict var->value."""
    txt = '\n'.join(lines)
    parts = re.split(r'^/\\ ', txt, flags=re.M)
    st = {}
    for part in parts:
        part = part.strip()
        if not part:
            continue
        m = re.match(r'([A-Za-z_][A-Za-z0-9_]*) = ', part)
        if not m:
            raise ValueError('bad conjunct: %r' % part[:60])
        st[m.group(1)] = parse_value(part[m.end():])
    return st


def parse_action_args(argtxt):
    if not argtxt:
        return []
    inner = argtxt[1:-1]
    # split top-level commas
    p = P(inner)
    args = []
    while True:
        args.append(p.value())
        p.ws()
        if p.i >= len(p.s):
            break
        p.expect(',')
    return args


def parse_behaviour_file(path):
    """Parse a file written by -simulate file=... ; returns list of steps
    {action, args, state}. Step 0 is the initial state (action 'Init')."""
    steps = []
    cur = None
    buf = []
    with open(path) as f:
        for line in f:
            line = line.rstrip('\n')
            if line.startswith('STATE_') or line.startswith('State '):
                m2 = re.match(r'^State \d+: (.*)$', line)
                if m2:
                    line = m2.group(1)
                else:
                    continue
            m = _HDR.match(line)
            if m or _INIT.match(line):
                if cur is not None:
                    cur['state'] = parse_state_block(buf)
                    steps.append(cur)
                buf = []
                if m:
                    cur = {'action': m.group(1), 'args': parse_action_args(m.group(2))}
                else:
                    cur = {'action': 'Init', 'args': []}
                continue
            if line.startswith('/\\') or (buf and line.strip() and not line.startswith('=') and not line.startswith('-')):
                if cur is not None:
                    buf.append(line)
            elif line.startswith('=====') or line.startswith('----'):
                pass
    if cur is not None:
        cur['state'] = parse_state_block(buf)
        steps.append(cur)
    return steps


if __name__ == '__main__':
    for p in sys.argv[1:]:
        print(json.dumps(parse_behaviour_file(p)))


def keystr(k):
    if isinstance(k, list):
        return '/'.join(keystr(x) for x in k)
    return str(k)


def flat(v):
    """Driver-friendly form: functions with tuple keys become dicts keyed 'a/b', sets become lists."""
    if isinstance(v, dict):
        if '__fun' in v:
            return {keystr(k): flat(x) for k, x in v['__fun']}
        if '__set' in v:
            return [flat(x) for x in v['__set']]
        return {k: flat(x) for k, x in v.items()}
    if isinstance(v, list):
        return [flat(x) for x in v]
    return v


def behaviour_flat(path):
    steps = parse_behaviour_file(path)
    return [{'action': s['action'], 'args': flat(s['args']), 'state': flat(s['state'])} for s in steps]

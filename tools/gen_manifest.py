#!/usr/bin/env python3
"""Generates /verif/MANIFEST.json from the table below (single source of truth for what is claimed)."""
import json
import os
import subprocess

V = '/verif'

CLAIMS = {
    'C01': {
        'level': 'model_checking',
        'text': 'Batcher.tla (one action per critical section of Request/swapBuffers/fetchLoopIteration/doPush/doParse) is checked '
                'exhaustively by TLC for AckImpliesInserted, PromiseOkImpliesInserted, ExhaustedImpliesError, PromiseOnce, AtMostOneReply and, '
                'under fairness, EveryRequestAnswered. The spec is bound to the code in both directions: TLC-simulated behaviours are stepped '
                'through the real insert services with gated interleavings (state compared after every action), and executions of the real HTTP '
                'handler + parser + retry loop + production service wiring under random timers and database outcomes are validated as Batcher '
                'behaviours by TLC (Trace_Batcher.tla) with every invariant evaluated at every step.',
        'note': 'ClickHouse is replaced by fakech at the IChClient seam; sizes abstracted to row counts; schedule replay uses one worker per '
                'service (several workers are covered by trace validation); bounded model: 2 requests x 2 services, 2 attempts. Round 4: the acknowledgement check covers every log ingest protocol (Elasticsearch doc/bulk, Cloudflare, Datadog logs, Influx) and has a round in which the database refuses every INSERT.',
        'technique': 'TLA+ model checking (TLC) + model-based schedule replay + TLC trace validation',
        'design_ref': '5/C01',
    },
    'C02': {
        'level': 'model_checking',
        'text': 'Batcher.tla at batch grain: BatchMatchesResults, PortionMatchesResults, NoRowTwice checked exhaustively; every proto.Input '
                'reaching the fake ClickHouse client in replays and recorded runs is decoded column by column: equal row counts, every row\'s '
                'fields carry one row id, and the block equals the rows of exactly the promises swapped out with it (DoCall event in Trace_Batcher).',
        'note': 'Row identity is embedded by the drivers in every field; ragged blocks are rejected by fakech as ClickHouse would. Round 4: ColumnFill.tla (one insert service at column grain, HandleScope call/service; the service scope must be refuted) with the sub-service contention phase of cmd/c02blocks.',
        'technique': 'TLA+ model checking (TLC) + block decoding in schedule replay and TLC trace validation',
        'design_ref': '5/C02',
    },
    'C18': {
        'level': 'model_checking',
        'text': 'Migrate.tla (one action per statement of Update/updateScripts, crash/fail at every step, restart) is model-checked by TLC on abstract DDL '
                'ops GENERATED FROM THE REAL ctrl/qryn/sql/*.sql files for VerOnlyAfterComplete, Restartable (from every reachable database state a '
                'fault-free run completes in the schema of an uninterrupted run), NeverRefused, FinishedMeansAll, VerMonotone. Counterexamples are replayed '
                'against the real maintenance.Update over fakeconn; every statement x {fail, crash-before, crash-after} (+ sampled double faults) of every '
                'mode is swept against the real code with restart/schema/version/no-op checks, and all statement logs are validated as Migrate behaviours by TLC.',
        'note': 'fakeconn models ClickHouse DDL semantics (guards, RENAME, ADD COLUMN); MODIFY ORDER BY/SETTING/TTL treated as idempotent; crash granularity = one statement.',
        'technique': 'TLA+ model checking (TLC) on ops generated from the .sql files + counterexample replay + fault sweep + TLC trace validation',
        'design_ref': '5/C18',
    },
    'C19': {
        'level': 'model_checking',
        'text': 'Rotate.tla (one action per statement of storagePolicyUpdate/rotateTables, faults, re-runs, configuration changes) is model-checked by TLC for '
                'RecordAfterAlters, Converged and RerunIsNoOp using the settings keys the code really uses (read off a recorded run). The real '
                'maintenance.Rotate is swept over fakeconn (configurations x statement x window, re-runs, configuration changes) with semantic checks '
                'of every table\'s final TTL (clamps, disks, drop days) and policy, and its statement logs are validated as Rotate behaviours by TLC.',
        'note': 'fakeconn models MODIFY TTL/SETTING as attribute replacement; TTL strings compared semantically. No open finding: the revert-after-interrupted-change history TLC found with two configuration changes is repaired by decc735 (marker cleared before the first ALTER, action Invalidate); the variant without the clearing is a mutation TLC must refute.',
        'technique': 'TLA+ model checking (TLC) + fault/config sweep of the real Rotate + TLC trace validation',
        'design_ref': '5/C19',
    },
    'C03': {
        'level': 'model_checking',
        'text': 'Chunker.tla transcribes the decoder callbacks (per stream / per entry / remote-write with the 1000-point flush) and the chunk builder '
                '(parallel arrays, series announcement, 1 MiB flush, final flush) with scaled thresholds; TLC checks Faithful (chunks = submitted entries, once, '
                'in order), SeriesAnnounced, ShapeOK and NoPanic over all body shapes within bounds. Every enumerated body shape is concretised for 11 protocol '
                'variants (Loki JSON values/entries int/RFC3339/metric, Loki protobuf, Datadog logs/metrics, Influx logs/metrics, OTLP logs, remote write; random key order) '
                'and parsed by the REAL exported parsers; rows are compared field by field (exact ns, text, float bits, type, per-stream fingerprint, series label documents).',
        'note': 'thresholds scaled (3 points = 1000, 4 units = 1 MiB); benign label names here (hostile labels: C04); bodies above 1 MiB are capped per protocol in the quick tier. Round 4: label-state classes ttl/mix of Chunker.tla with row fingerprints LS(i,j), the LeakLabels family TLC must refute, reference fingerprint of the label set sent alone.',
        'technique': 'TLA+ model checking (TLC) + exhaustive replay of TLC-enumerated body shapes into the real parsers',
        'design_ref': '5/C03',
    },
    'C04': {
        'level': 'model_checking',
        'text': 'SeriesIndex.tla models the history of pushes x series/sample insert outcomes x client retries x cache resets x writer time zone with the code\'s '
                'deviations as named constants (CacheSetBeforeInsert, DateCarriesLocalZone); TLC checks AckedDiscoverable/AckedStored for 3 zones. TLC-simulated histories '
                'are replayed through the REAL Loki push route, parser, fingerprint cache, insert services (fake ClickHouse with scripted per-table outcomes), the store '
                '(real DDL + MVs on chsql) and the REAL reader route, under TZ=America/New_York, UTC, Europe/Moscow; HTTP status, stored series rows and discoverability of '
                'every acknowledged sample are compared with the model. Labels.tla validates, by TLC, the trace of (label set, permutation, protocol) -> fingerprint/document '
                'recorded from the real parsers: fingerprint is a function of the sanitised set, no collision in the universe, document decodes (encoding/json and '
                'chsql JSONExtractKeysAndValues) to the set.',
        'note': 'hash injectivity only on the enumerated universe; writer and reader share the process zone in the replay; failed INSERT = retries exhausted. No open finding: the cache deviations (set before insert, key without the sample type) are repaired by eb377cd / f754ca5 and stay in the models as mutations TLC must refute; the end-to-end composition Qryn.tla (extra check X02) re-checks AckedReadable for all four signals. Round 4: pushes with an unparsable tail (SeriesIndex.tla Tails), request shapes and Sample events with SampleIndexed in Labels.tla.',
        'technique': 'TLA+ model checking (TLC) + replay of TLC histories through writer->store->reader + TLC trace validation of recorded fingerprints',
        'design_ref': '5/C04',
    },
    'C05': {
        'level': 'model_checking',
        'text': 'IngestLifecycle.tla models the goroutines of one ingest request (handler, parser with tamePanic, doPush without recover, insert worker without recover) '
                'x fault stage x fault kind; TLC (with fairness) establishes which faults end in a response and a live process and which are hazards. TLC enumerates, from the '
                'driver\'s schema of 17 routes x fields x defect classes, every single and pairwise field defect; all singles, a seeded sample of pairs and seeded byte-level '
                'mutations are sent to the REAL writer router (production service wiring over the fake ClickHouse client) in a child process. Verdicts: answered within 5 s, '
                'child alive (a crash is an observation with its panic frame), a following valid push succeeds with a rectangular block, no goroutine spinning or left behind.',
        'note': 'field-defect classes exhaustive for singles, sampled for pairs; raw bytes sampled per seed: a crash needing a byte pattern outside every class is out of reach of this technique.',
        'technique': 'TLA+ lifecycle model checking + TLC-enumerated defect cases replayed into the real router in a child process',
        'design_ref': '5/C05',
    },
    'C20': {
        'level': 'model_checking',
        'text': 'Auth.tla models the middleware chain with constants GENERATED FROM THE CODE (order of app.Use in main.go read by go/ast, route table walked off the real router); '
                'TLC checks exhaustively NoAccessWithoutCreds, RejectedProperly (401, 400 only for malformed headers), RightPasses, UnregisteredNeverHandled, NoBypass for every '
                'route x method x Authorization class/string up to the bounds x Accept-Encoding x Origin x CORS on/off. Every TLC case is replayed against the real in-process router '
                '(real middlewares, common/writer/reader/view route tables, recording back-ends) and against the REAL BINARY in MODE=reader over HTTP with a TCP listener counting '
                'ClickHouse connections (zero accepts for unauthenticated requests); both request logs are validated by TLC (Trace_Auth.tla).',
        'note': 'in-process wiring replayed from main.go by AST; writer routes only in process (main() needs a native ClickHouse); view routes via stand-ins; a header "Basic <valid b64><junk>" '
                'is accepted because the base64 error is ignored (needs the credentials, not counted as a bypass). Round 4: third binding - the stand-alone reader (reader.Init(cfg, nil)) in a child process per configuration.',
        'technique': 'TLA+ model checking (TLC) with constants generated from the code + replay into the in-process router and the real binary + TLC trace validation',
        'design_ref': '5/C20',
    },
    'C12': {
        'level': 'model_checking',
        'text': 'ReadPipeline.tla models the goroutine pipeline of a read request (scan, map/limit/fix and HOLDING stages that re-order their messages, exporter with the switch '
                'ExportDrainsOnError, handler, over unbuffered channels) with the database failing at any row and the context cancelled at any time; TLC checks, with fairness, that '
                'every goroutine terminates and the request is answered for all pipeline shapes, and refutes the variant whose exporter does not drain. TLC enumerates (endpoint x '
                'query class x parameter x parameter class x database fault) from the driver schema (26 Loki/Prometheus/Tempo/Pyroscope endpoints incl. the POST querier routes); '
                'each case plus seeded random/mutated query strings goes to the REAL reader router over fakesql/chsql with preloaded data (streams of several getter batches, one '
                'with more series than an in-process aggregation accepts), scripted database faults (query error, row error first/mid, slow rows, a row source far larger than any '
                'limit), client aborts with a ResponseWriter that then fails with EPIPE, in child processes running in parallel: response within 6 s (a timeout must reproduce on a '
                'fresh child), child alive (crash = observation with its panic frame), goroutine census in reader code after the request.',
        'note': 'parameter classes exhaustive in thorough, seeded subset in quick; query strings beyond the classes sampled; row faults on holding pipelines are repeated (map order decides); the live tail (hijacked websocket) is driven by the extra check X01, which is part of the thorough tier.',
        'technique': 'TLA+ pipeline model checking (liveness) + TLC-enumerated parameter/fault cases replayed into the real reader router in a child process with goroutine census',
        'design_ref': '5/C12',
    },
    'C15': {
        'level': 'model_checking',
        'text': 'JsonStream.tla transcribes the 7 hand-written streaming JSON writers (streams, tail, matrix, vector, label lists, tempo tags/search, trace) as comma/bracket automata over '
                'channel batches, with the i==0 guards DERIVED FROM THE SOURCE; TLC checks well-formedness (stack automaton) and output = demanded document for all inputs <= 5 entries '
                '(thorough 6) x all batch splits incl. empty batches x all fingerprint patterns incl. fingerprint 0. Every enumerated input is replayed into the real '
                'QueryRange/QueryInstant/Tail (batches delivered through the planner plugin seam), label/series services, Tempo and Prometheus controllers; the strictly parsed body is '
                'compared with the rows (exact timestamps, ParseFloat(text)==value bitwise, hostile strings) and its token string with the spec\'s.',
        'note': 'full-stack seeded cases go through fakesql + the real getter batching; invalid UTF-8 passed through by jsoniter is counted, not judged; the websocket framing of the live tail is covered by the extra check X01. Round 4: batch-list writer (TraceQL search) over every distribution of traces over batches; attribute values of every scalar kind must parse back exactly.',
        'technique': 'TLA+/TLC exhaustive enumeration with case export + replay into the real writers + token-string conformance',
        'design_ref': '5/C15',
    },
    'C06': {
        'level': 'model_checking',
        'text': 'Spans.tla transcribes the Zipkin (array and NDJSON, per-key decoder state machine) and OTLP span decoders, onSpan and the trace read path, next to an order-free definition; TLC verifies '
                'every clause of the statement (one trace row per span with its own ids/parent/times/name/service, one tag row per flattened attribute with the same ids and times, Read(Write(s)) '
                'agrees with s) on 8 body families (<= 3 spans, <= 2 resources x <= 2 scopes, all id classes, both framings, timestamp kinds, all orders of the optional keys, all subsets of 10 attribute '
                'shapes) outside named candidate classes. Every finished behaviour is concretised and run through the REAL /v1/traces, /tempo/spans, /api/v2/spans, /tempo/api/push routes, insert services, '
                'store and /api/traces/{id} (JSON and protobuf); rows and read-back are compared with the statement (verdict) and with the transcription (conformance, 0 deviations).',
        'note': '15 findings repaired by five fix: commits (NDJSON decoder state/payload/long lines, service name vs key order, short parent id on read, OTLP list attributes); one open finding: peer.service replaces service.name on read (writer/reader priority lists, upstream semantics). Round 4: odd-digit id spellings (LowBlocks, spell, OddFields; family zspell).',
        'technique': 'TLA+ model checking (TLC) + replay of every exported case through the real writer routes, store and reader routes',
        'design_ref': '5/C06',
    },
    'C07': {
        'level': 'model_checking',
        'text': 'LogQLSem.tla defines what a LogQL log query means over a small abstract database (Eval); LogQLPlan.tla transcribes the planners (label-index bitmask, like/notLike/match, label filters with '
                'coercion, extraction, drop, window/type/order/limit). TLC enumerates the bounded grammar (<= 2 matchers over 4 ops plus the 9-matcher selector, <= 2 line filters, label-filter trees of depth '
                '<= 2, json / json with params / regexp, drop, window edges, type, limit, direction) on every small database; each case is concretised with hostile strings and decoys, stored (real writer '
                'series rows, real MVs) and queried through the REAL /loki/api/v1/query_range over chsql; the multiset of (labels, timestamp, line) and the order under a limit must equal Eval.',
        'note': 'meaning of SQL given by chsql; fragments M, L, P exhaustive, product sampled by seed; 8 finding families repaired by fix: commits; open: matchers on a label the stream lacks (label-index design), `| json != "x"` parsed as a label filter named json (grammar). Round 4: whole-value regex matching (ExtVals, exhaustive fragment A, every equivalent spelling of a value regex).',
        'technique': 'TLA+ definition vs mechanism spec, TLC case enumeration, replay through the real query_range over the reference interpreter',
        'design_ref': '5/C07',
    },
    'C08': {
        'level': 'model_checking',
        'text': 'LogQLSem!EvalMetric defines bucketing into range windows, the range functions (rate, count/bytes over time, sum|avg|min|max|first|last_over_time and rate over unwrap), vector aggregation with '
                'by/without in prefix and suffix position, comparison, topk/bottomk, step <,=,> range and the metrics_15s shortcut; LogQLPlan transcribes the SQL planners and the Go post-processors '
                '(StepFix, FixPeriod, ZeroEater). TLC-enumerated cases are replayed through the REAL query_range with step; every observed (series, time, value) must be allowed by the definition and every '
                'mandatory point present.',
        'note': 'dyadic values for exact floats; quantile/stddev/stdvar/absent_over_time excluded; 13 finding families repaired by fix: commits; open: absent-label matchers (shared with C07), step>range instants (StepFix/FixPeriod interplay), zero-valued points dropped (0 used as no-value). Round 4: results longer than one 100-row getter slice (fragment B, MultiSlice) on all three planning paths.',
        'technique': 'TLA+ definition vs mechanism spec, TLC case enumeration, replay through the real query_range over the reference interpreter',
        'design_ref': '5/C08',
    },
    'C09': {
        'level': 'model_checking',
        'text': 'InProc.tla defines each in-process stage on whole entry sequences (IP_Eval) and the channel mechanism message by message (IP_Run with named as-coded switches); TLC proves for 55 pipelines, every '
                'entry sequence and every partition into channel messages (empty messages, end marker) and limit in {0,1,n} that the design equals the definition, is independent of batching, keeps distinct '
                'label sets distinct and means what the SQL side means by limit. TLC-evaluated cases are replayed into the REAL planned chain (Parse -> Plan -> internal_planner with a scripted upstream) under 3 '
                'partitions each, and 480 SQL-only vs breakpoint request pairs run end to end through query_range.',
        'note': 'the code equals its literal transcription on every case; 15 findings repaired by fix: commits (kept in InProc.tla as retired regression classes); plus the two in-process twins of SQL-side repairs (57933ef, 37a4dd9); message grain and ownership (InProcMem.tla) are part of the model; one open finding: SQL-side label_format is ignored when no breakpoint stage precedes it (lfmt_ren, design decision).',
        'technique': 'TLA+ definition plus mechanism with as-coded switches, exhaustive TLC, replay of TLC-computed expected results into the real chain, e2e cross-engine comparison',
        'design_ref': '5/C09',
    },
    'C10': {
        'level': 'model_checking',
        'text': 'Escape.tla transcribes StringVal.String (8 ordered replacements), doLike and the ClickHouse string-literal and LIKE decoders; TLC proves for every string over 19 character classes up to length 4 '
                '(thorough 5) that the rendered text is exactly one literal decoding to the string. The spec transducers equal the real code on every exported string, and every string of length <= 3 (plus a '
                'seeded sample) is placed in 167 string positions of the REAL LogQL, Loki, PromQL, TraceQL, Tempo and Pyroscope routes: the SQL handed to the session has the token structure of a harmless '
                'string and carries the string only in literals decoding to it.',
        'note': 'oracle: chsql lexer and LIKE rules; the doLike escaping defect (10 signatures) is repaired by fix 5714936: TLC now proves LikeValue on Escape.tla; the alphabet has 20 classes incl. the backtick (raw-string quote of the query languages), which found f8502d3; no open finding. Round 4: regex matcher positions accept every admissible rendering by pattern class (RegexPlain, MatcherValues, MatcherStructure) and judge only that the value stays inside one literal.',
        'technique': 'TLA+/TLC exhaustive check of the escaping transducers + conformance with the code + replay into the real routes with token-level comparison',
        'design_ref': '5/C10',
    },
    'C11': {
        'level': 'model_checking',
        'text': 'TraceQLSem.tla defines what a TraceQL query describes (Eval) and, planner by planner, the plan clickhouse_transpiler builds (PlanEval with named deviation rules for the code as written); TLC checks '
                'on 58k (thorough 1.09M) query x database cases that the plan as designed conforms to the definition. The cases are concretised (hostile strings, numbers, times), stored directly or through the '
                'real Zipkin/OTLP routes and queried through the REAL /api/search and /api/v2/search/tags|tag/x/values; every generated statement must run on chsql and the answer must be one Eval accepts.',
        'note': 'all 8 first-pass findings (+1 uncovered behind them) repaired by fix: commits; the evaluator (portioned execution of expensive requests) is part of the spec and the binding; one open finding: a portion that answers `limit` traces moves the window start of the next portion to the oldest kept trace (unsound optimisation, upstream decision). Round 4: sub-second phase ph of span timestamps, NextFrom models the portion loop as written.',
        'technique': 'TLA+ model checking (TLC exhaustive layers + TLC-evaluated seeded sample) + replay through the real reader and writer routes over the reference interpreter',
        'design_ref': '5/C11',
    },
    'C13': {
        'level': 'model_checking',
        'text': 'Every base-table read of every read endpoint is reduced to a scan descriptor EXTRACTED FROM THE SQL the real routes execute (several windows, 3 process zones, both cluster modes); Window.tla lets TLC '
                'check each descriptor over all windows, row timestamps, row types and reader/writer zones within 3 days at 15 min resolution for Leak (admitted outside the window / other signal) and Miss '
                '(in-window row rejected by a date or type bound, given the writer\'s date rule). Every candidate witness is replayed on the REAL endpoint with boundary rows, comparing rows offered/admitted per '
                'scan (chsql) and the HTTP response.',
        'note': 'all 17 signatures repaired by six fix: commits (UTC day bounds, upper bounds without the lower-bound margin, Tempo tag index written under the UTC day, exact LogQL log window); the driver observes the writer date rule; sub-second windows on every family (TsMiss), which found and repaired 8eaaa87 (numeric time= cut to seconds); the tail is driven by the extra check X01. Round 4: the step filter of sparse range queries is part of the descriptor (ph; PhaseOK / PhaseMiss / InRangeWindow).',
        'technique': 'TLA+/TLC with constants generated from the executed SQL + counterexample replay + scan-level observation',
        'design_ref': '5/C13',
    },
    'C14': {
        'level': 'model_checking',
        'text': 'Replan.tla models planner objects with mutable fields (Mutates GENERATED from a reflective field probe of the real planner objects); TLC checks over all interleavings of 2 plan objects x 3 executions '
                'x 36 query classes that re-execution and fresh translation mean the same. 108 TLC cases and a 700-query LogQL/TraceQL/profile corpus are replayed into the real planners: one plan executed 3x with '
                'advancing bounds vs a fresh plan, compared by text, chsql tokens, then meaning on a writer-filled store; determinism within and across processes; portions of complex TraceQL requests; the real Tail for 3 ticks; the calls are validated as a Replan behaviour by TLC.',
        'note': 'all 4 findings repaired by three fix: commits (LineFilterPlanner.Val, ByWithoutPlanner.LabelsCache, AttrConditionPlanner.AggregatedAttr); no open finding. Round 4: ReplanHist.tla (request neighbour pairs, memo designs, lemmas Adequate / SoundSilent), every translation compared with the same request translated first-thing in a process of its own; stream-label filter + parser-stage query class (found the defect repaired by 2266ee6).',
        'technique': 'TLA+/TLC model checking + TLC case generation + trace validation + differential re-execution with a reflective field probe',
        'design_ref': '5/C14',
    },
    'C16': {
        'level': 'model_checking',
        'text': 'ProfTree.tla (writer per-stack walk and node identity, reader MergeTrie and BFS as operators, order-free definitions of tree, merge and layout) is checked exhaustively by TLC over all small profiles '
                '(2-3 functions, depth <= 3-4 incl. recursion, shared frames and empty stacks, <= 3-4 samples, 1-2 sample types, <= 3 profiles): mechanism = definition, conservation per node and type, root sums, '
                'merge commutative/associative and equal to the build of the bag union, layout nests. Every TLC state is concretised to a real pprof, pushed through the REAL multipart and binary parsers and the '
                'REAL reader MergeTrie/BFS in all profile orders and row orders and compared; a seeded sample of reader outputs is validated by TLC.',
        'note': 'node identity = hash(parent, function) with the level clamp as a spec constant (KeyInjective), stacks on both sides of the clamp, stretching to real depths proved to commute on the small cases; open finding: a sample with an empty stack is counted in values_agg but contributes to no root total (format decision). Round 4: pprof payload merge (PMergeMech / PMergeDef, PayloadMergeEqDef / Sum / Tree) through the real ProfileMergeV2 in every order, locations without / with sparse / with several mappings.',
        'technique': 'TLA+ model checking (TLC) + exhaustive model-based case replay + TLC validation of recorded observations',
        'design_ref': '5/C16',
    },
    'C17': {
        'level': 'model_checking',
        'text': 'PromCursor.tla runs the transcription of seriesIt (binary search as written) in lock step with the chunkenc.Iterator contract for all arrays <= 4 over 1..6 x all call sequences; Selector.tla checks the '
                'label-index bitmask query against matcher semantics for all DBs <= 3 series x matcher sets <= 3. TLC exports the contract table and every case; the driver replays all call sequences on the REAL '
                'iterator and all cases through the REAL CLokiQuerier.Select, the Prometheus series/label-values routes and the Pyroscope routes over chsql, and compares the vendored Prometheus engine over the '
                'real qryn Queryable with the same engine over a real Prometheus TSDB.',
        'note': '23 signatures repaired by nine fix: commits (Seek contract, anchored regex matchers, UInt64 matcher bits, duplicate label sets, inclusive range start, window placement, subquery instant selector, timestamp()); 10 open: matchers on an absent label (label-index design, 8), step-bucketed/subquery pre-aggregation needs the evaluation grid the hints do not carry (2). Round 4: SelectDays.tla (day and process-zone dimension of Select); the downsample path C17 excludes is the extra check X08.',
        'technique': 'TLA+ model checking (TLC) + exhaustive replay through the real cursor/selectors + differential PromQL against a Prometheus TSDB',
        'design_ref': '5/C17',
    },
}

NOT_YET = 'check not built yet in this round (planned, see DESIGN.md section 5); not claimed until its machinery runs'


def main():
    props = [json.loads(l) for l in open(os.path.join(V, 'properties.jsonl'))]
    try:
        commits = subprocess.run(['git', '-C', '/repo', 'log', '--format=%H %s'], capture_output=True, text=True).stdout.splitlines()
        hooks = [c.split()[0] for c in commits if c.split(' ', 1)[1].startswith('verif:')]
    except Exception:
        hooks = []
    checks = []
    na = []
    na_reasons = {}
    p = os.path.join(V, 'tools', 'not_applicable.json')
    if os.path.exists(p):
        na_reasons = json.load(open(p))
    for pr in props:
        pid = pr['id']
        if pid in CLAIMS:
            c = CLAIMS[pid]
            checks.append({
                'property_id': pid,
                'quick_cmd': 'python3 /verif/tools/check.py %s quick' % pid,
                'thorough_cmd': 'python3 /verif/tools/check.py %s thorough' % pid,
                'evidence_file': '/verif/evidence/%s.json' % pid,
                'replay_cmd_template': 'python3 /verif/tools/replay.py {path}',
                'engine': 'tlc',
                'level_claimed': {'category': c['level'], 'text': c['text'], 'design_ref': c['design_ref']},
                'level_note': c['note'],
                'technique': c['technique'],
            })
        else:
            na.append({'property_id': pid, 'reason': na_reasons.get(pid, NOT_YET)})
    man = {
        'version': 1,
        'setup_cmd': 'sh /verif/tools/setup.sh',
        'hooks': {
            'guard': 'verif',
            'enable': 'go build -tags verif (tools/check.py builds the harness commands with -tags verif against /repo\'s working tree on every run)',
            'baseline_off_cmd': 'sh /verif/tools/baseline_off.sh',
            'source_commits': hooks,
            'add_only': True,
        },
        'engines': [{'name': 'tlc', 'path': '/verif/spec', 'serves_properties': sorted(CLAIMS.keys()),
                     'kind_free_text': 'explicit TLA+ specifications checked by TLC (exhaustive, simulation, liveness), bound to the Go code by '
                                       'model-based replay of TLC behaviours and by TLC validation of traces recorded from the real code'},
                    {'name': 'tlc-extra-X01', 'path': '/verif/spec/query/Tail.tla', 'serves_properties': ['C12', 'C14', 'C15'],
                     'kind_free_text': 'extra check beyond the list: live tail over a real websocket (python3 tools/check.py X01 quick|thorough); part of the thorough tier of C12'},
                    {'name': 'tlc-extra-X02', 'path': '/verif/spec/Qryn.tla', 'serves_properties': ['C01', 'C04', 'C06', 'C16', 'C17'],
                     'kind_free_text': 'extra check beyond the list: end-to-end composition, acknowledged data is readable through every endpoint of its signal (python3 tools/check.py X02 quick|thorough); part of the thorough tier of C04'},
                    {'name': 'tlc-extra-X07', 'path': '/verif/spec/query/TempoSearch.tla', 'serves_properties': ['C06', 'C11', 'C13', 'C15'],
                     'kind_free_text': 'extra check beyond the list: content of the Tempo v1 read API - /api/search tags/minDuration/maxDuration/limit, tags, tag values, which spans /api/traces/{id} returns (python3 tools/check.py X07 quick|thorough); part of the thorough tier of C11'},
                    {'name': 'tlc-extra-X06', 'path': '/verif/spec/query/LabelIndex.tla', 'serves_properties': ['C13', 'C15', 'C17'],
                     'kind_free_text': 'extra check beyond the list: content of the Loki / Prometheus label, label-values and series endpoints (python3 tools/check.py X06 quick|thorough); part of the thorough tier of C17'},
                    {'name': 'tlc-extra-X05', 'path': '/verif/spec/query/ProfSeries.tla', 'serves_properties': ['C13', 'C16', 'C17'],
                     'kind_free_text': 'extra check beyond the list: Pyroscope SelectSeries / SelectMergeProfile / ProfileTypes / label endpoints / stats (python3 tools/check.py X05 quick|thorough); part of the thorough tier of C16'},
                    {'name': 'tlc-extra-X04', 'path': '/verif/spec/ingest/BulkIngest.tla', 'serves_properties': ['C03', 'C04', 'C05'],
                     'kind_free_text': 'extra check beyond the list: Elasticsearch bulk/doc, Cloudflare and Datadog-metrics ingest (python3 tools/check.py X04 quick|thorough); part of the thorough tier of C03'},
                    {'name': 'tlc-extra-X08', 'path': '/verif/spec/query/PromDown.tla', 'serves_properties': ['C13', 'C17'],
                     'kind_free_text': 'extra check beyond the list: PromQL range queries served from the 15 s downsample table metrics_15s (step and range multiples of 15 s: the path C17 excludes) - definition over the raw samples vs the transcribed mechanism (MV bucket rows, DownsampleHintsPlanner re-timing, count expansion, engine windows) with named quirks, every case replayed through the real /api/v1/query_range (python3 tools/check.py X08 quick|thorough)'},
                    {'name': 'tlc-extra-X03', 'path': '/verif/spec/ingest/WriterLifecycle.tla', 'serves_properties': ['C01', 'C02'],
                     'kind_free_text': 'extra check beyond the list: worker selection, sync/async pools, registry routing, Init/Run/Stop, watchdog (python3 tools/check.py X03 quick|thorough)'}],
        'checks': checks,
        'not_applicable': na,
        'notes': 'exit 0 ok / exit 1 VIOLATION (only from behaviour of the real code) / exit 2 infrastructure. See DESIGN.md.',
    }
    json.dump(man, open(os.path.join(V, 'MANIFEST.json'), 'w'), indent=1)
    print('claimed:', sorted(CLAIMS.keys()), 'not_applicable:', len(na))


if __name__ == '__main__':
    main()

#!/bin/sh
# Generate /verif/harness/go.mod + go.sum from /repo/go.mod (replace directives are not inherited).
set -e
H=${VERIF_HOME:-/verif}/harness
R=${VERIF_REPO:-/repo}
{
  echo "module verif/harness"
  echo
  sed -n '/^go /p;/^toolchain /p' $R/go.mod
  echo
  # all replace(...) and require(...) blocks and single-line forms
  awk '/^(replace|require) *\(/{p=1} p{print} /^\)/{p=0} /^(replace|require) [^(]/{print}' $R/go.mod
  echo
  echo "require github.com/metrico/qryn v0.0.0"
  echo "replace github.com/metrico/qryn => $R"
} > $H/go.mod.new.$$
if ! cmp -s $H/go.mod.new.$$ $H/go.mod; then mv $H/go.mod.new.$$ $H/go.mod; else rm $H/go.mod.new.$$; fi
cmp -s $R/go.sum $H/go.sum || { cp $R/go.sum $H/go.sum.$$ && mv $H/go.sum.$$ $H/go.sum; }

#!/usr/bin/env python3
"""check.py <property id> <quick|thorough>  — the command registered in MANIFEST.json.

exit 0: the property held on everything explored (known findings are printed as KNOWN-FINDING lines)
exit 1: `VIOLATION property=<id> replay=<path>` — behaviour of the real code contradicts the property
exit 2: infrastructure problem (TLC error/timeout, build failure, dead driver, vacuous coverage) — never a violation
"""
import importlib
import json
import os
import sys
import time
import traceback

sys.path.insert(0, os.path.dirname(__file__))
import vlib  # noqa: E402


def main():
    if len(sys.argv) < 3:
        print(__doc__)
        sys.exit(2)
    pid, tier = sys.argv[1], sys.argv[2]
    if os.environ.get('VERIF_TIER') in ('quick', 'thorough') and len(sys.argv) < 4:
        pass
    t0 = time.time()
    try:
        mod = importlib.import_module('props.' + pid.lower())
    except ImportError as e:
        print('no check for', pid, e)
        sys.exit(2)
    try:
        result = mod.run(tier)
    except vlib.Infra as e:
        print('INFRA property=%s: %s' % (pid, e))
        sys.exit(2)
    except Exception:
        traceback.print_exc()
        print('INFRA property=%s: unexpected exception in the checker' % pid)
        sys.exit(2)
    wall = time.time() - t0
    known = [k for k in vlib.load_known() if k.get('property') == pid and k.get('status') == 'open']
    new = []
    seen_known = {}
    for v in result['violations']:
        hit = None
        for k in known:
            if v['signature'] == k['signature'] or v['signature'].startswith(k['signature'] + '|'):
                hit = k
                break
        if hit:
            seen_known.setdefault(hit['signature'], (hit, v))
        else:
            new.append(v)
    for sig, (k, v) in seen_known.items():
        print('KNOWN-FINDING: property=%s %s [%s]' % (pid, k.get('what', ''), sig))
    # a listed finding that no longer reproduces is reported (not an error)
    for k in known:
        if k['signature'] not in seen_known and k.get('tiers', ['quick', 'thorough']).count(tier):
            print('NOTE: known finding not reproduced in this run: property=%s [%s]' % (pid, k['signature']))
    cov = result['coverage']
    cov['known_findings_seen'] = sorted(seen_known.keys())
    vlib.write_evidence(pid, tier, result['level'], cov, wall, len(new), result.get('assumptions'))
    if new:
        shown = set()
        for v in new:
            if v['signature'] in shown:
                continue
            shown.add(v['signature'])
            print('VIOLATION property=%s replay=%s' % (pid, v.get('replay', '')))
            print('  signature: %s' % v['signature'])
            print('  %s' % v.get('msg', ''))
        sys.exit(1)
    print('OK property=%s tier=%s wall=%.1fs %s' % (pid, tier, wall, json.dumps({k: cov[k] for k in cov if k in (
        'states', 'transitions', 'traces_validated_against_impl', 'evaluations', 'distinct_nontrivial', 'exhaustive')})))
    sys.exit(0)


if __name__ == '__main__':
    main()

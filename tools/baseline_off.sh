#!/bin/sh
T=$(mktemp /tmp/verif_baseline_off.XXXXXX)
export T
# Runs the repository's pinned test suite with the `verif` guard OFF and compares with BASELINE.json.
export GOFLAGS=-mod=mod GOPROXY=off
cd ${VERIF_REPO:-/repo} && go test -mod=mod -json -vet=off -count=1 -timeout 25m ./... > $T 2>$T.err
python3 - <<'PY'
import json,sys
passed=set()
for l in open(__import__('os').environ['T']):
    try: e=json.loads(l)
    except Exception: continue
    if e.get('Action')=='pass' and e.get('Test'):
        passed.add(e['Package']+'::'+e['Test'])
base=set(json.load(open('/root/.vp/BASELINE.json'))['stable_pass'])
missing=sorted(base-passed)
print('baseline tests: %d, passed now: %d, missing: %d'%(len(base),len(base&passed),len(missing)))
for m in missing: print('MISSING',m)
sys.exit(1 if missing else 0)
PY
rc=$?
rm -f $T $T.err
exit $rc

#!/usr/bin/env python3
"""seeded_table.py: markdown table of the seeded changes kept under /verif/seeded (what each breaks, which check reported it)."""
import json
import os
import re

root = os.path.join(os.environ.get('VERIF_HOME', '/verif'), 'seeded')
rows = []
for d in sorted(os.listdir(root)):
    mp = os.path.join(root, d, 'meta.json')
    if not os.path.exists(mp):
        continue
    m = json.load(open(mp))
    conf = m.get('confirmation', {})
    files = ', '.join(os.path.basename(f) for f in (m.get('files_touched') or [])[:2])
    what = re.sub(r'\s+', ' ', str(m.get('what_it_breaks', '')))[:170]
    det = []
    for c, r in (conf.get('checks') or {}).items():
        if r.get('rc') == 1:
            det.append('%s: `%s`' % (c, '`, `'.join(s[:70] for s in r.get('signatures', [])[:2])))
        else:
            det.append('%s: not reported (rc %s)' % (c, r.get('rc')))
    rows.append('| %s | %s | %s | %s |' % (d, files, what.replace('|', '\\|'), '; '.join(det).replace('|', '\\|')))
print('| seeded change | file | what it breaks | reported by (first signatures) |\n|---|---|---|---|')
print('\n'.join(rows))

#!/usr/bin/env python3
"""integrate_fix.py <dir with repo_patches/, verif_files/> <property ids...>
Applies a fixer's product commits to /repo (git am), copies its machinery files into /verif, and merges its known_findings.json:
open findings of the given properties that the fixer removed are removed, its new `fixed:` strings are appended with the commit
hashes rewritten to the hashes the commits got in /repo (matched by subject)."""
import json
import os
import re
import shutil
import subprocess
import sys

src = sys.argv[1].rstrip('/')
props = set(sys.argv[2:])


def sh(cmd, **kw):
    r = subprocess.run(cmd, shell=True, capture_output=True, text=True, **kw)
    return r.returncode, r.stdout + r.stderr


patches = sorted(os.listdir(os.path.join(src, 'repo_patches')))
subj_old = {}
for p in patches:
    txt = open(os.path.join(src, 'repo_patches', p)).read()
    m = re.search(r'^From ([0-9a-f]{40})', txt, flags=re.M)
    s = re.search(r'^Subject: \[PATCH[^\]]*\] (.*(?:\n .*)*)', txt, flags=re.M)
    subj = re.sub(r'\n ', ' ', s.group(1)).strip()
    subj_old[m.group(1)[:7]] = subj
head0 = sh('git -C /repo rev-parse HEAD')[1].strip()
rc, out = sh('git -C /repo am --3way ' + ' '.join(os.path.join(src, 'repo_patches', p) for p in patches))
print(out[-1500:])
if rc != 0:
    print('git am failed; aborting am')
    sh('git -C /repo am --abort')
    sys.exit(1)
log = sh('git -C /repo log --format=%%h%%x09%%s %s..HEAD' % head0)[1].strip().splitlines()
new_by_subj = {l.split('\t', 1)[1].strip(): l.split('\t', 1)[0] for l in log}
print('applied %d commits' % len(log))
# machinery files
vf = os.path.join(src, 'verif_files')
copied = []
for root, _, files in os.walk(vf):
    for f in files:
        rel = os.path.relpath(os.path.join(root, f), vf)
        if rel == 'known_findings.json' or '__pycache__' in rel:
            continue
        dst = os.path.join('/verif', rel)
        os.makedirs(os.path.dirname(dst), exist_ok=True)
        shutil.copy(os.path.join(root, f), dst)
        copied.append(rel)
print('copied', copied)
# known findings
cur = json.load(open('/verif/known_findings.json'))
theirs = json.load(open(os.path.join(vf, 'known_findings.json')))
keep_t = {(f['property'], f['signature']) for f in theirs['findings']}
removed = [f for f in cur['findings'] if f['property'] in props and (f['property'], f['signature']) not in keep_t]
cur['findings'] = [f for f in cur['findings'] if f not in removed]
have_f = {(f['property'], f['signature']) for f in cur['findings']}
newf = [f for f in theirs['findings'] if f['property'] in props and (f['property'], f['signature']) not in have_f]
cur['findings'] += newf
print('new/re-keyed open findings:', [f['signature'] for f in newf])
have = set(cur['fixed'])
added = []
for s in theirs['fixed']:
    if s in have:
        continue
    m = re.match(r'(fixed: property=\S+ )([0-9a-f]{7,12})( .*)', s)
    if m and m.group(2)[:7] in subj_old:
        subj = subj_old[m.group(2)[:7]]
        nh = new_by_subj.get(subj)
        if nh is None:  # subject wrapped differently: match by prefix
            nh = next((h for sj, h in new_by_subj.items() if sj[:60] == subj[:60]), None)
        if nh:
            s = m.group(1) + nh + m.group(3)
    cur['fixed'].append(s)
    added.append(s[:110])
json.dump(cur, open('/verif/known_findings.json', 'w'), indent=1)
print('removed %d open findings:' % len(removed), [f['signature'] for f in removed])
print('added %d fixed entries' % len(added))
for a in added:
    print('  ', a)

"""C14: query translation is deterministic and a prepared plan can be re-executed.

Replan.tla transcribes the planners that keep state (one operator per planner, over abstract data); its Mutates
constant is GENERATED from the code by a field probe of the real planner objects. TLC (1) model-checks the interleaved
executions of two (thorough: three) plan objects over all query classes (independence of plan objects, set-once fields,
lemmas: a stale fingerprint cache is harmless while From advances, the first execution is the definition, a divergence
needs a written field) and (2) enumerates every case (query class x execution number) with the EXPECTED outcome.
The Go driver (harness/cmd/c14) replays the cases and a broad corpus (LogQL chains as Tail runs them, the REAL
QueryRangeService.Tail for 3 ticks, TraceQL processors incl. the portions of complex requests, profile planners) into
the real planners: one plan object executed 3 times with advancing bounds against a fresh plan per execution, compared
by (0) text, (i) chsql token stream, (ii) MEANING on a store filled through the real writer; determinism of repeated
translation; two plans interleaved. The calls on the real objects (fields written, same meaning or not) are validated
by TLC as a behaviour of Replan (Trace_Replan.tla). A verdict only comes from a difference in meaning shown by the
real code."""
import json
import os
import re
import shutil
import subprocess
import zlib

import vlib

SPECDIR = os.path.join(vlib.SPEC, 'query')

CFG = '''SPECIFICATION %(spec)s
CONSTANTS
  Mutates = %(mutates)s
  PlanIds = %(planids)s
  MaxExec = %(maxexec)d
  CrossDay = %(crossday)s
%(rest)s
CHECK_DEADLOCK FALSE
'''

EXPECTED_PLAN_ERRORS = ('are not supported', 'not planned by the ClickHouse planner alone', 'not a stream selector', 'is not supported')


def cfg_text(spec, mutates, planids, maxexec, crossday, rest):
    return CFG % {'spec': spec, 'mutates': '{' + ', '.join('"%s"' % m for m in mutates) + '}',
                  'planids': '{' + ', '.join(str(i) for i in planids) + '}', 'maxexec': maxexec,
                  'crossday': 'TRUE' if crossday else 'FALSE', 'rest': rest}


def tlc_run(sd, module, cfgname, text, timeout, workers=None, coverage=False):
    p = os.path.join(sd, cfgname)
    open(p, 'w').write(text)
    return vlib.tlc(SPECDIR, module, cfgname, timeout=timeout, copy_extra=[p], workers=workers, coverage=coverage)


def parse_cases(out):
    cases = []
    for ln in out.splitlines():
        m = re.match(r'^<<"CASE", "(.*)">>\s*$', ln)
        if m:
            s = m.group(1).replace('\\"', '"').replace('\\\\', '\\')
            cases.append(json.loads(s))
    return cases


def parse_hist(out):
    pairs = []
    for ln in out.splitlines():
        m = re.match(r'^<<"HIST", "(.*)">>\s*$', ln)
        if m:
            pairs.append(json.loads(m.group(1).replace('\\"', '"').replace('\\\\', '\\')))
    return pairs


def qkey(q):
    return '%s %s %s %s' % (q['kind'], q['op'], q['text'], q['attr'])


def run(tier):
    binp = vlib.go_build('cmd/c14', 'c14')
    sd = vlib.scratch('c14')
    env = dict(os.environ)
    env['TZ'] = 'UTC'
    viols = []
    import time
    t0 = time.time()
    phases = {}

    def lap(name):
        nonlocal t0
        phases[name] = round(time.time() - t0, 1)
        t0 = time.time()
    try:
        lap('build')
        # 0. (in the background) ReplanHist.tla: the neighbour pairs of requests, with the proof that they expose every
        # unsound process-level memo design
        import concurrent.futures
        pool = concurrent.futures.ThreadPoolExecutor(max_workers=1)
        hist_future = pool.submit(tlc_run, sd, 'MC_ReplanHist.tla', 'MC_ReplanHist_gen.cfg',
                                  cfg_text('HSpec', [], [1], 3, True, 'INVARIANTS HExport'), 600, 1)
        # 1. field probe: which of the modelled fields does the real Process write
        pp = os.path.join(sd, 'probe.json')
        r = vlib.run_cmd([binp, 'probe', '-out', pp], timeout=300, env=env)
        if r.returncode != 0 or not os.path.exists(pp):
            raise vlib.Infra('c14 probe failed: ' + (r.stdout + r.stderr)[-2000:])
        probe = json.load(open(pp))
        mutates = probe.get('mutates') or []
        if probe.get('plan_errors'):
            raise vlib.Infra('c14 probe: planning failed for %s' % json.dumps(probe['plan_errors'])[:1500])

        lap('probe')
        # 2. model checking: interleaved executions of the plan objects
        mcs = []
        states = transitions = 0
        configs = [({1, 2}, 3, True)] if tier == 'quick' else [({1, 2}, 4, True), ({1, 2}, 3, False), ({1, 2, 3}, 2, True)]
        for planids, maxexec, crossday in configs:
            res = tlc_run(sd, 'MC_Replan.tla', 'MC_Replan_gen.cfg',
                          cfg_text('Spec', mutates, sorted(planids), maxexec, crossday, 'INVARIANTS TypeOK Independent SetOnceOnce OnlyMutates'),
                          timeout=800, coverage=(len(planids) == 2 and maxexec == 3))
            try:
                if res['violated']:
                    raise vlib.Infra('Replan.tla: invariant %s violated on the specification alone (its transcription is inconsistent):\n%s'
                                     % (res['violated'], res['out'][-2500:]))
                if not res.get('finished'):
                    raise vlib.Infra('TLC did not finish MC_Replan: ' + res['out'][-1500:])
                if len(planids) == 2 and maxexec == 3:
                    zeros = [a for a in vlib.coverage_zero_actions(res['out']) if a in ('New', 'Proc', 'Drop', 'Init')]
                    if zeros or 'Proc' not in res['out']:
                        raise vlib.Infra('Replan.tla: actions never taken: %s' % zeros)
                mcs.append({'plans': len(planids), 'max_exec': maxexec, 'cross_day': crossday, 'states': res.get('distinct', 0),
                            'transitions': res.get('generated', 0), 'wall_s': round(res['wall'], 1)})
                states += res.get('distinct', 0)
                transitions += res.get('generated', 0)
            finally:
                vlib.tlc_cleanup(res)

        lap('model_check')
        # 3. the cases with their expected outcome
        res = tlc_run(sd, 'MC_ReplanCases.tla', 'MC_ReplanCases_gen.cfg',
                      cfg_text('CSpec', mutates, [1], 3, True, 'INVARIANTS Export'), timeout=300, workers=1)
        try:
            cases = parse_cases(res['out'])
            if res['violated'] or not cases:
                raise vlib.Infra('TLC case export failed:\n' + res['out'][-2000:])
            states += res.get('distinct', 0)
            transitions += res.get('generated', 0)
        finally:
            vlib.tlc_cleanup(res)
        cp = os.path.join(sd, 'cases.json')
        json.dump(cases, open(cp, 'w'))
        expected = {(qkey(c['q']), c['k']): c for c in cases}
        candidates = sorted({qkey(c['q']) for c in cases if c['diverges']})

        hres = hist_future.result()
        try:
            pairs_h = parse_hist(hres['out'])
            if hres['violated'] or not hres.get('finished') or len(pairs_h) < 100:
                raise vlib.Infra('ReplanHist.tla: export of the neighbour pairs failed (or Adequate / SoundSilent do not hold):\n' + hres['out'][-2000:])
            states += hres.get('distinct', 0)
            transitions += hres.get('generated', 0)
        finally:
            vlib.tlc_cleanup(hres)
        hp = os.path.join(sd, 'hist.json')
        ip = os.path.join(sd, 'iso.json')
        json.dump(pairs_h, open(hp, 'w'))
        r = vlib.run_cmd([binp, 'isolate-all', '-seed', str(vlib.seed()), '-hist', hp, '-out', ip], timeout=600, env=env)
        if r.returncode != 0 or not os.path.exists(ip):
            raise vlib.Infra('c14 isolate-all failed: ' + (r.stdout + r.stderr)[-2000:])
        lap('case_export')
        # 4. the driver, sharded over child processes (one world per process)
        shards = 4 if tier == 'quick' else 6

        # thorough: the corpus once more with a cluster configuration (IsCluster: WITH clauses inlined, _dist tables); the
        # cases of Replan.tla describe the single-node rendering and are replayed there only
        cshards = 0 if tier == 'quick' else 3

        def drive(extra_env):
            e = dict(env)
            e.update(extra_env)
            procs = []
            for i in range(shards + cshards):
                op = os.path.join(sd, 'result_%d.json' % i)
                tp = os.path.join(sd, 'trace_%d.ndjson' % i)
                for f in (op, tp):
                    if os.path.exists(f):
                        os.remove(f)
                if i < shards:
                    cmd = [binp, 'run', '-seed', str(vlib.seed()), '-tier', tier, '-out', op, '-cases', cp, '-trace', tp,
                           '-shard', str(i), '-shards', str(shards), '-hist', hp, '-iso', ip]
                else:
                    cmd = [binp, 'run', '-seed', str(vlib.seed()), '-tier', tier, '-out', op, '-cluster', 'c1',
                           '-shard', str(i - shards), '-shards', str(cshards)]
                # stderr to a file: the planners print statements there, and a pipe that is only drained when the earlier shards
                # have ended would serialise the shards
                ef = open(os.path.join(sd, 'stderr_%d.txt' % i), 'w')
                procs.append((i, op, tp, subprocess.Popen(cmd, env=e, stdout=subprocess.DEVNULL, stderr=ef, text=True)))
                ef.close()
            results, failure = [], None
            for i, op, tp, p in procs:
                try:
                    p.wait(timeout=780 if tier == 'thorough' else 240)
                    err = open(os.path.join(sd, 'stderr_%d.txt' % i), errors='replace').read()[-20000:]
                except subprocess.TimeoutExpired:
                    for _, _, _, q in procs:
                        q.kill()
                    raise vlib.Infra('c14 driver shard %d timed out' % i)
                if p.returncode != 0 or not os.path.exists(op):
                    failure = failure or (i, p.returncode, err or '')
                    continue
                results.append(json.load(open(op)))
            return procs, results, failure

        procs, results, failure = drive({})
        crash_note = None
        if failure and 'panic:' in failure[2] and 'goroutine' in failure[2]:
            # the real code panicked in a goroutine of its own (an in-process stage fed by a re-executed plan): repeat in
            # statement-only mode, where nothing is fed to the in-process stages; the statements are still compared by meaning
            m = re.search(r'panic: [^\n]*', failure[2])
            crash_note = 'shard %d: %s' % (failure[0], m.group(0) if m else 'panic')
            procs, results, failure = drive({'C14_ALLDRY': '1'})
        if failure:
            raise vlib.Infra('c14 driver shard %d failed (rc %s): %s' % (failure[0], failure[1], failure[2][-2000:]))

        lap('driver')
        # 4b. the canary queries, translated first-thing in every process in a different order, across the processes
        groups = {}
        for idx, d in enumerate(results):
            groups.setdefault('cluster' if idx >= shards else 'single', []).append((idx, d.get('canary') or {}))
        pairs = []
        ncanary = 0
        for g, members in groups.items():
            if len(members) < 2:
                continue
            ref_idx, ref = members[0]
            for idx, can in members[1:]:
                for qid, sqls in can.items():
                    if qid in ref:
                        ncanary += 1
                        if ref[qid] != sqls and g == 'single':
                            pairs.append({'id': qid, 'shard_a': idx, 'shard_b': ref_idx, 'a': sqls, 'b': ref[qid]})
        xres = None
        if pairs:
            xp = os.path.join(sd, 'xpairs.json')
            xo = os.path.join(sd, 'xresult.json')
            json.dump(pairs, open(xp, 'w'))
            r = vlib.run_cmd([binp, 'xcompare', '-cases', xp, '-out', xo], timeout=600, env=env)
            if r.returncode != 0 or not os.path.exists(xo):
                raise vlib.Infra('c14 xcompare failed: ' + (r.stdout + r.stderr)[-2000:])
            xres = json.load(open(xo))
            results.append(xres)
        lap('cross_process')
        # 5. merge
        stats, classes, fields = {}, {}, {}
        findings, benign, undecided, couts, unreach, plan_errors, unsup, samples = [], [], [], [], [], {}, [], []
        tail = {'queries': 0, 'ticks_compared': 0, 'ticks_with_advanced_from': 0, 'ticks_that_delivered_lines': 0, 'sample': None}
        for d in results:
            for k, v in d['stats'].items():
                stats[k] = max(stats.get(k, 0), v) if k.startswith('rows_') or k.startswith('ms_') else stats.get(k, 0) + v
            for k, v in d['classes'].items():
                classes[k] = classes.get(k, 0) + v
            for k, v in (d.get('fields') or {}).items():
                f = fields.setdefault(k, {'execs': {}, 'example': v.get('example')})
                for e, n in v['execs'].items():
                    f['execs'][e] = f['execs'].get(e, 0) + n
            findings += d.get('findings') or []
            benign += d.get('benign_samples') or []
            undecided += d.get('undecided') or []
            couts += d.get('cases') or []
            unreach += d.get('unreachable_code_observations') or []
            plan_errors.update(d.get('plan_errors') or {})
            unsup += d.get('unsupported') or []
            samples += d.get('samples') or []
            t = d.get('tail') or {}
            for k in ('queries', 'ticks_compared', 'ticks_with_advanced_from', 'ticks_that_delivered_lines'):
                tail[k] += t.get(k, 0)
            if tail['sample'] is None and t.get('sample'):
                tail['sample'] = t['sample']

        # infrastructure conditions (raised at the end, and only if the real code showed no difference in meaning)
        infra = []
        if unsup:
            infra.append('chsql could not execute statements of the planners: ' + json.dumps(unsup[:3])[:1500])
        if undecided:
            u = undecided[0]
            infra.append('%d comparisons could not be decided (token streams differ, chsql cannot run a statement): %s :: %s'
                         % (len(undecided), u['query'], json.dumps(u['verdict'])[:800]))
        odd = {k: v for k, v in plan_errors.items() if not any(x in v for x in EXPECTED_PLAN_ERRORS)}
        if odd:
            infra.append('queries of the corpus could not be planned: ' + json.dumps(odd)[:1500])
        need = {'plans_reexecuted': 300, 'determinism_translations': 300, 'interleaved_calls': 100, 'portions_compared': 20,
                'tail_ticks': 30, 'case_calls': 150,
                'history_pairs': 300, 'history_statements': 1000}
        for k, n in need.items():
            if stats.get(k, 0) < n:
                infra.append('vacuous run: %s = %s (< %d); stats %s' % (k, stats.get(k, 0), n, json.dumps(stats)))
        if tail['ticks_with_advanced_from'] < 5 or tail['ticks_that_delivered_lines'] < 10:
            infra.append('the real Tail did not advance / deliver lines: %s' % json.dumps({k: v for k, v in tail.items() if k != 'sample'}))

        # 6. cases: observed against expected
        seen_cases = set()
        by_case = {}
        for o in couts:
            by_case.setdefault((qkey(o['q']), o['k']), []).append(o)
        mismatches = []
        for key, c in expected.items():
            obs = by_case.get(key, [])
            if not obs:
                mismatches.append('case %s k=%d was not run' % key)
                continue
            seen_cases.add(key)
            if c['diverges'] and not any(o['diverges'] for o in obs):
                mismatches.append('Replan.tla expects execution %d of class [%s] to diverge; the real planners did not on %s'
                                  % (key[1], key[0], [o['concrete'] for o in obs]))
            for o in obs:
                if sorted(o['writes']) != sorted(c['writes']):
                    mismatches.append('class [%s] k=%d %s: the real Process wrote %s, Replan.tla writes %s'
                                      % (key[0], key[1], o['concrete'], o['writes'], sorted(c['writes'])))
        unexpected = [o for o in couts if o['diverges'] and not expected[(qkey(o['q']), o['k'])]['diverges']]

        # 7. violations: every difference in meaning shown by the real code
        by_sig = {}
        for f in findings:
            by_sig.setdefault(f['signature'], []).append(f)
        for sig, fs in sorted(by_sig.items()):
            fs.sort(key=lambda f: (f['mode'] != 'tail', f['mode'] != 'portion', len(f['query'])))
            f = fs[0]
            queries = sorted({x['query'] for x in fs})
            shapes = sorted({x['verdict'].get('tokdiff') or '' for x in fs})
            name = re.sub(r'[^A-Za-z0-9]+', '_', sig)[:100] + '_%08x' % (zlib.crc32(sig.encode()) & 0xffffffff)
            path = vlib.save_replay('C14', name, {
                'kind': 'one plan object executed k times (mode %s) against a freshly made plan executed with the same context' % f['mode'],
                'signature': sig, 'modes': sorted({x['mode'] for x in fs}), 'queries_with_this_signature': queries[:60], 'token_differences': shapes,
                'example': f, 'replay': 'c14 adhoc -lang %s -q %r' % ('traceql' if f['lang'] == 'traceql' else 'logql', f['query'])})
            what = 'error' if f['verdict']['class'] == 'ERROR' else 'different result rows'
            if f['mode'] == 'history':
                viols.append({'property': 'C14', 'signature': sig, 'replay': path,
                              'msg': '%s %s: the translation depends on the earlier translations of the process (%s; tokens %s): %s; %d queries, e.g. %s'
                                     % (f['lang'], f['entry'], what, f['verdict'].get('tokdiff'), f.get('case'), len(queries), queries[0])})
                continue
            viols.append({'property': 'C14', 'signature': sig, 'replay': path,
                          'msg': '%s %s: execution %d of one plan object (%s) differs in meaning from a fresh plan with the same context (%s; tokens %s); '
                                 '%d queries in modes %s, e.g. %s' % (f['lang'], f['entry'], f['k'], f['mode'], what, f['verdict'].get('tokdiff'), len(queries),
                                                                      sorted({x['mode'] for x in fs}), queries[0])})

        # violations that are not listed as open known findings: only these may stand in for an infrastructure condition
        known = [k['signature'] for k in vlib.load_known() if k.get('property') == 'C14' and k.get('status') == 'open']
        new_viols = [v for v in viols if not any(v['signature'] == k or v['signature'].startswith(k + '|') for k in known)]

        # 8. trace validation: the calls on the real objects are a behaviour of Replan
        allp = os.path.join(sd, 'trace_all.ndjson')
        ntr = nev = 0
        with open(allp, 'w') as out:
            for i, op, tp, p in procs:
                if os.path.exists(tp):
                    for ln in open(tp):
                        if ln.strip():
                            out.write(ln)
                            nev += 1
                            if '"ev":"New"' in ln:
                                ntr += 1
        tv = {'plan_objects': ntr, 'events': nev}
        if nev:
            ttext = cfg_text('TraceSpec', mutates, [1, 2], 3, True, 'INVARIANTS Independent SetOnceOnce OnlyMutates\nCONSTRAINT Accept\n%(diag)s')
            ok, detail, st = vlib.validate_trace(SPECDIR, 'Trace_Replan.tla', ttext, allp, timeout=600)
            tv.update({'accepted': ok, 'detail': detail, 'tlc': st})
            states += st.get('states', 0)
            transitions += st.get('generated', 0)
            if not ok and not new_viols:
                raise vlib.Infra('the calls on the real plan objects are not a behaviour of Replan.tla although no execution differed in meaning: '
                                 'the specification misrepresents the code: %s' % json.dumps(detail)[:1200])
        lap('trace_validation')
        if infra and not new_viols:
            raise vlib.Infra(infra[0])
        if crash_note and not new_viols:
            raise vlib.Infra('the real code panicked while a plan was re-executed (%s) and the statement-only repetition shows no difference in meaning' % crash_note)
        if mismatches and not new_viols:
            # a predicted divergence that the code does not show, or field writes that differ, while no execution differed in
            # meaning: the specification misrepresents the code
            raise vlib.Infra('Replan.tla and the real planners disagree on %d cases (the specification misrepresents the code): %s'
                             % (len(mismatches), json.dumps(mismatches[:6])[:2500]))

        cov = {'states': states, 'transitions': transitions,
               'traces_validated_against_impl': ntr + len(seen_cases),
               'samples': (samples[:2] + [{'tlc_case': cases[0]}, {'tail': tail.get('sample')}]),
               'exhaustive': True,
               'mutates_generated_from_code': mutates, 'model_checks': mcs,
               'cases': {'enumerated_by_tlc': len(cases), 'classes': len({qkey(c['q']) for c in cases}), 'replayed': len(seen_cases),
                         'concrete_calls': len(couts), 'candidate_classes': candidates,
                         'candidates_confirmed_on_real_code': sorted({qkey(o['q']) for o in couts if o['diverges']}),
                         'unexpected_divergences': [(qkey(o['q']), o['k'], o['concrete']) for o in unexpected][:10],
                         'mismatches': mismatches[:10]},
               'histories': {'neighbour_pairs_enumerated_by_tlc': len(pairs_h), 'pairs_run': stats.get('history_pairs', 0),
                             'translations_compared_with_isolated_process': stats.get('history_translations', 0)},
               'trace_validation': tv, 'tail': tail, 'stats': stats, 'comparison_classes': classes,
               'benign_differences_samples': [{'signature': b['signature'], 'mode': b['mode'], 'query': b['query'], 'k': b['k'], 'base': b.get('base')}
                                              for b in benign[:12]],
               'fields_written_by_real_process_calls': {k: v['execs'] for k, v in sorted(fields.items())
                                                        if 'Planner.' in k or 'Processor.' in k},
               'unreachable_code_observations': [{'signature': u['signature'], 'query': u['query'], 'k': u['k'], 'entry': u['entry']} for u in unreach[:6]],
               'phase_wall_s': phases, 'infrastructure_notes': infra,
               'cross_process_determinism': {'canary_statements_compared': ncanary, 'text_differences': len(pairs)}, 'real_code_panic_then_statement_only_mode': crash_note,
               'distinct_nontrivial': stats.get('plans_reexecuted', 0),
               'plan_errors_expected': len(plan_errors),
               'checker_cmd': 'c14 probe -> tlc MC_Replan / MC_ReplanCases -> c14 run (x%d shards, +%d cluster) -> tlc Trace_Replan' % (shards, cshards)}
        return {'level': 'model_checking', 'coverage': cov, 'violations': viols,
                'assumptions': ['meaning is judged on one populated store (logs, spans, profiles pushed through the real writer; every window has samples of its own) '
                                'executed by the chsql reference interpreter; a difference that no stored row exposes is classified benign',
                                'databases are writer-consistent: a stream has a series row for every day it has samples (the stale fingerprint-cache date is '
                                'harmless under this assumption, proved in Replan.tla for advancing From)',
                                'the clickhouse_planner LineFormatPlanner/LabelFormatPlanner objects are not reachable from logql_transpiler_v2.Plan; their '
                                'accumulating fields are observed but not reported']}
    finally:
        shutil.rmtree(sd, ignore_errors=True)

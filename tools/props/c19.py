"""C19: retention settings converge to the configuration and re-applying them is a no-op.
Rotate.tla is model-checked with the settings keys the code uses (generated from a recorded run); the real
maintenance.Rotate is swept over fakeconn (configs x statement x window, re-runs, config changes) with semantic checks of
the final TTL/policy per table, and its statement logs are validated as Rotate behaviours (Trace_Rotate.tla)."""
import json
import os
import re
import shutil

import vlib

SPECDIR = os.path.join(vlib.SPEC, 'ctrl')

CFG_MC = '''SPECIFICATION Spec
CONSTANTS
  Groups <- MGroups
  Configs <- MConfigs
  MaxFaults = %(maxfaults)d
  MaxChanges = %(maxchanges)d
  InvalidateFirst = %(inval)s
INVARIANTS %(invs)s
CHECK_DEADLOCK FALSE
'''

CFG_INIT = '''SPECIFICATION Spec
CONSTANTS
  Scripts <- MScripts
  Policies <- MPolicies
  MaxFaults = %(maxfaults)d
  RecordFailed = %(recfailed)s
INVARIANTS Completed RecordedAfterExec
CHECK_DEADLOCK FALSE
'''

CFG_TRACE = '''SPECIFICATION TraceSpec
CONSTANTS
  Groups <- MGroups
  Configs <- MConfigs
  MaxFaults = 1000000
  MaxChanges = 1000000
  InvalidateFirst = TRUE
INVARIANTS RecordAfterAlters Converged RerunIsNoOp
CONSTRAINT Accept
%(diag)s
CHECK_DEADLOCK FALSE
'''


def data_module(name, extends, groups, configs):
    gs = [{'kind': g['kind'], 'key': g['key'], 'tables': g['tables'], 'clamp': g['clamp']} for g in groups]
    cs = '{' + ', '.join(vlib.tla_value({'policy': c['policy'], 'ttl': c['ttl']}) for c in configs) + '}'
    return '---- MODULE %s ----\nEXTENDS %s\nMGroups == %s\nMConfigs == %s\n====\n' % (name, extends, vlib.tla_value(gs), cs)


def run(tier):
    binp = vlib.go_build('cmd/c19', 'c19')
    sd = vlib.scratch('c19')
    viols = []
    try:
        gp = os.path.join(sd, 'groups.json')
        args = [binp, 'groups', '-out', gp] + (['-full'] if tier == 'thorough' else [])
        r = vlib.run_cmd(args, timeout=120)
        if r.returncode != 0 or not os.path.exists(gp):
            raise vlib.Infra('c19 groups failed: ' + (r.stdout + r.stderr)[-2000:])
        gj = json.load(open(gp))
        groups, configs = gj['groups'], gj['configs']
        if len(groups) != 8:
            raise vlib.Infra('could not read the 8 setting groups off a recorded Rotate run: %s' % groups)
        # 1. model checking with the code's key assignment
        open(os.path.join(sd, 'MC_Rotate.tla'), 'w').write(data_module('MC_Rotate', 'Rotate', groups, configs[:4] if tier == 'quick' else configs[:6]))
        def mc_run(invs, maxfaults, maxchanges, inval=True):
            open(os.path.join(sd, 'MC_Rotate.cfg'), 'w').write(CFG_MC % {'maxfaults': maxfaults, 'maxchanges': maxchanges, 'invs': invs, 'inval': 'TRUE' if inval else 'FALSE'})
            dump = os.path.join(sd, 'cex.json')
            if os.path.exists(dump):
                os.remove(dump)
            res = vlib.tlc(SPECDIR, 'MC_Rotate.tla', 'MC_Rotate.cfg', timeout=2400,
                           copy_extra=[os.path.join(sd, 'MC_Rotate.tla'), os.path.join(sd, 'MC_Rotate.cfg')], extra=['-dumpTrace', 'json', dump])
            m = {'invariants': invs, 'states': res.get('distinct', 0), 'transitions': res.get('generated', 0), 'wall_s': round(res['wall'], 1), 'violated': res['violated']}
            cand = None
            if res['violated'] and os.path.exists(dump):
                cx = json.load(open(dump)).get('counterexample', {})
                sts = [s[1] for s in cx.get('state', [])]
                cand = {'invariant': res['violated'][0], 'last_state': {k: sts[-1][k] for k in ('cfg', 'pc', 'gi', 'alters', 'clean', 'torn')} if sts else {},
                        'configs_seen': [s['cfg'] for i, s in enumerate(sts) if i == 0 or s['cfg'] != sts[i - 1]['cfg']]}
            elif not res.get('finished'):
                raise vlib.Infra('TLC did not finish: ' + res['out'][-1500:])
            vlib.tlc_cleanup(res)
            m['candidate'] = cand
            return m
        # 1a. the design as coded (the marker is cleared before the first ALTER of a group): the property as stated
        mc = mc_run('RecordAfterAlters Converged RerunIsNoOp', 1 if tier == 'quick' else 2, 2)
        candidate = mc['candidate']
        # 1b. mutation: without the clearing TLC must find the revert-after-interrupted-change history (the defect repaired in
        #     rotate.go; kept so that Converged is known not to be vacuous)
        mc_strict = mc_run('Converged', 1, 2, inval=False)
        if not mc_strict['candidate']:
            raise vlib.Infra('Rotate.tla with InvalidateFirst = FALSE violates nothing: Converged is vacuous in this configuration')
        strict_candidate = None
        # 1c. initialisation (maintenance.Update): InitSchema.tla with the script streams recorded from the code
        scripts = gj.get('scripts') or []
        if len(scripts) < 20 or sum(len(x['creates']) for x in scripts) < 8:
            raise vlib.Infra('could not read the schema scripts off a recorded Update run: %s' % scripts[:5])
        open(os.path.join(sd, 'MC_InitSchema.tla'), 'w').write(
            '---- MODULE MC_InitSchema ----\nEXTENDS InitSchema\nMScripts == %s\nMPolicies == {"", "p"}\n====\n' % vlib.tla_value(scripts))
        def mc_init(recfailed, maxfaults):
            open(os.path.join(sd, 'MC_InitSchema.cfg'), 'w').write(CFG_INIT % {'maxfaults': maxfaults, 'recfailed': 'TRUE' if recfailed else 'FALSE'})
            res = vlib.tlc(SPECDIR, 'MC_InitSchema.tla', 'MC_InitSchema.cfg', timeout=1200,
                           copy_extra=[os.path.join(sd, 'MC_InitSchema.tla'), os.path.join(sd, 'MC_InitSchema.cfg')])
            m = {'states': res.get('distinct', 0), 'transitions': res.get('generated', 0), 'wall_s': round(res['wall'], 1), 'violated': res['violated']}
            if not res['violated'] and not res.get('finished'):
                raise vlib.Infra('TLC did not finish on InitSchema: ' + res['out'][-1500:])
            vlib.tlc_cleanup(res)
            return m
        mc_i = mc_init(False, 2 if tier == 'quick' else 3)
        mc_i_mut = mc_init(True, 1)
        if not mc_i_mut['violated']:
            raise vlib.Infra('InitSchema.tla with RecordFailed = TRUE violates nothing: Completed is vacuous')
        init_candidate = mc_i['violated']
        # 2. sweep of the real code
        swp = os.path.join(sd, 'sweep.json')
        trp = os.path.join(sd, 'trace.ndjson')
        args = [binp, 'sweep', '-out', swp, '-trace', trp, '-seed', str(vlib.seed())] + (['-full'] if tier == 'thorough' else [])
        r = vlib.run_cmd(args, timeout=3000)
        if r.returncode != 0:
            raise vlib.Infra('c19 sweep failed: ' + (r.stdout + r.stderr)[-2000:] + (open(swp).read()[-800:] if os.path.exists(swp) else ''))
        sweep = json.load(open(swp))
        sample = None
        sigs_real = set()
        for c in sweep['cases']:
            if c.get('violation'):
                sigs_real.add(c['signature'])
                path = vlib.save_replay('C19', 'sweep_' + re.sub(r'[^A-Za-z0-9]+', '_', c['signature'])[:100], {'kind': 'sweep of maintenance.Rotate over fakeconn', 'case': c})
                viols.append({'property': 'C19', 'signature': c['signature'], 'msg': c['violation'], 'replay': path})
            elif sample is None and len(c['runs']) > 3:
                sample = c
        init_cases = sweep.get('init_cases') or []
        if len(init_cases) < 100:
            raise vlib.Infra('initialisation sweep is vacuous: %d cases' % len(init_cases))
        init_sigs = {}
        for c in init_cases:
            if c.get('violation') and c['signature'] not in init_sigs:
                init_sigs[c['signature']] = c
        for sig, c in sorted(init_sigs.items()):
            n = sum(1 for x in init_cases if x.get('signature') == sig)
            path = vlib.save_replay('C19', 'init_' + re.sub(r'[^A-Za-z0-9]+', '_', sig)[:100], {'kind': 'sweep of maintenance.Update (+Rotate) over fakeconn', 'case': c, 'cases_with_this_signature': n})
            viols.append({'property': 'C19', 'signature': sig, 'msg': c['violation'] + ' (%d case(s))' % n, 'replay': path})
        if init_candidate and not init_sigs:
            raise vlib.Infra('TLC reports %s on InitSchema.tla but no run of the real Update reproduces it: the specification misrepresents the code' % init_candidate)
        # (a revert-after-interrupted-change divergence of the real code is a plain violation again: the design as coded excludes it)
        if candidate and not sigs_real:
            raise vlib.Infra('TLC reports %s on Rotate.tla (%s) but no run of the real Rotate reproduces it: the specification misrepresents the code'
                             % (candidate['invariant'], json.dumps(candidate)))
        # 3. trace validation
        open(os.path.join(sd, 'MC_TraceRotate.tla'), 'w').write(data_module('MC_TraceRotate', 'Trace_Rotate', groups, configs))
        ok, detail, st = vlib.validate_trace(SPECDIR, 'MC_TraceRotate.tla', CFG_TRACE, trp, timeout=2400,
                                             extra_files=[os.path.join(sd, 'MC_TraceRotate.tla')])
        ntr = sum(1 for x in open(trp) if x.startswith('{"ev":"Reset"'))
        if not ok:
            lines = open(trp).read().splitlines()
            ln = detail.get('line', 0)
            seg = [json.loads(x) for x in lines[max(0, ln - 25):ln + 1]]
            sig = 'trace|%s|%s' % (detail['kind'], detail.get('invariant') or json.loads(detail.get('event') or '{}').get('ev', '?'))
            if detail.get('invariant') == 'RerunIsNoOp':
                alt = [e['table'] for e in seg if e.get('ev', '').startswith('Alter')]
                sig = 'trace|RerunIsNoOp|' + ','.join(sorted(set(alt[-2:])))
            path = vlib.save_replay('C19', 'trace', {'kind': 'trace validation (Trace_Rotate)', 'detail': detail, 'trace_segment': seg})
            viols.append({'property': 'C19', 'signature': sig, 'replay': path,
                          'msg': 'statement log of the real Rotate is not a behaviour of Rotate.tla / violates an invariant: %s' % json.dumps(detail)[:400]})
        cov = {'states': mc['states'] + mc_i['states'], 'transitions': mc['transitions'] + mc_i['transitions'], 'traces_validated_against_impl': ntr + len(init_cases),
               'samples': [sample or sweep['cases'][0], {'groups_with_keys_from_the_code': groups}],
               'exhaustive': True, 'model_check': mc, 'mutation_without_invalidation': mc_strict,
               'sweep': {'cases': len(sweep['cases']), 'events': sweep.get('events')},
               'init_model_check': mc_i, 'init_mutation_record_failed': mc_i_mut,
               'init_sweep': {'cases': len(init_cases), 'interrupted': sum(1 for c in init_cases if c['n'] > 0),
                              'with_policy': sum(1 for c in init_cases if c['cfg']['policy']), 'sample': init_cases[len(init_cases) // 2]},
               'trace_validation': {'accepted': ok, 'tlc': st, 'detail': detail},
               'checker_cmd': 'c19 groups -> tlc MC_Rotate; c19 sweep -> semantic TTL/policy checks + tlc Trace_Rotate'}
        return {'level': 'model_checking', 'coverage': cov, 'violations': viols,
                'assumptions': ['fakeconn models ALTER ... MODIFY TTL/SETTING as replacing the table attribute; settings reads return the latest row per key',
                                'TTL strings are compared semantically (parsed tiers, clamps, disks, drop days), not textually']}
    finally:
        shutil.rmtree(sd, ignore_errors=True)

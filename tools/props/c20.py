"""C20: with basic auth configured no route is reachable without the credentials.
Auth.tla (spec/http) models one request through the router main() builds: mux match -> the router-wide middlewares in
the order of main.go's app.Use calls -> the route's handler.  The constants come from the code: the chain is read off
main.go, the route tables are walked off a router assembled with the real registration functions.  TLC enumerates
every (configuration, route, method, Authorization header, Accept-Encoding, Origin) within the bounds and checks the
property on the model; every enumerated case is then sent (a) through router.ServeHTTP of the in-process router with
recording back-ends and (b) over real HTTP to the real binary with a TCP listener in place of ClickHouse; the recorded
request/response logs are validated as behaviours of Auth.tla by TLC (Trace_Auth.tla)."""
import json
import os
import random
import re
import shutil
import time

import vlib

SPECDIR = os.path.join(vlib.SPEC, 'http')

INVS = 'TypeOK NoAccessWithoutCreds RejectedProperly RightPasses UnregisteredNeverHandled NoBypass MechanismIsDefinition'

CFG_MC = '''SPECIFICATION Spec
CONSTANTS
  Chain <- MChain
  Routes <- MRoutes
  Methods <- MMethods
  Creds <- MCreds
  MaxLen = %(maxlen)d
  DeepRoutes <- MDeep
  HandlerStatus = {200}
  CaseFilter <- MCaseFilter
INVARIANTS ''' + INVS + ''' Export
CHECK_DEADLOCK FALSE
'''

CFG_TRACE = '''SPECIFICATION TraceSpec
CONSTANTS
  Chain <- MChain
  Routes <- MRoutes
  Methods <- MMethods
  Creds <- MCreds
  MaxLen = 0
  DeepRoutes <- MDeep
  HandlerStatus = {200}
  CaseFilter <- MCaseFilter
INVARIANTS ''' + INVS + '''
CONSTRAINT Accept
%(diag)s
CHECK_DEADLOCK FALSE
'''

# abstract login / password pairs (sequences over {a, b, :}); the login is colon-free (RFC 7617)
ALL_CREDS = [
    {'u': ['a'], 'p': ['b']},
    {'u': ['a', 'b'], 'p': ['b', ':', 'a']},
    {'u': ['a'], 'p': [':']},
    {'u': ['a'], 'p': ['a']},
    {'u': ['b'], 'p': ['a', 'b']},
    {'u': ['a', 'b'], 'p': ['a', ':']},
    {'u': ['a'], 'p': [':', ':']},
    {'u': ['b', 'a'], 'p': ['b']},
]
CLASSES = ['absent', 'noSpace', 'otherScheme', 'malformedB64', 'noColon', 'wrongUser', 'wrongPassword', 'properPrefix',
           'properSuffix', 'extraColon', 'rightThenJunk', 'right']
MALFORMED = {'noSpace', 'otherScheme', 'malformedB64', 'noColon'}


def mc_module(name, extends, chain, routes, methods, creds, deep, quick, bbcors, export=True):
    rs = '{' + ',\n  '.join(vlib.tla_value({'id': r['id'], 'group': r['group'], 'methods': set(r['methods']), 'light': bool(r.get('light')),
                                           'world': r['id'].split(':', 1)[0]}) for r in routes) + '}'
    cs = '{' + ', '.join(vlib.tla_value(c) for c in creds) + '}'
    cred1 = vlib.tla_value(creds[0]) if creds else '[u |-> <<>>, p |-> <<>>]'
    txt = '---- MODULE %s ----\nEXTENDS %s\n' % (name, extends)
    txt += 'MChain == %s\nMRoutes == %s\nMMethods == %s\nMCreds == %s\nMDeep == %s\nCred1 == %s\n' % (
        vlib.tla_value(chain), rs if routes else '{}', vlib.tla_value(set(methods)), cs if creds else '{}', vlib.tla_value(set(deep)), cred1)
    txt += ('MCaseFilter(c, co, rt, m) ==\n'
            '    /\\ (rt.world = "rdr") => (c = Cred1 /\\ co = %s)\n'
            '    /\\ (rt.world = "view") => (c = Cred1)\n'
            '    /\\ (%s /\\ m \\notin rt.methods) => (c = Cred1 /\\ co = TRUE)\n') % ('TRUE' if bbcors else 'FALSE', 'TRUE' if quick else 'FALSE')
    if export:
        txt += ('Export == Done => PrintT(ToJson([cfg |-> cfg, route |-> req.route.id, method |-> req.method, hdr |-> req.hdr, ae |-> req.ae,\n'
                '    origin |-> req.origin, cls |-> Class, reg |-> Registered(req), hr |-> handlerRan, be |-> backendTouched,\n'
                '    status |-> status, marks |-> marks]))\n')
    return txt + '====\n'


def parse_export(out):
    cases = {}
    n = 0
    for line in out.splitlines():
        if not line.startswith('"{'):
            continue
        try:
            d = json.loads(json.loads(line))
        except ValueError as e:
            raise vlib.Infra('cannot parse a case exported by TLC: %s: %s' % (e, line[:200]))
        n += 1
        exp = {'hr': d.pop('hr'), 'be': d.pop('be'), 'status': d.pop('status'), 'marks': d.pop('marks')}
        key = json.dumps(d, sort_keys=True)
        c = cases.get(key)
        if c is None:
            d['exp'] = []
            cases[key] = c = d
        if exp not in c['exp']:
            c['exp'].append(exp)
    return list(cases.values()), n


def prop_breach(ev):
    """property-level reading of one logged event (used to name a rejected trace)"""
    carries = ev.get('cls') in ('right', 'rightThenJunk')
    if (ev['hr'] == 'yes' or ev['be']) and not carries:
        return 'access-without-credentials'
    if ev['reg'] and not carries and ev['status'] not in (400, 401):
        return 'not-rejected-with-401'
    if ev['reg'] and not carries and ev['status'] == 400 and ev.get('cls') not in MALFORMED:
        return '400-for-wellformed-header'
    if ev['reg'] and ev.get('cls') == 'right' and (ev['hr'] == 'no' or (ev['hr'] == 'unknown' and ev['status'] == 401)):
        return 'right-credentials-rejected'
    return None


def findings_to_violations(result, binding, viols):
    fs = result.get('findings', {})
    bykind = {}
    for key, f in sorted(fs.items()):
        bykind.setdefault(f['kind'], []).append(f)
    merged = {}
    for kind, lst in bykind.items():
        if len(lst) >= 6:
            # the check is broken for (nearly) every header class: one violation, not one per class
            lst.sort(key=lambda f: CLASSES.index(f['cls']) if f['cls'] in CLASSES else 99)
            m = dict(lst[0])
            m['cls'] = 'many'
            m['classes'] = [f['cls'] for f in lst]
            m['count'] = sum(f['count'] for f in lst)
            m['distinct_headers'] = sum(f.get('distinct_headers', 0) for f in lst)
            for k in ('methods', 'groups'):
                m[k] = {}
                for f in lst:
                    for a, b in (f.get(k) or {}).items():
                        m[k][a] = m[k].get(a, 0) + b
            merged[kind + '|many'] = m
        else:
            for f in lst:
                merged[kind + '|' + f['cls']] = f
    for key, f in sorted(merged.items()):
        ms = sorted(f.get('methods') or {})
        meth = ms[0] if len(ms) == 1 else 'any'
        sig = '%s|%s|%s|%s' % (f['kind'], f['cls'], meth, binding)
        ex = f.get('example') or {}
        path = vlib.save_replay('C20', re.sub(r'[^A-Za-z0-9]+', '_', sig)[:100], {
            'kind': 'C20 %s binding: request against the real code' % binding, 'finding': {k: f[k] for k in f if k != 'example'}, 'example': ex,
            'how': 'configure login/password as in example.user/example.pass, send example.case.method example.path with the Authorization header '
                   'example.authorization (absent if authorization_present is false), Accept-Encoding/Origin as in example.case'})
        o = ex.get('observed', {})
        if f.get('classes'):
            f = dict(f)
            f['cls'] = 'many (%s)' % ', '.join(f['classes'])
        msg = ('%s: header class %s, %d requests (%d distinct headers), methods %s, groups %s; e.g. %s %s Authorization=%r (login %r password %r) -> status %s, '
               'handler entered: %s, back-end touched: %s') % (
            f['kind'], f['cls'], f['count'], f.get('distinct_headers', 0), ms, sorted(f.get('groups') or {}),
            (ex.get('case') or {}).get('method'), ex.get('path'), ex.get('authorization') if ex.get('authorization_present') else None,
            ex.get('user'), ex.get('pass'), o.get('status'), o.get('hr'), o.get('be'))
        viols.append({'property': 'C20', 'signature': sig, 'msg': msg, 'replay': path})


def validate(sd, name, chain, events, viols, binding):
    """TLC trace validation of a list of event lines; returns stats"""
    if not events:
        return {'events': 0}
    tp = os.path.join(sd, 'trace_%s.ndjson' % name)
    with open(tp, 'w') as f:
        f.write('\n'.join(events) + '\n')
    mod = os.path.join(sd, 'MC_TraceAuth.tla')
    open(mod, 'w').write(mc_module('MC_TraceAuth', 'Trace_Auth', chain, [], [], [], [], False, True, export=False))
    ok, detail, st = vlib.validate_trace(SPECDIR, 'MC_TraceAuth.tla', CFG_TRACE, tp, timeout=2400, extra_files=[mod])
    if not ok:
        if detail.get('kind') == 'invariant':
            ln = detail.get('line', 1)
        else:
            ln = detail.get('line', 2) - 1      # l points at the NEXT event to load; the one in flight did not match
        ln = max(1, min(ln, len(events)))
        ev = json.loads(events[ln - 1])
        breach = prop_breach(ev)
        if breach is None:
            raise vlib.Infra('trace validation (%s) rejects an event that satisfies the property - Auth.tla misrepresents the code: %s'
                             % (binding, json.dumps(ev)[:600]))
        sig = 'trace|%s|%s' % (breach, binding)
        path = vlib.save_replay('C20', 'trace_' + binding, {'kind': 'trace validation (Trace_Auth)', 'detail': detail, 'event': ev})
        viols.append({'property': 'C20', 'signature': sig, 'replay': path,
                      'msg': 'the request log of the real code (%s) is not a behaviour of Auth.tla at event %d: %s' % (binding, ln, json.dumps(ev)[:500])})
    return {'events': len(events), 'accepted': ok, 'tlc': st, 'detail': detail}


def sample_events(path, n, rng):
    lines = [x for x in open(path).read().splitlines() if x]
    if len(lines) <= n:
        return lines
    keep = {}
    for i, x in enumerate(lines):
        e = json.loads(x)
        k = (e.get('cls'), e['reg'], e['group'], e['route'].split(':', 1)[0], e['hr'], e['status'] if e['hr'] != 'yes' else 0)
        keep.setdefault(k, i)
    idx = set(keep.values())
    rest = [i for i in range(len(lines)) if i not in idx]
    rng.shuffle(rest)
    idx.update(rest[:max(0, n - len(idx))])
    return [lines[i] for i in sorted(idx)]


def run(tier):
    t_start = time.time()
    quick = tier == 'quick'
    seed = vlib.seed()
    rng = random.Random(seed)
    binp = vlib.go_build('cmd/c20', 'c20')
    sd = vlib.scratch('c20')
    viols = []
    assumptions = [
        'package main cannot be imported: the in-process router is assembled by replaying the ordered app.Use / Init calls read off main.go (go/ast) '
        'with the real middlewares and the real route tables (writer RegisterRoutes, reader/router/*, commonroutes); an unknown wiring item is an '
        'infrastructure error. writer.Init and reader.Init are replicated without their ClickHouse connections (recording service / database registries)',
        'view.Init registers nothing because the UI bundle (view/dist) is not in the tree; its route shapes (method-less routes and the catch-all prefix) '
        'are exercised through stand-in routes with a stub handler in the "view" world',
        'whether junk after a complete base64 encoding of the right pair is tolerated is left open by the property (class rightThenJunk); both outcomes '
        'are accepted and the observed one is reported',
        'stand-alone reader (reader.Init with its own router): judged by the property only (401 / 400 before any handler or database connection, right '
        'credentials pass), for the reader route tables, CORS on and off, credentials with blanks at the edges set directly in the configuration struct',
        'black box: MODE=reader only (writer.Init needs a native-protocol ClickHouse); "database interaction" = a TCP connection accepted by the '
        'listener that stands in for ClickHouse during the first 30 s, in which the watchdog does not touch the database',
    ]
    try:
        # 1. constants from the code
        rp = os.path.join(sd, 'routes.json')
        r = vlib.run_cmd([binp, 'routes', '-repo', vlib.REPO, '-out', rp], timeout=120)
        drift, wd = None, []
        if r.returncode == 2 and 'DRIFT:' in r.stderr:
            # main.go (or reader/writer Init) no longer has the shape the driver can replay in process: only the real binary can
            # speak now.  The black box runs on the request table of the known wiring; no breach there = infrastructure error.
            drift = r.stderr[r.stderr.index('DRIFT:'):].strip()[:600]
            wd = ['-default-wiring']
            r = vlib.run_cmd([binp, 'routes', '-repo', vlib.REPO, '-out', rp] + wd, timeout=120)
        if r.returncode != 0 or not os.path.exists(rp):
            raise vlib.Infra('c20 routes failed: ' + (r.stdout + r.stderr)[-2500:])
        rj = json.load(open(rp))
        chain, methods, worlds = rj['chain'], rj['methods'], rj['worlds']
        std_reg = [x for x in worlds['std'] if x['methods']]
        if len(std_reg) < 20 or not all(any(x['group'] == g for x in std_reg) for g in ('common', 'writer', 'reader')):
            raise vlib.Infra('walked route table is implausibly small: %s' % {g: sum(1 for x in std_reg if x['group'] == g) for g in ('common', 'writer', 'reader')})
        want_bb = True
        # bounds
        if quick:
            creds = [ALL_CREDS[seed % len(ALL_CREDS)], ALL_CREDS[(seed + 3) % len(ALL_CREDS)]]
            maxlen = 3
            deep = [rng.choice(std_reg)['id']]
        else:
            k = seed % len(ALL_CREDS)
            creds = ALL_CREDS[k:] + ALL_CREDS[:k]
            maxlen = 5
            deep = [rng.choice([x for x in std_reg if x['group'] == g])['id'] for g in ('common', 'writer', 'reader', 'reader')]
        bbcors = bool(seed % 2)
        routes = []
        for w in ('std', 'view', 'rdr'):
            for x in worlds[w]:
                x = dict(x)
                x['light'] = (w == 'view' and x['group'] != 'view') or (w == 'view' and x['path'] == '/__verif_nope')
                routes.append(x)
        # 2. model checking + export of every case
        open(os.path.join(sd, 'MC_Auth.tla'), 'w').write(mc_module('MC_Auth', 'Auth, Json', chain, routes, methods, creds, deep, quick, bbcors))
        open(os.path.join(sd, 'MC_Auth.cfg'), 'w').write(CFG_MC % {'maxlen': maxlen})
        dump = os.path.join(sd, 'cex.json')
        res = vlib.tlc(SPECDIR, 'MC_Auth.tla', 'MC_Auth.cfg', timeout=2400,
                       copy_extra=[os.path.join(sd, 'MC_Auth.tla'), os.path.join(sd, 'MC_Auth.cfg')], extra=['-dumpTrace', 'json', dump])
        mc = {'states': res.get('distinct', 0), 'transitions': res.get('generated', 0), 'wall_s': round(res['wall'], 1), 'violated': res['violated'],
              'bounds': {'creds': creds, 'max_payload_len': maxlen, 'deep_routes': deep, 'chain': chain, 'methods': methods,
                         'routes': {w: len(worlds[w]) for w in worlds}}}
        candidate = None
        if res['violated']:
            if not os.path.exists(dump):
                raise vlib.Infra('TLC reports %s but wrote no counterexample: %s' % (res['violated'], res['out'][-1500:]))
            sts = [s[1] for s in json.load(open(dump)).get('counterexample', {}).get('state', [])]
            last = sts[-1]
            candidate = {'invariant': res['violated'][0], 'cfg': last['cfg'], 'req': last['req'], 'stage': last['stage'],
                         'handlerRan': last['handlerRan'], 'status': last['status']}
            cases = []
            # the counterexample's request, for every registered route of its world, is put to the real code
            rq = last['req']
            cls = 'right' if (rq['hdr']['kind'] == 'basic' and rq['hdr']['enc'] == 'clean'
                              and rq['hdr']['payload'] == last['cfg']['cred']['u'] + [':'] + last['cfg']['cred']['p']) else 'counterexample'
            if cls != 'right':
                for x in worlds['std']:
                    for m in x['methods']:
                        cases.append({'cfg': last['cfg'], 'route': x['id'], 'method': m, 'hdr': rq['hdr'], 'ae': rq['ae'], 'origin': rq['origin'],
                                      'cls': 'absent' if rq['hdr']['kind'] == 'absent' else 'counterexample', 'reg': True, 'exp': []})
            exported = 0
        else:
            if not res.get('finished'):
                raise vlib.Infra('TLC did not finish: ' + res['out'][-1500:])
            cases, exported = parse_export(res['out'])
        vlib.tlc_cleanup(res)
        mc['candidate'] = candidate
        mc['exported_final_states'] = exported
        if not cases:
            raise vlib.Infra('no cases to run (TLC exported nothing%s)' % (': ' + json.dumps(candidate) if candidate else ''))
        cp = os.path.join(sd, 'cases.ndjson')
        with open(cp, 'w') as f:
            for c in cases:
                f.write(json.dumps(c) + '\n')
        # 3. (a) in process
        outp, trp = os.path.join(sd, 'inproc.json'), os.path.join(sd, 'inproc_trace.ndjson')
        if drift:
            inproc = {'requests': 0, 'cases': 0, 'by_class': {}, 'drift_count': 0, 'samples': [], 'skipped': drift}
        else:
            r = vlib.run_cmd([binp, 'run', '-repo', vlib.REPO, '-cases', cp, '-out', outp, '-trace', trp, '-seed', str(seed)], timeout=3000)
            if r.returncode != 0 or not os.path.exists(outp):
                raise vlib.Infra('c20 run failed (rc %s): %s' % (r.returncode, (r.stdout + r.stderr)[-2500:]))
            inproc = json.load(open(outp))
            findings_to_violations(inproc, 'inproc', viols)
        if candidate and drift:
            raise vlib.Infra('wiring drift (%s) and a TLC counterexample on the default wiring: the driver is out of date' % drift)
        if candidate:
            if not viols:
                raise vlib.Infra('TLC reports %s on Auth.tla with the chain / routes read off the code (%s) but the real router does not show it: '
                                 'the specification misrepresents the code' % (candidate['invariant'], json.dumps(candidate)[:800]))
        elif inproc['drift_count'] and not viols:
            raise vlib.Infra('the real router disagrees with the mechanism of Auth.tla on %d cases without breaching the property (spec drift): %s'
                             % (inproc['drift_count'], inproc['drift'][:2]))
        if not candidate and not drift:
            missing = [c for c in CLASSES if not inproc['by_class'].get(c)]
            if missing or not inproc['handler_ran'] or not inproc['backend_touched'] or not inproc['rejected_401'] or not inproc['rejected_400']:
                raise vlib.Infra('vacuous run: classes never sent %s, handler_ran %d, backend_touched %d, 401s %d, 400s %d' % (
                    missing, inproc['handler_ran'], inproc['backend_touched'], inproc['rejected_401'], inproc['rejected_400']))
        # 4. trace validation of the in-process log
        tv = {}
        if not candidate and not drift:
            evs = sample_events(trp, 60000 if quick else 2000000, rng)
            tv['inproc'] = validate(sd, 'inproc', chain, evs, viols, 'inproc')
        # 5. (b) black box
        bb = {'ran': False}
        elapsed = time.time() - t_start
        if candidate:
            bb['skipped'] = 'counterexample replay only'
        elif quick and elapsed > 38 and not drift:
            bb['skipped'] = 'quick tier: %.0f s already used' % elapsed
        elif want_bb:
            vlib.gen_gomod()
            qbin = os.path.join(vlib.BIN, 'qryn_c20')
            r = vlib.run_cmd(['go', 'build', '-o', qbin, 'github.com/metrico/qryn'], cwd=vlib.HARNESS, env=vlib.goenv(), timeout=1500)
            if r.returncode != 0:
                raise vlib.Infra('cannot build the real binary: ' + (r.stdout + r.stderr)[-2500:])
            elapsed = time.time() - t_start
            if quick and elapsed > 45 and not drift:
                bb['skipped'] = 'quick tier: %.0f s used after building the binary' % elapsed
            else:
                bout, btr, blog = os.path.join(sd, 'bb.json'), os.path.join(sd, 'bb_trace.ndjson'), os.path.join(sd, 'qryn.log')
                budget = 10 if quick else 24
                r = vlib.run_cmd([binp, 'blackbox', '-repo', vlib.REPO, '-bin', qbin, '-cases', cp, '-out', bout, '-trace', btr, '-log', blog,
                                  '-seed', str(seed), '-budget', str(budget)] + wd, timeout=120)
                if r.returncode != 0 or not os.path.exists(bout):
                    raise vlib.Infra('c20 blackbox failed (rc %s): %s' % (r.returncode, (r.stdout + r.stderr)[-2500:]))
                bb = json.load(open(bout))
                bb['ran'] = True
                findings_to_violations(bb, 'blackbox', viols)
                if not viols and (not bb['rejected_401'] or bb['requests'] < 200):
                    raise vlib.Infra('vacuous black-box run: %d requests, %d rejections' % (bb['requests'], bb['rejected_401']))
                if not viols and not bb.get('clickhouse_accepts_total'):
                    raise vlib.Infra('vacuous black-box run: requests with the right credentials never reached the ClickHouse stand-in')
                evs = sample_events(btr, 20000, rng)
                tv['blackbox'] = validate(sd, 'bb', chain, evs, viols, 'blackbox')
                bb.pop('findings', None)
        # 6. (c) the stand-alone reader (reader.Init(cfg, nil): reader/main.go applyMiddlewares, own router and listener), one child
        #    process per configuration: CORS on / off x credentials of the cases / credentials with blanks at the edges
        sa = {'ran': False, 'runs': []}
        if candidate:
            sa['skipped'] = 'counterexample replay only'
        else:
            import subprocess
            combos = [('on', seed % 4), ('off', -1)] if quick else [('on', seed % 4), ('off', (seed + 1) % 4), ('on', -1), ('off', -1), ('off', (seed + 2) % 4)]
            procs = []
            for i, (cors, pair) in enumerate(combos):
                so = os.path.join(sd, 'sa%d.json' % i)
                cmd = [binp, 'blackbox', '-standalone', '-cors', cors, '-pair', str(pair), '-repo', vlib.REPO, '-cases', cp, '-out', so,
                       '-log', os.path.join(sd, 'sa%d.log' % i), '-seed', str(seed), '-budget', str(6 if quick else 20)] + wd
                procs.append((cors, pair, so, subprocess.Popen(cmd, stdout=subprocess.PIPE, stderr=subprocess.STDOUT, text=True, env=vlib.goenv())))
            for cors, pair, so, pr in procs:
                try:
                    out_txt, _ = pr.communicate(timeout=150)
                except subprocess.TimeoutExpired:
                    pr.kill()
                    raise vlib.Infra('c20 stand-alone run (cors %s, pair %d) timed out' % (cors, pair))
                if pr.returncode != 0 or not os.path.exists(so):
                    raise vlib.Infra('c20 stand-alone run failed (rc %s, cors %s, pair %d): %s' % (pr.returncode, cors, pair, (out_txt or '')[-2000:]))
                one = json.load(open(so))
                n0 = len(viols)
                findings_to_violations(one, 'standalone', viols)
                if len(viols) == n0 and (not one['rejected_401'] or one['requests'] < 100 or not one.get('clickhouse_accepts_total')):
                    raise vlib.Infra('vacuous stand-alone run (cors %s, pair %d): %d requests, %d rejections, %s database connections' % (
                        cors, pair, one['requests'], one['rejected_401'], one.get('clickhouse_accepts_total')))
                sa['runs'].append({'cors': cors, 'blank_credentials_pair': pair, 'requests': one['requests'], 'rejected_401': one['rejected_401'],
                                   'rejected_400': one.get('rejected_400'), 'by_class': one.get('by_class'),
                                   'clickhouse_accepts_total': one.get('clickhouse_accepts_total'),
                                   'clickhouse_accepts_during_unauthenticated': one.get('clickhouse_accepts_during_unauthenticated', 0), 'notes': one.get('notes')})
            sa['ran'] = True
            sa['requests'] = sum(x['requests'] for x in sa['runs'])
        if drift and not viols:
            raise vlib.Infra('the wiring in the repository cannot be replayed in process (%s) and the black box shows no breach (%s requests): '
                             'update the driver' % (drift, bb.get('requests')))
        ntr = sum(v.get('events', 0) for v in tv.values())
        samples = (inproc.get('samples') or bb.get('samples') or [])[:3]
        cov = {'states': mc['states'], 'transitions': mc['transitions'],
               'traces_validated_against_impl': max(1, inproc['requests'] + (bb.get('requests', 0) if bb.get('ran') else 0) + sa.get('requests', 0)),
               'samples': samples,
               'exhaustive': True, 'model_check': mc,
               'distinct_nontrivial': inproc['cases'],
               'inproc': {k: inproc[k] for k in inproc if k not in ('samples', 'findings', 'drift')},
               'blackbox': {k: bb[k] for k in bb if k not in ('samples', 'drift')},
               'standalone_reader': sa,
               'trace_validation': tv, 'trace_events_validated_by_tlc': ntr,
               'wiring_read_off_main_go': rj['wiring'], 'reader_route_tables': rj['reader_calls'], 'route_entries_per_group': rj['entries_per_group'],
               'checker_cmd': 'c20 routes -> tlc MC_Auth (export) -> c20 run (in process) -> tlc Trace_Auth -> go build qryn; c20 blackbox -> tlc Trace_Auth; c20 blackbox -standalone (reader.Init(cfg, nil) per configuration)'}
        return {'level': 'model_checking', 'coverage': cov, 'violations': viols, 'assumptions': assumptions}
    finally:
        shutil.rmtree(sd, ignore_errors=True)

"""C18: schema initialisation survives failure at any statement and can simply be re-run.
Migrate.tla is model-checked on ops generated from the REAL .sql files; counterexamples are replayed against the real
maintenance.Update over fakeconn; every statement x {fail, crash-before, crash-after} is swept against the real code
and the statement logs are validated as Migrate behaviours by TLC (Trace_Migrate.tla)."""
import json
import os
import re
import shutil

import vlib

SPECDIR = os.path.join(vlib.SPEC, 'ctrl')

CFG_MC = '''SPECIFICATION Spec
CONSTANTS
  Order <- MOrder
  Scripts <- MScripts
  Dist = %(dist)s
  MaxFaults = %(maxfaults)d
INVARIANTS VerOnlyAfterComplete Restartable NeverRefused FinishedMeansAll
PROPERTIES VerMonotone
CHECK_DEADLOCK FALSE
'''

CFG_TRACE = '''SPECIFICATION TraceSpec
CONSTANTS
  Order <- MOrder
  Scripts <- MScripts
  Dist = %(dist)s
  MaxFaults = 1000000
INVARIANTS VerOnlyAfterComplete NeverRefused FinishedMeansAll
CONSTRAINT Accept
%%(diag)s
CHECK_DEADLOCK FALSE
'''


def data_module(name, extends, mode_ops):
    order = mode_ops['order']
    parts = []
    for k in order:
        ops = []
        for op in mode_ops['ops'][str(k)]:
            ops.append({'kind': op['kind'], 'obj': op.get('obj', ''), 'obj2': op.get('obj2', ''),
                        'adds': [{'col': a['col'], 'guarded': bool(a['guarded'])} for a in (op.get('adds') or [])],
                        'tcols': op.get('cols') or []})
        parts.append('%d :> %s' % (k, vlib.tla_value(ops)))
    return '---- MODULE %s ----\nEXTENDS %s\nMOrder == %s\nMScripts == (%s)\n====\n' % (
        name, extends, vlib.tla_value(order), ' @@\n  '.join(parts))


def counterexample_faults(trace_json, order):
    """Extract symbolic faults (Crash/Fail steps) from a TLC -dumpTrace json counterexample."""
    faults = []
    cx = trace_json.get('counterexample', trace_json)
    states = cx.get('state') or cx.get('states') or []
    prev = None
    for st in states:
        vals = st[1] if isinstance(st, list) else st
        if prev is not None and vals.get('faults', 0) > prev.get('faults', 0):
            pc = prev['pc']
            k = order[prev['si'] - 1]
            window = 'crash-before' if vals['pc'] == 'idle' else 'fail'
            faults.append({'n': 0, 'window': window, 'at': pc, 'k': k, 'i': prev['cur'] + 1})
        prev = vals
    # Restartable is evaluated in every state: the violating state itself is "the process dies here"
    if prev is not None and prev.get('pc') in ('createVer', 'createVerDist', 'readVer', 'exec', 'record'):
        faults.append({'n': 0, 'window': 'crash-before', 'at': prev['pc'], 'k': order[prev['si'] - 1], 'i': prev['cur'] + 1})
    return faults


def model_check(mode, mode_ops, maxfaults, binp):
    sd = vlib.scratch('c18mc')
    try:
        open(os.path.join(sd, 'MC_Migrate.tla'), 'w').write(data_module('MC_Migrate', 'Migrate', mode_ops))
        open(os.path.join(sd, 'MC_Migrate.cfg'), 'w').write(CFG_MC % {'dist': 'TRUE' if mode_ops['dist'] else 'FALSE', 'maxfaults': maxfaults})
        dump = os.path.join(sd, 'cex.json')
        res = vlib.tlc(SPECDIR, 'MC_Migrate.tla', 'MC_Migrate.cfg', timeout=1500,
                       copy_extra=[os.path.join(sd, 'MC_Migrate.tla'), os.path.join(sd, 'MC_Migrate.cfg')],
                       extra=['-dumpTrace', 'json', dump])
        try:
            out = {'mode': mode, 'states': res.get('distinct', 0), 'transitions': res.get('generated', 0),
                   'wall_s': round(res['wall'], 1), 'violated': res['violated'], 'candidate': None}
            if res['violated']:
                if not os.path.exists(dump):
                    raise vlib.Infra('TLC reported %s but wrote no counterexample' % res['violated'])
                cex = json.load(open(dump))
                faults = counterexample_faults(cex, mode_ops['order'])
                out['candidate'] = {'mode': mode, 'faults': faults, 'invariant': res['violated'][0]}
            elif not res.get('finished'):
                raise vlib.Infra('TLC did not finish: ' + res['out'][-1500:])
            return out
        finally:
            vlib.tlc_cleanup(res)
    finally:
        shutil.rmtree(sd, ignore_errors=True)


def replay_candidate(binp, cand):
    sd = vlib.scratch('c18rp')
    try:
        sp = os.path.join(sd, 'sched.json')
        op = os.path.join(sd, 'out.json')
        json.dump({'mode': cand['mode'], 'faults': cand['faults']}, open(sp, 'w'))
        r = vlib.run_cmd([binp, 'replay', '-sched', sp, '-out', op], timeout=300)
        if r.returncode != 0 or not os.path.exists(op):
            raise vlib.Infra('c18 replay failed: ' + (r.stdout + r.stderr)[-2000:])
        return json.load(open(op))
    finally:
        shutil.rmtree(sd, ignore_errors=True)


def sig_of(case):
    # structural signature: what the database refuses / what differs; mode-independent part first
    s = case.get('signature', '')
    m = re.match(r'stuck\|mode=([a-z_]+)\|refused=(.*)$', s)
    if m:
        return 'stuck|refused=%s' % m.group(2).strip()
    return re.sub(r'\|mode=[a-z_]+', '', s)


def run(tier):
    binp = vlib.go_build('cmd/c18', 'c18')
    sd = vlib.scratch('c18')
    viols = []
    try:
        opsp = os.path.join(sd, 'ops.json')
        r = vlib.run_cmd([binp, 'ops', '-out', opsp], timeout=120)
        if r.returncode != 0:
            raise vlib.Infra('c18 ops failed (a migration statement fakeconn does not understand?): ' + (r.stdout + r.stderr)[-2000:] +
                             open(opsp).read()[-1500:] if os.path.exists(opsp) else '')
        ops = json.load(open(opsp))
        modes = ['single', 'clustered_replicated'] if tier == 'quick' else ['single', 'replicated', 'clustered', 'clustered_replicated']
        mcs = []
        states = transitions = 0
        for mode in modes:
            mc = model_check(mode, ops[mode], 1 if tier == 'quick' else 2, binp)
            states += mc['states']
            transitions += mc['transitions']
            if mc['candidate']:
                rp = replay_candidate(binp, mc['candidate'])
                case = rp['case']
                mc['replayed'] = {'violation': case.get('violation'), 'signature': case.get('signature')}
                if case.get('violation'):
                    path = vlib.save_replay('C18', 'tlc_cex_%s' % mode, {'kind': 'TLC counterexample replayed against maintenance.Update',
                                                                        'candidate': mc['candidate'], 'result': case, 'trace': rp.get('trace')})
                    viols.append({'property': 'C18', 'signature': sig_of(case), 'msg': case['violation'], 'replay': path})
                else:
                    raise vlib.Infra('TLC counterexample %s did not reproduce against the real code: the specification or the op '
                                     'classification misrepresents the code' % json.dumps(mc['candidate']))
            mcs.append({k: mc[k] for k in mc if k != 'candidate'})
        # sweep of the real code
        swp = os.path.join(sd, 'sweep.json')
        trp = os.path.join(sd, 'trace.ndjson')
        pairs = 0 if tier == 'quick' else 400
        r = vlib.run_cmd([binp, 'sweep', '-out', swp, '-trace', trp, '-pairs', str(pairs), '-seed', str(vlib.seed())], timeout=3000)
        if r.returncode != 0:
            raise vlib.Infra('c18 sweep failed: ' + (r.stdout + r.stderr)[-2000:])
        sweep = json.load(open(swp))
        ncases = len(sweep['cases'])
        sample = None
        for c in sweep['cases']:
            if c.get('violation'):
                path = vlib.save_replay('C18', 'sweep_%s_%s' % (c['mode'], re.sub(r'[^A-Za-z0-9]+', '_', sig_of(c)))[:120],
                                        {'kind': 'fault sweep of maintenance.Update over fakeconn', 'case': c})
                viols.append({'property': 'C18', 'signature': sig_of(c), 'msg': c['violation'], 'replay': path})
            elif sample is None and c.get('faults'):
                sample = c
        # trace validation, one TLC run per mode
        tv = []
        lines = open(trp).read().splitlines()
        bymode = {}
        cur = None
        for ln in lines:
            if ln.startswith('{"ev":"Reset"'):
                cur = json.loads(ln)['mode']
            bymode.setdefault(cur, []).append(ln)
        ntraces = 0
        for mode in modes:
            mp = os.path.join(sd, 'trace_%s.ndjson' % mode)
            open(mp, 'w').write('\n'.join(bymode.get(mode, [])) + '\n')
            ntr = sum(1 for x in bymode.get(mode, []) if x.startswith('{"ev":"Reset"'))
            dm = os.path.join(sd, 'Trace_MigrateData.tla')
            # the trace module extends Trace_Migrate through a data module
            open(os.path.join(sd, 'MC_TraceMigrate.tla'), 'w').write(data_module('MC_TraceMigrate', 'Trace_Migrate', ops[mode]))
            cfg = (CFG_TRACE % {'dist': 'TRUE' if ops[mode]['dist'] else 'FALSE'})
            ok, detail, st = vlib.validate_trace(SPECDIR, 'MC_TraceMigrate.tla', cfg, mp, timeout=2400,
                                                 extra_files=[os.path.join(sd, 'MC_TraceMigrate.tla')])
            tv.append({'mode': mode, 'traces': ntr, 'events': len(bymode.get(mode, [])), 'accepted': ok, 'tlc': st, 'detail': detail})
            ntraces += ntr
            if not ok:
                ln = detail.get('line', 0)
                seg = bymode[mode][max(0, ln - 30):ln + 1]
                sig = 'trace|%s|%s' % (detail['kind'], detail.get('invariant') or json.loads(detail.get('event', '{}') or '{}').get('ev', '?'))
                if detail['kind'] == 'invariant' and detail.get('invariant') == 'NeverRefused':
                    # which statement was refused: the Exec event with st=err before that line
                    ref = [json.loads(x) for x in seg if '"st":"err"' in x or '"st":"crash-after-err"' in x]
                    if ref:
                        sig = 'stuck|refused=%s %s' % (ref[-1]['kind'], ref[-1]['obj'])
                path = vlib.save_replay('C18', 'trace_%s' % mode, {'kind': 'trace validation (Trace_Migrate)', 'mode': mode, 'detail': detail,
                                                                  'trace_segment': [json.loads(x) for x in seg]})
                viols.append({'property': 'C18', 'signature': sig, 'replay': path,
                              'msg': 'statement log of the real Update is not a behaviour of Migrate.tla / violates %s' % json.dumps(detail)[:400]})
        cov = {'states': states, 'transitions': transitions, 'traces_validated_against_impl': ntraces,
               'samples': [sample or {}, {'ops_of_log_stream_head': ops['single']['ops']['1'][:4]}],
               'exhaustive': True, 'model_checks': mcs,
               'fault_sweep': {'cases': ncases, 'stats': sweep['stats'], 'double_faults_sampled_per_mode': pairs},
               'trace_validation': tv,
               'checker_cmd': 'c18 ops -> tlc MC_Migrate (generated from ctrl/qryn/sql/*.sql); c18 sweep -> tlc Trace_Migrate'}
        return {'level': 'model_checking', 'coverage': cov, 'violations': viols,
                'assumptions': ['fakeconn models ClickHouse DDL semantics for the statement kinds in ctrl/qryn/sql (IF [NOT] EXISTS guards, RENAME, ADD COLUMN); '
                                'MODIFY ORDER BY/SETTING/TTL are treated as idempotent',
                                'a crash is modelled between two statements; a statement is atomic']}
    finally:
        shutil.rmtree(sd, ignore_errors=True)

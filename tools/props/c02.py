"""C02: every INSERT block is rectangular and made of whole submitted rows.
Batcher.tla at batch grain (BatchMatchesResults / PortionMatchesResults / NoRowTwice) + decoding of every
proto.Input that reaches the fake ClickHouse client in schedule replays and recorded runs."""
import time

import vlib
import props.c01 as c01
import props.c01trace as c01trace


def run(tier):
    mc = c01.model_check(tier)
    out, viols, sample, nb = c01.replay(tier)
    tr = c01trace.run_traces(tier)
    viols += tr['violations']
    mine = [v for v in viols if v['property'] == 'C02' or v['kind'] == 'conformance']
    # last clause of C02: no row is "left out of the block whose outcome is reported to their request" - a promise completed
    # with the outcome of an INSERT that did not carry its rows is observed by the same replay step as C01's acknowledgement rule
    for v in viols:
        if v['property'] == 'C01' and v.get('signature', '').startswith('replay|property|DoReturn'):
            mine.append(dict(v, property='C02', signature='outcome-of-foreign-block|' + v['signature']))
    import props.c02blocks as c02blocks
    ex = c02blocks.run_blocks(tier)
    mine += [v for v in ex['violations'] if v['property'] == 'C02']
    mine += [dict(v, property='C02', signature='outcome-of-foreign-block|' + v['signature']) for v in ex['violations']
             if v['property'] == 'C01' and v.get('signature', '').startswith('blocks|ack-without-insert')]
    extra = ex['stats']
    cov = {
        'states': mc['states'], 'transitions': mc['transitions'],
        'traces_validated_against_impl': nb + tr['traces'],
        'samples': [{'replayed_behaviour_prefix': sample}, {'recorded_trace_prefix': tr['sample']}],
        'exhaustive': True, 'model_check': mc,
        'replay': {'behaviours': out['behaviours'], 'steps': out['steps'], 'insert_blocks_decoded': out['blocks'],
                   'block_rows_checked': out['block_rows']},
        'trace_validation': tr['stats'], 'all_services_blocks': extra,
    }
    return {'level': 'model_checking', 'coverage': cov, 'violations': mine,
            'assumptions': ['fakech decodes proto.Input with the Row(i) accessor of every ch-go column',
                            'ShapeOK (all per-row arrays of a request have equal length) is the interface to C03']}

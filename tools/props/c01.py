"""C01 (and the block checks of C02): Batcher.tla model checking + schedule replay + trace validation."""
import json
import os
import shutil
import time

import vlib

SPECDIR = os.path.join(vlib.SPEC, 'ingest')


def model_check(tier):
    """quick: 2 requests x 2 services x 1 worker. thorough: additionally 3 requests x 1 service x 2 workers (t1), 2 requests x 2 services x
    2 workers with 1 attempt (t2, ~7.8M states), 3 requests x 1 worker x 3 attempts x 2 rows (t3)."""
    cfgs = ['MC_Batcher_quick.cfg'] if tier == 'quick' else ['MC_Batcher_quick.cfg', 'MC_Batcher_t1.cfg', 'MC_Batcher_t2.cfg', 'MC_Batcher_t3.cfg']
    total = {'states': 0, 'transitions': 0, 'cfg': '+'.join(cfgs), 'wall_s': 0, 'per_cfg': []}
    for cfg in cfgs:
        res = vlib.tlc(SPECDIR, 'MC_Batcher.tla', cfg, timeout=600 if tier == 'quick' else 3000)
        try:
            if res['violated']:
                raise vlib.Infra('TLC reports a violated property on the specification itself (%s, %s); the spec is the oracle, '
                                 'so this is a specification problem, not a verdict:\n%s' % (cfg, res['violated'], res['out'][-2500:]))
            if not res.get('finished') or 'distinct' not in res:
                raise vlib.Infra('TLC did not finish (%s):\n%s' % (cfg, res['out'][-2000:]))
            total['states'] += res['distinct']
            total['transitions'] += res['generated']
            total['wall_s'] = round(total['wall_s'] + res['wall'], 1)
            total['per_cfg'].append({'cfg': cfg, 'states': res['distinct'], 'transitions': res['generated']})
        finally:
            vlib.tlc_cleanup(res)
    return total


def liveness(tier):
    res = vlib.tlc(SPECDIR, 'MC_Batcher.tla', 'MC_Batcher_live.cfg', timeout=900)
    try:
        if res['violated']:
            raise vlib.Infra('liveness violated on the specification: ' + res['out'][-2500:])
        return {'states': res.get('distinct', 0), 'cfg': 'MC_Batcher_live.cfg', 'wall_s': round(res['wall'], 1)}
    finally:
        vlib.tlc_cleanup(res)


def gen_behaviours(n, depth, seed):
    res = vlib.tlc(SPECDIR, 'MC_BatcherReplay.tla', 'MC_BatcherReplay.cfg', workers=1, timeout=600,
                   simulate={'num': n, 'file': True}, depth=depth, seed=seed)
    try:
        behs = vlib.behaviours(res)
        if len(behs) < n // 2:
            raise vlib.Infra('TLC wrote only %d behaviours:\n%s' % (len(behs), res['out'][-1500:]))
        return behs
    finally:
        vlib.tlc_cleanup(res)


def replay(tier, pid_filter=None):
    n = 150 if tier == 'quick' else 3000
    seed = vlib.seed()
    behs = gen_behaviours(n, 80, seed)
    binp = vlib.go_build('cmd/c01replay', 'c01replay')
    sd = vlib.scratch('c01')
    try:
        inp = os.path.join(sd, 'in.json')
        outp = os.path.join(sd, 'out.json')
        json.dump({'consts': {'MaxQueue': 2, 'MaxAttempts': 2}, 'behaviours': behs}, open(inp, 'w'))
        r = vlib.run_cmd([binp, '-in', inp, '-out', outp, '-seed', str(seed), '-par', '32'], timeout=3000)
        if r.returncode == 2 or not os.path.exists(outp):
            raise vlib.Infra('c01replay failed: ' + (r.stdout + r.stderr)[-3000:])
        out = json.load(open(outp))
        viols = []
        for v in out.get('violations') or []:
            beh = behs[v['behaviour']]
            rp = vlib.save_replay(v['property'] or 'C01', 'replay_seed%d_b%d' % (seed, v['behaviour']),
                                  {'kind': 'schedule-replay', 'violation': v, 'consts': {'MaxQueue': 2, 'MaxAttempts': 2},
                                   'behaviour': [{'action': s['action'], 'args': s['args']} for s in beh[:v['step'] + 1]],
                                   'state_before': beh[v['step'] - 1]['state'], 'model_state_after': beh[v['step']]['state']})
            viols.append({'property': v['property'] or 'C01', 'kind': v['kind'],
                          'signature': 'replay|%s|%s' % (v['kind'], v['action']), 'msg': v['msg'], 'replay': rp})
        sample = [{'action': s['action'], 'args': s['args']} for s in behs[0][1:25]]
        return out, viols, sample, len(behs)
    finally:
        shutil.rmtree(sd, ignore_errors=True)


def run(tier):
    t0 = time.time()
    mc = model_check(tier)
    lv = liveness(tier)
    out, viols, sample, nb = replay(tier)
    import props.c01trace as c01trace
    import props.c02blocks as c02blocks
    try:
        tr = c01trace.run_traces(tier)
        viols += tr['violations']
        bl = c02blocks.run_blocks(tier)
        viols += bl['violations']
    except vlib.Infra:
        # a later stage broke down (e.g. the recorder hangs because requests are never answered): violations already
        # established by the replay against the real code stand; without them it is an infrastructure failure
        if not [v for v in viols if v['property'] == 'C01' or v['kind'] == 'conformance']:
            raise
        tr = {'violations': [], 'traces': 0, 'stats': {'aborted': True}, 'sample': []}
        bl = {'violations': [], 'stats': {'aborted': True}}
    mine = [v for v in viols if v['property'] == 'C01' or v['kind'] == 'conformance']
    cov = {
        'states': mc['states'], 'transitions': mc['transitions'],
        'traces_validated_against_impl': nb + tr['traces'],
        'samples': [{'replayed_behaviour_prefix': sample}, {'recorded_trace_prefix': tr['sample']}],
        'exhaustive': True,
        'model_check': mc, 'liveness_check': lv,
        'replay': {'behaviours': out['behaviours'], 'steps': out['steps'], 'actions': out['actions'],
                   'insert_blocks_decoded': out['blocks'], 'conn_fails_injected': out['conn_fails_injected']},
        'trace_validation': tr['stats'],
        'all_endpoints_ack_check': bl['stats'],
        'checker_cmd': 'tlc MC_Batcher.tla (%s, MC_Batcher_live.cfg); tlc -simulate MC_BatcherReplay.tla -> cmd/c01replay; cmd/c01trace -> tlc Trace_Batcher.tla' % mc['cfg'],
    }
    return {'level': 'model_checking', 'coverage': cov, 'violations': mine,
            'assumptions': ['fakech stands in for ClickHouse at the ch_wrapper.IChClient seam',
                            'sizes abstracted to row counts; rows>0 => size>0 is checked on every recorded Append',
                            'schedule replay covers one worker per service (round-robin choice is covered by trace validation)']}

"""C11: the SQL generated for TraceQL selects exactly the traces the query describes.

spec/query/TraceQLSem.tla defines Eval (what a query describes over a small trace database) and PlanEval (the plan of
reader/traceql/transpiler/clickhouse_transpiler, planner by planner, over the rows the writer stores).  MC_TraceQL.tla
enumerates the bounded grammar x small databases in layers; TLC checks that the plan AS DESIGNED conforms to the
definition on every case and exports the cases with Eval, PlanEval of the code AS WRITTEN and the deviation rules that
explain a difference.  cmd/c11 concretises every exported case (hostile strings with decoys, numbers, timestamps),
stores the spans (directly or through the real writer routes), sends the TraceQL text through the real reader route,
lets chsql execute the generated SQL and compares the answer with Eval.  A verdict only comes from the real answer.

TraceQLSem part 3 (RunEval) models the evaluator: the complexity query decides between one execution of the plan and
Portions(cx) executions of the SAME plan over the hash classes of the trace ids (complex_request_processor.go).  A case
carries the complexity answer cx and the hash class of every trace; the driver answers the complexity statement with cx
(after chsql has executed it), picks trace ids of the wanted classes, and the merged answer of the portions has to be
what Eval accepts; the number of executions has to be TraceQLSem!Portions(cx).

Time is not only the tick: a case also carries the sub-second phase `ph` of the stored span timestamps (0 = whole
seconds, 1 = every span starts off the second by an offset < 1 tick chosen by the driver).  Eval and the plan do not
depend on it; the window start handed from one portion to the next does (TraceQLSem!NextFrom: the code recognises
"no start taken yet" by a zero sub-second part).  The portion layer enumerates both phases, the other layers and the
seeded sample derive / draw one per case, so every planner reads timestamps on and off the whole second."""
import json
import os
import random
import shutil
import subprocess

import vlib

SPECDIR = os.path.join(vlib.SPEC, 'query')

# Deviation rules of the planner AS WRITTEN that TraceQLSem.PlanEval models (TraceQLSem!AllFlags).  Each one is a
# place where the real planner was found to differ from the definition; the binding confirms every one of them on the
# real code in every run.  When a defect is repaired in /repo, remove its rule here (the check reports a rule that no
# longer reproduces as an infrastructure problem, naming it).
# Repaired in /repo and therefore no longer listed (the rules stay in TraceQLSem!AllFlags as vocabulary, so that a
# regression can be explained by switching one on by hand): 'where', 'emptywhere' (WHERE pre-filter without the
# duration terms), 'tagsv2' (key/val outside GROUP BY), 'attrless_le' ({}: window end inclusive for the limit),
# 'intersect' (&& as INTERSECT of span rows), 'drop3' (selector after `S op S &&` not planned), 'chain3' (nested
# combination without timestamp_ns), 'prec' (`a && b || c` right-nested).
CODE_DEVIATIONS = ['distinct', 'portion_from']

SIGNATURE = {
    'emptywhere': 'sql-invalid|selector-without-attribute-term-renders-empty-where-group',
    'chain3': 'sql-invalid|three-selectors-reference-missing-timestamp_ns',
    'tagsv2': 'sql-invalid|tags-values-v2-select-ungrouped-column',
    'drop3': 'wrong-result|third-selector-after-and-is-never-planned',
    'where': 'wrong-result|where-prefilter-drops-spans-matched-only-by-duration',
    'prec': 'wrong-result|and-or-without-parentheses-is-right-nested',
    'intersect': 'wrong-result|selector-and-intersects-span-rows-and-max-timestamp',
    'attrless_le': 'wrong-result|empty-selector-limit-counts-span-at-window-end',
    'distinct': 'wrong-result|empty-selector-distinct-before-order-by',
    'portion_from': 'wrong-result|portion-window-start-moved-to-start-of-oldest-kept-trace',
}
WHAT = {
    'emptywhere': 'a selector whose terms are all intrinsic `duration` comparisons (no attribute / name term, no aggregated '
                  'attribute) renders `... WHERE (<bounds>) and ()`: attr_condition.go AndWhere(sql.Or(a.where...)) with an empty list',
    'chain3': 'three selectors `{..} op {..} op {..}`: planner.go planComplex nests a combination as an operand of complex_and/'
              'complex_or.go, which append max(timestamp_ns) to a SELECT whose source only has max_timestamp_ns',
    'drop3': 'planner.go planComplex: in `S1 op S2 && S3` the third selector is handed to simpleExpressionPlanner.addOp, which does '
             'nothing: S3 is never planned (visible today only through which SQL error is raised, because every three-selector statement is invalid)',
    'tagsv2': 'select_tags_planner.go / select_values_planner.go select `key` (`val`) next to GROUP BY trace_id, span_id '
              'without an aggregate function: every /api/v2/search/tags|tag/X/values request with a non-empty selector fails',
    'where': 'attr_condition.go puts only attribute/name terms into the WHERE pre-filter: a span that satisfies the boolean '
             'tree through a `duration` term only (e.g. `{duration>1s || .a="x"}`) has no row passing WHERE and is not selected',
    'prec': 'model_v2.go AttrSelectorExp is right recursive without operator priorities: `a && b || c` is evaluated as '
            '`a && (b || c)` instead of `(a && b) || c`',
    'intersect': 'complex_and.go INTERSECTs rows (trace_id, span_id, max_timestamp_ns): `{A} && {B}` only keeps a trace if the '
                 'SAME span matches A and B and the newest matching spans of A and B have the same timestamp',
    'attrless_le': 'attrless.go picks the `limit` trace ids with timestamp_ns <= end (inclusive) and then reads spans with '
                   'timestamp_ns < end: a trace whose only candidate span starts exactly at `end` uses up a limit slot',
    'distinct': 'attrless.go SELECT DISTINCT trace_id ... ORDER BY timestamp_ns DESC LIMIT n ranks a trace by an arbitrary one of its spans',
    'portion_from': 'complex_request_processor.go ProcessComplexReqIteration: when a portion of a complex request (complexity query above COMPLEXITY_THRESHOLD = 1e7: two or more portions) answers '
                    'exactly `limit` traces, the next portion is evaluated from the earliest start_time_unix_nano of those traces instead of '
                    'the start of the window: spans BEFORE the window are selected when a kept trace began before it, and older matching '
                    'spans of a trace first seen by a later portion are cut off (span set and aggregates of that trace are wrong)',
}

SHAPES = {1: ['s1', 'p1'], 2: ['and2', 'or2', 'pand2'], 3: ['and3', 'or3', 'ao', 'oa', 'pao', 'apo', 'poa', 'opa'],
          4: ['papa', 'popo', 'nest', 'nest2', 'flat4', 'flat4b']}
STR_OPS = ['=', '!=', '=~', '!~']
CMP_OPS = ['=', '!=', '>', '>=', '<', '<=']
FILL = {'k': 'dur', 'key': '-', 'op': '=', 'cs': '', 'cn': 0, 'pfx': ''}
NOAGG = {'fn': 'none', 'attr': '-', 'op': '=', 'c': 0}


def rand_term(rnd):
    k = rnd.choice(['str', 'str', 'num', 'num', 'dur', 'name'])
    pfx = rnd.choice(['.', 'span.', 'resource.'])
    if k == 'str':
        return {'k': 'str', 'key': rnd.choice('ab'), 'op': rnd.choice(STR_OPS), 'cs': rnd.choice(['n1', 'n3', 'sx', 'sy', 'zz', 'xy']), 'cn': 0, 'pfx': pfx}
    if k == 'num':
        return {'k': 'num', 'key': rnd.choice('ab'), 'op': rnd.choice(CMP_OPS), 'cs': '', 'cn': rnd.randint(0, 4), 'pfx': pfx}
    if k == 'dur':
        return {'k': 'dur', 'key': '-', 'op': rnd.choice(CMP_OPS), 'cs': '', 'cn': rnd.randint(0, 4), 'pfx': ''}
    return {'k': 'str', 'key': 'name', 'op': rnd.choice(STR_OPS), 'cs': rnd.choice(['p', 'q', 'zz', 'pq']), 'cn': 0, 'pfx': ''}


def rand_sel(rnd, allow_empty):
    if allow_empty and rnd.random() < 0.04:
        return {'sh': 'empty', 't': [FILL] * 4, 'agg': NOAGG}
    n = rnd.choice([1, 1, 2, 2, 3, 3, 4])
    pool = [rand_term(rnd) for _ in range(rnd.randint(1, n))]  # repeated terms
    ts = [rnd.choice(pool) for _ in range(n)] + [FILL] * (4 - n)
    agg = NOAGG
    if rnd.random() < 0.4:
        fn = rnd.choice(['count', 'avg', 'min', 'max', 'sum'])
        if fn == 'count':
            agg = {'fn': fn, 'attr': '-', 'op': rnd.choice(CMP_OPS), 'c': rnd.randint(0, 3)}
        else:
            agg = {'fn': fn, 'attr': rnd.choice(['dur', 'a', 'b']), 'op': rnd.choice(CMP_OPS),
                   'c': rnd.randint(1, 9 if fn == 'sum' else 4)}
    return {'sh': rnd.choice(SHAPES[n]), 't': ts, 'agg': agg}


THRESHOLD = 10000000  # TraceQLSem!Threshold = reader/traceql/transpiler COMPLEXITY_THRESHOLD
CX_OF_NP = {0: [0, 0, 0, THRESHOLD - 1], 1: [THRESHOLD], 2: [THRESHOLD + 1, 2 * THRESHOLD - 1, 2 * THRESHOLD],
            3: [2 * THRESHOLD + 1, 3 * THRESHOLD]}  # Portions(cx) = 0 below the threshold, ceil(cx / threshold) otherwise


def rand_case(rnd):
    r = rnd.random()
    nsel = 1 if r < 0.7 else (2 if r < 0.95 else 3)
    sels = [rand_sel(rnd, nsel == 1) for _ in range(nsel)]
    frm = rnd.randint(0, 2)
    to = rnd.randint(frm + 1, 5)
    q = {'kind': 'search', 'sels': sels, 'ops': [rnd.choice(['&&', '||']) for _ in range(nsel - 1)],
         'from': frm, 'to': to, 'limit': rnd.randint(1, 4), 'vkey': '-'}
    if nsel == 1 and sels[0]['sh'] != 'empty' and sels[0]['agg']['fn'] == 'none' and rnd.random() < 0.03:
        q['kind'] = rnd.choice(['tags', 'values'])
        q['vkey'] = rnd.choice('ab')
        q['limit'] = 100
    atoms = ['n1', 'n3', 'sx', 'sy', 'none']
    db = [[{'a': rnd.choice(atoms), 'b': rnd.choice(atoms), 'nm': rnd.choice('pq'), 'dur': rnd.choice([1, 3]), 'ts': rnd.randint(0, 5)}
           for _ in range(rnd.randint(1, 3))] for _ in range(rnd.randint(1, 3))]
    # the evaluator: one execution (60%), or 1..3 portions with a random hash class per trace
    np = 0
    if q['kind'] == 'search' and all(s['sh'] != 'empty' for s in sels) and rnd.random() < 0.4:
        np = rnd.choice([1, 2, 2, 3, 3])
    cx = rnd.choice(CX_OF_NP[np])
    part = [rnd.randrange(np) if np else 0 for _ in db]
    return {'q': q, 'db': db, 'cx': cx, 'part': part, 'ph': rnd.randint(0, 1)}


def tla_case(c):
    q = lambda x: '"%s"' % x

    def term(t):
        if t is FILL:
            return 'Fill'
        return 'RT(%s,%s,%s,%s,%d,%s)' % (q(t['k']), q(t['key']), q(t['op']), q(t['cs']), t['cn'], q(t['pfx']))

    def sel(s):
        a = s['agg']
        agg = 'NoAgg' if a is NOAGG else 'RA(%s,%s,%s,%d)' % (q(a['fn']), q(a['attr']), q(a['op']), a['c'])
        return 'RSel(%s,<<%s>>,%s)' % (q(s['sh']), ','.join(term(t) for t in s['t']), agg)
    qq = c['q']
    qs = 'Query(%s,<<%s>>,<<%s>>,%d,%d,%d,%s)' % (q(qq['kind']), ','.join(sel(s) for s in qq['sels']), ','.join(q(o) for o in qq['ops']),
                                                 qq['from'], qq['to'], qq['limit'], q(qq['vkey']))
    db = '<<%s>>' % ','.join('<<%s>>' % ','.join('Span(%s,%s,%s,%d,%d)' % (q(s['a']), q(s['b']), q(s['nm']), s['dur'], s['ts']) for s in tr) for tr in c['db'])
    return 'RCP(%s,%s,%d,<<%s>>,%d)' % (qs, db, c['cx'], ','.join(str(x) for x in c['part']), c['ph'])


def run_module(layers, thorough, mods, seed, rand_cases, flags, port_every):
    lines = ['---- MODULE MC_TraceQLRun ----', 'EXTENDS MC_TraceQL',
             'cDay == <<0, 0, 1, 1, 1, 2>>',
             'cLayers == %s' % vlib.tla_value(set(layers)),
             'cMods == %s' % vlib.tla_value(mods),
             'cFlags == %s' % vlib.tla_value(set(flags)),
             'cRand == {']
    lines.append(',\n'.join(tla_case(c) for c in rand_cases))
    lines += ['}', '====', '']
    cfg = '''SPECIFICATION Spec
CONSTANTS
  DayOfTick <- cDay
  Layers <- cLayers
  Thorough = %s
  Mods <- cMods
  Seed = %d
  RandCases <- cRand
  CodeFlags <- cFlags
  PortEvery = %d
INVARIANTS CheckCase
CHECK_DEADLOCK FALSE
''' % ('TRUE' if thorough else 'FALSE', seed % 9973, port_every)
    return '\n'.join(lines), cfg


def model_check(tier, seed, sd):
    thorough = tier != 'quick'
    layers = ['term', 'bool', 'agg', 'chain', 'win', 'portion', 'rand']
    mods = ({'term': 1, 'bool': 2, 'agg': 1, 'chain': 1, 'win': 1, 'portion': 2, 'rand': 1} if not thorough else
            {'term': 1, 'bool': 5, 'agg': 4, 'chain': 3, 'win': 1, 'portion': 1, 'rand': 1})
    port_every = 6 if not thorough else 3
    rnd = random.Random(seed * 1000003 + 11)
    rand_cases = [rand_case(rnd) for _ in range(1000 if not thorough else 8000)]
    mod, cfg = run_module(layers, thorough, mods, seed, rand_cases, CODE_DEVIATIONS, port_every)
    mp, cp = os.path.join(sd, 'MC_TraceQLRun.tla'), os.path.join(sd, 'MC_TraceQLRun.cfg')
    open(mp, 'w').write(mod)
    open(cp, 'w').write(cfg)
    res = None
    for attempt in (1, 2):
        res = vlib.tlc(SPECDIR, 'MC_TraceQLRun.tla', 'MC_TraceQLRun.cfg', timeout=420 if not thorough else 2400,
                       copy_extra=[mp, cp], heap='6g' if thorough else None)
        # a JVM killed from outside (memory pressure on a shared machine) leaves a truncated log without any error: retry once
        if res.get('finished') or res['violated'] or 'Error' in res['out'] or attempt == 2:
            break
        vlib.tlc_cleanup(res)
    try:
        out = res['out']
        if res['violated']:
            i = out.find('is violated')
            raise vlib.Infra('TLC: invariant %s fails on the specification itself (the plan AS DESIGNED does not conform to the '
                             'definition, or the definition is not sane): specification problem, not a verdict\n%s'
                             % (res['violated'], out[max(0, i - 200):i + 3000]))
        if not res.get('finished') or 'distinct' not in res:
            raise vlib.Infra('TLC did not finish:\n' + out[-2000:])
        cases_path = os.path.join(sd, 'cases.ndjson')
        n = 0
        per_layer = {}
        cands = {}
        with open(cases_path, 'w') as f:
            for ln in out.split('\n'):
                if not ln.startswith('<<"C11CASE", "'):
                    continue
                try:
                    js = json.loads(ln[len('<<"C11CASE", '):-2])
                except ValueError as e:
                    raise vlib.Infra('cannot parse an exported case: %s: %s' % (e, ln[:300]))
                f.write(js + '\n')
                n += 1
                k = js.find('"layer":"')
                lay = js[k + 9:js.find('"', k + 9)]
                per_layer[lay] = per_layer.get(lay, 0) + 1
                if '"cand":true' in js:
                    k = js.rfind('"explain":')
                    ex = js[k + 10:js.find(']', k) + 1]
                    cands[ex] = cands.get(ex, 0) + 1
        if n == 0:
            raise vlib.Infra('TLC exported no case:\n' + out[-1500:])
        if 'UNEXPLAINED' in json.dumps(cands):
            raise vlib.Infra('the specification cannot explain a difference between PlanEval and Eval with its own deviation rules: %s' % cands)
        return {'states': res['distinct'], 'transitions': res['generated'], 'wall_s': round(res['wall'], 1), 'exported': n,
                'exported_per_layer': per_layer, 'export_moduli': mods, 'rand_cases': len(rand_cases),
                'portions_every_nth_case_of_other_layers': port_every,
                'candidates_by_explanation': cands, 'thorough_bounds': thorough}, cases_path
    finally:
        vlib.tlc_cleanup(res)


def run_driver(binp, cases_path, seed, sd, tier):
    shards = max(2, min(8, (os.cpu_count() or 4) // 2))
    procs = []
    env = dict(os.environ)
    env['TZ'] = 'UTC'
    for i in range(shards):
        outp = os.path.join(sd, 'res_%d.json' % i)
        errp = open(os.path.join(sd, 'err_%d.txt' % i), 'w')
        cmd = [binp, '-cases', cases_path, '-out', outp, '-seed', str(seed), '-shard', str(i), '-shards', str(shards),
               '-writer-every', '25' if tier == 'quick' else '12']
        procs.append((subprocess.Popen(cmd, stdout=subprocess.DEVNULL, stderr=errp, env=env), outp, errp))
    results = []
    for p, outp, errp in procs:
        try:
            rc = p.wait(timeout=600 if tier == 'quick' else 3000)
        except subprocess.TimeoutExpired:
            for q, _, _ in procs:
                q.kill()
            raise vlib.Infra('c11 driver timeout')
        errp.close()
        if rc != 0 or not os.path.exists(outp):
            tail = open(errp.name, errors='replace').read()[-3000:]
            raise vlib.Infra('c11 driver failed (rc=%s): %s' % (rc, tail))
        results.append(json.load(open(outp)))
    return results


def run(tier):
    seed = vlib.seed()
    binp = vlib.go_build('cmd/c11', 'c11')
    sd = vlib.scratch('c11')
    try:
        mc, cases_path = model_check(tier, seed, sd)
        results = run_driver(binp, cases_path, seed, sd, tier)
        ran = sum(r['ran'] for r in results)
        if ran != mc['exported']:
            raise vlib.Infra('driver ran %d of %d exported cases' % (ran, mc['exported']))
        r0 = results[0]
        if not r0.get('writer_equivalence'):
            raise vlib.Infra('rows inserted directly differ from the rows the real /tempo/spans route stores: ' + r0.get('writer_equivalence_detail', '')[:3000])

        def merge(key):
            m = {}
            for r in results:
                for k, v in (r.get(key) or {}).items():
                    if isinstance(v, dict):
                        d = m.setdefault(k, {})
                        for k2, v2 in v.items():
                            d[k2] = d.get(k2, 0) + v2
                    else:
                        m[k] = m.get(k, 0) + v
            return m
        counts, by_layer, paths, flags, features = merge('counts'), merge('by_layer'), merge('paths'), merge('flags'), merge('features')
        mism = [m for r in results for m in (r['mismatches'] or [])]  # a shard without any mismatch writes null
        # infrastructure conditions
        infra = [m for m in mism if m['verdict'] == 'infra']
        if infra:
            raise vlib.Infra('chsql cannot run a generated statement (%d cases), e.g. %s :: %s' % (len(infra), infra[0]['traceql'], infra[0].get('diff')))
        # vacuity
        need = ['shape:' + s for ss in SHAPES.values() for s in ss] + ['shape:empty'] + \
               ['agg:' + a for a in ('count', 'avg', 'min', 'max', 'sum')] + ['chain:&&', 'chain:||', 'kind:tags', 'kind:values'] + \
               ['op:str' + o for o in STR_OPS] + ['op:num' + o for o in CMP_OPS] + ['op:dur' + o for o in CMP_OPS] + \
               ['pfx:.', 'pfx:span.', 'pfx:resource.'] + \
               ['ph:0', 'ph:1', 'ph:0/np:2', 'ph:1/np:2', 'ph:0/np:3', 'ph:1/np:3'] + \
               ['np:0', 'np:1', 'np:2', 'np:3', 'split:1-of-2', 'split:2-of-2', 'split:2-of-3', 'split:3-of-3'] + \
               ['cx:%d' % x for x in (THRESHOLD - 1, THRESHOLD, THRESHOLD + 1, 2 * THRESHOLD - 1, 2 * THRESHOLD, 2 * THRESHOLD + 1, 3 * THRESHOLD)]
        missing = [f for f in need if not features.get(f)]
        if missing:
            raise vlib.Infra('vacuous coverage: grammar features never exercised: %s' % missing)
        for lay in ('term', 'bool', 'agg', 'chain', 'win', 'portion', 'rand'):
            if not by_layer.get(lay):
                raise vlib.Infra('vacuous coverage: layer %s ran no case' % lay)
        if not (paths.get('zipkin') and paths.get('otlp')):
            raise vlib.Infra('no case was stored through the real writer routes: %s' % paths)

        viols = []
        seen = set()

        def add(sig, msg, m, kind):
            if sig in seen:
                return
            seen.add(sig)
            det = m.get('detail') or {}
            obs = det.get('observed') or {}
            case = det.get('case') or {}
            replay = {'kind': kind, 'signature': sig, 'traceql': m['traceql'], 'stored_through': m['path'],
                      'window_unix_s': det.get('window'), 'limit': det.get('limit'), 'data': det.get('data'),
                      'complexity_answer': det.get('complexity_answer'), 'portions': det.get('portions'),
                      'hash_class_of_trace': det.get('hash_class_of_trace'),
                      'subsecond_offset_of_span_timestamps_ns': det.get('subsecond_offset_ns'),
                      'sql': obs.get('sql'), 'expected_any_of_trace_sequences': (case.get('def') or {}).get('seqs'),
                      'expected_spans_per_trace': (case.get('def') or {}).get('ms'), 'expected_strings': (case.get('def') or {}).get('strs'),
                      'observed': {k: obs.get(k) for k in ('status', 'err', 'err_text', 'seq', 'spans', 'strs', 'unknown', 'body',
                                                           'complexity_statements', 'executions', 'filtered_executions')},
                      'abstract_case': case, 'variant': det.get('variant'), 'seed': seed,
                      'how': 'go build -tags verif ./cmd/c11 ; c11 -cases <file with abstract_case as one JSON line> -out r.json -seed %d' % seed}
            name = ''.join(ch if ch.isalnum() else '_' for ch in sig)[:100]
            path = vlib.save_replay('C11', name, replay)
            viols.append({'property': 'C11', 'signature': sig, 'msg': msg, 'replay': path})

        by_flag = {}
        for m in mism:
            if m['verdict'] == 'explained':
                for fl in m.get('flags') or []:
                    by_flag[fl] = by_flag.get(fl, 0) + 1
        for m in sorted(mism, key=lambda x: (x.get('detail') is None, len(x['traceql']))):
            if m.get('detail') is None:
                continue
            obs = m['detail']['observed']
            if m['verdict'] == 'explained':
                for fl in m.get('flags') or []:
                    if len(m['flags']) > 1 and any(len(x.get('flags') or []) == 1 and x['flags'][0] == fl and x.get('detail') for x in mism):
                        continue  # prefer an example explained by this rule alone
                    sig = SIGNATURE.get(fl, 'deviation|' + fl)
                    what = 'answer: ' + (obs.get('err') + ' ' + (obs.get('err_text') or '')[:200] if obs.get('err') else
                                         'traces %s spans %s' % (obs.get('seq'), obs.get('spans')))
                    add(sig, '%s. Example: %s  -> %s; expected one of %s with spans %s (%d cases in this run)' % (
                        WHAT.get(fl, fl), m['traceql'], what, m['detail']['case']['def']['seqs'][:4], m['detail']['case']['def']['ms'],
                        by_flag.get(fl, 0)), m, 'difference predicted by TraceQLSem!PlanEval and confirmed on the real planner')
            elif m['verdict'] == 'unexplained':
                sig = 'unexplained|%s|%s|%s' % (m['layer'], m.get('diff') or '?', m.get('err_class') or 'result')
                what = (obs.get('err') + ' ' + (obs.get('err_text') or '')[:300]) if obs.get('err') else 'traces %s spans %s strs %s' % (obs.get('seq'), obs.get('spans'), obs.get('strs'))
                add(sig, 'the answer of the real planner differs from the definition AND from the plan model: %s -> %s; expected one of %s with spans %s'
                    % (m['traceql'], what, m['detail']['case']['def']['seqs'][:4], m['detail']['case']['def']['ms']), m,
                    'difference between the real answer and Eval not predicted by the plan model')
        # a difference predicted by the plan model that the real planner does not show is an infrastructure problem
        # (the model misrepresents the code) -- unless the real planner ALSO gives answers that contradict the
        # definition and that the model does not predict: those are verdicts and come first.
        notrep = [m for m in mism if m['verdict'] == 'not_reproduced']
        if notrep and not any(v['signature'].startswith('unexplained|') for v in viols):
            ex = {}
            for m in notrep:
                det = m.get('detail') or {}
                for fl in ((det.get('case') or {}).get('explain') or ['?']):
                    ex[fl] = ex.get(fl, 0) + 1
            raise vlib.Infra('%d differences between PlanEval and Eval found by TLC do not reproduce against the real planner '
                             '(the answer conforms to the definition); deviation rules involved: %s. If the planner was repaired, remove the '
                             'rule from CODE_DEVIATIONS / TraceQLSem!AllFlags. Example: %s' % (len(notrep), ex, notrep[0]['traceql']))
        # the evaluator executed the plan another number of times than TraceQLSem!Portions says: the property does not
        # say how often the plan is executed, so this is no verdict; but the cases then do not cover the portions
        # they claim to cover (the model of the evaluator's decision misrepresents the code, or the complexity
        # statement was not recognised by the driver)
        dec = [m for m in mism if m['verdict'] == 'decision']
        if dec and not any(v['signature'].startswith('unexplained|') for v in viols):
            det = dec[0].get('detail') or {}
            raise vlib.Infra('%d requests were not executed the way TraceQLSem!RunEval decides (one execution below COMPLEXITY_THRESHOLD, '
                             'Portions(cx) executions with random filter otherwise): %s; complexity answer %s, expected portions %s; query %s'
                             % (len(dec), dec[0].get('diff'), det.get('complexity_answer'), det.get('portions'), dec[0]['traceql']))
        samples = [s for r in results for s in r.get('samples', [])][:2]
        samples = [{'traceql': s['traceql'], 'stored_through': s['path'], 'data': s['detail']['data'],
                    'expected_seqs': s['detail']['case']['def']['seqs'], 'observed_seq': s['detail']['observed']['seq'],
                    'observed_spans': s['detail']['observed']['spans'],
                    'sql': [x['sql'][:600] for x in s['detail']['observed'].get('sql', [])][-1:]} for s in samples]
        cov = {'states': mc['states'], 'transitions': mc['transitions'], 'traces_validated_against_impl': ran,
               'samples': samples or [{'note': 'no sample'}], 'exhaustive': True,
               'distinct_nontrivial': sum(r['distinct'] for r in results), 'evaluations': ran,
               'model_check': mc, 'verdicts': counts, 'verdicts_by_layer': by_layer, 'stored_through': paths,
               'confirmed_deviation_rules': by_flag, 'predicted_but_not_reproduced': len(notrep),
               'concretisation_variants': sum(r['variants'] for r in results),
               'grammar_features_exercised': features,
               'driver_wall_s': round(max(r['wall_s'] for r in results), 1)}
        if tier == 'thorough':
            # the Tempo v1 read API (search by tags / duration / limit, tags, tag values, trace by id) goes through other planners
            # than TraceQL; its content is the subject of the extra check X07 (TempoSearch.tla); part of this property's deep tier
            import props.x07 as x07
            xr = x07.run('quick')
            for v in xr['violations']:
                viols.append(dict(v, property='C11', signature='tempo-v1|' + v['signature']))
            cov['tempo_v1_x07'] = {k: xr['coverage'].get(k) for k in ('states', 'transitions', 'traces_validated_against_impl')}
            cov['states'] += xr['coverage'].get('states', 0)
            cov['transitions'] += xr['coverage'].get('transitions', 0)
            cov['traces_validated_against_impl'] += xr['coverage'].get('traces_validated_against_impl', 0)
        return {'level': 'model_checking', 'coverage': cov, 'violations': viols,
                'assumptions': [
                    'chsql executes the generated SQL as ClickHouse would (reference interpreter; a statement it cannot run is an infrastructure error)',
                    'a condition on an attribute holds only for spans that have the attribute; a numeric comparison only for numeric values; '
                    'an aggregate over no numeric value does not keep the trace',
                    'regular expressions are generated anchored (^...$): the property does not say whether =~ is anchored',
                    '"most recent": the traces kept under `limit` and their order are accepted if consistent with the latest matched span, the '
                    'start of the trace or the start of the trace inside the window (ties either way)',
                    'for several selectors only the set/order of traces is compared exactly; reported spans must be a non-empty subset of the spans matched by the selectors',
                    'the complexity query is executed by chsql and then answered with the number the case scripts (no database has 1e7 rows); '
                    'trace ids are chosen so that cityHash64(trace_id) % portions is the hash class of the case',
                    'all spans of a case share one sub-second offset (0, or one of a few values between 1 us and 999999 us): spans of one tick stay tied, '
                    'window bounds are whole seconds as in the API',
                    'tags / values requests above the complexity threshold answer all tags (documented degradation): always run below it',
                    'groupArray(100) caps (more than 100 spans per trace) are outside the bounds']}
    finally:
        shutil.rmtree(sd, ignore_errors=True)

"""C09: a LogQL result does not depend on which engine ran each pipeline stage.

Spec: spec/query/InProc.tla - the DEFINITION of every stage on the whole entry sequence (IP_Eval) and the MECHANISM of
the in-process chain (IP_Run: GenericPlanner.WrapProcess message by message, LimitPlanner, the aggregators' per-series
window arrays, the response optimizer, the end marker and the error protocol, hash.go).  TLC proves for every case in
the bounds (MC_InProc) that the design is batching independent and equals the definition, that the limit parameter
means on the design what it means on the SQL side, and that distinct label sets are distinct series.  Every place where
the Go code does something else is transcribed under a named switch; MC_InProcExport evaluates, for exhaustive small and
seeded larger cases, the expected result, the result predicted for the code as transcribed, and the switches that cause
a difference (= candidates).

Message grain and ownership.  The chain is built with fixed grains (InProc!IP_AsBuilt: getter batches of 100 rows, the
response optimizer flushes whenever it holds 3000 entries, an aggregation refuses more than 2000 series).  IP_RunG takes
the grain as a parameter: TLC proves the theorem for every small grain (MC_InProc with Flushes / Caps: an early flush is
invisible in the piecewise observation IP_ObsM, the series bound is part of the definition), and MC_InProcLong evaluates
the same operators AT THE GRAIN AS BUILT on upstream scripts long enough to cross every threshold (one series, several
series that go on / end / begin around the flush, the exact boundaries, limits inside, 2000 and 2001 series).
InProcMem.tla is the memory under the messages: slices over arrays, Go's append, the three stage goroutines interleaved;
the design (no stage keeps an array it has sent) satisfies OwnWrites / DeliveredStable / ExactlyOnce, every stage that
re-uses a sent array breaks OwnWrites, the holding stage breaks DeliveredStable exactly on scripts that cross a flush
with a series that goes on (Witness) - the class the long scripts are drawn from.

Binding (harness/cmd/c09):
 (a) `c09 chain`: each case is concretised (hostile concrete lines per class, seeded) and replayed into the REAL chain -
     logql_parser.Parse + logql_transpiler_v2.Plan (GetBreakpoint, breakScript, internal_planner.Plan) with the
     ClickhouseGetterPlanner replaced by a scripted upstream that sends exactly the case's channel messages; the output
     channel, read like queryRangeService reads it, must equal the expected result; the same entries are replayed under
     further partitions and must give the same result.  Cases run in child processes: a panic in a chain goroutine is
     not recoverable (and is itself a finding).  The consumer reads every message on receipt AND keeps the slice; when
     the chain has finished it reads all of them again: a message must not change after it was received
     (InProcMem!DeliveredStable).  Long cases are observed piecewise (IP_ObsM).
 (b) `c09 cross`: equivalent formulations - one that stays in SQL, one that forces the breakpoint - run end to end
     through e2e.World (/loki/api/v1/query_range, real writer, real reader, chsql with the real DDL) over the same
     stored hostile lines; results must be equal, for every limit including absent.
Verdicts come only from the real code."""
import json
import os
import random
import re
import shutil

import vlib

SPECDIR = os.path.join(vlib.SPEC, 'query')
NEEDLE = 'NEEDLE'
DUR = 10           # seconds, the range of every metric query
WINDOWS = 3        # the aligned window is [0, WINDOWS*DUR)

# ---------------------------------------------------------------------------------------------------------------
# The pool.  Every abstract line has a class, the labels `| json` / `| logfmt` extract from it BY DEFINITION of the
# formats (written down here by hand, this is oracle knowledge), and concrete hostile variants with exactly that
# meaning; the variant is chosen by the seed.  jf/lf None = the parser cannot decode the line.
# ---------------------------------------------------------------------------------------------------------------
JSON_LINES = [
    dict(t='J1', cls='flat', jf={'x': '1', 'y': 'a'},
         v=['{"x":"1","y":"a"}', '{ "y" : "a" ,\t"x" : "1" }', '{"x":"\\u0031","y":"a","k":[1,2,{"x":"7"}]}']),
    dict(t='J2', cls='flat', jf={'x': '2', 'y': 'b', 'm': '--NEEDLE--'},
         v=['{"x":2,"y":"b","m":"--NEEDLE--"}', '{"m":"--NEEDLE--", "x": 2 , "y":"b"}']),
    dict(t='J3', cls='nested', jf={'x': '3', 'n_y': 'a', 'f': 'true'},
         v=['{"x":"3","n":{"y":"a","k":[1,{"z":2}]},"f":true}', '{"n":{"y":"a"},"f":true,"x":"3","arr":["NOT","x"]}']),
    dict(t='J4', cls='malformed', jf=None,
         v=['{"x":"1","y":', '{"x":"1" "y":"a"}', '{"x":"1","y":"a"', '{"x":"1",}', '{x:1}']),
    dict(t='J5', cls='nonobj', jf=None, v=['[1,"NEEDLE"]', '"NEEDLE x"', '42', 'null', '[{"x":"1"}]']),
    dict(t='J6', cls='logfmt', jf=None, v=['x=1 y="a b" NEEDLE=1', 'x=1 y="{\\"x\\":\\"1\\"}"']),
    dict(t='J7', cls='flat', jf={'y': 'a'}, v=['{"y":"a"}', '{"y":"a","k":[]}']),
    dict(t='J8', cls='flat', jf={'x': 'abc', 'y': 'b'}, v=['{"x":"abc","y":"b"}']),
    dict(t='J9', cls='flat', jf={'x': '-0.5e1', 'x_k': '1'}, v=['{"x":"-0.5e1","x-k":"1"}', '{"x.k":"1","x":"-0.5e1"}']),
    dict(t='J10', cls='flat', jf={'x': '0', 'y': 'a'}, v=['{"x":"0","y":"a"}', '{"x":0,"y":"a"}']),
    dict(t='J11', cls='flat', jf={'x': '2', 'y': 'a'}, v=['{"x":"2","y":"a"}', '{"y":"a","x":2}']),
    dict(t='J12', cls='flat', jf={'x': '1', 'y': 'a', 'e': '@empty'}, v=['{"y":"a","x":"1","e":""}', '{"e":"","x":"1","y":"a"}']),
    dict(t='JC1', cls='flat', jf={'x': 'y1'}, v=['{"x":"y1"}']),
    dict(t='JC2', cls='flat', jf={'xy': '1'}, v=['{"xy":"1"}']),
]
LOGFMT_LINES = [
    dict(t='F1', cls='logfmt', lf={'x': '1', 'y': 'a'}, v=['x=1 y=a', 'y=a   x=1', 'x="1" y="a"']),
    dict(t='F2', cls='logfmtq', lf={'x': '2', 'y': 'a b', 'm': 'NEEDLE'}, v=['x=2 y="a b" m=NEEDLE', 'm=NEEDLE y="a b" x=2']),
    dict(t='F3', cls='logfmtbare', lf={'x': '3', 'y': 'b'}, v=['x=3 y=b flag', 'flag x=3 y=b']),
    dict(t='F4', cls='malformed', lf=None, v=['x="4 y=b', 'x="abc']),
    dict(t='F5', cls='logfmt', lf={'x': '-0.5e1', 'y': 'b'}, v=['x=-0.5e1 y=b', 'x="-0.5e1" y=b']),
    dict(t='F6', cls='logfmt', lf={'y': 'a'}, v=['y=a', 'y=a ']),
]
SERIES = [{'a': 'b'}, {'a': 'b', 'x': '9'}, {'a': 'b', 'z': 'q'}]
NAMES = ['a', 'x', 'y', 'm', 'n_y', 'f', 'x_k', 'xy', 'z', 'q', 'e']
EMPTY = '@empty'     # InProc!IP_Empty
NUM = {'0': 0, '1': 1, '2': 2, '3': 3, '9': 9, '-0.5e1': -5}
GRIDS = [[1, 4, 12, 13, 27], [3, 12, 14, 25, 28]]
# InProc!IP_AsBuilt (the spec holds the values; the long scripts are sized by them)
FLUSH, BATCH, CAP = 3000, 100, 2000
GRAIN_PLS_Q, GRAIN_PLS = ['linefmt_drop'], ['linefmt', 'linefmt_drop']     # pipelines of the small-grain flush theorem
CAP_PLS = ['m_rate', 'm_sum_by', 'v_sum_by']                                 # ... of the series-bound theorem


def sfilt(l, op, v):
    return {'t': 's', 'l': l, 'op': op, 'v': v}


def nfilt(l, op, n):
    return {'t': 'n', 'l': l, 'op': op, 'n': n}


def refilt(l, op, acc):
    return {'t': 're', 'l': l, 'op': op, 'acc': set(acc)}


NOGRP = {'m': 'none', 'ls': set()}
NOAGG = {'fn': '', 'uw': False, 'dur': DUR, 'grp': NOGRP, 'vec': {'fn': '', 'grp': NOGRP}, 'cmp': {'op': '', 'cn': 0, 'cd': 1}}


def agg(fn, uw=False, grp=None, vec=None, vgrp=None, cmp=None):
    a = {'fn': fn, 'uw': uw, 'dur': DUR, 'grp': grp or NOGRP, 'vec': {'fn': vec or '', 'grp': vgrp or NOGRP},
         'cmp': {'op': '', 'cn': 0, 'cd': 1}}
    if cmp:
        a['cmp'] = {'op': cmp[0], 'cn': cmp[1], 'cd': cmp[2]}
    return a


def by(*ls):
    return {'m': 'by', 'ls': set(ls)}


def without(*ls):
    return {'m': 'without', 'ls': set(ls)}


JS = {'k': 'json'}
LF = {'k': 'logfmt'}
SEL = '{a="b"}'
PJ = ['J1', 'J2', 'J7', 'J8', 'J9']              # TLC pool of the json filter pipelines
PJ_ALL = [l['t'] for l in JSON_LINES]
PF_ALL = [l['t'] for l in LOGFMT_LINES]
PJ_M = ['J1', 'J2', 'J10', 'J11', 'J7']          # TLC pool of the metric pipelines
PJ_OK = [l['t'] for l in JSON_LINES if l['jf'] is not None]


def P(pid, q, st, a=None, pool=None, spool=None, series=(1, 2)):
    pool = pool or PJ
    return {'id': pid, 'q': q, 'st': st, 'agg': a or NOAGG, 'pool': pool, 'spool': spool or PJ_ALL, 'series': list(series)}


def metric(pid, inner, st, a, text, pool=None, spool=None, series=(1, 2)):
    return P(pid, text % {'sel': SEL + inner}, st, a, pool or PJ_M, spool or PJ_ALL, series)


UW = {'k': 'unwrap', 'l': 'x'}
PIPELINES = [
    P('json', SEL + ' | json', [JS], pool=['J1', 'J3', 'J4', 'J5', 'JC1', 'JC2']),
    P('json_eq', SEL + ' | json | x="1"', [JS, {'k': 'lab', 'f': sfilt('x', '=', '1')}], pool=PJ + ['J4']),
    P('json_ne', SEL + ' | json | x!="1"', [JS, {'k': 'lab', 'f': sfilt('x', '!=', '1')}], pool=PJ + ['J4']),
    P('json_re', SEL + ' | json | x=~"^(1|2)$"', [JS, {'k': 'lab', 'f': refilt('x', '=~', ['1', '2'])}]),
    P('json_nre', SEL + ' | json | x!~"^(1|2)$"', [JS, {'k': 'lab', 'f': refilt('x', '!~', ['1', '2'])}]),
    P('json_gt', SEL + ' | json | x > 1', [JS, {'k': 'lab', 'f': nfilt('x', '>', 1)}]),
    P('json_ge', SEL + ' | json | x >= 2', [JS, {'k': 'lab', 'f': nfilt('x', '>=', 2)}]),
    P('json_lt', SEL + ' | json | x < 2', [JS, {'k': 'lab', 'f': nfilt('x', '<', 2)}]),
    P('json_le', SEL + ' | json | x <= 2', [JS, {'k': 'lab', 'f': nfilt('x', '<=', 2)}]),
    P('json_neq', SEL + ' | json | x == 2', [JS, {'k': 'lab', 'f': nfilt('x', '==', 2)}]),
    P('json_nne', SEL + ' | json | x != 2', [JS, {'k': 'lab', 'f': nfilt('x', '!=', 2)}]),
    P('json_or', SEL + ' | json | x="1" or y="b"', [JS, {'k': 'lab', 'f': {'t': 'or', 'a': sfilt('x', '=', '1'), 'b': sfilt('y', '=', 'b')}}]),
    P('json_and', SEL + ' | json | x > 1 and y="a"', [JS, {'k': 'lab', 'f': {'t': 'and', 'a': nfilt('x', '>', 1), 'b': sfilt('y', '=', 'a')}}],
      pool=PJ + ['J11']),
    P('json_paren', SEL + ' | json | (x="1" or x="2") and y="a"',
      [JS, {'k': 'lab', 'f': {'t': 'and', 'a': {'t': 'or', 'a': sfilt('x', '=', '1'), 'b': sfilt('x', '=', '2')}, 'b': sfilt('y', '=', 'a')}}],
      pool=PJ + ['J11']),
    P('json_lf_has', SEL + ' | json |= "NEEDLE"', [JS, {'k': 'line', 'op': '|='}], pool=['J1', 'J2', 'J3', 'J7']),
    # `| json != "x"` / `| json !~ "x"` are parsed by logql_parser as a LABEL filter on a label called json (grammar ambiguity,
    # not this property's subject): a label filter in between keeps the line filter a line filter
    P('json_lf_not', SEL + ' | json | a="b" != "NEEDLE"', [JS, {'k': 'lab', 'f': sfilt('a', '=', 'b')}, {'k': 'line', 'op': '!='}], pool=['J1', 'J2', 'J3', 'J7']),
    P('json_lf_re', SEL + ' | json |~ "NEE+DLE"', [JS, {'k': 'line', 'op': '|~'}], pool=['J1', 'J2', 'J3', 'J7']),
    P('json_lf_nre', SEL + ' | json | a="b" !~ "NEE+DLE"', [JS, {'k': 'lab', 'f': sfilt('a', '=', 'b')}, {'k': 'line', 'op': '!~'}], pool=['J1', 'J2', 'J3', 'J7']),
    P('json_drop', SEL + ' | json | drop x', [JS, {'k': 'drop', 'ls': [{'l': 'x', 'v': ''}]}]),
    P('json_dropv', SEL + ' | json | drop x="1"', [JS, {'k': 'drop', 'ls': [{'l': 'x', 'v': '1'}]}]),
    P('json_drop2', SEL + ' | json | drop y, a', [JS, {'k': 'drop', 'ls': [{'l': 'y', 'v': ''}, {'l': 'a', 'v': ''}]}]),
    P('json_lfmt_ren', SEL + ' | json | label_format z=x', [JS, {'k': 'lfmt', 'ops': [{'t': 'ren', 'l': 'z', 's': 'x', 'c': ''}]}], series=(1, 3)),
    P('json_lfmt_const', SEL + ' | json | label_format z="c"', [JS, {'k': 'lfmt', 'ops': [{'t': 'const', 'l': 'z', 's': '', 'c': 'c'}]}], series=(1, 3)),
    P('json_linefmt', SEL + ' | json | line_format "{{.x}}"', [JS, {'k': 'linefmt', 'l': 'x'}]),
    P('linefmt', SEL + ' | line_format "{{.a}}"', [{'k': 'linefmt', 'l': 'a'}], pool=['J1', 'J4', 'J5']),
    P('linefmt_drop', SEL + ' | line_format "{{.a}}" | drop x', [{'k': 'linefmt', 'l': 'a'}, {'k': 'drop', 'ls': [{'l': 'x', 'v': ''}]}], pool=['J1', 'J4']),
    P('json_jsonp', SEL + ' | json | json q="y"', [JS, {'k': 'jsonp', 'lab': 'q', 'path': 'y'}]),
    P('json_multi', SEL + ' | json | x="1" | drop x | y="a"',
      [JS, {'k': 'lab', 'f': sfilt('x', '=', '1')}, {'k': 'drop', 'ls': [{'l': 'x', 'v': ''}]}, {'k': 'lab', 'f': sfilt('y', '=', 'a')}]),
    P('logfmt', SEL + ' | logfmt', [LF], pool=PF_ALL, spool=PF_ALL),
    P('logfmt_eq', SEL + ' | logfmt | x="1"', [LF, {'k': 'lab', 'f': sfilt('x', '=', '1')}], pool=PF_ALL, spool=PF_ALL),
    P('logfmt_gt', SEL + ' | logfmt | x > 1', [LF, {'k': 'lab', 'f': nfilt('x', '>', 1)}], pool=PF_ALL, spool=PF_ALL),
    P('logfmt_drop_lf', SEL + ' | logfmt | drop y |= "NEEDLE"', [LF, {'k': 'drop', 'ls': [{'l': 'y', 'v': ''}]}, {'k': 'line', 'op': '|='}],
      pool=PF_ALL, spool=PF_ALL),
    # ---- metric queries
    metric('m_rate', ' | json', [JS], agg('rate'), 'rate(%(sel)s [10s])', pool=PJ_M + ['J4']),
    metric('m_count_f', ' | json | x="1"', [JS, {'k': 'lab', 'f': sfilt('x', '=', '1')}], agg('count_over_time'), 'count_over_time(%(sel)s [10s])',
           pool=PJ_M + ['J4']),
    metric('m_bytes', ' | json', [JS], agg('bytes_over_time'), 'bytes_over_time(%(sel)s [10s])'),
    metric('m_bytes_rate', ' | json', [JS], agg('bytes_rate'), 'bytes_rate(%(sel)s [10s])'),
    metric('m_sum_by', ' | json | unwrap x', [JS, UW], agg('sum_over_time', True, by('y')), 'sum_over_time(%(sel)s [10s]) by (y)'),
    metric('m_avg_by', ' | json | unwrap x', [JS, UW], agg('avg_over_time', True, by('y')), 'avg_over_time(%(sel)s [10s]) by (y)'),
    metric('m_min_by', ' | json | unwrap x', [JS, UW], agg('min_over_time', True, by('y')), 'min_over_time(%(sel)s [10s]) by (y)'),
    metric('m_max_by', ' | json | unwrap x', [JS, UW], agg('max_over_time', True, by('y')), 'max_over_time(%(sel)s [10s]) by (y)'),
    metric('m_first_by', ' | json | unwrap x', [JS, UW], agg('first_over_time', True, by('y')), 'first_over_time(%(sel)s [10s]) by (y)'),
    metric('m_last_by', ' | json | unwrap x', [JS, UW], agg('last_over_time', True, by('y')), 'last_over_time(%(sel)s [10s]) by (y)'),
    metric('m_urate_by', ' | json | unwrap x', [JS, UW], agg('rate', True, by('y')), 'rate(%(sel)s [10s]) by (y)'),
    metric('m_sum_without', ' | json | unwrap x', [JS, UW], agg('sum_over_time', True, without('x')), 'sum_over_time(%(sel)s [10s]) without (x)'),
    metric('m_sum_nogrp', ' | json | unwrap x', [JS, UW], agg('sum_over_time', True), 'sum_over_time(%(sel)s [10s])'),
    metric('v_sum_by', ' | json', [JS], agg('count_over_time', vec='sum', vgrp=by('y')), 'sum by (y) (count_over_time(%(sel)s [10s]))'),
    metric('v_sum_without', ' | json', [JS], agg('count_over_time', vec='sum', vgrp=without('x')), 'sum without (x) (count_over_time(%(sel)s [10s]))'),
    metric('v_min_by', ' | json', [JS], agg('count_over_time', vec='min', vgrp=by('y')), 'min by (y) (count_over_time(%(sel)s [10s]))'),
    metric('v_max_by', ' | json', [JS], agg('count_over_time', vec='max', vgrp=by('y')), 'max by (y) (count_over_time(%(sel)s [10s]))'),
    metric('v_avg_by', ' | json', [JS], agg('rate', vec='avg', vgrp=by('y')), 'avg by (y) (rate(%(sel)s [10s]))'),
    metric('v_count_by', ' | json', [JS], agg('count_over_time', vec='count', vgrp=by('y')), 'count by (y) (count_over_time(%(sel)s [10s]))'),
    metric('v_sum_nogrp', ' | json', [JS], agg('count_over_time', vec='sum'), 'sum(count_over_time(%(sel)s [10s]))'),
    metric('m_count_cmp', ' | json', [JS], agg('count_over_time', cmp=('>', 1, 1)), 'count_over_time(%(sel)s [10s]) > 1', pool=PJ_M + ['J4']),
    metric('v_sum_by_cmp', ' | json', [JS], agg('rate', vec='sum', vgrp=by('y'), cmp=('>=', 1, 5)), 'sum by (y) (rate(%(sel)s [10s])) >= 0.2'),
    metric('m_count_logfmt', ' | logfmt', [LF], agg('count_over_time'), 'count_over_time(%(sel)s [10s])', pool=PF_ALL, spool=PF_ALL),
]


def line_table(seed):
    """choose one concrete variant per abstract line; return (tla table rows as dict, concretisation map)"""
    rnd = random.Random(seed * 7919 + 13)
    conc, rows = {}, {}
    values = set([''])
    for s in SERIES:
        values.update(s.values())
    values.add('c')
    for l in JSON_LINES + LOGFMT_LINES:
        for d in (l.get('jf'), l.get('lf')):
            if d:
                values.update(d.values())
    for l in JSON_LINES + LOGFMT_LINES:
        txt = rnd.choice(l['v'])
        conc[l['t']] = txt
        jf, lf = l.get('jf'), l.get('lf')
        rows[l['t']] = {'jok': jf is not None, 'jf': jf or None, 'lok': lf is not None, 'lf': lf or None,
                        'has': NEEDLE in txt, 'len': len(txt.encode())}
    for v in sorted(values):            # lines produced by line_format are label values
        if v in rows:
            raise vlib.Infra('pool token clashes with a value: ' + v)
        if v in conc.values():
            raise vlib.Infra('a pool line equals a label value: ' + v)
        conc[v] = v
        rows[v] = {'jok': False, 'jf': None, 'lok': False, 'lf': None, 'has': NEEDLE in v, 'len': len(v.encode())}
    return rows, conc, sorted(values)


def tla_fn(d):
    """dict -> TLA function with string domain (records need identifier keys; these are arbitrary strings)"""
    if not d:
        return '<<>>'
    return '(' + ' @@ '.join('%s :> %s' % (vlib.tla_value(k), v) for k, v in d.items()) + ')'


def tla_any(v):
    if isinstance(v, dict):
        return '[' + ', '.join('%s |-> %s' % (k, tla_any(x)) for k, x in v.items()) + ']'
    if isinstance(v, (list, tuple)):
        return '<<' + ', '.join(tla_any(x) for x in v) + '>>'
    if isinstance(v, (set, frozenset)):
        return '{' + ', '.join(tla_any(x) for x in sorted(v, key=str)) + '}'
    return vlib.tla_value(v)


def gen_module(seed):
    rows, conc, values = line_table(seed)
    out = ['---- MODULE InProcGen ----', '\\* generated by tools/props/c09.py (seed %d): pool tables and pipelines for InProc.tla' % seed, 'EXTENDS TLC, Integers', '']
    out.append('IPG_Names == ' + tla_any(set(NAMES)))
    lrows = {}
    for t, r in rows.items():
        lrows[t] = '[jok |-> %s, jf |-> %s, lok |-> %s, lf |-> %s, has |-> %s, len |-> %d]' % (
            vlib.tla_value(r['jok']), tla_fn({k: vlib.tla_value(v) for k, v in (r['jf'] or {}).items()}),
            vlib.tla_value(r['lok']), tla_fn({k: vlib.tla_value(v) for k, v in (r['lf'] or {}).items()}),
            vlib.tla_value(r['has']), r['len'])
    out.append('IPG_Line == ' + tla_fn(lrows))
    out.append('IPG_Num == ' + tla_fn({k: str(v) for k, v in NUM.items()}))
    kv = ['<<%s, %s>> :> %s' % (vlib.tla_value(k), vlib.tla_value(v), vlib.tla_value(k + v)) for k in NAMES for v in values if v != '']
    out.append('IPG_KV == (' + ' @@ '.join(kv) + ')')
    out.append('IPG_Series == <<' + ', '.join(tla_fn({k: vlib.tla_value(v) for k, v in s.items()}) for s in SERIES) + '>>')
    out.append('IPG_Grids == ' + tla_any(GRIDS))
    pls = []
    for p in PIPELINES:
        pls.append('[id |-> %s, st |-> %s, agg |-> %s, pool |-> %s, pool0 |-> %s, series |-> %s]' % (
            vlib.tla_value(p['id']), tla_any(p['st']), tla_any(p['agg']), tla_any(set(p['pool'])), vlib.tla_value(sorted(p['pool'])[0]),
            tla_any(set(p['series']))))
    out.append('IPG_Pipelines == <<\n  ' + ',\n  '.join(pls) + '\n>>')
    out.append('====')
    return '\n'.join(out) + '\n', conc



# ---------------------------------------------------------------------------------------------------------------
# cases for the export: exhaustive small ones and seeded larger ones
# ---------------------------------------------------------------------------------------------------------------
def cuts(n, maxmsgs):
    """all sequences of message sizes (zeros allowed) of length <= maxmsgs with sum n"""
    out = []

    def rec(prefix, left, k):
        if k == 0:
            if left == 0:
                out.append(list(prefix))
            return
        for x in range(left + 1):
            rec(prefix + [x], left - x, k - 1)
    for k in range(0 if n == 0 else 1, maxmsgs + 1):
        rec([], n, k)
    return out


def rand_cut(rnd, n):
    cut = []
    left = n
    while left > 0:
        if rnd.random() < 0.2:
            cut.append(0)
            continue
        k = rnd.randint(1, left)
        cut.append(k)
        left -= k
    if rnd.random() < 0.25:
        cut.append(0)
    return cut


def is_metric(p):
    return p['agg']['fn'] != ''


def gen_cases(tier, seed):
    rnd = random.Random(seed * 104729 + 7)
    cases = []

    def add(pi, es, cut, eof, lim, fwd):
        n = len(es)
        # the same entries under two more partitions: one message; one entry per message with empty messages between
        alts = [[n], [x for _ in range(n) for x in (1, 0)]] if n > 0 else [[0, 0]]
        cases.append({'id': 'c%05d' % len(cases), 'pl': pi + 1, 'es': es, 'cut': cut, 'alts': alts, 'eof': eof, 'lim': lim, 'fwd': fwd})

    span = DUR * WINDOWS
    # (0) directed cases: one small witness per as-coded switch of the specification, whatever the seed
    pidx = {p['id']: i for i, p in enumerate(PIPELINES)}
    S1, S2, S3 = SERIES

    def E(lb, ts, ln):
        return {'lb': lb, 'ts': ts, 'ln': ln}
    for pid, es, cut, eof, lim, fwd in [
        ('json', [E(S1, 1, 'J1'), E(S1, 2, 'J2')], [1, 1], True, 0, True),                      # limit0
        ('json', [E(S1, 1, 'J1'), E(S1, 2, 'J4'), E(S1, 3, 'J2')], [1, 2], True, 7, True),      # parse_abort
        ('json', [E(S1, 1, 'J1'), E(S1, 2, 'J5'), E(S1, 3, 'J2')], [2, 1], False, 7, True),
        ('json_eq', [E(S1, 1, 'J1'), E(S1, 2, 'J4'), E(S1, 3, 'J1')], [1, 2], True, 7, True),   # + marker_eval: swallowed
        ('logfmt', [E(S1, 1, 'F1'), E(S1, 2, 'F4'), E(S1, 3, 'F2')], [1, 2], True, 7, True),
        ('json', [E(S1, 1, 'J1'), E(S1, 2, 'J12')], [2], True, 7, True),                        # empty_label
        ('m_rate', [E(S1, 1, 'J12'), E(S1, 2, 'J1')], [1, 1], True, 0, True),
        ('json', [E(S1, 1, 'JC1'), E(S1, 2, 'JC2')], [2], True, 7, True),                       # fp_concat
        ('m_rate', [E(S1, 1, 'JC1'), E(S1, 2, 'JC2')], [1, 1], True, 0, True),
        ('json_lfmt_ren', [E(S3, 1, 'J7'), E(S1, 2, 'J1')], [2], False, 7, True),               # lfmt_src
        ('json_lfmt_ren', [E(S3, 1, 'J1'), E(S1, 2, 'J1')], [2], False, 7, True),               # fp_stale
        ('linefmt_drop', [E(S1, 1, 'J1'), E(S2, 2, 'J1')], [1, 1], True, 7, True),
        ('json_lfmt_const', [E(S1, 1, 'J1')], [1], True, 7, True),                              # lfmt_nil
        ('json_lfmt_const', [E(S1, 1, 'J1')], [1], False, 7, True),
        ('m_min_by', [E(S1, 1, 'J1'), E(S1, 2, 'J11'), E(S1, 3, 'J10')], [2, 1], True, 0, True),    # min_is_max
        ('m_first_by', [E(S1, 1, 'J10'), E(S1, 2, 'J1'), E(S1, 3, 'J11')], [3], True, 0, True),     # first_nonzero
        ('m_first_by', [E(S1, 3, 'J11'), E(S1, 2, 'J1')], [1, 1], True, 0, False),
        ('m_last_by', [E(S1, 3, 'J11'), E(S1, 2, 'J1')], [1, 1], True, 0, False),                   # last_arrival
        ('m_last_by', [E(S1, 2, 'J1'), E(S1, 3, 'J11')], [2], True, 0, True),
        ('m_avg_by', [E(S1, 1, 'J1'), E(S1, 2, 'J7'), E(S1, 3, 'J11')], [2, 1], True, 0, True),     # unwrap_zero: label missing
        ('m_min_by', [E(S1, 1, 'J2'), E(S1, 2, 'J8')], [1, 1], True, 0, True),                      #              label not a number
        ('m_sum_nogrp', [E(S1, 1, 'J7')], [1], True, 0, True),                                      #              nothing left
        ('v_sum_nogrp', [E(S1, 1, 'J1'), E(S1, 2, 'J2'), E(S2, 3, 'J7')], [2, 1], True, 0, True),   # vec_nogrp
    ]:
        add(pidx[pid], es, cut, eof, lim, fwd)
    for pi, p in enumerate(PIPELINES):
        lims = [0] if is_metric(p) else [0, 1, 2, 7]
        series = [SERIES[i - 1] for i in p['series']]
        # (1) every single-entry case over the whole sampling pool, every partition into <= 2 messages
        for t in p['spool']:
            sr = rnd.choice(series)
            for cut in (cuts(1, 2) if tier != 'quick' else [rnd.choice(cuts(1, 2))]):
                eof = rnd.random() < 0.7
                add(pi, [{'lb': sr, 'ts': rnd.randrange(span), 'ln': t}], cut, eof, rnd.choice(lims), True)
        # the empty stream
        add(pi, [], [], True, 0, True)
        add(pi, [], [0], False, rnd.choice(lims), True)
        # (2) seeded larger cases
        nrand = (12 if tier == 'quick' else 120)
        for _ in range(nrand):
            n = rnd.choice([2, 2, 3, 3, 4, 5] if tier == 'quick' else [2, 3, 3, 4, 4, 5, 6, 7])
            fwd = rnd.random() < 0.5
            tss = sorted(rnd.sample(range(span), n), reverse=not fwd)
            # mostly decodable lines, so that cases exercise the stages and not only the abort
            pool = p['spool']
            okpool = [t for t in pool if (t in PJ_OK or (t.startswith('F') and t != 'F4'))] or pool
            usepool = okpool if rnd.random() < 0.7 else pool
            es = [{'lb': rnd.choice(series), 'ts': tss[i], 'ln': rnd.choice(usepool)} for i in range(n)]
            add(pi, es, rand_cut(rnd, n), rnd.random() < 0.75, rnd.choice(lims), fwd)
    return cases


def ragged_cut(rnd, n):
    """message sizes of every kind: empty, single entries, around the getter batch, several batches at once"""
    cut, left = [], n
    while left > 0:
        r = rnd.random()
        k = 0 if r < 0.08 else 1 if r < 0.16 else rnd.choice([BATCH - 1, BATCH, BATCH + 1]) if r < 0.5 else rnd.randint(2, 4 * BATCH)
        k = min(k, left)
        cut.append(k)
        left -= k
    return cut


def gen_long_cases(tier, seed):
    """Upstream scripts long enough to cross the grains of the chain as built (InProc!IP_AsBuilt), drawn from the witness
    class of InProcMem.tla (a script longer than the flush threshold with a series that has entries on both sides of the
    flush) and its border: one series / several series that go on, a series that ends before and one that begins after the
    flush, the exact thresholds, a limit inside, a selecting stage with its own buffer, the series bound of the aggregators.
    The main partition is the getter's (batches of BATCH rows, the rest with the end marker) unless stated; every case is
    replayed under two more partitions (one message; ragged)."""
    rnd = random.Random(seed * 15485863 + 11)
    pidx = {p['id']: i for i, p in enumerate(PIPELINES)}
    S1, S2, S3 = SERIES          # (S1 and S2 differ in x only: `| json` makes them one series on lines that carry x)
    LATE = {'a': 'b', 'z': 'late'}
    cases = []

    def add(lclass, pid, es, lim=0, fwd=True, getter=True, cut=None):
        n = len(es)
        for i, e in enumerate(es):
            if 'ts' not in e:
                e['ts'] = i if fwd else n - 1 - i
        alts = [[n], ragged_cut(rnd, n)]
        if not getter:
            alts[1] = [BATCH] * (n // BATCH) + [n % BATCH]
        cases.append({'id': 'L%02d' % len(cases), 'pl': pidx[pid] + 1, 'es': es, 'cut': cut or [], 'getter': getter, 'alts': alts,
                      'eof': True, 'lim': lim, 'fwd': fwd, 'lclass': lclass})

    def lines(pid):
        pool = PIPELINES[pidx[pid]]['spool']
        return [t for t in pool if (t in PJ_OK or (t.startswith('F') and t != 'F4'))]

    def runs(series, n, maxrun=40):
        """n entries over the series in runs of random length"""
        out = []
        while len(out) < n:
            out += [rnd.choice(series)] * rnd.randint(1, maxrun)
        return out[:n]

    # one series that goes on after the flush
    pid = rnd.choice(['json', 'logfmt', 'json_drop'])
    n = FLUSH + rnd.randint(1, 7 * BATCH)
    add('one-series-continues', pid, [{'lb': S1, 'ln': rnd.choice(lines(pid))} for _ in range(n)], fwd=rnd.random() < 0.5)
    # several series that all go on, a limit beyond the result
    pid = rnd.choice(['json', 'json_lfmt_ren', 'json_drop2'])
    n = FLUSH + rnd.randint(BATCH, 6 * BATCH)
    add('several-series-continue', pid, [{'lb': sr, 'ln': rnd.choice(lines(pid))} for sr in runs([S1, S2, S3, LATE], n)], lim=n + 1000)
    # a filter in front: one series ends before the flush, one begins after it, one goes on; > FLUSH entries pass
    n = FLUSH + 6 * BATCH
    es = []
    for i in range(n):
        sr = rnd.choice([S1, S3]) if i < 2 * FLUSH // 3 else S1 if i < n - 2 * BATCH else rnd.choice([S1, LATE])
        es.append({'lb': sr, 'ln': 'J2' if rnd.random() < 0.08 else rnd.choice(['J1', 'J12'])})
    add('series-end-begin-continue', 'json_eq', es, fwd=rnd.random() < 0.5)
    # the exact threshold: FLUSH - 1 entries and the end marker / FLUSH entries, then the marker alone
    for n in ([FLUSH - 1, FLUSH] if tier != 'quick' else [rnd.choice([FLUSH - 1, FLUSH])]):
        pid = rnd.choice(['json', 'logfmt'])
        add('exact-threshold', pid, [{'lb': sr, 'ln': rnd.choice(lines(pid))} for sr in runs([S1, S3], n, 900)])
    # a limit inside a script that is longer
    for lim in ([FLUSH, FLUSH + 1, FLUSH + BATCH] if tier != 'quick' else [rnd.choice([FLUSH, FLUSH + 1, FLUSH + BATCH])]):
        n = FLUSH + 6 * BATCH
        add('limit-inside', 'json', [{'lb': sr, 'ln': rnd.choice(lines('json'))} for sr in runs([S1, S3], n)], lim=lim)
    # a selecting stage with a buffer of its own in front (line_format), ragged messages
    pid = rnd.choice(['linefmt', 'json_linefmt'])
    n = FLUSH + rnd.randint(1, 3 * BATCH)
    add('selecting-stage-buffer', pid, [{'lb': sr, 'ln': rnd.choice(lines(pid))} for sr in runs([S1, S3], n)], getter=False,
        cut=ragged_cut(rnd, n))
    # the aggregators hold their series over every message: a long script, and the series bound on both sides
    span = DUR * WINDOWS
    pid = rnd.choice(['m_rate', 'm_sum_by', 'v_sum_by'])
    n = FLUSH + 3 * BATCH
    add('aggregation-over-many-messages', pid, [{'lb': sr, 'ln': rnd.choice(['J1', 'J2', 'J10', 'J11']), 'ts': i * span // n}
                                                for i, sr in enumerate(runs([S1, S3], n))])
    for n in (CAP, CAP + 1):
        es = [{'lb': {'a': 'b', 'z': 's%04d' % i}, 'ln': 'J7', 'ts': i * span // n} for i in range(n)]
        add('series-bound', 'm_rate', es)
    if tier != 'quick':
        n = 2 * FLUSH + rnd.randint(1, 2 * BATCH)
        add('two-flushes', 'json', [{'lb': sr, 'ln': rnd.choice(lines('json'))} for sr in runs([S1, S3], n, 500)])
    return cases


EXPORT_CFG = 'SPECIFICATION Spec\nCHECK_DEADLOCK FALSE\n'

THM_CFG = '''SPECIFICATION Spec
CONSTANTS
  MaxN = %(maxn)d
  MaxMsgs = %(maxmsgs)d
  Pls = %(pls)s
  Lims = %(lims)s
  Flushes = %(flushes)s
  Caps = %(caps)s
INVARIANTS Thm_BatchingIndependent Thm_LimitMeaning Thm_SeriesIdentity Thm_FlushInvisible Thm_GetterCut
CHECK_DEADLOCK FALSE
'''

MEM_CFG = '''SPECIFICATION Spec
CONSTANTS
  Series = {"A", "B"}
  MaxLen = %(maxlen)d
  Batch = %(batch)d
  Flush = %(flush)d
  Reuse = %(reuse)s
  MaxBufs = 32
INVARIANTS %(invs)s
CHECK_DEADLOCK FALSE
'''


def tlc_thm(gen_path, maxn, maxmsgs, lims, timeout, workers, pls=None, flushes='{0}', caps='{0}'):
    """MC_InProc over the pipelines pls (ids; None = all) with the grains flushes / caps"""
    sd = vlib.scratch('c09thm')
    try:
        cfgp = os.path.join(sd, 'MC_InProc_run.cfg')
        pidx = {p['id']: i + 1 for i, p in enumerate(PIPELINES)}
        plset = sorted(pidx[x] for x in pls) if pls else list(range(1, len(PIPELINES) + 1))
        open(cfgp, 'w').write(THM_CFG % {'maxn': maxn, 'maxmsgs': maxmsgs, 'pls': '{' + ', '.join(map(str, plset)) + '}', 'lims': lims,
                                         'flushes': flushes, 'caps': caps})
        res = vlib.tlc(SPECDIR, 'MC_InProc.tla', 'MC_InProc_run.cfg', workers=workers, timeout=timeout, copy_extra=[cfgp, gen_path])
        try:
            if res['violated']:
                raise vlib.Infra('C09 theorem violated on the specification itself (%s): the spec is wrong, not the code\n%s'
                                 % (res['violated'], res['out'][-3000:]))
            if not res.get('finished') or 'No error has been found' not in res['out']:
                raise vlib.Infra('TLC did not finish MC_InProc:\n' + res['out'][-2000:])
            # vacuity (-coverage makes this model 20x slower): both actions were taken iff the search went three levels deep, and
            # every pipeline must have contributed complete cases
            m = re.search(r'The depth of the complete state graph search is (\d+)', res['out'])
            if not m or int(m.group(1)) != 3 or res.get('distinct', 0) < 100 * len(plset):
                raise vlib.Infra('vacuous theorem run: depth %s, %s states' % (m and m.group(1), res.get('distinct')))
            return {'states': res.get('distinct', 0), 'generated': res.get('generated', 0), 'wall_s': round(res['wall'], 1)}
        finally:
            vlib.tlc_cleanup(res)
    finally:
        shutil.rmtree(sd, ignore_errors=True)


def tlc_export(gen_path, cases, timeout):
    """evaluate the spec on the cases; returns list of outputs in case order"""
    sd = vlib.scratch('c09exp')
    try:
        cp = os.path.join(sd, 'c09_cases.ndjson')
        with open(cp, 'w') as f:
            for c in cases:
                f.write(json.dumps(c) + '\n')
        cfgp = os.path.join(sd, 'MC_InProcExport.cfg')
        open(cfgp, 'w').write(EXPORT_CFG.replace('\\n', '\n'))
        res = vlib.tlc(SPECDIR, 'MC_InProcExport.tla', 'MC_InProcExport.cfg', workers=1, timeout=timeout, copy_extra=[cfgp, gen_path, cp])
        try:
            op = os.path.join(res['scratch'], 'c09_out.json')
            if not os.path.exists(op):
                raise vlib.Infra('TLC export produced no output:\n' + res['out'][-3000:])
            outs = json.load(open(op))
            if len(outs) != len(cases):
                raise vlib.Infra('TLC export: %d outputs for %d cases' % (len(outs), len(cases)))
            return outs, res['wall']
        finally:
            vlib.tlc_cleanup(res)
    finally:
        shutil.rmtree(sd, ignore_errors=True)


def tlc_mem(tier):
    """InProcMem.tla: the design keeps OwnWrites / DeliveredStable / ExactlyOnce; a stage that re-uses a sent array breaks
    OwnWrites; the holding stage breaks DeliveredStable, and only on scripts of the witness class.  A run that does not
    come out like this means the model (or its sensitivity) is broken: infrastructure."""
    dims = {'maxlen': 5 if tier == 'quick' else 6, 'batch': 2, 'flush': 3}
    runs = [('{}', 'TypeOK OwnWrites DeliveredStable ExactlyOnce RereadEqualsReceived', None),
            ('{"opt"}', 'DeliveredStable', 'DeliveredStable'),
            ('{"opt"}', 'TypeOK Witness ExactlyOnce', None),
            ('{"get"}', 'OwnWrites', 'OwnWrites'),
            ('{"sel"}', 'OwnWrites', 'OwnWrites')]
    out = {'states': 0, 'runs': []}
    sd = vlib.scratch('c09mem')
    try:
        for k, (reuse, invs, expect) in enumerate(runs):
            cfgp = os.path.join(sd, 'MC_InProcMem_%d.cfg' % k)
            open(cfgp, 'w').write(MEM_CFG % dict(dims, reuse=reuse, invs=invs))
            res = vlib.tlc(SPECDIR, 'InProcMem.tla', os.path.basename(cfgp), workers=2, timeout=120, copy_extra=[cfgp])
            try:
                viol = res['violated']
                if expect is None and (viol or 'No error has been found' not in res['out']):
                    raise vlib.Infra('InProcMem Reuse=%s: %s violated / not finished - the memory model is wrong\n%s' % (reuse, viol, res['out'][-2500:]))
                if expect is not None and expect not in viol:
                    raise vlib.Infra('InProcMem Reuse=%s: %s holds - the model cannot tell re-use from a fresh array (vacuous)' % (reuse, expect))
                if expect is None and reuse == '{}':
                    if res.get('distinct', 0) < 1000:
                        raise vlib.Infra('InProcMem: only %s states' % res.get('distinct'))
                    out['states'] = res.get('distinct', 0)
                    out['transitions'] = res.get('generated', 0)
                out['runs'].append({'reuse': reuse, 'invariants': invs, 'violated': viol, 'states': res.get('distinct', 0)})
            finally:
                vlib.tlc_cleanup(res)
        out['bounds'] = dims
        return out
    finally:
        shutil.rmtree(sd, ignore_errors=True)


def tlc_long(gen_path, cases, timeout, par=4):
    """MC_InProcLong on the long cases, one TLC per case, `par` at a time; returns the outputs in case order"""
    import threading
    outs = [None] * len(cases)
    errs = []
    walls = []
    sem = threading.Semaphore(par)

    def work(k):
        with sem:
            sd = vlib.scratch('c09long')
            try:
                cp = os.path.join(sd, 'c09_long.ndjson')
                open(cp, 'w').write(json.dumps(cases[k]) + '\n')
                cfgp = os.path.join(sd, 'MC_InProcLong.cfg')
                open(cfgp, 'w').write(EXPORT_CFG)
                res = vlib.tlc(SPECDIR, 'MC_InProcLong.tla', 'MC_InProcLong.cfg', workers=1, timeout=timeout, copy_extra=[cfgp, gen_path, cp])
                try:
                    op = os.path.join(res['scratch'], 'c09_long_out.json')
                    if not os.path.exists(op):
                        raise vlib.Infra('TLC long export produced no output for %s:\n%s' % (cases[k]['id'], res['out'][-3000:]))
                    o = json.load(open(op))
                    if len(o) != 1 or o[0]['id'] != cases[k]['id']:
                        raise vlib.Infra('TLC long export: unexpected output for %s' % cases[k]['id'])
                    outs[k] = o[0]
                    walls.append(res['wall'])
                finally:
                    vlib.tlc_cleanup(res)
            except BaseException as e:  # noqa
                errs.append(e)
            finally:
                shutil.rmtree(sd, ignore_errors=True)
    ts = [threading.Thread(target=work, args=(k,)) for k in range(len(cases))]
    for t in ts:
        t.start()
    for t in ts:
        t.join()
    if errs:
        raise errs[0]
    return outs, max(walls or [0])


def export_sharded(gen_path, cases, shards, timeout):
    import threading
    outs = [None] * shards
    errs = []
    walls = []
    per = (len(cases) + shards - 1) // shards

    def work(k):
        try:
            part = cases[k * per:(k + 1) * per]
            if part:
                o, w = tlc_export(gen_path, part, timeout)
                outs[k] = o
                walls.append(w)
            else:
                outs[k] = []
        except BaseException as e:  # noqa
            errs.append(e)
    ts = [threading.Thread(target=work, args=(k,)) for k in range(shards)]
    for t in ts:
        t.start()
    for t in ts:
        t.join()
    if errs:
        raise errs[0]
    return [o for part in outs for o in part], max(walls or [0])


def obs_json(o):
    """TLC's result record -> plain JSON for the driver (labels without the absent ones)"""
    return {'k': o['k'], 'streams': [{'lb': {k: v for k, v in st['lb'].items() if v not in ('', EMPTY)}, 'vals': st['vals']} for st in o['streams']]}


def canon(o):
    return (o['k'], sorted((sorted(st['lb'].items()), json.dumps(st['vals'])) for st in o['streams']))


def chain_casefile(cases, outs, conc, seed):
    cs = []
    for c, o in zip(cases, outs):
        if c['id'] != o['id']:
            raise vlib.Infra('export out of order: %s vs %s' % (c['id'], o['id']))
        p = PIPELINES[c['pl'] - 1]
        exp, preds = obs_json(o['exp']), [obs_json(x) for x in o['preds']]
        # a prediction that differs from the expectation only by labels with the empty value is no observable difference
        agree = all(canon(x) == canon(exp) for x in preds)
        cs.append({'id': c['id'], 'pid': p['id'], 'q': p['q'], 'metric': is_metric(p), 'es': c['es'], 'cut': c['cut'], 'eof': c['eof'],
                   'alts': c['alts'], 'lim': c['lim'], 'fwd': c['fwd'], 'exp': exp, 'preds': preds,
                   'agree': agree, 'causes': [] if agree else sorted(o['causes']),
                   # what the chain would return had it regressed to a repaired deviation (InProc!IP_Retired)
                   'regress': {r['q']: [obs_json(x) for x in r['preds']] for r in o.get('regress') or []
                               if any(canon(obs_json(x)) != canon(y) for x, y in zip(r['preds'], preds))}})
    return {'conc': conc, 'dur_s': DUR, 'windows': WINDOWS, 'seed': seed, 'cases': cs}


def long_casefile_entries(lcases, louts):
    cs = []
    for c, o in zip(lcases, louts):
        p = PIPELINES[c['pl'] - 1]
        exp, pred = obs_json(o['exp']), obs_json(o['pred'])
        agree = canon(pred) == canon(exp)
        cs.append({'id': c['id'], 'pid': p['id'], 'q': p['q'], 'metric': is_metric(p), 'es': c['es'], 'cut': o['cut'], 'eof': c['eof'],
                   'alts': c['alts'], 'lim': c['lim'], 'fwd': c['fwd'], 'exp': exp, 'preds': [pred], 'agree': agree,
                   'causes': [] if agree else sorted(o['causes']), 'regress': {}, 'long': True, 'lclass': c['lclass'],
                   'merged': not is_metric(p), 'sizes': o['sizes'], 'again': o['again']})
    return cs


# what each switch of the specification stands for (for the violation messages); all but marker_eval are RETIRED switches
# (InProc!IP_Retired): the code was repaired, the text describes the regression a result matching the switch means
QUIRK_TEXT = {
    'limit0': 'LimitPlanner (planner_limit.go:17) forwards nothing when ctx.Limit is 0; on the SQL side (planner_main_limit.go:18) 0 means no limit, '
              'and query_range without a limit parameter passes 0',
    'parse_abort': 'a line the json/logfmt parser cannot decode (malformed, non-object) terminates the whole stream with an error entry '
                   '(planner_parser.go:62-66, planner_generic.go:36-40); the SQL engine keeps such lines',
    'marker_eval': 'label filter / comparison evaluate the error entry (nil labels, value 0) like data and drop it: the error is swallowed and the '
                   'truncated result is returned as a success',
    'lfmt_nil': 'label_format z="const" assigns into the nil label map of the end-marker entry: panic; WrapProcess defers '
                'func(){TamePanic(out)} whose recover() is not in the deferred frame, so the reader process dies',
    'lfmt_src': 'label_format z=x with x absent leaves z untouched (planner_label_format.go:37); the SQL engine assigns the empty value',
    'fp_concat': 'hash.go fingerprint hashes k+v without a separator: label sets with equal concatenations are one series',
    'fp_stale': 'drop recomputes the fingerprint only when it removed something and label_format never does: equal label sets end up with '
                'different fingerprints (stored series fingerprint vs hash.go), one series is split',
    'empty_label': 'a JSON/logfmt field with the empty value becomes a label with the empty value that takes part in the fingerprint '
                   '(planner_parser_json.go:33): one label set - an empty label is no label - is split in two series',
    'min_is_max': 'min_over_time uses the comparison of max_over_time (planner_unwrap_agg.go:39)',
    'first_nonzero': 'first_over_time takes the first NON-ZERO value in arrival order (planner_unwrap_agg.go:44), not the value with the smallest timestamp',
    'unwrap_zero': 'unwrap forwards an entry whose label is missing or not a number with the value 0 (planner_unwrap.go): a zero sample in '
                   'sum/avg/min/max/first/last_over_time; the SQL engine drops such entries (isNotNull(toFloat64OrNull(..)))',
    'vec_nogrp': 'a vector aggregation without by/without gets no grouping stage (planner.go planAggregators): the series stay apart; the SQL '
                 'engine plans it as "by ()" and returns the one series without labels',
    'last_arrival': 'last_over_time takes the last value in arrival order (planner_unwrap_agg.go:49); entries arrive newest first unless direction=forward',
}


def chain_violations(cf, res):
    """one violation per confirmed as-coded deviation (cause), with the smallest failing case as the replay; mismatches the
    transcription does not predict get a signature of their own (pipeline + structural kind of difference)"""
    byid = {c['id']: c for c in cf['cases']}
    groups = {}
    for m in res.get('mismatches') or []:
        c = byid[m['id']]
        kinds = '+'.join(m.get('diff_kinds') or [m.get('kind', '?')])
        if m.get('kind') == 'rewritten':
            # InProcMem!DeliveredStable: the stage that sent the message wrote into it afterwards
            groups.setdefault('C09/inproc/sent-message-rewritten/' + (m.get('rew_stage') or '?'), []).append((0, len(c['es']), m, c, kinds))
        elif c['causes'] and m.get('match_pred'):
            for q in c['causes']:
                groups.setdefault('C09/inproc/' + q, []).append((len(c['causes']), len(c['es']), m, c, kinds))
        elif m.get('match_retired'):
            # the chain did exactly what a repaired deviation used to do: reported under that deviation's signature
            groups.setdefault('C09/inproc/' + m['match_retired'], []).append((1, len(c['es']), m, c, kinds))
        else:
            groups.setdefault('C09/inproc/unpredicted/' + c['pid'] + '/' + kinds, []).append((0, len(c['es']), m, c, kinds))
    out = []
    for sig, lst in sorted(groups.items()):
        lst.sort(key=lambda x: (x[0], x[1], x[3]['id']))
        _, n, m, c, kinds = lst[0]
        q = sig.split('/')[-1]
        why = QUIRK_TEXT.get(q, 'the transcription of the code in InProc.tla does not predict this result')
        if m.get('match_retired'):
            why = 'REGRESSION to a repaired deviation: ' + why
        ups = [{'labels': e['lb'], 'ts_s': e['ts'], 'line': cf['conc'].get(e['ln'], e['ln'])} for e in c['es']]
        allkinds = sorted(set(x[4] for x in lst))
        if m.get('kind') == 'rewritten':
            rw = m['rewritten'][0]
            replay = vlib.save_replay('C09', re.sub(r'[^A-Za-z0-9_+-]+', '_', sig)[:150],
                                      {'signature': sig, 'query': c['q'], 'limit': c['lim'], 'forward': c['fwd'], 'eof_marker': c['eof'],
                                       'partition': m.get('rew_cut'), 'upstream_entries': ups, 'class': c.get('lclass'),
                                       'sending_stage': m.get('rew_stage'), 'plan': m.get('plan'), 'rewritten_messages': m['rewritten'],
                                       'read_on_receipt': m.get('obs'), 'read_again_after_the_chain_finished': m.get('reread_obs'),
                                       'cases_with_this_signature': len(lst), 'conc': cf['conc'], 'seed': cf['seed']})
            out.append({'property': 'C09', 'signature': sig,
                        'msg': '%s (limit=%d, %d upstream entries in %d messages): message %d (%d entries) that the consumer had received from %s '
                               'read differently when read again after the chain had finished - %d of its entries changed, the first (index %d) from '
                               '%s to %s; %d messages changed [%d cases: %s] - a stage wrote into a message it had already sent '
                               '(InProcMem.tla DeliveredStable): a consumer still busy with the message loses entries and sees others twice'
                               % (c['q'], c['lim'], len(c['es']), len(m.get('rew_cut') or []), rw['msg'], rw['size'], m.get('rew_stage'),
                                  rw['changed'], rw['first'], short_entry(rw['was']), short_entry(rw['now']), len(m['rewritten']), len(lst),
                                  ', '.join(sorted(set(x[3].get('lclass') or 'short' for x in lst)))),
                        'replay': replay})
            continue
        replay = vlib.save_replay('C09', re.sub(r'[^A-Za-z0-9_+-]+', '_', sig)[:150],
                                  {'signature': sig, 'query': c['q'], 'limit': c['lim'], 'forward': c['fwd'], 'eof_marker': c['eof'],
                                   'partition': c['cut'], 'upstream_entries': ups, 'expected': c['exp'], 'predicted_as_coded': c['preds'][0],
                                   'observed': m.get('obs'), 'observed_other_partitions': m.get('part_obs'), 'other_partitions': m.get('part_cuts'),
                                   'plan': m.get('plan'), 'stderr': m.get('stderr'), 'causes': c['causes'], 'cases_with_this_signature': len(lst),
                                   'kinds_of_difference': allkinds,
                                   'case': c if not c.get('long') else {k: v for k, v in c.items() if k not in ('es', 'exp', 'preds')},
                                   'conc': cf['conc'], 'dur_s': cf['dur_s'], 'windows': cf['windows'],
                                   'seed': cf['seed']})
        obs = m.get('obs') or {}
        out.append({'property': 'C09', 'signature': sig,
                    'msg': '%s (limit=%d, %d upstream entries in messages %s%s): expected %s, the real chain gave %s%s [%d cases; %s] - %s'
                           % (c['q'], c['lim'], len(c['es']), c['cut'], ' + end marker' if c['eof'] else '', short_obs(c['exp']),
                              short_obs(obs), ' (other partitions of the same entries give other results)' if m.get('part_obs') else '',
                              len(lst), ', '.join(allkinds), why),
                    'replay': replay})
    return out


def short_entry(e):
    return '{%s}@%s %r%s' % (','.join('%s=%s' % kv for kv in sorted((e.get('labels') or {}).items())), e.get('ts_ns'),
                             (e.get('line') or '')[:40], (' err=' + e['err']) if e.get('err') else '')


def short_obs(o):
    if not o:
        return '?'
    if o.get('k') != 'ok':
        return o.get('k', '?') + ((': ' + o['err'][:80]) if o.get('err') else '')
    ss = []
    for st in o.get('streams') or []:
        lb = st.get('lb', st.get('labels', {}))
        if 'vals' in st:
            vals = ['%s@%s' % ('/'.join(str(x) for x in v[1:]), v[0]) for v in st['vals'][:8]] + (['.. %d values' % len(st['vals'])] if len(st['vals']) > 8 else [])
        else:
            vs = st.get('lines') or st.get('values') or []
            vals = ['%s@%s' % (vs[i], st['ts'][i]) for i in range(min(len(vs), len(st['ts']), 8))] + (['.. %d values' % len(st['ts'])] if len(st['ts']) > 8 else [])
        ss.append('{%s}[%s]' % (','.join('%s=%s' % kv for kv in sorted(lb.items())), ' '.join(vals)))
    return 'ok ' + ' '.join(sorted(ss)) if ss else 'ok (empty)'


def run(tier):
    import threading
    import time
    seed = vlib.seed()
    quick = tier == 'quick'
    t0 = time.time()
    sd = vlib.scratch('c09')
    try:
        gen_text, conc = gen_module(seed)
        gen_path = os.path.join(sd, 'InProcGen.tla')
        open(gen_path, 'w').write(gen_text)
        cases = gen_cases(tier, seed)
        lcases = gen_long_cases(tier, seed)

        box = {}
        errs = []

        def guard(name, fn, *a):
            def w():
                try:
                    box[name] = fn(*a)
                except BaseException as e:  # noqa
                    errs.append(e)
            t = threading.Thread(target=w)
            t.start()
            return t

        ncpu = os.cpu_count() or 4
        # the theorem on the specification, the export, and the build run side by side
        def grain_thms():
            # the small grains: longer scripts and more messages over a few pipelines (a per-entry stage with the selecting stage
            # line_format in front of limit and optimizer; aggregations under the series bound)
            a = tlc_thm(gen_path, 3, 3, '{0, 2}', 150 if quick else 840, 3 if quick else max(2, ncpu // 4),
                        pls=GRAIN_PLS_Q if quick else GRAIN_PLS, flushes='{1, 2}' if quick else '{1, 2, 3}')
            b = tlc_thm(gen_path, 2 if quick else 3, 2, '{0}', 150 if quick else 840, 2 if quick else max(2, ncpu // 4),
                        pls=CAP_PLS, caps='{1, 2}')
            return {'flush': a, 'cap': b}

        th = [guard('thm', tlc_thm, gen_path, 2 if quick else 3, 2, '{0, 1, 3}' if quick else '{0, 1, 2, 4}', 150 if quick else 840, max(2, ncpu // 2)),
              guard('grain', grain_thms),
              guard('mem', tlc_mem, tier),
              guard('exp', export_sharded, gen_path, cases, 3 if quick else 6, 80 if quick else 600),
              guard('long', tlc_long, gen_path, lcases, 150 if quick else 600, 5),
              guard('bin', vlib.go_build, 'cmd/c09', 'c09')]
        for t in th:
            t.join()
        if errs:
            raise errs[0]
        outs, exp_wall = box['exp']
        binp = box['bin']
        louts, long_wall = box['long']
        bad = [o['id'] for o in outs + louts if not o['thm']]
        if bad:
            raise vlib.Infra('the design violates the theorem on exported cases %s: the specification is wrong' % bad[:5])

        cf = chain_casefile(cases, outs, conc, seed)
        lcs = long_casefile_entries(lcases, louts)
        cf['cases'] += lcs
        # vacuity of the long scripts on the specification: some must be predicted to cross the flush with a series that goes on
        # (a fingerprint comes in a second message), one must be refused by the series bound and its neighbour not
        crossing = [c['id'] for c in lcs if not c['metric'] and c['again'] > 0]
        refused = [c['id'] for c in lcs if c['lclass'] == 'series-bound' and c['exp']['k'] == 'error']
        accepted = [c['id'] for c in lcs if c['lclass'] == 'series-bound' and c['exp']['k'] == 'ok' and len(c['exp']['streams']) == CAP]
        if len(crossing) < 2 or not refused or not accepted:
            raise vlib.Infra('vacuous long scripts: crossing the flush %s, refused by the series bound %s, accepted at the bound %s'
                             % (crossing, refused, accepted))
        cfp = os.path.join(sd, 'chain_cases.json')
        json.dump(cf, open(cfp, 'w'))
        resp = os.path.join(sd, 'chain_res.json')
        env = dict(os.environ)
        env['TZ'] = 'UTC'
        crossp = os.path.join(sd, 'cross_res.json')
        curp = os.path.join(sd, 'cross_current.txt')

        def run_chain():
            r = vlib.run_cmd([binp, 'chain', '-cases', cfp, '-out', resp], timeout=300 if quick else 800, env=env)
            if r.returncode != 0 or not os.path.exists(resp):
                raise vlib.Infra('c09 chain failed: ' + (r.stderr or r.stdout)[-2000:])
            return json.load(open(resp))

        def run_cross():
            r = vlib.run_cmd([binp, 'cross', '-out', crossp, '-seed', str(seed), '-tier', tier, '-current', curp],
                             timeout=300 if quick else 800, env=env)
            if r.returncode != 0 or not os.path.exists(crossp):
                cur = open(curp).read() if os.path.exists(curp) else ''
                if 'panic:' in (r.stderr or '') and cur:
                    return {'died': True, 'current': json.loads(cur), 'stderr': r.stderr[-3000:]}
                raise vlib.Infra('c09 cross failed: ' + (r.stderr or r.stdout)[-2000:])
            return json.load(open(crossp))

        def run_latent():
            """informational: a window that is no multiple of the range (never passed by Plan(): FixPeriodPlanner aligns it) makes
            LRAPlanner index past its array; the panic is not recovered (TamePanic is called from a nested frame) and kills the process"""
            r = vlib.run_cmd([binp, 'probe', '-inner', '-q', 'count_over_time({a="b"} | json [10s])', '-e', '1|{"x":"0"}', '-e', '22|{"x":"1"}',
                              '-eof', '-to', '25'], timeout=60, env=env)
            return {'exit': r.returncode, 'panic': ('panic:' in (r.stderr or '')),
                    'first_line': ((r.stderr or '').strip().splitlines() or [''])[0][:160]}

        th = [guard('chain', run_chain), guard('cross', run_cross), guard('latent', run_latent)]
        for t in th:
            t.join()
        if errs:
            raise errs[0]
        chain, cross = box['chain'], box['cross']
        if chain.get('infra_errors'):
            raise vlib.Infra('c09 chain: ' + '; '.join(chain['infra_errors'][:5]))
        if chain['cases'] != len(cf['cases']) or len(chain['pipelines']) != len(PIPELINES):
            raise vlib.Infra('c09 chain ran %d of %d cases over %d of %d pipelines' % (chain['cases'], len(cf['cases']), len(chain['pipelines']), len(PIPELINES)))
        # the long scripts on the real chain: did they cross its grain where the specification says they do?
        lres = {r['id']: r for r in chain.get('long_results') or []}
        if set(lres) != set(c['id'] for c in lcs):
            raise vlib.Infra('c09 chain: results for long cases %s, expected %s' % (sorted(lres), [c['id'] for c in lcs]))
        grain_same = [c['id'] for c in lcs if sorted(lres[c['id']].get('out_sizes') or []) == sorted(c['sizes'])
                      and lres[c['id']].get('out_again') == c['again']]
        crossed = [c['id'] for c in lcs if c['id'] in crossing and lres[c['id']].get('out_again', 0) > 0]
        if len(crossed) < 2:
            raise vlib.Infra('no long script made the real chain flush early (%s of %s): InProc!IP_AsBuilt no longer describes the chain'
                             % (crossed, crossing))

        violations = chain_violations(cf, chain) + cross_violations(cross)
        thm = box['thm']
        grain, mem = box['grain'], box['mem']
        sample = cf['cases'][len(cases) // 2]
        coverage = {
            'states': thm['states'] + grain['flush']['states'] + grain['cap']['states'] + mem['states'],
            'transitions': thm['generated'] + grain['flush']['generated'] + grain['cap']['generated'] + mem.get('transitions', 0),
            'traces_validated_against_impl': chain['cases'] + cross.get('queries', 0),
            'samples': [{'query': sample['q'], 'limit': sample['lim'], 'partition': sample['cut'], 'eof': sample['eof'],
                         'upstream': [{'labels': e['lb'], 'ts': e['ts'], 'line': conc.get(e['ln'], e['ln'])} for e in sample['es']],
                         'expected': sample['exp'], 'predicted_as_coded': sample['preds'][0]}],
            'theorem': {'bounds': {'max_entries': 2 if quick else 3, 'max_messages': 2, 'pipelines': len(PIPELINES)},
                        'states': thm['states'], 'wall_s': thm['wall_s'],
                        'invariants': ['Thm_BatchingIndependent', 'Thm_LimitMeaning', 'Thm_SeriesIdentity']},
            'theorem_small_grains': {'flush': dict(grain['flush'], pipelines=GRAIN_PLS_Q if quick else GRAIN_PLS, max_entries=3, max_messages=3,
                                                   flush_thresholds=[1, 2] if quick else [1, 2, 3]),
                                     'series_bound': dict(grain['cap'], pipelines=CAP_PLS, max_entries=2 if quick else 3, bounds=[1, 2])},
            'memory_model': mem,
            'export': {'cases': len(cases), 'wall_s': round(exp_wall, 1)},
            'long_scripts': {'cases': len(lcs), 'tlc_wall_s': round(long_wall, 1), 'grain': {'flush': FLUSH, 'batch': BATCH, 'series_bound': CAP},
                             'classes': sorted(set(c['lclass'] for c in lcs)),
                             'entries': {c['id']: len(c['es']) for c in lcs},
                             'predicted_to_cross_the_flush': crossing, 'crossed_on_the_real_chain': crossed,
                             'output_messages_as_predicted': grain_same,
                             'messages_held_and_read_again': chain.get('held_messages', 0)},
            'chain': {'cases': chain['cases'], 'chain_executions': chain['replays'], 'pipelines': len(chain['pipelines']),
                      'agree_with_definition': chain['ok'], 'candidates_from_spec': chain['candidates'],
                      'candidates_confirmed_on_code': chain['confirmed'], 'code_as_transcribed': chain['pred_agree'],
                      'code_differs_from_transcription': chain['pred_differ'], 'worker_crashes': chain['crashes']},
            'cross': {k: v for k, v in cross.items() if k in ('queries', 'pairs', 'pairs_equal', 'pairs_differ', 'datasets', 'died', 'unsupported')},
            'latent_unaligned_window_probe': box.get('latent'),
            'wall_s': round(time.time() - t0, 1),
        }
        if chain['cases'] - chain['candidates'] < 50:
            raise vlib.Infra('vacuous: only %d cases on which the code is expected to agree' % (chain['cases'] - chain['candidates']))
        return {'level': 'model_checking', 'coverage': coverage, 'violations': violations,
                'assumptions': [
                    'the in-process chain is observed at the output channel of internal_planner.Plan (below ZeroEaterPlanner / FixPeriodPlanner) with '
                    'the window FixPeriodPlanner would pass: aligned to the range, upstream entries inside it, ordered by timestamp',
                    'where LogQL leaves room the definition follows what both engines do: tumbling windows, an extracted '
                    'label overrides a stream label, label_format keeps its source, a label with the empty value is absent',
                    'regular expressions in the cases are anchored (anchoring of =~ is C07/C08 territory)',
                    'the grain of the chain (getter batch 100, optimizer flush 3000, 2000 series per aggregation) is InProc!IP_AsBuilt; the '
                    'getter itself is replaced by the scripted upstream, which cuts the rows as IP_GetterCut says (and otherwise)',
                    'ownership of a sent message is observed at the consumer (a message it holds must not change); inside the chain a '
                    'stage writing into a message it has sent shows only through its effect on the result under the schedule that happens',
                    'cross-engine runs use chsql as the SQL engine'],
                }
    finally:
        shutil.rmtree(sd, ignore_errors=True)


CROSS_TEXT = {
    'limit-absent-or-0': 'with no limit parameter (or limit=0) the formulation that runs in process returns nothing while the SQL formulation '
                         'returns the entries: planner_limit.go vs planner_main_limit.go',
    'undecodable-line': 'the two formulations agree on the clean data and differ only on the data set with stored lines that json cannot decode '
                        '(malformed, non-object, logfmt): both engines are expected to keep such a line with nothing extracted',
}


def cross_violations(cross):
    out = []
    if cross.get('died'):
        cur = cross.get('current') or {}
        sig = 'C09/cross/reader-process-died/' + str(cur.get('pair', '?'))
        rp = vlib.save_replay('C09', re.sub(r'[^A-Za-z0-9_+-]+', '_', sig), cross)
        out.append({'property': 'C09', 'signature': sig, 'msg': 'the reader process died (unrecovered panic) while answering %s' % cur, 'replay': rp})
        return out
    ds = cross.get('disagreements') or []
    # pairs that disagree on the clean data with a limit given: their own signature
    own = set(d['pair'] for d in ds if d['dataset'] == 'clean' and not (d['limit'] in ('absent', '0') and d['kind'] == 'inproc-empty'))
    groups = {}
    for d in ds:
        nolimit = d['limit'] in ('absent', '0')
        if d['kind'] == 'sql-error':
            sig = 'C09/cross/%s/sql-error' % d['pair']
        elif nolimit and d['kind'] == 'inproc-empty' and not d.get('metric'):
            sig = 'C09/cross/limit-absent-or-0'
        elif d['pair'] in own:
            if d['dataset'] != 'clean':
                continue
            sig = 'C09/cross/%s/results-differ' % d['pair']
        elif d['dataset'] == 'hostile':
            sig = 'C09/cross/undecodable-line'
        else:
            sig = 'C09/cross/%s/results-differ' % d['pair']
        groups.setdefault(sig, []).append(d)
    for sig, lst in sorted(groups.items()):
        lst.sort(key=lambda d: (len(d.get('sql_short', '')) + len(d.get('inproc_short', ''))))
        d = lst[0]
        rp = vlib.save_replay('C09', re.sub(r'[^A-Za-z0-9_+-]+', '_', sig)[:150], {'signature': sig, 'first': d, 'count': len(lst),
                                                                               'all': [{k: v for k, v in x.items() if k != 'stored'} for x in lst[:20]]})
        why = CROSS_TEXT.get(sig.split('/')[2], '')
        out.append({'property': 'C09', 'signature': sig,
                    'msg': 'same stored data (%s), limit %s, direction %s: SQL formulation %s -> %s ; in-process formulation %s -> %s [%d requests]%s'
                           % (d['dataset'], d['limit'], d['direction'] or 'default', d['sql_query'], d['sql_short'][:300], d['inproc_query'],
                              d['inproc_short'][:300], len(lst), (' - ' + why) if why else ''),
                    'replay': rp})
    return out


if __name__ == '__main__':
    import sys
    txt, conc = gen_module(int(sys.argv[1]) if len(sys.argv) > 1 else 1)
    print(txt)

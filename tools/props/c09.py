"""C09: a LogQL result does not depend on which engine ran each pipeline stage.

Spec: spec/query/InProc.tla - the DEFINITION of every stage on the whole entry sequence (IP_Eval) and the MECHANISM of
the in-process chain (IP_Run: GenericPlanner.WrapProcess message by message, LimitPlanner, the aggregators' per-series
window arrays, the response optimizer, the end marker and the error protocol, hash.go).  TLC proves for every case in
the bounds (MC_InProc) that the design is batching independent and equals the definition, that the limit parameter
means on the design what it means on the SQL side, and that distinct label sets are distinct series.  Every place where
the Go code does something else is transcribed under a named switch; MC_InProcExport evaluates, for exhaustive small and
seeded larger cases, the expected result, the result predicted for the code as transcribed, and the switches that cause
a difference (= candidates).

Binding (harness/cmd/c09):
 (a) `c09 chain`: each case is concretised (hostile concrete lines per class, seeded) and replayed into the REAL chain -
     logql_parser.Parse + logql_transpiler_v2.Plan (GetBreakpoint, breakScript, internal_planner.Plan) with the
     ClickhouseGetterPlanner replaced by a scripted upstream that sends exactly the case's channel messages; the output
     channel, read like queryRangeService reads it, must equal the expected result; the same entries are replayed under
     further partitions and must give the same result.  Cases run in child processes: a panic in a chain goroutine is
     not recoverable (and is itself a finding).
 (b) `c09 cross`: equivalent formulations - one that stays in SQL, one that forces the breakpoint - run end to end
     through e2e.World (/loki/api/v1/query_range, real writer, real reader, chsql with the real DDL) over the same
     stored hostile lines; results must be equal, for every limit including absent.
Verdicts come only from the real code."""
import json
import os
import random
import re
import shutil

import vlib

SPECDIR = os.path.join(vlib.SPEC, 'query')
NEEDLE = 'NEEDLE'
DUR = 10           # seconds, the range of every metric query
WINDOWS = 3        # the aligned window is [0, WINDOWS*DUR)

# ---------------------------------------------------------------------------------------------------------------
# The pool.  Every abstract line has a class, the labels `| json` / `| logfmt` extract from it BY DEFINITION of the
# formats (written down here by hand, this is oracle knowledge), and concrete hostile variants with exactly that
# meaning; the variant is chosen by the seed.  jf/lf None = the parser cannot decode the line.
# ---------------------------------------------------------------------------------------------------------------
JSON_LINES = [
    dict(t='J1', cls='flat', jf={'x': '1', 'y': 'a'},
         v=['{"x":"1","y":"a"}', '{ "y" : "a" ,\t"x" : "1" }', '{"x":"\\u0031","y":"a","k":[1,2,{"x":"7"}]}', '{"y":"a","x":"1","e":""}']),
    dict(t='J2', cls='flat', jf={'x': '2', 'y': 'b', 'm': '--NEEDLE--'},
         v=['{"x":2,"y":"b","m":"--NEEDLE--"}', '{"m":"--NEEDLE--", "x": 2 , "y":"b"}']),
    dict(t='J3', cls='nested', jf={'x': '3', 'n_y': 'a', 'f': 'true'},
         v=['{"x":"3","n":{"y":"a","k":[1,{"z":2}]},"f":true}', '{"n":{"y":"a"},"f":true,"x":"3","arr":["NOT","x"]}']),
    dict(t='J4', cls='malformed', jf=None,
         v=['{"x":"1","y":', '{"x":"1" "y":"a"}', '{"x":"1","y":"a"', '{"x":"1",}', '{x:1}']),
    dict(t='J5', cls='nonobj', jf=None, v=['[1,"NEEDLE"]', '"NEEDLE x"', '42', 'null', 'true']),
    dict(t='J6', cls='logfmt', jf=None, v=['x=1 y="a b" NEEDLE=1', 'x=1 y="{\\"x\\":\\"1\\"}"']),
    dict(t='J7', cls='flat', jf={'y': 'a'}, v=['{"y":"a"}', '{"y":"a","k":[]}']),
    dict(t='J8', cls='flat', jf={'x': 'abc', 'y': 'b'}, v=['{"x":"abc","y":"b"}']),
    dict(t='J9', cls='flat', jf={'x': '-0.5e1', 'x_k': '1'}, v=['{"x":"-0.5e1","x-k":"1"}', '{"x.k":"1","x":"-0.5e1"}']),
    dict(t='J10', cls='flat', jf={'x': '0', 'y': 'a'}, v=['{"x":"0","y":"a"}', '{"x":0,"y":"a"}']),
    dict(t='J11', cls='flat', jf={'x': '2', 'y': 'a'}, v=['{"x":"2","y":"a"}', '{"y":"a","x":2}']),
    dict(t='JC1', cls='flat', jf={'x': 'y1'}, v=['{"x":"y1"}']),
    dict(t='JC2', cls='flat', jf={'xy': '1'}, v=['{"xy":"1"}']),
]
LOGFMT_LINES = [
    dict(t='F1', cls='logfmt', lf={'x': '1', 'y': 'a'}, v=['x=1 y=a', 'y=a   x=1', 'x="1" y="a"']),
    dict(t='F2', cls='logfmtq', lf={'x': '2', 'y': 'a b', 'm': 'NEEDLE'}, v=['x=2 y="a b" m=NEEDLE', 'm=NEEDLE y="a b" x=2']),
    dict(t='F3', cls='logfmtbare', lf={'x': '3', 'y': 'b'}, v=['x=3 y=b flag', 'flag x=3 y=b']),
    dict(t='F4', cls='malformed', lf=None, v=['x="4 y=b', 'x="abc']),
    dict(t='F5', cls='logfmt', lf={'x': '-0.5e1', 'y': 'b'}, v=['x=-0.5e1 y=b', 'x="-0.5e1" y=b']),
    dict(t='F6', cls='logfmt', lf={'y': 'a'}, v=['y=a', 'y=a ']),
]
SERIES = [{'a': 'b'}, {'a': 'b', 'x': '9'}, {'a': 'b', 'z': 'q'}]
NAMES = ['a', 'x', 'y', 'm', 'n_y', 'f', 'x_k', 'xy', 'z', 'q']
NUM = {'0': 0, '1': 1, '2': 2, '3': 3, '9': 9, '-0.5e1': -5}
GRIDS = [[1, 4, 12, 13, 27], [3, 12, 14, 25, 28]]


def sfilt(l, op, v):
    return {'t': 's', 'l': l, 'op': op, 'v': v}


def nfilt(l, op, n):
    return {'t': 'n', 'l': l, 'op': op, 'n': n}


def refilt(l, op, acc):
    return {'t': 're', 'l': l, 'op': op, 'acc': set(acc)}


NOGRP = {'m': 'none', 'ls': set()}
NOAGG = {'fn': '', 'uw': False, 'dur': DUR, 'grp': NOGRP, 'vec': {'fn': '', 'grp': NOGRP}, 'cmp': {'op': '', 'cn': 0, 'cd': 1}}


def agg(fn, uw=False, grp=None, vec=None, vgrp=None, cmp=None):
    a = {'fn': fn, 'uw': uw, 'dur': DUR, 'grp': grp or NOGRP, 'vec': {'fn': vec or '', 'grp': vgrp or NOGRP},
         'cmp': {'op': '', 'cn': 0, 'cd': 1}}
    if cmp:
        a['cmp'] = {'op': cmp[0], 'cn': cmp[1], 'cd': cmp[2]}
    return a


def by(*ls):
    return {'m': 'by', 'ls': set(ls)}


def without(*ls):
    return {'m': 'without', 'ls': set(ls)}


JS = {'k': 'json'}
LF = {'k': 'logfmt'}
SEL = '{a="b"}'
PJ = ['J1', 'J2', 'J7', 'J8', 'J9']              # TLC pool of the json filter pipelines
PJ_ALL = [l['t'] for l in JSON_LINES]
PF_ALL = [l['t'] for l in LOGFMT_LINES]
PJ_M = ['J1', 'J2', 'J10', 'J11', 'J7']          # TLC pool of the metric pipelines
PJ_OK = [l['t'] for l in JSON_LINES if l['jf'] is not None]


def P(pid, q, st, a=None, pool=None, spool=None, series=(1, 2)):
    pool = pool or PJ
    return {'id': pid, 'q': q, 'st': st, 'agg': a or NOAGG, 'pool': pool, 'spool': spool or PJ_ALL, 'series': list(series)}


def metric(pid, inner, st, a, text, pool=None, spool=None, series=(1, 2)):
    return P(pid, text % {'sel': SEL + inner}, st, a, pool or PJ_M, spool or PJ_ALL, series)


UW = {'k': 'unwrap', 'l': 'x'}
PIPELINES = [
    P('json', SEL + ' | json', [JS], pool=['J1', 'J3', 'J4', 'J5', 'JC1', 'JC2']),
    P('json_eq', SEL + ' | json | x="1"', [JS, {'k': 'lab', 'f': sfilt('x', '=', '1')}], pool=PJ + ['J4']),
    P('json_ne', SEL + ' | json | x!="1"', [JS, {'k': 'lab', 'f': sfilt('x', '!=', '1')}], pool=PJ + ['J4']),
    P('json_re', SEL + ' | json | x=~"^(1|2)$"', [JS, {'k': 'lab', 'f': refilt('x', '=~', ['1', '2'])}]),
    P('json_nre', SEL + ' | json | x!~"^(1|2)$"', [JS, {'k': 'lab', 'f': refilt('x', '!~', ['1', '2'])}]),
    P('json_gt', SEL + ' | json | x > 1', [JS, {'k': 'lab', 'f': nfilt('x', '>', 1)}]),
    P('json_ge', SEL + ' | json | x >= 2', [JS, {'k': 'lab', 'f': nfilt('x', '>=', 2)}]),
    P('json_lt', SEL + ' | json | x < 2', [JS, {'k': 'lab', 'f': nfilt('x', '<', 2)}]),
    P('json_le', SEL + ' | json | x <= 2', [JS, {'k': 'lab', 'f': nfilt('x', '<=', 2)}]),
    P('json_neq', SEL + ' | json | x == 2', [JS, {'k': 'lab', 'f': nfilt('x', '==', 2)}]),
    P('json_nne', SEL + ' | json | x != 2', [JS, {'k': 'lab', 'f': nfilt('x', '!=', 2)}]),
    P('json_or', SEL + ' | json | x="1" or y="b"', [JS, {'k': 'lab', 'f': {'t': 'or', 'a': sfilt('x', '=', '1'), 'b': sfilt('y', '=', 'b')}}]),
    P('json_and', SEL + ' | json | x > 1 and y="a"', [JS, {'k': 'lab', 'f': {'t': 'and', 'a': nfilt('x', '>', 1), 'b': sfilt('y', '=', 'a')}}],
      pool=PJ + ['J11']),
    P('json_paren', SEL + ' | json | (x="1" or x="2") and y="a"',
      [JS, {'k': 'lab', 'f': {'t': 'and', 'a': {'t': 'or', 'a': sfilt('x', '=', '1'), 'b': sfilt('x', '=', '2')}, 'b': sfilt('y', '=', 'a')}}],
      pool=PJ + ['J11']),
    P('json_lf_has', SEL + ' | json |= "NEEDLE"', [JS, {'k': 'line', 'op': '|='}], pool=['J1', 'J2', 'J3', 'J7']),
    P('json_lf_not', SEL + ' | json != "NEEDLE"', [JS, {'k': 'line', 'op': '!='}], pool=['J1', 'J2', 'J3', 'J7']),
    P('json_lf_re', SEL + ' | json |~ "NEE+DLE"', [JS, {'k': 'line', 'op': '|~'}], pool=['J1', 'J2', 'J3', 'J7']),
    P('json_lf_nre', SEL + ' | json !~ "NEE+DLE"', [JS, {'k': 'line', 'op': '!~'}], pool=['J1', 'J2', 'J3', 'J7']),
    P('json_drop', SEL + ' | json | drop x', [JS, {'k': 'drop', 'ls': [{'l': 'x', 'v': ''}]}]),
    P('json_dropv', SEL + ' | json | drop x="1"', [JS, {'k': 'drop', 'ls': [{'l': 'x', 'v': '1'}]}]),
    P('json_drop2', SEL + ' | json | drop y, a', [JS, {'k': 'drop', 'ls': [{'l': 'y', 'v': ''}, {'l': 'a', 'v': ''}]}]),
    P('json_lfmt_ren', SEL + ' | json | label_format z=x', [JS, {'k': 'lfmt', 'ops': [{'t': 'ren', 'l': 'z', 's': 'x', 'c': ''}]}], series=(1, 3)),
    P('json_lfmt_const', SEL + ' | json | label_format z="c"', [JS, {'k': 'lfmt', 'ops': [{'t': 'const', 'l': 'z', 's': '', 'c': 'c'}]}], series=(1, 3)),
    P('json_linefmt', SEL + ' | json | line_format "{{.x}}"', [JS, {'k': 'linefmt', 'l': 'x'}]),
    P('linefmt', SEL + ' | line_format "{{.a}}"', [{'k': 'linefmt', 'l': 'a'}], pool=['J1', 'J4', 'J5']),
    P('linefmt_drop', SEL + ' | line_format "{{.a}}" | drop x', [{'k': 'linefmt', 'l': 'a'}, {'k': 'drop', 'ls': [{'l': 'x', 'v': ''}]}], pool=['J1', 'J4']),
    P('json_jsonp', SEL + ' | json | json q="y"', [JS, {'k': 'jsonp', 'lab': 'q', 'path': 'y'}]),
    P('json_multi', SEL + ' | json | x="1" | drop x | y="a"',
      [JS, {'k': 'lab', 'f': sfilt('x', '=', '1')}, {'k': 'drop', 'ls': [{'l': 'x', 'v': ''}]}, {'k': 'lab', 'f': sfilt('y', '=', 'a')}]),
    P('logfmt', SEL + ' | logfmt', [LF], pool=PF_ALL, spool=PF_ALL),
    P('logfmt_eq', SEL + ' | logfmt | x="1"', [LF, {'k': 'lab', 'f': sfilt('x', '=', '1')}], pool=PF_ALL, spool=PF_ALL),
    P('logfmt_gt', SEL + ' | logfmt | x > 1', [LF, {'k': 'lab', 'f': nfilt('x', '>', 1)}], pool=PF_ALL, spool=PF_ALL),
    P('logfmt_drop_lf', SEL + ' | logfmt | drop y |= "NEEDLE"', [LF, {'k': 'drop', 'ls': [{'l': 'y', 'v': ''}]}, {'k': 'line', 'op': '|='}],
      pool=PF_ALL, spool=PF_ALL),
    # ---- metric queries
    metric('m_rate', ' | json', [JS], agg('rate'), 'rate(%(sel)s [10s])', pool=PJ_M + ['J4']),
    metric('m_count_f', ' | json | x="1"', [JS, {'k': 'lab', 'f': sfilt('x', '=', '1')}], agg('count_over_time'), 'count_over_time(%(sel)s [10s])',
           pool=PJ_M + ['J4']),
    metric('m_bytes', ' | json', [JS], agg('bytes_over_time'), 'bytes_over_time(%(sel)s [10s])'),
    metric('m_bytes_rate', ' | json', [JS], agg('bytes_rate'), 'bytes_rate(%(sel)s [10s])'),
    metric('m_sum_by', ' | json | unwrap x', [JS, UW], agg('sum_over_time', True, by('y')), 'sum_over_time(%(sel)s [10s]) by (y)'),
    metric('m_avg_by', ' | json | unwrap x', [JS, UW], agg('avg_over_time', True, by('y')), 'avg_over_time(%(sel)s [10s]) by (y)'),
    metric('m_min_by', ' | json | unwrap x', [JS, UW], agg('min_over_time', True, by('y')), 'min_over_time(%(sel)s [10s]) by (y)'),
    metric('m_max_by', ' | json | unwrap x', [JS, UW], agg('max_over_time', True, by('y')), 'max_over_time(%(sel)s [10s]) by (y)'),
    metric('m_first_by', ' | json | unwrap x', [JS, UW], agg('first_over_time', True, by('y')), 'first_over_time(%(sel)s [10s]) by (y)'),
    metric('m_last_by', ' | json | unwrap x', [JS, UW], agg('last_over_time', True, by('y')), 'last_over_time(%(sel)s [10s]) by (y)'),
    metric('m_urate_by', ' | json | unwrap x', [JS, UW], agg('rate', True, by('y')), 'rate(%(sel)s [10s]) by (y)'),
    metric('m_sum_without', ' | json | unwrap x', [JS, UW], agg('sum_over_time', True, without('x')), 'sum_over_time(%(sel)s [10s]) without (x)'),
    metric('m_sum_nogrp', ' | json | unwrap x', [JS, UW], agg('sum_over_time', True), 'sum_over_time(%(sel)s [10s])'),
    metric('v_sum_by', ' | json', [JS], agg('count_over_time', vec='sum', vgrp=by('y')), 'sum by (y) (count_over_time(%(sel)s [10s]))'),
    metric('v_sum_without', ' | json', [JS], agg('count_over_time', vec='sum', vgrp=without('x')), 'sum without (x) (count_over_time(%(sel)s [10s]))'),
    metric('v_min_by', ' | json', [JS], agg('count_over_time', vec='min', vgrp=by('y')), 'min by (y) (count_over_time(%(sel)s [10s]))'),
    metric('v_max_by', ' | json', [JS], agg('count_over_time', vec='max', vgrp=by('y')), 'max by (y) (count_over_time(%(sel)s [10s]))'),
    metric('v_avg_by', ' | json', [JS], agg('rate', vec='avg', vgrp=by('y')), 'avg by (y) (rate(%(sel)s [10s]))'),
    metric('v_count_by', ' | json', [JS], agg('count_over_time', vec='count', vgrp=by('y')), 'count by (y) (count_over_time(%(sel)s [10s]))'),
    metric('v_sum_nogrp', ' | json', [JS], agg('count_over_time', vec='sum'), 'sum(count_over_time(%(sel)s [10s]))'),
    metric('m_count_cmp', ' | json', [JS], agg('count_over_time', cmp=('>', 1, 1)), 'count_over_time(%(sel)s [10s]) > 1', pool=PJ_M + ['J4']),
    metric('v_sum_by_cmp', ' | json', [JS], agg('rate', vec='sum', vgrp=by('y'), cmp=('>=', 1, 5)), 'sum by (y) (rate(%(sel)s [10s])) >= 0.2'),
    metric('m_count_logfmt', ' | logfmt', [LF], agg('count_over_time'), 'count_over_time(%(sel)s [10s])', pool=PF_ALL, spool=PF_ALL),
]


def line_table(seed):
    """choose one concrete variant per abstract line; return (tla table rows as dict, concretisation map)"""
    rnd = random.Random(seed * 7919 + 13)
    conc, rows = {}, {}
    values = set([''])
    for s in SERIES:
        values.update(s.values())
    values.add('c')
    for l in JSON_LINES + LOGFMT_LINES:
        for d in (l.get('jf'), l.get('lf')):
            if d:
                values.update(d.values())
    for l in JSON_LINES + LOGFMT_LINES:
        txt = rnd.choice(l['v'])
        conc[l['t']] = txt
        jf, lf = l.get('jf'), l.get('lf')
        rows[l['t']] = {'jok': jf is not None, 'jf': jf or None, 'lok': lf is not None, 'lf': lf or None,
                        'has': NEEDLE in txt, 'len': len(txt.encode())}
    for v in sorted(values):            # lines produced by line_format are label values
        if v in rows:
            raise vlib.Infra('pool token clashes with a value: ' + v)
        conc[v] = v
        rows[v] = {'jok': False, 'jf': None, 'lok': False, 'lf': None, 'has': NEEDLE in v, 'len': len(v.encode())}
    return rows, conc, sorted(values)


def tla_fn(d):
    """dict -> TLA function with string domain (records need identifier keys; these are arbitrary strings)"""
    if not d:
        return '<<>>'
    return '(' + ' @@ '.join('%s :> %s' % (vlib.tla_value(k), v) for k, v in d.items()) + ')'


def tla_any(v):
    if isinstance(v, dict):
        return '[' + ', '.join('%s |-> %s' % (k, tla_any(x)) for k, x in v.items()) + ']'
    if isinstance(v, (list, tuple)):
        return '<<' + ', '.join(tla_any(x) for x in v) + '>>'
    if isinstance(v, (set, frozenset)):
        return '{' + ', '.join(tla_any(x) for x in sorted(v, key=str)) + '}'
    return vlib.tla_value(v)


def gen_module(seed):
    rows, conc, values = line_table(seed)
    out = ['---- MODULE InProcGen ----', '\\* generated by tools/props/c09.py (seed %d): pool tables and pipelines for InProc.tla' % seed, 'EXTENDS TLC, Integers', '']
    out.append('IPG_Names == ' + tla_any(set(NAMES)))
    lrows = {}
    for t, r in rows.items():
        lrows[t] = '[jok |-> %s, jf |-> %s, lok |-> %s, lf |-> %s, has |-> %s, len |-> %d]' % (
            vlib.tla_value(r['jok']), tla_fn({k: vlib.tla_value(v) for k, v in (r['jf'] or {}).items()}),
            vlib.tla_value(r['lok']), tla_fn({k: vlib.tla_value(v) for k, v in (r['lf'] or {}).items()}),
            vlib.tla_value(r['has']), r['len'])
    out.append('IPG_Line == ' + tla_fn(lrows))
    out.append('IPG_Num == ' + tla_fn({k: str(v) for k, v in NUM.items()}))
    kv = ['<<%s, %s>> :> %s' % (vlib.tla_value(k), vlib.tla_value(v), vlib.tla_value(k + v)) for k in NAMES for v in values if v != '']
    out.append('IPG_KV == (' + ' @@ '.join(kv) + ')')
    out.append('IPG_Series == <<' + ', '.join(tla_fn({k: vlib.tla_value(v) for k, v in s.items()}) for s in SERIES) + '>>')
    out.append('IPG_Grids == ' + tla_any(GRIDS))
    pls = []
    for p in PIPELINES:
        pls.append('[id |-> %s, st |-> %s, agg |-> %s, pool |-> %s, pool0 |-> %s, series |-> %s]' % (
            vlib.tla_value(p['id']), tla_any(p['st']), tla_any(p['agg']), tla_any(set(p['pool'])), vlib.tla_value(sorted(p['pool'])[0]),
            tla_any(set(p['series']))))
    out.append('IPG_Pipelines == <<\n  ' + ',\n  '.join(pls) + '\n>>')
    out.append('====')
    return '\n'.join(out) + '\n', conc


if __name__ == '__main__':
    import sys
    txt, conc = gen_module(int(sys.argv[1]) if len(sys.argv) > 1 else 1)
    print(txt)

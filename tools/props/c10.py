"""C10: request strings can never change the structure of SQL sent to ClickHouse.

spec/query/Escape.tla transcribes StringVal.String (the ordered replace table), doLike (LIKE escaping, then quoting), ClickHouse's
string-literal automaton and LIKE pattern decoding over an alphabet of 20 character classes; MC_Escape.tla lets TLC check
for ALL strings up to length 4 (quick) / 5 (thorough) that the quoted text is exactly one literal decoding to the string
(EscRoundTrip), that the LIKE literal is exactly one literal (LikeStructure), and (in a run of its own) that it means
ANY s ANY (LikeValue).  Every string up to length 3 plus a seeded sample of the longer ones is exported and replayed by cmd/c10:
  * conformance: the spec's Esc / LikeText equal the text the real sql.NewStringVal / LineFilterPlanner render, and the
    spec's verdicts equal those of the reference lexer on the real text (so the TLC result transfers to the code);
  * binding: the concretised string is placed into every string position of the real reader routes (LogQL, Loki label
    and series routes, PromQL, TraceQL, Tempo tag search, Pyroscope); the SQL handed to the session is tokenised with
    chsql.Lex and compared token by token with the SQL of a harmless string in the same position.
A verdict comes only from SQL the real code produced."""
import concurrent.futures
import json
import os
import re
import shutil
import zlib

import vlib

SPECDIR = os.path.join(vlib.SPEC, 'query')

CFG = '''SPECIFICATION Spec
CONSTANTS
  MaxLen = %(maxlen)d
  ExportLen = %(exportlen)d
  SampleMod = %(mod)d
  Seed = %(seed)d
INVARIANTS %(inv)s
CHECK_DEADLOCK FALSE
'''

CASE = re.compile(r'^"CASE\|([^|"]*)\|([^|"]*)\|([^|"]*)\|([^|"]*)\|([01]{4})"$', re.M)
SIGMA = 'BQDZNRPTS%_-/*#;HXa'


def run_tlc(name, params, timeout):
    sd = vlib.scratch('c10cfg')
    try:
        cfgp = os.path.join(sd, name)
        open(cfgp, 'w').write(CFG % params)
        return vlib.tlc(SPECDIR, 'MC_Escape.tla', name, timeout=timeout, copy_extra=[cfgp])
    finally:
        shutil.rmtree(sd, ignore_errors=True)


def witness(out):
    """the string of the last state of a TLC counterexample, as class codes"""
    m = None
    for m in re.finditer(r'^/?\\?\s*s = (<<.*?>>)\s*$', out, flags=re.M):
        pass
    if not m:
        return None
    names = re.findall(r'"([a-z0-9]+)"', m.group(1))
    code = {'bs': 'B', 'sq': 'Q', 'dq': 'D', 'nul': 'Z', 'nl': 'N', 'cr': 'R', 'bsp': 'P', 'tab': 'T', 'sub': 'S', 'pct': '%',
            'us': '_', 'dash': '-', 'slash': '/', 'star': '*', 'hash': '#', 'semi': ';', 'hi': 'H', 'bad': 'X', 'a': 'a', 'bt': 'K'}
    return ''.join(code[n] for n in names)


def run(tier):
    seed = vlib.seed()
    quick = tier == 'quick'
    pool = concurrent.futures.ThreadPoolExecutor(max_workers=4)
    fbuild = pool.submit(vlib.go_build, 'cmd/c10', 'c10')
    params = {'maxlen': 4 if quick else 5, 'exportlen': 3, 'mod': 60 if quick else 400, 'seed': seed % 1000003,
              'inv': 'EscRoundTrip LikeStructure Export'}
    fmain = pool.submit(run_tlc, 'MC_Escape_run.cfg', params, 300 if quick else 800)
    flike = pool.submit(run_tlc, 'MC_Escape_lv.cfg', {'maxlen': 3, 'exportlen': 0, 'mod': 1000003, 'seed': 0, 'inv': 'LikeValue'}, 300)
    # the family of renderings of a regex label matcher (anchored pattern / equality shortcut for a literal pattern): the
    # transducers look at one character of context, so length 3 decides it (a run of its own, like LikeValue)
    fmt_ = pool.submit(run_tlc, 'MC_Escape_mt.cfg', {'maxlen': 3, 'exportlen': 0, 'mod': 1000003, 'seed': 0, 'inv': 'MatcherStructure'}, 300)
    binp = fbuild.result()
    main = fmain.result()
    like = flike.result()
    mt = fmt_.result()
    sd = vlib.scratch('c10')
    try:
        states = main.get('distinct', 0) + like.get('distinct', 0) + mt.get('distinct', 0)
        trans = main.get('generated', 0) + like.get('generated', 0) + mt.get('generated', 0)
        mt_violated = bool(mt['violated'])
        mt_witness = witness(mt['out']) if mt_violated else None
        if not mt_violated and not mt.get('finished'):
            raise vlib.Infra('TLC did not finish MC_Escape (MatcherStructure):\n' + mt['out'][-2000:])
        cases = [{'s': m.group(1), 'esc': m.group(2), 'like': m.group(3), 'dec': m.group(4), 'flags': m.group(5)}
                 for m in CASE.finditer(main['out'])]
        spec_viol = list(main['violated'])
        spec_witness = None
        if spec_viol:
            spec_witness = witness(main['out'])
            if spec_witness is None:
                raise vlib.Infra('TLC reports %s violated on Escape.tla but the counterexample cannot be read:\n%s' % (spec_viol, main['out'][-1500:]))
        elif not main.get('finished'):
            raise vlib.Infra('TLC did not finish MC_Escape:\n' + main['out'][-2000:])
        like_violated = bool(like['violated'])
        like_witness = witness(like['out']) if like_violated else None
        if not like_violated and not like.get('finished'):
            raise vlib.Infra('TLC did not finish MC_Escape (LikeValue):\n' + like['out'][-2000:])
        # every exported string is a distinct case; add TLC's own witnesses (they are short, so normally already there)
        have = {c['s'] for c in cases}
        extra = [w for w in (spec_witness, like_witness, mt_witness) if w is not None and w not in have]
        expected_exported = sum(20 ** k for k in range(4))
        if not spec_viol and len([c for c in cases if len(c['s']) <= 3]) != expected_exported:
            raise vlib.Infra('TLC exported %d strings of length <= 3, expected %d' % (len([c for c in cases if len(c['s']) <= 3]), expected_exported))
        # ---- the driver, sharded over processes
        casep = os.path.join(sd, 'cases.ndjson')
        with open(casep, 'w') as f:
            for c in sorted(cases, key=lambda c: (len(c['s']), c['s'])):
                f.write(json.dumps(c) + '\n')
            for w in extra:
                f.write(json.dumps({'s': w, 'esc': '', 'like': '', 'dec': '', 'flags': 'xxxx'}) + '\n')
        nsh = max(2, min(os.cpu_count() or 4, 16))
        env = dict(os.environ)
        env['TZ'] = 'UTC'

        def shard(i):
            outp = os.path.join(sd, 'out_%d.json' % i)
            r = vlib.run_cmd([binp, 'run', '-cases', casep, '-out', outp, '-seed', str(seed), '-shard', '%d/%d' % (i, nsh),
                              '-tier', tier, '-reps', '1', '-reps-short', '1' if quick else '2'], timeout=800, env=env)
            if r.returncode != 0 or not os.path.exists(outp):
                raise vlib.Infra('c10 driver shard %d failed (rc %s): %s' % (i, r.returncode, (r.stdout + r.stderr)[-2000:]))
            return json.load(open(outp))

        with concurrent.futures.ThreadPoolExecutor(max_workers=nsh) as ex:
            outs = list(ex.map(shard, range(nsh)))
        infra = [e for o in outs for e in (o.get('infra') or [])]
        # a position whose baseline cannot be established is an infrastructure problem -- unless requests in positions whose
        # baseline IS established show violations: those are verdicts from the real code and are not hidden by it
        if infra and not any(o.get('mismatches') for o in outs):
            raise vlib.Infra('c10 driver: ' + ' || '.join(infra[:3])[:3000])
        conf = outs[0]['conformance']
        stats = {}
        classes = {}
        for o in outs:
            for name, st in o['stats'].items():
                a = stats.setdefault(name, {'cases': 0, 'reached_sql': 0, 'rejected': 0, 'inexpressible': 0, 'mismatches': 0, 'via_other_kind': 0, 'plain_quote': 0, 'meta_pattern': 0, 'regex_kinds': bool(st.get('regex_kinds')),
                                            'baseline_slots': st['baseline_slots'], 'baseline_statements': st['baseline_statements']})
                for k in ('cases', 'reached_sql', 'rejected', 'inexpressible', 'mismatches', 'via_other_kind', 'plain_quote', 'meta_pattern'):
                    a[k] += st.get(k, 0)
                for k in ('baseline_slots', 'baseline_statements'):
                    a[k] = max(a[k], st[k])
                a['regex_kinds'] = a['regex_kinds'] or bool(st.get('regex_kinds'))
            for c, n in (o.get('classes_reached') or {}).items():
                classes[c] = classes.get(c, 0) + n
        total_cases = sum(o['cases'] for o in outs)
        mism = [m for o in outs for m in (o.get('mismatches') or [])]
        # ---- verdicts: one violation per (kind, mechanism, MINIMAL failing abstract string, position family).
        # A failing string is minimal when none of its proper substrings fails in the same family with the same kind, so
        # the signature names the root cause (B = backslash, Q = quote, % ...) and is the same for every seed.
        failing = {}
        for o in outs:
            for k, lst in (o.get('failing') or {}).items():
                failing.setdefault(k, set()).update(lst)
        records = {}
        for m in mism:
            records[(m['position'].split('@')[0], m['kind'], m['abstract'])] = m
        viols = []
        for k, fs in sorted(failing.items()):
            fam, kind, group = k.rsplit('|', 2)

            def proper_subs(a):
                return {a[i:j] for i in range(len(a) + 1) for j in range(i, len(a) + 1) if j - i < len(a)}
            minimal = sorted((a for a in fs if not (proper_subs(a) & fs)), key=lambda a: (len(a), a))
            for a in minimal[:3]:
                m = records.get((fam, kind, a))
                if m is None:
                    raise vlib.Infra('no detail kept for minimal witness %r of %s' % (a, k))
                sig = '%s|%s|%s|%s' % (kind, group, a if a else 'EMPTY', fam)
                msg = ('%s: request string %s (classes %s; user string %s) in position %s: %s; expected %s, observed %s. %s [%d failing abstract strings in this position family, minimal ones: %s]'
                       % (kind, m['s_quoted'], a, m['user_string_quoted'], m['position'], m['detail'], m['expected_literal'] or '-', m['observed_literal'] or '-',
                          m['judgement'], len(fs), ' '.join(x if x else 'EMPTY' for x in minimal[:12])))
                path = vlib.save_replay('C10', '%s_%08x' % (re.sub(r'[^A-Za-z0-9]+', '_', sig)[:90], zlib.crc32(sig.encode())), m)
                viols.append({'property': 'C10', 'signature': sig, 'msg': msg, 'replay': path})
        # ---- consistency of spec and code (never a verdict by itself)
        if conf['mismatch_count'] and not viols:
            raise vlib.Infra('Escape.tla no longer describes the code (%d differences, e.g. %s) and no request shows a violation: update the spec'
                             % (conf['mismatch_count'], json.dumps(conf['mismatches'][:2])))
        if spec_viol and not viols:
            raise vlib.Infra('TLC reports %s violated on Escape.tla (string %s) but no position of the real code reproduces it' % (spec_viol, spec_witness))
        if mt_violated and not any('matcher' in v['signature'] or 'match[]' in v['signature'] or 'selector' in v['signature'] for v in viols):
            raise vlib.Infra('TLC reports MatcherStructure violated on Escape.tla (string %s) but no label-matcher position of the real code reproduces it' % mt_witness)
        if like_violated and not any(v['signature'].startswith('value|doLike') or v['signature'].startswith('lexfail|doLike') or v['signature'].startswith('structure|doLike') for v in viols):
            raise vlib.Infra('TLC reports LikeValue violated on Escape.tla (string %s) but no line-filter position of the real code reproduces it' % like_witness)
        # ---- vacuity
        # (guards of a PASS: with violations in hand they must not turn the verdict into an infrastructure error)
        if not viols:
            if len(stats) < 160:
                raise vlib.Infra('only %d positions were exercised' % len(stats))
            for name, st in stats.items():
                if st['cases'] == 0:
                    raise vlib.Infra('position %s was not exercised' % name)
                free_text = '.ident.' not in name and not name.startswith('tempo.trace.id')
                if free_text and st['reached_sql'] < 20:
                    raise vlib.Infra('position %s: only %d hostile strings reached SQL' % (name, st['reached_sql']))
            missing = [c for c in SIGMA if classes.get(c, 0) == 0]
            if missing:
                raise vlib.Infra('character classes that never reached SQL: %s' % missing)
            # the family "rendering chosen by the kind of pattern" (Escape.tla MatcherValues / RawShortcutRefuted): every regex
            # comparison position must have received patterns WITHOUT metacharacter that carry a quote, and patterns with one
            for name, st in stats.items():
                if st['regex_kinds'] and (st['plain_quote'] < 3 or st['meta_pattern'] < 3):
                    raise vlib.Infra('position %s: %d literal patterns with a quote and %d patterns with a metacharacter reached SQL'
                                     % (name, st['plain_quote'], st['meta_pattern']))
            if sum(1 for st in stats.values() if st['regex_kinds']) < 30:
                raise vlib.Infra('only %d regex comparison positions' % sum(1 for st in stats.values() if st['regex_kinds']))
        reached = sum(st['reached_sql'] for st in stats.values())
        cov = {'states': states, 'transitions': trans,
               'traces_validated_against_impl': total_cases + conf['checked'],
               'samples': outs[0].get('samples') or [{'abstract': cases[1]['s'] if len(cases) > 1 else ''}],
               'exhaustive': True,
               'tlc': {'max_len': params['maxlen'], 'strings_checked': main.get('distinct', 0), 'exported': len(cases), 'violated': spec_viol,
                       'matcher_structure_violated': mt_violated, 'like_value_violated': like_violated, 'like_value_witness': like_witness, 'wall_s': round(main['wall'], 1)},
               'conformance': {k: conf[k] for k in conf if k not in ('mismatches',)},
               'positions': len(stats), 'cases_run': total_cases, 'cases_reaching_sql': reached,
               'distinct_nontrivial': sum(o['concrete_strings'] for o in outs),
               'rejected_by_front_end': sum(st['rejected'] for st in stats.values()),
               'inexpressible': sum(st['inexpressible'] for st in stats.values()),
               'positions_never_reaching_sql': sorted(n for n, st in stats.items() if st['baseline_slots'] == 0),
               'classes_reached': classes, 'shards': nsh,
               'mismatching_cases': sum(st['mismatches'] for st in stats.values()),
               'regex_kind_positions': sum(1 for st in stats.values() if st['regex_kinds']),
               'literal_patterns_with_quote': sum(st['plain_quote'] for st in stats.values()),
               'rendered_as_other_kind': sum(st['via_other_kind'] for st in stats.values()),
               'alt_baseline_errors': sorted({k for o in outs for k in (o.get('alt_baseline_errors') or {})})[:20],
               'baseline_errors_beside_violations': infra[:5],
               'per_position': stats}
        return {'level': 'model_checking', 'coverage': cov, 'violations': viols,
                'assumptions': ['ClickHouse tokenises and decodes string literals and LIKE patterns as harness/chsql does (Lexer.cpp / parseComplexEscapeSequence / likePatternToRegexp)',
                                'a character class stands for its representatives (several per class, drawn per seed); strings longer than 5 classes are not enumerated: the transducers look at one character of context',
                                'the database session sees exactly the statements recorded by the fakesql handler; answers are empty result sets',
                                'strings of up to 2 classes go to every position and host query shape; longer ones to one host shape per position family (thorough: length 3 to every family, sampled longer ones to the primary families; quick: primary families only, all LIKE positions and 1/4 of the others per string)']}
    finally:
        shutil.rmtree(sd, ignore_errors=True)
        vlib.tlc_cleanup(main)
        vlib.tlc_cleanup(like)
        vlib.tlc_cleanup(mt)

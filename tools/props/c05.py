"""C05: no request body can crash or wedge the ingest side.
IngestLifecycle.tla (goroutines of one request x fault stage x fault kind) is model-checked by TLC for which faults are
survivable by design; IngestCases (generated from the driver's schema of routes x fields x defect classes) lets TLC
enumerate every single and pairwise field defect; each case + seeded byte-level mutations is sent to the REAL writer
router in a child process: response in bounded time, process alive, later valid push fine, no goroutine spinning/blocked."""
import json
import os
import random
import re
import shutil

import vlib

SPECDIR = os.path.join(vlib.SPEC, 'ingest')

CASES_TLA = '''---- MODULE MC_IngestCases ----
(* generated from `c05 schema`: the defect classes the driver can realise per route and field *)
EXTENDS Naturals, Sequences, TLC, Json
Schema == %(schema)s
Singles == { <<s[1], s[2], s[3], "", "">> : s \\in Schema }
Pairs == UNION { { <<a[1], a[2], a[3], b[2], b[3]>> : b \\in {x \\in Schema : x[1] = a[1] /\\ x[2] # a[2]} } : a \\in Schema }
VARIABLE c
Init == c \\in Singles \\cup Pairs
Next == UNCHANGED c
Spec == Init /\\ [][Next]_c
Export == PrintT(<<"CASE", ToJson([route |-> c[1], f1 |-> c[2], d1 |-> c[3], f2 |-> c[4], d2 |-> c[5]])>>)
====
'''


def lifecycle():
    res = vlib.tlc(SPECDIR, 'IngestLifecycle.tla', 'MC_IngestLifecycle.cfg', timeout=300)
    try:
        if res['violated'] or not res.get('finished'):
            raise vlib.Infra('IngestLifecycle.tla: ' + res['out'][-2000:])
        return {'states': res['distinct'], 'transitions': res['generated']}
    finally:
        vlib.tlc_cleanup(res)


def enumerate_cases(binp, sd):
    r = vlib.run_cmd([binp, 'schema'], timeout=60)
    if r.returncode != 0:
        raise vlib.Infra('c05 schema failed: ' + r.stderr[-1000:])
    schema = json.loads(r.stdout)
    triples = set()
    for route, fields in schema.items():
        for f, ds in fields.items():
            for d in ds:
                triples.add((route, f, d))
    # pairs are generated per route inside TLC; to keep the initial-state set tractable pairs are restricted to the same route
    mod = CASES_TLA % {'schema': '{' + ', '.join('<<"%s", "%s", "%s">>' % t for t in sorted(triples)) + '}'}
    open(os.path.join(sd, 'MC_IngestCases.tla'), 'w').write(mod)
    open(os.path.join(sd, 'MC_IngestCases.cfg'), 'w').write('SPECIFICATION Spec\nCONSTRAINT Export\nCHECK_DEADLOCK FALSE\n')
    res = vlib.tlc(sd, 'MC_IngestCases.tla', 'MC_IngestCases.cfg', timeout=900)
    try:
        cases = [json.loads(json.loads(m.group(1))) for m in re.finditer(r'^<<"CASE", (".*")>>\s*$', res['out'], flags=re.M)]
        if len(cases) < len(triples):
            raise vlib.Infra('TLC enumerated %d cases for %d schema entries: %s' % (len(cases), len(triples), res['out'][-1500:]))
        return cases, {'states': res.get('distinct', 0), 'transitions': res.get('generated', 0), 'schema_entries': len(triples)}
    finally:
        vlib.tlc_cleanup(res)


def run(tier):
    lc = lifecycle()
    binp = vlib.go_build('cmd/c05', 'c05')
    sd = vlib.scratch('c05')
    try:
        cases, en = enumerate_cases(binp, sd)
        singles = [c for c in cases if not c['f2']]
        pairs = [c for c in cases if c['f2']]
        rnd = random.Random(vlib.seed())
        rnd.shuffle(pairs)
        npairs = 250 if tier == 'quick' else 6000
        chosen = singles + pairs[:npairs]
        cp, op = os.path.join(sd, 'cases.json'), os.path.join(sd, 'out.json')
        json.dump(chosen, open(cp, 'w'))
        r = vlib.run_cmd([binp, 'run', '-cases', cp, '-out', op, '-seed', str(vlib.seed()), '-mutations', '12' if tier == 'quick' else '300'], timeout=3300)
        if r.returncode != 0 or not os.path.exists(op):
            inf = ''
            if os.path.exists(op):
                try:
                    inf = ' infra: %s' % json.load(open(op)).get('infra')
                except ValueError:
                    pass
            raise vlib.Infra('c05 run failed (rc=%s):%s %s' % (r.returncode, inf, (r.stdout + r.stderr)[-3000:]))
        out = json.load(open(op))
        viols = []
        seen = set()
        for f in out.get('findings') or []:
            if f['signature'] in seen:
                continue
            seen.add(f['signature'])
            path = vlib.save_replay('C05', re.sub(r'[^A-Za-z0-9]+', '_', f['signature'])[:100], f)
            viols.append({'property': 'C05', 'signature': f['signature'], 'msg': f['msg'], 'replay': path})
        cov = {'states': lc['states'] + en['states'], 'transitions': lc['transitions'] + max(en['transitions'], 1),
               'traces_validated_against_impl': out['requests'],
               'samples': [chosen[0], chosen[-1], {'status_codes': out['status_codes']}],
               'exhaustive': False, 'lifecycle_model': lc, 'case_enumeration': dict(en, singles=len(singles), pairs_total=len(pairs), pairs_run=min(npairs, len(pairs))),
               'run': {k: out[k] for k in ('requests', 'skipped_cases', 'byte_mutations', 'child_restarts', 'signature_counts')},
               'explanation': 'single field defects exhaustive, pairwise defects sampled by seed, raw bytes sampled: a crash needing a byte pattern outside every class is out of reach'}
        return {'level': 'model_checking', 'coverage': cov, 'violations': viols,
                'assumptions': ['the writer router runs in a child process over the fake ClickHouse client; a died child = process crash',
                                'time limit 5 s per request (normal requests take < 50 ms); spinning = same goroutine running in writer code in two stack samples 200 ms apart',
                                'byte-string universality is sampled, not decided (DESIGN section 6)']}
    finally:
        shutil.rmtree(sd, ignore_errors=True)

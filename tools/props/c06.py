"""C06: a stored span reads back as the span that was pushed.

spec/ingest/Spans.tla transcribes the span decoders of the writer (the Zipkin decoder as a state machine over the JSON keys
in arrival order, array and newline-delimited framing; the OTLP decoder with its attribute flattening and service-name
rules; onSpan with the 1 MiB flush) and the trace read path of the reader (Query order, OutputQuery stopping at the first
undecodable row, parseZipkinJSON, parseOTLP) next to the order-free DEFINITION of what the statement demands.  TLC explores
every body of the families of MC_Spans.tla, verifies (InvOutsideClasses) that the mechanism satisfies every clause outside
the named candidate classes (one is left: an OTLP span with peer.service under a resource with service.name) and exports every finished behaviour as a case: abstract body, demanded rows/read-back,
mechanism rows/read-back, broken clauses.  harness/cmd/c06 concretises every case into a real OTLP protobuf / Zipkin JSON
body (hostile strings, real ids and epoch times), pushes it through the REAL writer routes into the store, reads it back
through the REAL reader route (JSON and protobuf) and compares rows and spans with the definition (verdict) and with the
mechanism (conformance of the transcription).  A candidate of TLC that the real code does not confirm is an infrastructure
error, never a verdict."""
import concurrent.futures
import hashlib
import json
import os
import re
import shutil

import vlib

SPECDIR = os.path.join(vlib.SPEC, 'ingest')

CFG = '''SPECIFICATION Spec
CONSTANTS
  Bodies <- FamilyBodies
  Family = "%(family)s"
  Limit = 16
  ExportMod = %(mod)d
  ExportSeed = %(seed)d
  MaxSpans = %(maxspans)d
  BatchOwn = %(own)s
  BatchName = %(name)s
  BatchRemote = %(remote)s
  OrderPos = %(pos)s
  OrderKeys = %(okeys)s
  RattrSel = %(rattr)s
  GroupKinds = %(gkinds)s
  GroupOwn = %(gown)s
INVARIANTS %(invs)s
CHECK_DEADLOCK FALSE
'''
BOTH = '{TRUE, FALSE}'
DEFAULTS = dict(mod=1, maxspans=2, own=BOTH, name=BOTH, remote='{FALSE}', pos='{"first", "last"}',
                okeys='{"parentId", "name", "localEndpoint", "remoteEndpoint", "tags"}', rattr='{1, 2, 3, 4}',
                gkinds='{0, 1, 2}', gown=BOTH)
INVS = 'TypeOK Export InvAccepted InvOutsideClasses InvCleanDecoderArray'

# name -> (family, overrides)
CONFIGS = {
    'quick': [
        ('zids', 'zids', {}),
        ('zspell', 'zspell', {}),
        ('zorders', 'zorders', dict(okeys='{"name", "localEndpoint", "remoteEndpoint", "tags"}')),
        ('zbatch2', 'zbatch', dict(maxspans=2)),
        ('zbatch3', 'zbatch', dict(maxspans=3, own='{FALSE}', name='{TRUE}')),
        ('zbig', 'zbig', dict(maxspans=2)),
        ('oattrs', 'oattrs', dict(rattr='{1, 2}')),
        ('oids', 'oids', {}),
        ('ogroups', 'ogroups', dict(maxspans=2, gkinds='{0, 2}')),
        ('obig', 'obig', dict(maxspans=2)),
    ],
    'thorough': [
        ('zids', 'zids', {}),
        ('zspell', 'zspell', {}),
        ('zorders', 'zorders', {}),
        ('zbatch3', 'zbatch', dict(maxspans=3)),
        ('zbatch2r', 'zbatch', dict(maxspans=2, remote=BOTH)),
        ('zbig', 'zbig', dict(maxspans=3)),
        ('oattrs', 'oattrs', {}),
        ('oids', 'oids', {}),
        ('ogroups2', 'ogroups', dict(maxspans=2)),
        ('ogroups3', 'ogroups', dict(maxspans=3, gkinds='{0, 2}', gown='{FALSE}')),
        ('obig', 'obig', dict(maxspans=3)),
    ],
}
# the plain statement on a small family: expected to give a counterexample (the candidate TLC shows)
CANDIDATE = ('ogroups', dict(maxspans=2, gkinds='{0, 2}', gown='{FALSE}', mod=0),
             'InvRowCount InvOneTraceRow InvTraceRowFaithful InvTagRowsIdsTimes InvOneTagRowPerAttr InvNoForeignTagRow InvReadBack')

REQUIRED_TRAITS = ['zipkin:array', 'zipkin:ndjson', 'otlp:pb', 'ts:number', 'ts:string', 'id:short', 'id:zero', 'id:max', 'id:full',
                   'endpoints:local-first', 'endpoints:remote-first', 'order:ids-last', 'parent:absent', 'name:absent', 'tags:absent',
                   'spans:2', 'spans:3', 'big:1', 'big:2', 'flush:intermediate', 'attr:str', 'attr:int', 'attr:double', 'attr:bool',
                   'attr:list', 'attr:map', 'attr:nested', 'attr:empty-list', 'attr:peer.service', 'groups:2', 'scopes:2', 'scope:empty',
                   'resource:no-attributes', 'resource:service.name', 'parent:present', 'duration:zero',
                   'spell:padded', 'spell:stripped', 'digits:odd:traceId', 'digits:odd:id', 'digits:odd:parentId']
REQUIRED_ACTIONS = ['ZArrElem', 'ZNdLine', 'ZKeyStep', 'ZSpanEnd', 'OSpan', 'Finish']

_CASE = re.compile(r'^<<"C06CASE", (".*")>>$')


def _cfg(sd, name, family, over, invs):
    d = dict(DEFAULTS)
    d.update(over)
    d.update(family=family, invs=invs, seed=vlib.seed() % max(1, d['mod']))
    p = os.path.join(sd, 'MC_Spans_%s.cfg' % name)
    open(p, 'w').write(CFG % d)
    return p, d


def _model_check(sd, name, family, over, timeout):
    cfgp, d = _cfg(sd, name, family, over, INVS)
    for attempt in range(3):
        res = vlib.tlc(SPECDIR, 'MC_Spans.tla', os.path.basename(cfgp), workers=2, timeout=timeout, copy_extra=[cfgp],
                       coverage=family in ('zbig', 'obig'))
        # a TLC process killed from outside (another check's timeout handler kills every TLC on the machine) ends without a verdict
        if res['violated'] or 'Model checking completed' in res['out'] or attempt == 2:
            break
        vlib.tlc_cleanup(res)
    try:
        if res['violated']:
            raise vlib.Infra('TLC reports %s on Spans.tla (config %s): the mechanism breaks the statement outside the declared '
                             'candidate classes (or the spec is inconsistent); nothing was run against the code:\n%s'
                             % (res['violated'], name, re.sub(r'<<"C06CASE".*', '', res['out'])[-2500:]))
        if 'Model checking completed' not in res['out']:
            raise vlib.Infra('TLC did not finish config %s: %s' % (name, res['out'][-1500:]))
        path = os.path.join(sd, 'cases_%s.ndjson' % name)
        n = 0
        flagged = 0
        with open(path, 'w') as o:
            for line in res['out'].splitlines():
                m = _CASE.match(line)
                if not m:
                    continue
                try:
                    case = json.loads(json.loads(m.group(1)))
                except ValueError as e:
                    raise vlib.Infra('cannot parse an exported case of %s: %s: %s' % (name, e, line[:300]))
                case['cfg'] = name
                case['id'] = name + '-' + hashlib.sha1(json.dumps(case['body'], sort_keys=True).encode()).hexdigest()[:12]
                flagged += 1 if case['flags'] else 0
                o.write(json.dumps(case) + '\n')
                n += 1
        zero = vlib.coverage_zero_actions(res['out']) if family in ('zbig', 'obig') else None
        covered = None
        if zero is not None:
            covered = sorted(set(re.findall(r'^<([A-Za-z0-9_]+) line .*?>: \d+:[1-9]\d*', res['out'], flags=re.M)))
        return {'config': name, 'family': family, 'constants': {k: v for k, v in d.items() if k not in ('invs',)},
                'states': res.get('distinct', 0), 'transitions': res.get('generated', 0), 'exported': n,
                'cases_breaking_a_clause_in_the_spec': flagged, 'wall_s': round(res['wall'], 1), 'cases': path, 'actions_covered': covered}
    finally:
        vlib.tlc_cleanup(res)


def _candidate(sd):
    family, over, invs = CANDIDATE
    cfgp, d = _cfg(sd, 'CAND', family, over, invs)
    dump = os.path.join(sd, 'cand_cex.json')
    res = vlib.tlc(SPECDIR, 'MC_Spans.tla', os.path.basename(cfgp), workers=1, timeout=300, copy_extra=[cfgp],
                   extra=['-dumpTrace', 'json', dump])
    try:
        out = {'invariants': invs.split(), 'violated': res['violated'], 'states': res.get('distinct', 0), 'counterexample': None}
        if res['violated']:
            if not os.path.exists(dump):
                raise vlib.Infra('TLC reported %s but wrote no counterexample' % res['violated'])
            sts = json.load(open(dump)).get('counterexample', {}).get('state', [])
            last = sts[-1][1] if sts else {}
            out['counterexample'] = {'length': len(sts), 'framing': (last.get('body') or {}).get('framing'), 'pc': last.get('pc'),
                                     'i': last.get('i'), 'j': last.get('j'), 'decoder': json.dumps(last.get('z'))[:600]}
        elif 'Model checking completed' not in res['out']:
            raise vlib.Infra('TLC did not finish the candidate run: ' + res['out'][-1500:])
        return out
    finally:
        vlib.tlc_cleanup(res)


def _signature(r, kind):
    """proto:framing|kind when the real code behaved exactly as the mechanism transcribed in Spans.tla predicts for the case (the
    finding is a property of the documented mechanism); prefixed with `untranscribed|` when the real code also deviates from it."""
    sig = '%s:%s|%s' % (r['proto'], r['framing'], kind)
    return sig if not r.get('mech_diffs') and not r.get('crash') else 'untranscribed|' + sig


def run(tier):
    seed = vlib.seed()
    binp = vlib.go_build('cmd/c06', 'c06')
    sd = vlib.scratch('c06')
    try:
        cfgs = CONFIGS[tier]
        timeout = 400 if tier == 'quick' else 1200
        with concurrent.futures.ThreadPoolExecutor(max_workers=4) as ex:
            futs = [ex.submit(_model_check, sd, n, f, o, timeout) for n, f, o in cfgs]
            fc = ex.submit(_candidate, sd)
            mcs = [f.result() for f in futs]
            cand = fc.result()
        allcases = os.path.join(sd, 'cases.ndjson')
        seen = set()
        total = 0
        sample = None
        with open(allcases, 'w') as o:
            for mc in mcs:
                for line in open(mc['cases']):
                    cid = line[line.rindex('"id": "') + 7:].split('"', 1)[0]
                    bid = cid.split('-', 1)[1]
                    if (mc['family'], bid) in seen:      # the same body exported by two configs of one family
                        continue
                    seen.add((mc['family'], bid))
                    o.write(line)
                    total += 1
                    if sample is None and mc['family'] == 'ogroups' and '"flags": []' not in line:
                        sample = json.loads(line)
                mc.pop('cases')
        if total == 0:
            raise vlib.Infra('TLC exported no case')
        # ---- the real code
        seeds = [seed] if tier == 'quick' else [seed, seed + 1]
        results = []
        for s in seeds:
            casefile = allcases
            if s != seed:
                # second concretisation (other hostile values, routes, id spellings) of everything but the largest family
                casefile = os.path.join(sd, 'cases_second.ndjson')
                with open(casefile, 'w') as o:
                    for line in open(allcases):
                        if '"cfg": "zbatch3"' not in line:
                            o.write(line)
            outp = os.path.join(sd, 'result_%d.ndjson' % s)
            env = dict(os.environ)
            env['TZ'] = 'UTC'
            r = vlib.run_cmd([binp, 'run', '-cases', casefile, '-out', outp, '-seed', str(s), '-workers', '6'], timeout=1500, env=env)
            if r.returncode != 0 or not os.path.exists(outp):
                raise vlib.Infra('c06 driver failed: ' + (r.stdout + r.stderr)[-2500:])
            hdr = None
            for line in open(outp):
                obj = json.loads(line)
                if hdr is None:
                    hdr = obj
                    continue
                obj['seed'] = s
                results.append(obj)
            if hdr is None or hdr.get('infra'):
                raise vlib.Infra('c06 driver reports: %s' % (hdr,))
            if hdr['results'] + hdr.get('skipped_after_crashes', 0) != hdr['cases']:
                raise vlib.Infra('c06 driver processed %d of %d cases' % (hdr['results'], hdr['cases']))
        # ---- verdicts
        infra = [r for r in results if r.get('infra')]
        if infra:
            raise vlib.Infra('%d cases could not be judged, e.g. %s: %s\n%s' % (len(infra), infra[0]['id'], infra[0]['infra'][:600],
                                                                            json.dumps(infra[0].get('detail'), ensure_ascii=False)[:1500]))
        by_sig = {}
        traits = {}
        classes = {}
        refuted = []
        unfaithful = []
        conform = 0
        for r in results:
            for t in r.get('traits') or []:
                traits[t] = traits.get(t, 0) + 1
            if r.get('crash'):
                by_sig.setdefault(_signature(r, 'crash'), []).append((r, [{'kind': 'crash', 'span': 0, 'detail': r['crash']}]))
                continue
            dm = r.get('def_mismatches') or []
            kinds = {m['kind'] for m in dm}
            # the JSON rendering of the same read-back difference is not a finding of its own
            kinds = {k for k in kinds if not (k.startswith('readjson') and k.replace('readjson', 'read', 1) in kinds)}
            for k in sorted(kinds):
                by_sig.setdefault(_signature(r, k), []).append((r, [m for m in dm if m['kind'] == k]))
            if r['flags'] and not dm:
                refuted.append(r)
            if r.get('mech_diffs'):
                if not dm:
                    unfaithful.append(r)
            else:
                conform += 1
            for c in r.get('flags') or []:
                classes.setdefault(c, [0, 0])
                classes[c][0] += 1
                classes[c][1] += 1 if dm else 0
        if refuted:
            r = refuted[0]
            raise vlib.Infra('TLC candidate not confirmed by the real code: the mechanism of Spans.tla breaks %s for case %s but the real code '
                             'satisfies the statement there (%d such cases): the transcription is wrong' % (r['flags'], r['id'], len(refuted)))
        if unfaithful:
            r = unfaithful[0]
            raise vlib.Infra('the real code satisfies the statement but deviates from the mechanism of Spans.tla in %d cases, e.g. %s: %s'
                             % (len(unfaithful), r['id'], json.dumps(r['mech_diffs'], ensure_ascii=False)[:1500]))
        crashed = any(r.get('crash') for r in results)
        missing = [t for t in REQUIRED_TRAITS if not traits.get(t)]
        if missing and not crashed:
            raise vlib.Infra('vacuous coverage: no case with traits %s' % missing)
        covered = set()
        for mc in mcs:
            covered |= set(mc.get('actions_covered') or [])
        missing = [a for a in REQUIRED_ACTIONS if a not in covered]
        if missing:
            raise vlib.Infra('vacuous coverage: actions %s of Spans.tla never taken' % missing)
        if not cand['violated']:
            raise vlib.Infra('the plain statement holds on the candidate family of Spans.tla although the exported cases carry broken clauses')
        viols = []
        for sig in sorted(by_sig):
            lst = by_sig[sig]
            r, ms = min(lst, key=lambda x: (x[0]['n'], x[0]['body_bytes'], x[0]['id']))
            replay = {'signature': sig, 'cases_with_this_signature': len(lst), 'case': r['id'], 'seed': r['seed'], 'mismatches': ms,
                      'spec_flags': r['flags'], 'traits': r['traits'], 'detail': r.get('detail'),
                      'deviation_from_spec_mechanism': r.get('mech_diffs')}
            path = vlib.save_replay('C06', re.sub(r'[^A-Za-z0-9]+', '_', sig)[:100], replay)
            viols.append({'property': 'C06', 'signature': sig,
                          'msg': '%d cases, smallest %s (span %d): %s' % (len(lst), r['id'], ms[0]['span'], ms[0]['detail'][:500]), 'replay': path})
        samples = []
        if sample is not None:
            samples.append({'abstract_case': {k: sample[k] for k in ('id', 'body', 'def', 'flags', 'classes')},
                            'mechanism_rows': sample['mech']['rows'], 'mechanism_read_back': sample['mech']['read']})
        withdetail = [r for r in results if r.get('detail')]
        if withdetail:
            r = min(withdetail, key=lambda x: (x['n'], x['body_bytes']))
            samples.append({'concrete_case': r['id'], 'request': r['detail']['request'], 'observed_rows': r['detail']['observed_tempo_traces'],
                            'observed_read_back': r['detail']['observed_read_back'], 'expected': r['detail']['expected_per_span']})
        if not samples:
            samples.append({'case': results[0]['id'], 'traits': results[0]['traits']})
        cov = {'states': sum(m['states'] for m in mcs) + cand['states'], 'transitions': sum(m['transitions'] for m in mcs),
               'traces_validated_against_impl': len(results), 'distinct_nontrivial': total, 'exhaustive': True,
               'samples': samples, 'model_checks': mcs, 'tlc_candidate_on_plain_statement': cand,
               'cases_conforming_to_spec_mechanism_exactly': conform, 'cases_deviating_from_spec_mechanism': len(results) - conform,
               'clauses_broken_in_spec_vs_confirmed_on_real_code': {k: {'cases': v[0], 'confirmed': v[1]} for k, v in sorted(classes.items())},
               'mismatch_signatures': {s: len(v) for s, v in sorted(by_sig.items())}, 'traits': dict(sorted(traits.items())),
               'concretisation_seeds': seeds}
        return {'level': 'model_checking', 'coverage': cov, 'violations': viols,
                'assumptions': ['only well-formed spans (ids of legal length, string Zipkin tags, non-negative durations); rejection and crashes on malformed input are C05',
                                'attribute keys of one span (span + resource attributes, after flattening) are distinct',
                                'the service name of an OTLP span is demanded only when its resource carries a string service.name; derived tag rows (name, service.name, remoteService.name, *_endpoint_service_name) are allowed, not demanded',
                                'a double attribute may be rendered in the tag index by any decimal rendering within 5e-7 (the code uses %f)',
                                'ids are compared as bytes, times as integers; the store is the chsql reference interpreter with the real DDL',
                                'newline-delimited framing is selected the only way the controller allows it: Content-Type starting with "ndjson"']}
    finally:
        shutil.rmtree(sd, ignore_errors=True)

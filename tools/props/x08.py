"""X08: PromQL range queries that are served from the 15 s downsample table (metrics_15s) answer what PromQL defines.

spec/query/PromDown.tla gives, over a small abstract database of samples (series, 15 s bucket, position in the bucket:
first ms / inside / last ms, value) and a request (function: bare selector, sum(selector), {sum,count,avg,min,max,last,
present}_over_time; range, step, start, end in 15 s buckets), the DEFINITION of the answer on the raw samples (the
vendored engine's closed windows [t-range, t] / [t-lookback, t]) next to a transcription of the MECHANISM: materialized
view metrics_15s_mv -> the SQL time filter -> per-step re-bucketing, re-timing to "step bucket start - 1 ms", state merge
per function and the (ts % step) filter for step > range -> MapResult expansion -> the engine over the re-timed points;
parameterised by named quirks.  TLC (MC_PromDown) enumerates every database x request of the bounds, proves
Mech({}) = Def, and exports for every case the definition's answer, the as-coded answer and the smallest quirk sets that
reproduce the as-coded answer.  harness/cmd/x08 stores the samples in the store of an e2e.World (real DDL + real
materialized view), asks the REAL /api/v1/query_range route, proves from the recorded SQL that metrics_15s was read and
compares: == definition -> ok, == as-coded prediction -> violation as-coded|<fn>|<quirks>, anything else ->
violation unexplained|<fn>|<how the answer differs from the as-coded prediction>.  Verdicts only come from answers of the real code."""
import concurrent.futures
import json
import os
import re
import shutil
import time

import vlib

SPECDIR = os.path.join(vlib.SPEC, 'query')
ALL_QUIRKS = ['bucket_grain', 'from_exclusive', 'step_merge', 'retimed_before_bucket', 'narrow_window']
ALL_FNS = ['', 'sum', 'sum_over_time', 'count_over_time', 'avg_over_time', 'min_over_time', 'max_over_time', 'last_over_time',
           'present_over_time']

CFG = '''SPECIFICATION Spec
CONSTANTS
  LB = 20
  NS = %(ns)d
  SB = %(sb)s
  EB = %(eb)s
  Vals = %(vals)s
  MaxSamples = %(max)d
  Fns = %(fns)s
  Ranges = %(ranges)s
  Steps = %(steps)s
  MaxEvals = %(evals)d
  ExportMod = %(mod)d
  ExportSeed = %(seed)d
INVARIANT AllChecks
CHECK_DEADLOCK FALSE
'''


def _set(xs):
    return '{' + ', '.join(json.dumps(x) for x in xs) + '}'


RANGE_FNS = [f for f in ALL_FNS if f.endswith('_over_time')]
DEFAULTS = dict(ns=1, sb=[0, 1, 2], eb=[0, 1, 2, 3], vals=[1, 2], max=2, fns=ALL_FNS, ranges=[1, 2], steps=[1, 2, 3], evals=3, mod=1, workers=6)
# mod: the requests of every mod-th database (content hash) are enumerated; 1 = exhaustive
CONFIGS = {
    'quick': [
        # one series, three sample buckets, <= 2 samples, every request: exhaustive
        ('A2', dict(fns=[f for f in ALL_FNS if f not in ('sum', 'present_over_time')])),
        # two series (fingerprint grouping, sum() across series): exhaustive
        ('S2', dict(ns=2, sb=[0, 1], eb=[0, 1, 2], ranges=[1], steps=[1, 2])),
    ],
    'thorough': [
        ('A2', dict(fns=[f for f in ALL_FNS if f not in ('sum', 'present_over_time')])),
        ('S2', dict(ns=2, sb=[0, 1], eb=[0, 1, 2], ranges=[1], steps=[1, 2])),
        # three samples (avg of avgs), three values, steps up to 60 s, ranges up to 60 s (several step buckets per window)
        ('A3', dict(sb=[0, 1, 2, 3], eb=[0, 1, 2, 3, 4, 5], vals=[1, 2, 5], max=3, ranges=[1, 2, 4], steps=[1, 2, 3, 4], mod=48, workers=8)),
        # two series, three samples
        ('S3', dict(ns=2, sb=[0, 1, 2], eb=[0, 1, 2, 3], vals=[1, 2, 5], max=3, ranges=[1, 2], steps=[1, 2, 3], mod=48, workers=8)),
        # the lookback edge: samples 5 min before the evaluation times
        ('L2', dict(sb=[0, 1, 20, 21], eb=[19, 20, 21, 22], fns=['', 'sum', 'last_over_time', 'sum_over_time'], ranges=[1, 20], steps=[1, 2, 3], workers=8)),
    ],
}

_CASE = re.compile(r'^<<"X08CASE", (".*")>>$')


def _model_check(name, c, sd, timeout):
    d = dict(DEFAULTS)
    d.update(c)
    bounds = {k: v for k, v in d.items() if k != 'workers'}
    # the sampled configurations enumerate a FIXED subset of the databases (content hash % mod = 0): the set of as-coded
    # signatures must not depend on the seed (rare quirk combinations occur in a handful of cases only); the seed varies the
    # concretisation (time base, metric / label names, fingerprints, insertion order and block split)
    d['seed'] = 0
    for k in ('sb', 'eb', 'vals', 'fns', 'ranges', 'steps'):
        d[k] = _set(d[k])
    cfgp = os.path.join(sd, 'MC_PromDown_%s.cfg' % name)
    open(cfgp, 'w').write(CFG % d)
    res = vlib.tlc(SPECDIR, 'MC_PromDown.tla', os.path.basename(cfgp), workers=d['workers'], timeout=timeout, copy_extra=[cfgp], heap='3g')
    try:
        if res['violated']:
            raise vlib.Infra('TLC reports %s on PromDown.tla (config %s): the specification is inconsistent with itself (Mech({}) # Def or '
                             'an unexplained as-coded answer); nothing was run against the code:\n%s' % (res['violated'], name, res['out'][-2500:]))
        if not res.get('finished') or 'Model checking completed' not in res['out']:
            tail = '\n'.join(l for l in res['out'].splitlines()[-400:] if not l.startswith('<<"X08CASE"'))
            raise vlib.Infra('TLC did not finish config %s (exit code %s; 137 = killed, e.g. by the OOM killer): %s' % (name, res.get('rc'), tail[-1500:]))
        cases, fired, fns = [], {}, {}
        for line in res['out'].splitlines():
            m = _CASE.match(line)
            if not m:
                continue
            try:
                case = json.loads(json.loads(m.group(1)))
            except ValueError as e:
                raise vlib.Infra('cannot parse an exported case of %s: %s: %s' % (name, e, line[:300]))
            case['cfg'] = name
            for q in {q for qs in case['fired'] for q in qs}:
                fired[q] = fired.get(q, 0) + 1
            fns[case['req']['fn']] = fns.get(case['req']['fn'], 0) + 1
            cases.append((json.dumps(case['db'], sort_keys=True), json.dumps(case)))
        if not cases:
            raise vlib.Infra('config %s exported no case (%d states)' % (name, res.get('distinct', 0)))
        cases.sort()
        return {'config': name, 'bounds': bounds, 'states': res.get('distinct', 0), 'transitions': res.get('generated', 0),
                'exported': len(cases), 'wall_s': round(res['wall'], 1), 'cases_in_which_a_quirk_is_needed': fired, 'cases_by_fn': fns,
                'cases': cases}
    finally:
        vlib.tlc_cleanup(res)


def _shards(mcs, n):
    groups = []
    for mc in mcs:
        cur, key = None, None
        for (dbk, line) in mc.pop('cases'):
            if dbk != key or cur is None:
                cur, key = [], dbk
                groups.append(cur)
            cur.append(line)
    shards = [[] for _ in range(n)]
    sizes = [0] * n
    for g in sorted(groups, key=len, reverse=True):
        i = sizes.index(min(sizes))
        shards[i].append(g)
        sizes[i] += len(g)
    return shards


def _drive(binp, i, groups, sd, timeout):
    cp = os.path.join(sd, 'cases_%d.ndjson' % i)
    rp = os.path.join(sd, 'result_%d.json' % i)
    with open(cp, 'w') as o:
        for g in groups:
            o.write('\n'.join(g) + '\n')
    env = dict(os.environ)
    env['TZ'] = 'UTC'
    r = vlib.run_cmd([binp, 'run', '-cases', cp, '-out', rp, '-seed', str(vlib.seed())], timeout=timeout, env=env)
    if r.returncode != 0 or not os.path.exists(rp):
        raise vlib.Infra('x08 driver failed (rc %s): %s' % (r.returncode, (r.stdout + r.stderr)[-3000:]))
    return json.load(open(rp))


def _merge(dst, src):
    for k, v in (src or {}).items():
        dst[k] = dst.get(k, 0) + v


def run(tier):
    sd = vlib.scratch('x08')
    try:
        configs = CONFIGS[tier]
        t0 = time.time()
        phases = {}
        tmo = 200 if tier == 'quick' else 800
        with concurrent.futures.ThreadPoolExecutor(max_workers=3) as ex:
            fb = ex.submit(vlib.go_build, 'cmd/x08', 'x08')
            with concurrent.futures.ThreadPoolExecutor(max_workers=2) as ex2:
                futs = [ex2.submit(_model_check, n, c, sd, tmo) for n, c in configs]
                mcs = [f.result() for f in futs]
            binp = fb.result()
        phases['tlc_enumeration'] = round(time.time() - t0, 1)
        ncases = sum(mc['exported'] for mc in mcs)
        spec_fired, spec_fns = {}, {}
        for mc in mcs:
            _merge(spec_fired, mc['cases_in_which_a_quirk_is_needed'])
            _merge(spec_fns, mc['cases_by_fn'])
        never = [q for q in ALL_QUIRKS if not spec_fired.get(q)] + ['fn ' + f for f in ALL_FNS if not spec_fns.get(f)]
        if never:
            raise vlib.Infra('vacuous coverage: no exported case for %s' % never)
        t1 = time.time()
        shards = [s for s in _shards(mcs, 8) if s]
        with concurrent.futures.ThreadPoolExecutor(max_workers=len(shards)) as ex:
            results = list(ex.map(lambda a: _drive(binp, a[0], a[1], sd, 300 if tier == 'quick' else 1500), list(enumerate(shards))))
        phases['driver'] = round(time.time() - t1, 1)
        stats, by_fn, fired_obs, counts = {}, {}, {}, {}
        mism, infra, sample = {}, [], None
        for r in results:
            _merge(stats, r.get('stats'))
            _merge(by_fn, r.get('by_fn'))
            _merge(fired_obs, r.get('fired_observed'))
            _merge(counts, r.get('mismatch_counts'))
            infra += r.get('infra') or []
            sample = sample or r.get('sample')
            for m in r.get('mismatches') or []:
                old = mism.get(m['signature'])
                if old is None or len(json.dumps(m['case'])) < len(json.dumps(old['case'])):
                    mism[m['signature']] = m
        if infra:
            raise vlib.Infra('x08 driver: %d infrastructure problems, first: %s' % (len(infra), infra[0]))
        if stats.get('cases', 0) != ncases:
            raise vlib.Infra('driver ran %d of %d cases' % (stats.get('cases', 0), ncases))
        down = stats.get('downsample_path', 0)
        missing_fn = [f for f in ALL_FNS if not by_fn.get(f or 'selector')]
        if down * 10 < ncases * 9 or stats.get('definition_nonempty', 0) * 3 < down or missing_fn:
            raise vlib.Infra('vacuous coverage: %d of %d cases read metrics_15s, %d with a non-empty expected answer, functions never judged %s' % (
                down, ncases, stats.get('definition_nonempty', 0), missing_fn))
        viols = []
        for sig in sorted(mism):
            m = mism[sig]
            path = vlib.save_replay('X08', re.sub(r'[^A-Za-z0-9]+', '_', sig)[:90],
                                    {'kind': 'TLC case (MC_PromDown) replayed through the real /api/v1/query_range route over the store (harness/cmd/x08); '
                                             'write the object under "case" as one line to a file and run `TZ=UTC x08 run -cases <file> -out r.json -seed <seed>`',
                                     'seed': vlib.seed(), 'tier': tier, 'mismatch': m, 'occurrences_in_this_run': counts.get(sig)})
            viols.append({'property': 'X08', 'signature': sig, 'replay': path,
                          'msg': '%s (%d occurrences)%s' % (m['msg'], counts.get(sig, 1),
                                                            '' if m['kind'] == 'quirk' else ' -- the as-coded prediction was %s' % json.dumps(m.get('predicted_as_coded')))})
        cov = {'states': sum(mc['states'] for mc in mcs), 'transitions': sum(mc['transitions'] for mc in mcs),
               'traces_validated_against_impl': down,
               'samples': [sample or (list(mism.values())[0] if mism else {'cases': ncases})],
               'exhaustive': all(mc['bounds']['mod'] == 1 for mc in mcs),
               'model_check': mcs, 'phase_wall_s': phases, 'cases_replayed': ncases, 'driver_stats': stats, 'judged_by_fn': by_fn,
               'cases_in_which_tlc_needs_a_quirk': spec_fired, 'observed_as_coded_by_quirk_set': fired_obs,
               'mismatch_counts': counts,
               'checker_cmd': 'tlc MC_PromDown (x%d configs) -> x08 run (x%d processes)' % (len(mcs), len(shards))}
        return {'level': 'model_checking', 'coverage': cov, 'violations': viols,
                'assumptions': [
                    'PromQL semantics are those of the vendored engine (prometheus b41e0750abf5, July 2022): range windows [t-range, t] and the '
                    'lookback window [t-5m, t] are closed on both sides',
                    'start, end are multiples of 15 s (the controller rounds them anyway), step and range are multiples of 15 s >= 15 s (anything '
                    'else is served from samples_v3, which is C17), bucket 0 of a case is a whole hour, so it is aligned to every step used',
                    'samples sit at the first millisecond, 7 s into, or the last millisecond of a 15 s bucket; at most one sample per series '
                    'and millisecond; values are small positive integers; avg_over_time is compared with relative tolerance 1e-9',
                    'the ClickHouse server is the chsql interpreter over the real DDL and the real materialized view metrics_15s_mv; samples are '
                    'inserted straight into samples_v3 / time_series (type 2) in one or two blocks in random order',
                    'single-node reader (no cluster), no @ / offset modifiers, no subqueries, no instant queries (Step = 0 takes another branch)']}
    finally:
        shutil.rmtree(sd, ignore_errors=True)

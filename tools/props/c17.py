"""C17: Prometheus and Pyroscope label matchers select exactly the matching series; every selected series reaches
the PromQL engine once, under its own labels, with its samples of the range in ascending order, through a cursor that
honours the chunkenc.Iterator seek/next contract, so PromQL over raw samples returns what Prometheus returns.

Specs: spec/query/PromCursor.tla (cursor transcription vs contract, lock step), spec/query/Selector.tla (matcher
definition vs the label-index bitmask query) and spec/query/SelectDays.tla (the day dimension of a Select: zone of the reader
process x window position relative to the UTC midnights x series whose index rows exist only on the UTC days of their samples;
the date bounds of the index statements must not lose a series that has a sample in the window). TLC checks them and EXPORTS (a) the contract step table, (b) every
(series database, matcher set) case with the series the definition selects. harness/cmd/c17 replays (a) on the real
model.Series iterator under every call sequence, (b) through the real CLokiQuerier.Select / Prometheus HTTP routes /
Pyroscope routes over chsql with the real DDL, and runs the vendored Prometheus engine over the real qryn Queryable
versus a real Prometheus TSDB with the same samples. Verdicts only come from the real code's behaviour."""
import json
import os
import shutil
import threading

import vlib

SPECDIR = os.path.join(vlib.SPEC, 'query')

CURSOR_CFG = '''SPECIFICATION Spec
CONSTANTS
  MaxTs = %(maxts)d
  MaxLen = %(maxlen)d
  SeekMax = %(seekmax)d
  MaxCalls = %(maxcalls)d
%(props)s
CHECK_DEADLOCK FALSE
'''

SEL_CFG = '''INIT MCInit
NEXT MCNext
CONSTANTS
  KV = %(kv)s
  GL = %(gl)s
  MaxSeries = %(maxseries)d
  MaxMatchers = %(maxmatchers)d
  SVals = %(svals)s
  EqPats = %(eqpats)s
  RePats = %(repats)s
  Ops = %(ops)s
  BitWidth = 64
  AllowEmpty = %(allowempty)s
  AlwaysRow = %(alwaysrow)s
  Plan1 = %(plan1)d
  Plan2 = %(plan2)d
  SampleDB = %(sampledb)d
  SampleMS = %(samplems)d
  SampleSeries = %(sampleseries)d
  SampleMatchers = %(samplematchers)d
  OutFile = "%(outfile)s"
%(props)s
CONSTRAINT PlanOK
CHECK_DEADLOCK FALSE
'''

DAYS_CFG = '''SPECIFICATION Spec
CONSTANTS
  Days = 3
  DayTicks = %(dayticks)d
  ZoneOffs <- MCZoneOffs
  MaxLen = %(maxlen)d
  MaxSamples = %(maxsamples)d
  OutFile = "seldays.json"
INVARIANTS TypeOK NoMiss SelectedHaveSamples
CHECK_DEADLOCK FALSE
'''

ALLV = '{"", "x", "xy"}'
ALLRE = '{"x", "xy", "y", ".*", ".+", ""}'
ALLOPS = '{"=", "!=", "=~", "!~"}'


def selcfg(name, kind, kv, gl, plans, sample=None, svals=ALLV, eqpats=ALLV, repats=ALLRE, ops=ALLOPS):
    """plans: list of (max series, max matchers) checked and exported exhaustively; sample: (n databases, n matcher sets,
    max series, max matchers) exported on top"""
    sample = sample or (0, 0, 1, 1)
    return {'name': name, 'kind': kind, 'kv': kv, 'gl': gl, 'maxseries': max(p[0] for p in plans), 'maxmatchers': max(p[1] for p in plans),
            'plan1': 100 * plans[0][0] + plans[0][1], 'plan2': (100 * plans[1][0] + plans[1][1]) if len(plans) > 1 else 0, 'svals': svals,
            'eqpats': eqpats, 'repats': repats, 'ops': ops, 'allowempty': 'TRUE' if kind == 'prof' else 'FALSE',
            'alwaysrow': 'TRUE' if kind == 'prof' else 'FALSE', 'sampledb': sample[0], 'samplems': sample[1], 'sampleseries': sample[2],
            'samplematchers': sample[3], 'outfile': name + '.json', 'bounds': {'plans': plans, 'sample': sample}}


KV2 = '{"n1", "n2"}'
KV1 = '{"n1"}'
G1 = '{"g1"}'
WIDE = '{' + ', '.join('"w%02d"' % i for i in range(1, 11)) + '}'


def sel_plans(tier):
    wide = dict(svals='{"x"}', eqpats='{"x"}', repats='{}', ops='{"="}')
    if tier == 'quick':
        return [selcfg('prom', 'prom', KV2, '{}', [(1, 2), (3, 1)], sample=(10, 120, 3, 3)),
                selcfg('prom_wide', 'prom', WIDE, '{}', [(1, 10)], **wide),
                selcfg('prof', 'prof', KV1, G1, [(1, 2), (2, 1)], sample=(8, 60, 3, 3))]
    return [selcfg('prom', 'prom', KV2, '{}', [(3, 2), (1, 3)], sample=(40, 600, 3, 3)),
            selcfg('prom_wide', 'prom', WIDE, '{}', [(1, 10)], **wide),
            selcfg('prof', 'prof', KV1, G1, [(3, 2), (1, 3)], sample=(20, 300, 4, 3)),
            selcfg('prof_k2', 'prof', KV2, G1, [(1, 2), (2, 1)], sample=(30, 400, 3, 3))]


class Par:
    """run callables in threads, re-raise the first exception"""

    def __init__(self):
        self.ts, self.res, self.err = [], {}, []

    def go(self, key, fn, *a):
        def run():
            try:
                self.res[key] = fn(*a)
            except BaseException as e:  # noqa
                self.err.append(e)
        t = threading.Thread(target=run)
        t.start()
        self.ts.append(t)

    def wait(self):
        for t in self.ts:
            t.join()
        self.ts = []
        if self.err:
            raise self.err[0]
        return self.res


def tlc_run(module, cfg_text, tag, keep, workers=2, timeout=900, dump=False):
    """one TLC run on a generated cfg; files named in `keep` are copied out of the scratch directory to `keep[name]`"""
    sd = vlib.scratch('c17cfg')
    try:
        cfgp = os.path.join(sd, tag + '.cfg')
        open(cfgp, 'w').write(cfg_text)
        extra = ['-seed', str(vlib.seed())]
        if dump:
            extra += ['-dumpTrace', 'json', 'cex_%s.json' % tag]
        res = vlib.tlc(SPECDIR, module, tag + '.cfg', workers=workers, timeout=timeout, copy_extra=[cfgp], extra=extra)
        try:
            for name, dst in keep.items():
                src = os.path.join(res['scratch'], name)
                if os.path.exists(src):
                    shutil.copy(src, dst)
            out = {'tag': tag, 'states': res.get('distinct', 0), 'transitions': res.get('generated', 0), 'wall_s': round(res['wall'], 1),
                   'violated': res['violated'], 'finished': res.get('finished', False)}
            if not res['violated'] and not res.get('finished'):
                raise vlib.Infra('TLC did not finish %s: %s' % (tag, res['out'][-1500:]))
            return out
        finally:
            vlib.tlc_cleanup(res)
    finally:
        shutil.rmtree(sd, ignore_errors=True)


def run_driver(binp, args, outp, timeout=1500):
    env = dict(os.environ)
    env['TZ'] = 'UTC'
    r = vlib.run_cmd([binp] + args + ['-out', outp], timeout=timeout, env=env)
    if r.returncode != 0 or not os.path.exists(outp):
        raise vlib.Infra('c17 %s failed: %s' % (args[0], (r.stdout + r.stderr)[-3000:]))
    res = json.load(open(outp))
    if res.get('infra'):
        raise vlib.Infra('c17 %s: statements the reference interpreter cannot run: %s' % (args[0], json.dumps(res['infra'][:3])[:2000]))
    return res


def cex_states(path):
    cx = json.load(open(path)).get('counterexample', {})
    return [s[1] for s in cx.get('state', [])]


def split_cases(path, nparts, sd):
    ex = json.load(open(path))
    # the plans and the sample are exported side by side (they overlap): merge
    seen, cases = set(), []
    for c in ex['cases'] + ex.get('cases2', []) + ex.get('sampled', []):
        k = json.dumps([sorted(json.dumps(x, sort_keys=True) for x in c['db']), sorted(json.dumps(x, sort_keys=True) for x in c['ms'])])
        if k not in seen:
            seen.add(k)
            cases.append(c)
    ex = {'names': ex['names'], 'cases': cases}
    # keep the cases of one database together: the driver stores each database once
    cases.sort(key=lambda c: json.dumps(c['db'], sort_keys=True))
    parts = []
    per = (len(cases) + nparts - 1) // nparts
    for i in range(nparts):
        chunk = cases[i * per:(i + 1) * per]
        if not chunk:
            continue
        p = '%s.part%d.json' % (path[:-5], i)
        json.dump({'names': ex['names'], 'cases': chunk}, open(p, 'w'))
        parts.append(p)
    return parts, len(cases), ex


def merge_results(parts):
    stats, viols, samples = {}, {}, []
    for r in parts:
        for k, v in r['stats'].items():
            stats[k] = stats.get(k, 0) + v
        for v in r['violations']:
            if v['signature'] in viols:
                viols[v['signature']]['count'] += v['count']
                if len(v['msg']) < len(viols[v['signature']]['msg']):
                    v['count'] = viols[v['signature']]['count']
                    viols[v['signature']] = v
            else:
                viols[v['signature']] = v
        samples += r.get('samples') or []
    return stats, viols, samples


def same_case(c, db, ms):
    k = lambda x: sorted(json.dumps(e, sort_keys=True) for e in x)  # noqa
    return k(c['db']) == k(db) and k(c['ms']) == k(ms)


def run(tier):
    quick = tier == 'quick'
    sd = vlib.scratch('c17')
    viols = []
    try:
        par = Par()
        par.go('bin', vlib.go_build, 'cmd/c17', 'c17')
        # ---------------- TLC: cursor ----------------
        cb = {'maxts': 6, 'maxlen': 4, 'seekmax': 7, 'maxcalls': 5 if quick else 7}
        refp, implp = os.path.join(sd, 'cursor_ref.json'), os.path.join(sd, 'cursor_impl.json')
        par.go('cur_sane', tlc_run, 'MC_PromCursorExport.tla',
               CURSOR_CFG % dict(cb, props='INVARIANTS TypeOK RefSane\nPROPERTIES Monotone SeekLands'), 'cur_sane',
               {'cursor_ref.json': refp, 'cursor_impl.json': implp})
        # the repaired cursor conforms on every array, the empty one included: the whole property in both tiers
        confs = (('cur_conf', 'Conforms'),)
        for tag, inv in confs:
            par.go(tag, tlc_run, 'MC_PromCursor.tla', CURSOR_CFG % dict(cb, props='INVARIANTS ' + inv), tag,
                   {'cex_%s.json' % tag: os.path.join(sd, 'cex_%s.json' % tag)}, 2, 600, True)
        # ---------------- TLC: selector (check + export in one run per plan) ----------------
        plans = sel_plans(tier)
        for p in plans:
            par.go('sel_' + p['name'], tlc_run, 'MC_SelectorExport.tla',
                   SEL_CFG % dict(p, props='INVARIANTS MechEqDefOnSafe MechSubset PerSeries'), p['name'],
                   {p['outfile']: os.path.join(sd, p['outfile'])}, 2 if quick else 4, 1500)
        if not quick:
            # the whole 3 series x 3 matchers space on the specification alone (PerSeries: selection is decided per series on
            # both sides, which is why the real code is driven exhaustively on <=3 x <=2 and <=1 x <=3 plus a sample of 3 x 3)
            pf = selcfg('prom_full', 'prom', KV2, '{}', [(3, 3)])
            pf['outfile'] = ''
            par.go('sel_full', tlc_run, 'MC_Selector.tla', SEL_CFG % dict(pf, props='INVARIANTS MechEqDefOnSafe MechSubset PerSeries'), 'prom_full', {}, 6, 2400)
        # ---------------- TLC: the day dimension of Select (check + export) ----------------
        db_ = {'dayticks': 4, 'maxlen': 5 if quick else 11, 'maxsamples': 2 if quick else 3}
        daysp = os.path.join(sd, 'seldays.json')
        par.go('sel_days', tlc_run, 'MC_SelectDays.tla', DAYS_CFG % db_, 'sel_days', {'seldays.json': daysp}, 2, 900)
        # the property itself on the spec: mechanism = definition (a counterexample is a candidate for the real code)
        for kind, p in (('prom', selcfg('eq_prom', 'prom', KV2, '{}', [(1, 1)])), ('prof', selcfg('eq_prof', 'prof', KV1, G1, [(1, 1)]))):
            par.go('eq_' + kind, tlc_run, 'MC_SelectorExport.tla', SEL_CFG % dict(p, props='INVARIANTS MechEqDef'), p['name'],
                   {p['outfile']: os.path.join(sd, p['outfile']), 'cex_%s.json' % p['name']: os.path.join(sd, 'cex_%s.json' % p['name'])}, 1, 600, True)
        res = par.wait()
        binp = res['bin']
        tlcs = [res[k] for k in sorted(res) if k != 'bin']
        states = sum(t['states'] for t in tlcs)
        transitions = sum(t['transitions'] for t in tlcs)
        for t in tlcs:
            if t['violated'] and t['tag'] not in ('cur_conf', 'cur_conf_ne', 'eq_prom', 'eq_prof'):
                raise vlib.Infra('specification-level invariant %s violated in %s: the specification is inconsistent' % (t['violated'], t['tag']))

        # ---------------- cursor: replay on the real iterator ----------------
        cands = []
        for tag, _ in confs:
            p = os.path.join(sd, 'cex_%s.json' % tag)
            if res[tag]['violated']:
                if not os.path.exists(p):
                    raise vlib.Infra('TLC reported %s but wrote no counterexample' % res[tag]['violated'])
                sts = cex_states(p)
                cands.append({'arr': sts[0]['arr'], 'calls': [s['last'] for s in sts[1:]]})
        candp = os.path.join(sd, 'cursor_cands.json')
        json.dump(cands, open(candp, 'w'))
        par = Par()
        par.go('cursor', run_driver, binp, ['cursor', '-ref', refp, '-impl', implp, '-cases', candp, '-maxcalls', '4' if quick else '5'],
               os.path.join(sd, 'cursor_out.json'))
        # ---------------- selectors: replay through the real code ----------------
        nparts = 1 if quick else 4
        njobs = {}
        ncases = {}
        exports = {}
        for p in plans:
            parts, n, ex = split_cases(os.path.join(sd, p['outfile']), nparts if n_big(p) else 1, sd)
            ncases[p['name']] = n
            exports[p['name']] = ex
            njobs[p['name']] = len(parts)
            for i, part in enumerate(parts):
                sub = 'select' if p['kind'] == 'prom' else 'prof'
                par.go('%s#%d' % (p['name'], i), run_driver, binp, [sub, '-cases', part, '-seed', str(vlib.seed())], part + '.out')
        if not os.path.exists(daysp):
            raise vlib.Infra('MC_SelectDays exported no cases')
        par.go('seldays', run_driver, binp, ['seldays', '-cases', daysp, '-seed', str(vlib.seed())], os.path.join(sd, 'seldays_out.json'))
        os.makedirs(os.path.join(sd, 'tsdb'), exist_ok=True)
        par.go('promql', run_driver, binp, ['promql', '-seed', str(vlib.seed()), '-n', '6' if quick else '40', '-tmp', os.path.join(sd, 'tsdb')],
               os.path.join(sd, 'promql_out.json'))
        out = par.wait()

        # ---- cursor verdicts
        cur = out['cursor']
        for v in cur['violations']:
            path = vlib.save_replay('C17', 'cursor_' + safe(v['signature']), {'kind': 'call sequence replayed on the real (&model.Series{}).Iterator()', 'finding': v})
            viols.append({'property': 'C17', 'signature': v['signature'], 'msg': v['msg'], 'replay': path})
        for c in cur.get('candidates') or []:
            if c['diverges_at'] < 0:
                raise vlib.Infra('TLC counterexample %s does not reproduce on the real cursor: PromCursor.tla misrepresents reader/model/prometheus.go'
                                 % json.dumps(c['case']))
        if cur['unfaithful'] and not cur['violations']:
            raise vlib.Infra('the real cursor differs from its transcription in PromCursor.tla: ' + json.dumps(cur['unfaithful'][0])[:800])

        # ---- selector verdicts
        sel_cov = {}
        total_cases = 0
        for p in plans:
            rs = [out['%s#%d' % (p['name'], i)] for i in range(njobs[p['name']])]
            stats, vs, samples = merge_results(rs)
            if stats.get('cases', 0) != ncases[p['name']]:
                raise vlib.Infra('driver ran %s of %d exported cases of %s' % (stats.get('cases'), ncases[p['name']], p['name']))
            total_cases += stats.get('cases', 0)
            sel_cov[p['name']] = {'bounds': dict(p['bounds'], kv=p['kv'], gl=p['gl']), 'stats': stats,
                                  'tlc': res['sel_' + p['name']]}
            sel_cov[p['name']]['sample'] = samples[:1]
            for sig, v in vs.items():
                path = vlib.save_replay('C17', safe(sig), {'kind': 'TLC case concretised and run through the real selector (%s)' % p['kind'],
                                                           'plan': p['name'], 'finding': v})
                viols.append({'property': 'C17', 'signature': sig, 'msg': v['msg'], 'replay': path})
        # the explicit TLC counterexamples of MechEqDef must reproduce
        for kind in ('prom', 'prof'):
            t = res['eq_' + kind]
            name = 'eq_' + kind
            if not t['violated']:
                continue
            sts = cex_states(os.path.join(sd, 'cex_%s.json' % name))
            last = sts[-1]
            ex = json.load(open(os.path.join(sd, name + '.json')))
            one = [c for c in ex['cases'] if same_case(c, last['db'], last['ms'])]
            if len(one) != 1:
                raise vlib.Infra('cannot find the TLC counterexample %s among the exported cases' % json.dumps(last))
            cp = os.path.join(sd, 'cex_case_%s.json' % kind)
            json.dump({'names': ex['names'], 'cases': one}, open(cp, 'w'))
            r = run_driver(binp, ['select' if kind == 'prom' else 'prof', '-cases', cp, '-seed', str(vlib.seed())], cp + '.out')
            sel_cov['tlc_counterexample_' + kind] = {'case': one[0], 'reproduced_as': [v['signature'] for v in r['violations']]}
            if not r['violations']:
                raise vlib.Infra('TLC counterexample of MechEqDef %s does not reproduce against the real %s selector: Selector.tla misrepresents the code'
                                 % (json.dumps(one[0]), kind))
            total_cases += 1

        # ---- the day dimension of Select
        dy = out['seldays']
        ndays = len(json.load(open(daysp))['cases'])
        ds = dy['stats']
        if ds.get('cases', 0) != ndays or ds.get('selects', 0) != ndays:
            raise vlib.Infra('seldays ran %s / %s of %d exported cases' % (ds.get('cases'), ds.get('selects'), ndays))
        if min(ds.get('cases_zone_west', 0), ds.get('cases_zone_east', 0), ds.get('cases_zone_utc', 0),
               ds.get('cases_a_process_zone_upper_day_bound_would_lose_series', 0),
               ds.get('cases_a_process_zone_lower_day_bound_would_lose_series', 0)) < 5 or ds.get('expected_series', 0) < 500:
            raise vlib.Infra('the day dimension of Select is covered vacuously: %s' % json.dumps(ds))
        for v in dy['violations']:
            path = vlib.save_replay('C17', safe(v['signature']), {'kind': 'TLC case of SelectDays.tla concretised and run through the real CLokiQuerier.Select under the process zone of the case',
                                                                  'finding': v})
            viols.append({'property': 'C17', 'signature': v['signature'], 'msg': v['msg'], 'replay': path})
        total_cases += ds['cases']
        sel_cov['days'] = {'bounds': db_, 'stats': ds, 'tlc': res['sel_days'], 'sample': (dy.get('samples') or [None])[:1]}

        # ---- PromQL differential verdicts
        pq = out['promql']
        for v in pq['violations']:
            path = vlib.save_replay('C17', safe(v['signature']), {'kind': 'PromQL over the real qryn Queryable vs the same engine over a Prometheus TSDB', 'finding': v})
            viols.append({'property': 'C17', 'signature': v['signature'], 'msg': v['msg'], 'replay': path})
        if pq['stats'].get('queries_reference_nonempty', 0) < 50:
            raise vlib.Infra('PromQL differential is vacuous: %s' % json.dumps(pq['stats']))
        if cur['stats'].get('sequences', 0) < 1000 or total_cases < 1000:
            raise vlib.Infra('vacuous coverage: %s sequences, %s selector cases' % (cur['stats'].get('sequences'), total_cases))

        seen = set()
        uniq = []
        for v in viols:
            if v['signature'] not in seen:
                seen.add(v['signature'])
                uniq.append(v)
        cov = {'states': states, 'transitions': transitions,
               'traces_validated_against_impl': cur['stats']['sequences'] + total_cases + pq['stats'].get('queries', 0),
               'samples': [cur.get('sample'), (sel_cov[plans[0]['name']].get('sample') or [None])[0], (pq.get('samples') or [None])[0]],
               'exhaustive': True,
               'cursor': {'tlc': [res[k] for k in ['cur_sane'] + [c[0] for c in confs]], 'bounds': cb, 'replay': cur['stats'], 'tables': cur['tables'],
                          'transcription_mismatches': len(cur['unfaithful']), 'tlc_counterexamples_replayed': len(cur.get('candidates') or [])},
               'selector': sel_cov, 'selector_cases_run': total_cases, 'selector_full_space_tlc': res.get('sel_full'),
               'promql': pq['stats'],
               'signatures': sorted(seen)}
        if tier == 'thorough':
            # which names / values / label sets the label and series endpoints of the Loki and Prometheus APIs return for the same
            # matcher semantics is the subject of the extra check X06 (LabelIndex.tla, instantiating Selector.tla); deep tier
            import props.x06 as x06
            xr = x06.run('quick')
            for v in xr['violations']:
                uniq.append(dict(v, property='C17', signature='labels|' + v['signature']))
            cov['labels_x06'] = {k: xr['coverage'].get(k) for k in ('states', 'transitions', 'traces_validated_against_impl')}
            cov['states'] += xr['coverage'].get('states', 0)
            cov['transitions'] += xr['coverage'].get('transitions', 0)
            cov['traces_validated_against_impl'] += xr['coverage'].get('traces_validated_against_impl', 0)
        return {'level': 'model_checking', 'coverage': cov, 'violations': uniq,
                'assumptions': ['ClickHouse is the reference interpreter chsql (match() searches anywhere, bitShiftLeft keeps the UInt8 width); tables and materialized views come from the real DDL',
                                'label values contain no newline and profile type parts no ":" or ";"; an empty matcher list is not a Prometheus selector',
                                'a stored series is expected in a Select result only if it has a sample in [start, end] (milliseconds, the bounds of storage.SelectHints are inclusive); the reference for PromQL results is the vendored Prometheus engine over its own TSDB (closed range windows [t-range, t])',
                                'sample timestamps are whole milliseconds (remote write resolution)']}
    finally:
        shutil.rmtree(sd, ignore_errors=True)


def n_big(p):
    return p['name'] != 'prom_wide'


def safe(s):
    s = s.replace('!=', 'ne').replace('!~', 'nre').replace('=~', 're').replace('=', 'eq').replace('>', 'gt').replace('<', 'lt')
    return ''.join(ch if ch.isalnum() else '_' for ch in s)[:120]

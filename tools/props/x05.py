"""X05: the Pyroscope read API beyond flame graphs answers what its definition says.

spec/query/ProfSeries.tla gives, over a small abstract database of ingested profiles (1..3 profiles: service, tag
sequence, sample type list, period type, instant on either side of step and window edges, bag of samples), an order-free
DEFINITION of the answers of SelectSeries, SelectMergeProfile, ProfileTypes, LabelNames, LabelValues, Series,
GetProfileStats and AnalyzeQuery next to a transcription of the MECHANISM (the materialized-view tables, the SQL each
endpoint sends at table grain, the Go post-processing), parameterised by named quirks (places where the code as written
departs from the definition).  TLC (MC_ProfSeries) enumerates every database x request of the configurations, proves
mechanism-with-all-quirks-repaired = definition, proves that every difference between the mechanism as coded (all quirks
but those listed in REPAIRED below) or the mechanism with every quirk and the definition is accounted for by a quirk, proves the laws that tie the endpoints' definitions together, and exports the
cases (definition's answer, as-coded answer, firing quirks, and the answer with the repaired quirks switched on again).  harness/cmd/x05 concretises every case (hostile strings,
real nanosecond instants), pushes the profiles through the REAL /ingest route (multipart, binary raw / gzip) of
e2e.World, queries the REAL querier routes (JSON and protobuf), decodes (the merged pprof with google/pprof) and compares
with the definition.  Verdicts only come from answers of the real code."""
import concurrent.futures
import json
import os
import re
import shutil
import time

import vlib

SPECDIR = os.path.join(vlib.SPEC, 'query')
INVS = 'AllChecks'
NAMED_INVS = 'MechEqDef QuirksExplain Laws'
ALL_QUIRKS = ['avg_sql', 'avg_per_sample', 'type_cross', 'dup_series', 'groupby_order', 'dup_labelsets', 'names_ignored', 'merge_lineless',
              'merge_emptystack', 'merge_incompatible', 'stale_unit', 'second_matcher_lost']
# The believed state of the code: the quirks of ProfSeries!AllQuirks that have been REPAIRED in /repo.  The as-coded mechanism
# of the specification is Mech(AllQuirks minus these) (MC_ProfSeries!AsCoded); a repaired quirk stays in the specification
# as a mutation: TLC still says where it would fire (coverage 'quirks'), the real code must answer the definition there,
# and an answer that equals the prediction WITH the quirk is reported under the quirk's signature again.
REPAIRED = ['avg_sql', 'type_cross', 'dup_series', 'groupby_order', 'dup_labelsets', 'names_ignored', 'second_matcher_lost',
            'merge_lineless', 'merge_emptystack', 'stale_unit']

CFG = '''SPECIFICATION Spec
CONSTANTS
  SvcSeq <- %(svc)s
  TagPool <- %(tags)s
  TLPool <- %(tl)s
  PerPool <- %(per)s
  BagPool <- %(bags)s
  MaxT = %(maxt)d
  Step = 4
  MaxProfiles = %(P)d
  TypeReqs <- %(types)s
  SelSeq <- %(sel)s
  GbSeq <- %(gb)s
  WinSeq <- %(win)s
  NameSeq <- MCNames
  LnSeq <- MCLn3
  Plan = "%(plan)s"
  ExportMod = %(mod)d
  ExportSeed = %(seed)d
  Repaired = %(repaired)s
INVARIANTS %(invs)s
CHECK_DEADLOCK FALSE
'''

DEFAULTS = dict(svc='MCSvc1', tags='MCTags2', tl='MCTL2', per='MCPer1', bags='MCBags1', maxt=7, P=2, types='MCTypes3',
                sel='MCSel2', gb='MCGb1', win='MCWin2', plan='A', mod=1, workers=5)

# name -> bounds.  plan: T = SelectSeries, M = SelectMergeProfile + AnalyzeQuery, L = ProfileTypes / LabelNames / LabelValues /
# Series / GetProfileStats / AnalyzeQuery.  mod: the cases of every mod-th database (by content hash and seed) are exported.
CONFIGS = {
    'quick': [
        # two buckets x 4 instants, the two tag sequences that differ in order on {a, b}, 1 or 2 sample types, <= 2 profiles
        ('T2', dict(tags='MCTagsO', tl='MCTL2', maxt=7, gb='MCGb5', win='MCWin3', plan='T')),
        # all six kinds of sample bags (lineless location, empty stack, unit label, no samples), instants inside / outside the window
        ('M2', dict(tags='MCTags2', tl='MCTL2', bags='MCBagsM', maxt=1, plan='M')),
        # two services, two period types, tag sequences incl. none, one instant
        ('L2', dict(svc='MCSvc2', tags='MCTags3', per='MCPer2', types='MCTypes4', sel='MCSel3', maxt=0, plan='L')),
        # three profiles
        ('A3', dict(tags='MCTagsO', tl='MCTL1', bags='MCBagsM3', maxt=0, P=3, gb='MCGb3', sel='MCSel2', plan='A', workers=3)),
    ],
    'thorough': [
        ('T2', dict(tags='MCTags4', tl='MCTL2', maxt=11, gb='MCGb5', win='MCWin12', sel='MCSel3', plan='T', mod=4, workers=8)),
        ('T3', dict(tags='MCTagsO', tl='MCTL2', maxt=5, P=3, gb='MCGb3', win='MCWin3', plan='T', mod=3, workers=8)),
        ('M2', dict(tags='MCTags2', tl='MCTL3', bags='MCBagsM', maxt=5, plan='M', mod=4, workers=8)),
        ('M3', dict(tags='MCTags2', tl='MCTL3', bags='MCBagsM3', maxt=0, P=3, plan='M', mod=2, workers=8)),
        ('L2', dict(svc='MCSvc2', tags='MCTags4', per='MCPer2', types='MCTypes4', sel='MCSel3', maxt=1, plan='L', mod=4, workers=8)),
        ('L3', dict(svc='MCSvc2', tags='MCTags2', per='MCPer2', types='MCTypes4', sel='MCSel3', maxt=0, P=3, plan='L', mod=2, workers=8)),
    ],
}

CLASSES_REQUIRED = ['ep_SelectSeries', 'ep_SelectMergeProfile', 'ep_ProfileTypes', 'ep_LabelNames', 'ep_LabelValues', 'ep_Series',
                    'ep_AnalyzeQuery', 'ep_GetProfileStats', 'select_series_group_by', 'select_series_no_group_by',
                    'select_series_average', 'select_series_several_series_expected', 'select_series_several_buckets_in_a_series',
                    'select_series_group_without_labels', 'profile_outside_window', 'profile_one_instant_outside_window_bound',
                    'profile_exactly_on_window_bound', 'profile_exactly_on_bucket_start', 'profile_1ns_before_bucket_end',
                    'merge_profile_two_sample_types', 'merge_profile_several_stacks', 'merge_profile_sample_with_unit_label',
                    'merge_profile_several_profiles_in_db', 'series_with_label_names', 'series_with_matcher', 'series_with_two_matchers',
                    'label_names_or_values_with_two_matchers',
                    'request_with_equality_selector', 'db_of_1_profiles', 'db_of_2_profiles', 'db_of_3_profiles',
                    'cases_where_a_quirk_fires']

_CASE = re.compile(r'^<<"X05CASE", (".*")>>$')


def _model_check(name, c, sd, timeout):
    d = dict(DEFAULTS)
    d.update(c)
    d['seed'] = vlib.seed() % max(1, d['mod'])
    d['invs'] = INVS
    d['repaired'] = '{' + ', '.join('"%s"' % q for q in REPAIRED) + '}'
    cfgp = os.path.join(sd, 'MC_ProfSeries_%s.cfg' % name)
    open(cfgp, 'w').write(CFG % d)
    res = vlib.tlc(SPECDIR, 'MC_ProfSeries.tla', os.path.basename(cfgp), workers=d['workers'], timeout=timeout, copy_extra=[cfgp])
    try:
        if res['violated']:
            d['invs'], d['mod'] = NAMED_INVS, 0     # which of the three is it
            open(cfgp, 'w').write(CFG % d)
            res2 = vlib.tlc(SPECDIR, 'MC_ProfSeries.tla', os.path.basename(cfgp), workers=d['workers'], timeout=timeout, copy_extra=[cfgp])
            out2 = res2['out']
            vlib.tlc_cleanup(res2)
            raise vlib.Infra('TLC reports %s on ProfSeries.tla (config %s): the specification is inconsistent with itself; nothing '
                             'was run against the code:\n%s' % (res2['violated'] or res['violated'], name, out2[-2500:]))
        if not res.get('finished') or 'Model checking completed' not in res['out']:
            raise vlib.Infra('TLC did not finish config %s: %s' % (name, res['out'][-1500:]))
        cases = []
        fired = {}
        for line in res['out'].splitlines():
            m = _CASE.match(line)
            if not m:
                continue
            try:
                case = json.loads(json.loads(m.group(1)))
            except ValueError as e:
                raise vlib.Infra('cannot parse an exported case of %s: %s: %s' % (name, e, line[:300]))
            case['cfg'] = name
            for q in set(case['fired']) | set(case['mutfired']):     # as coded, or in the mechanism with every quirk
                fired[q] = fired.get(q, 0) + 1
            cases.append((json.dumps(case['db'], sort_keys=True), json.dumps(case['req'], sort_keys=True), json.dumps(case)))
        if not cases:
            raise vlib.Infra('config %s exported no case (%d states)' % (name, res.get('distinct', 0)))
        cases.sort()    # TLC's workers print in a scheduling-dependent order; the cases of one database become adjacent
        return {'config': name, 'bounds': {k: v for k, v in d.items() if k not in ('workers', 'invs')}, 'states': res.get('distinct', 0),
                'transitions': res.get('generated', 0), 'exported': len(cases), 'wall_s': round(res['wall'], 1),
                'cases_in_which_a_quirk_fires': fired, 'cases': cases}     # as coded, or as a mutation
    finally:
        vlib.tlc_cleanup(res)


def _shards(mcs, n):
    """split the cases into n files; the cases of one database stay together"""
    groups = []
    for mc in mcs:
        cur, key = None, None
        for (dbk, _rq, line) in mc.pop('cases'):
            if dbk != key or cur is None:
                cur, key = [], dbk
                groups.append(cur)
            cur.append(line)
    shards = [[] for _ in range(n)]
    sizes = [0] * n
    for g in sorted(groups, key=len, reverse=True):
        i = sizes.index(min(sizes))
        shards[i].append(g)
        sizes[i] += len(g)
    return shards


def _drive(binp, i, groups, sd, timeout):
    cp = os.path.join(sd, 'cases_%d.ndjson' % i)
    rp = os.path.join(sd, 'result_%d.json' % i)
    with open(cp, 'w') as o:
        for g in groups:
            o.write('\n'.join(g) + '\n')
    env = dict(os.environ)
    env['TZ'] = 'UTC'
    r = vlib.run_cmd([binp, 'run', '-cases', cp, '-out', rp, '-seed', str(vlib.seed())], timeout=timeout, env=env)
    if r.returncode != 0 or not os.path.exists(rp):
        raise vlib.Infra('x05 driver failed (rc %s): %s' % (r.returncode, (r.stdout + r.stderr)[-3000:]))
    return json.load(open(rp))


def _merge_counts(dst, src):
    for k, v in (src or {}).items():
        dst[k] = dst.get(k, 0) + v


def run(tier):
    sd = vlib.scratch('x05')
    try:
        configs = CONFIGS[tier]
        t0 = time.time()
        phases = {}
        tmo = 280 if tier == 'quick' else 2400
        with concurrent.futures.ThreadPoolExecutor(max_workers=len(configs) + 1) as ex:
            fb = ex.submit(vlib.go_build, 'cmd/x05', 'x05')
            if tier == 'quick':
                futs = [ex.submit(_model_check, n, c, sd, tmo) for n, c in configs]
                mcs = [f.result() for f in futs]
            else:   # 8 workers each: two at a time
                with concurrent.futures.ThreadPoolExecutor(max_workers=2) as ex2:
                    futs = [ex2.submit(_model_check, n, c, sd, tmo) for n, c in configs]
                    mcs = [f.result() for f in futs]
            binp = fb.result()
        phases['tlc_enumeration'] = round(time.time() - t0, 1)
        ncases = sum(mc['exported'] for mc in mcs)
        spec_fired = {}
        for mc in mcs:
            _merge_counts(spec_fired, mc['cases_in_which_a_quirk_fires'])
        never = [q for q in ALL_QUIRKS if not spec_fired.get(q)]
        if never:
            raise vlib.Infra('vacuous coverage: no exported case in which TLC finds the quirks %s firing' % never)
        # ---- replay into the real code
        t1 = time.time()
        nsh = 6
        shards = [s for s in _shards(mcs, nsh) if s]
        with concurrent.futures.ThreadPoolExecutor(max_workers=len(shards)) as ex:
            results = list(ex.map(lambda a: _drive(binp, a[0], a[1], sd, 600 if tier == 'quick' else 3000), list(enumerate(shards))))
        phases['driver'] = round(time.time() - t1, 1)
        tot = {'cases': 0, 'databases': 0, 'distinct_nontrivial': 0, 'answers_equal_definition': 0, 'requests_on_both_routes': 0,
               'cases_skipped_after_a_refused_push': 0}
        maps = {k: {} for k in ('pushes', 'requests', 'classes', 'fired_cases', 'fired_observed', 'fired_silent', 'mismatch_counts')}
        mismatches, infra, sample, aux = [], [], None, {}
        for r in results:
            for k, v in (r.get('aux') or {}).items():
                aux.setdefault(k, v)
            for k in tot:
                tot[k] += r.get(k) or 0
            for k in maps:
                _merge_counts(maps[k], r.get(k))
            mismatches += r.get('mismatches') or []
            infra += r.get('infra') or []
            sample = sample or r.get('sample')
        if infra:
            raise vlib.Infra('x05 driver: %d infrastructure problems, first: %s' % (len(infra), infra[0]))
        if tot['cases'] != ncases:
            raise vlib.Infra('driver ran %d of %d cases' % (tot['cases'], ncases))
        replayed = sum(maps['requests'].values()) - tot['requests_on_both_routes']
        skipped = tot['cases_skipped_after_a_refused_push']
        if replayed + skipped != ncases or (skipped and not mismatches):
            raise vlib.Infra('driver answered %d of %d cases' % (replayed, ncases))
        missing = [c for c in CLASSES_REQUIRED if not maps['classes'].get(c)]
        routes = {k.split('/')[1] for k in maps['requests']}
        if skipped:
            missing = []    # /ingest refuses well-formed profiles: reported below, the coverage of the read side is what it is
        if missing or tot['distinct_nontrivial'] < ncases // 2 or routes != {'json', 'proto'} or \
                not all(maps['pushes'].get(k) for k in ('multipart', 'binary_raw', 'binary_gzip')):
            raise vlib.Infra('vacuous coverage: classes never exercised %s (non-trivial %d of %d, routes %s, pushes %s)' % (
                missing, tot['distinct_nontrivial'], ncases, sorted(routes), maps['pushes']))
        # ---- verdicts
        viols = []
        nth = {}
        for m in sorted(mismatches, key=lambda m: (m['signature'], len(json.dumps(m.get('abstract'))))):
            sig = m['signature']
            nth[sig] = nth.get(sig, 0) + 1
            if nth[sig] > 2:
                continue
            path = vlib.save_replay('X05', re.sub(r'[^A-Za-z0-9]+', '_', sig)[:80] + '_%d' % nth[sig],
                                    {'kind': 'TLC case (MC_ProfSeries) replayed through the real /ingest and querier routes (harness/cmd/x05); '
                                             'write the object under "case" as one line to a file and run `x05 run -cases <file> -out r.json -seed <seed>`',
                                     'seed': vlib.seed(), 'tier': tier, 'mismatch': m, 'occurrences_in_this_run': maps['mismatch_counts'].get(sig)})
            if nth[sig] > 1:
                continue
            req = m.get('request') or {}
            viols.append({'property': 'X05', 'signature': sig, 'replay': path,
                          'msg': '%s (%d occurrences) request=%s expected=%s observed=%s' % (
                              m['msg'], maps['mismatch_counts'].get(sig, 1), json.dumps(req.get('message'), ensure_ascii=False)[:300],
                              json.dumps((m.get('expected') or {}).get('Canon') if isinstance(m.get('expected'), dict) else m.get('expected'), ensure_ascii=False)[:400],
                              json.dumps({k: v for k, v in m['observed'].items() if k in ('status', 'error_kind', 'answer', 'units', 'raw')} if isinstance(m.get('observed'), dict) else m.get('observed'), ensure_ascii=False)[:500])})
        repaired = sorted(q for q in ALL_QUIRKS if maps['fired_cases'].get(q) and not maps['fired_observed'].get(q))
        unknown = [q for q in REPAIRED if q not in ALL_QUIRKS]
        if unknown:
            raise vlib.Infra('REPAIRED names quirks the specification does not have: %s' % unknown)
        for mc in mcs:
            mc.pop('cases', None)
        cov = {'states': sum(mc['states'] for mc in mcs), 'transitions': sum(mc['transitions'] for mc in mcs),
               'traces_validated_against_impl': ncases,
               'samples': [sample or (mismatches[0] if mismatches else {'cases': ncases})],
               'exhaustive': all(mc['bounds']['mod'] == 1 for mc in mcs),
               'model_check': mcs, 'phase_wall_s': phases, 'cases_replayed': ncases, 'databases_ingested': tot['databases'],
               'distinct_nontrivial': tot['distinct_nontrivial'], 'answers_equal_definition': tot['answers_equal_definition'],
               'requests_on_both_routes': tot['requests_on_both_routes'], 'pushes': maps['pushes'], 'requests': maps['requests'],
               'classes': maps['classes'],
               'quirks': {q: {'cases_in_which_tlc_finds_it_firing': maps['fired_cases'].get(q, 0),
                              'of_those_the_real_code_answers_as_coded': maps['fired_observed'].get(q, 0),
                              'of_those_the_real_code_answers_the_definition': maps['fired_silent'].get(q, 0)} for q in ALL_QUIRKS},
               'quirks_the_code_no_longer_exhibits': repaired,
               'quirks_believed_repaired': sorted(REPAIRED),
               'mismatch_counts': maps['mismatch_counts'], 'aux_not_part_of_X05': aux,
               'checker_cmd': 'tlc MC_ProfSeries (x%d configs) -> x05 run (x%d processes)' % (len(mcs), len(shards))}
        return {'level': 'model_checking', 'coverage': cov, 'violations': viols,
                'assumptions': [
                    'a step bucket, as the code has it and as the definition takes it: bucket k holds the profiles with k*step <= timestamp < '
                    '(k+1)*step seconds since the epoch (start inclusive, end exclusive), aligned to the epoch (not to the request start), labelled '
                    'with its START in milliseconds; the window cuts profiles (start <= timestamp <= end, both inclusive, millisecond bounds), not '
                    'buckets, so the first point may be stamped up to step-1 s before start.  Pyroscope stamps a point with the END of (T-step, T] '
                    'on the grid start + k*step and averages over profiles: the labelling differs from it by design of the code and is not a verdict',
                    'all profiles of a case live in one UTC day and the process runs under TZ=UTC: date bounds of the series tables and windows in '
                    'general are C13, matcher semantics C17 (only {} and one equality matcher occur), call trees C16',
                    'fingerprints (cityHash64) are modelled as injective; the ClickHouse server is the chsql interpreter over the real DDL and '
                    'materialized views; an empty Array(Tuple) is handed to the scan targets typed, as clickhouse-go does',
                    'LabelNames / LabelValues are defined over stored tags and service_name only (the pseudo labels __name__, __profile_type__, .. '
                    'are answered by Series); Series keeps every pseudo label whatever label_names says; the filler entries the controller adds to '
                    'empty ProfileTypes / LabelNames answers are ignored',
                    'the merged pprof is compared as a map (stack of function names, carries a numeric label) -> values per sample type after '
                    'google/pprof decoding and CheckValid; header fields (time, duration, period, default sample type) are not compared',
                    'sample type / unit strings contain no colon and no backtick, label names / values no "=" "," "{" "}" (the /ingest name syntax)',
                    'JSON requests are written in the dialect the controller parses (encoding/json over the generated structs: snake_case '
                    'names, numeric int64), not in canonical protojson']}
    finally:
        shutil.rmtree(sd, ignore_errors=True)

"""All-services block check (C02) and acknowledgement check on every ingest endpoint (C01): see harness/cmd/c02blocks."""
import json
import os
import re
import shutil

import vlib


def run_blocks(tier):
    binp = vlib.go_build('cmd/c02blocks', 'c02blocks')
    sd = vlib.scratch('c02b')
    try:
        outp = os.path.join(sd, 'out.json')
        r = vlib.run_cmd([binp, '-out', outp, '-seed', str(vlib.seed()), '-rounds', '4' if tier == 'quick' else '32'], timeout=3000)
        if r.returncode != 0 or not os.path.exists(outp):
            raise vlib.Infra('c02blocks failed: ' + (r.stdout + r.stderr)[-3000:])
        out = json.load(open(outp))
        if out.get('infra') and not out.get('findings'):
            raise vlib.Infra('c02blocks: ' + '; '.join(out['infra'])[:1500])
        viols = []
        seen = set()
        for f in out.get('findings') or []:
            if f['signature'] in seen:
                continue
            seen.add(f['signature'])
            path = vlib.save_replay(f['property'], 'blocks_' + re.sub(r'[^A-Za-z0-9]+', '_', f['signature'])[:90], f)
            viols.append({'property': f['property'], 'kind': 'property', 'signature': 'blocks|' + f['signature'], 'msg': f['msg'], 'replay': path})
        stats = {k: out[k] for k in ('requests', 'acked', 'blocks', 'rows', 'signature_counts')}
        stats['request_classes'] = len(out.get('classes') or {})
        stats['acked_by_protocol'] = out.get('acked_by_protocol')
        return {'violations': viols, 'stats': stats}
    finally:
        shutil.rmtree(sd, ignore_errors=True)

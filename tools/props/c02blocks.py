"""All-services block check (C02) and acknowledgement check on every ingest endpoint (C01): see harness/cmd/c02blocks."""
import json
import os
import re
import shutil

import vlib


SPECDIR = os.path.join(vlib.VERIF, 'spec', 'ingest')


def column_fill_model():
    """spec/ingest/ColumnFill.tla: ProcessRequest at column grain over several sub-services. The handle scope of the code
    ("call") satisfies the block invariants; a handle that outlives the call ("service") must be refuted - non-vacuity of
    the schedule class the driver's phase "subsvc" realises (two sub-services inside ProcessRequest at once)."""
    out = {}
    res = vlib.tlc(SPECDIR, 'MC_ColumnFill.tla', 'MC_ColumnFill_call.cfg', timeout=600, workers=4)
    try:
        if res['violated'] or 'Model checking completed. No error' not in res['out']:
            raise vlib.Infra('ColumnFill.tla (HandleScope = "call") failed:\n' + res['out'][-2000:])
        out['states'], out['transitions'] = res.get('distinct', 0), res.get('generated', 0)
    finally:
        vlib.tlc_cleanup(res)
    mut = vlib.tlc(SPECDIR, 'MC_ColumnFill.tla', 'MC_ColumnFill_service.cfg', timeout=600, workers=4)
    try:
        if not re.search(r'Invariant (Rectangular|WholeRows|BlockIsItsRequests) is violated', mut['out']):
            raise vlib.Infra('ColumnFill.tla with HandleScope = "service" violates nothing: the column-grain invariants are vacuous\n' + mut['out'][-1500:])
        out['mutation_service_scope'] = 'refuted (as it must be)'
    finally:
        vlib.tlc_cleanup(mut)
    return out


def run_blocks(tier):
    cf = column_fill_model()
    binp = vlib.go_build('cmd/c02blocks', 'c02blocks')
    sd = vlib.scratch('c02b')
    try:
        outp = os.path.join(sd, 'out.json')
        r = vlib.run_cmd([binp, '-out', outp, '-seed', str(vlib.seed()), '-rounds', '4' if tier == 'quick' else '32'], timeout=3000)
        if r.returncode != 0 or not os.path.exists(outp):
            raise vlib.Infra('c02blocks failed: ' + (r.stdout + r.stderr)[-3000:])
        out = json.load(open(outp))
        if out.get('infra') and not out.get('findings'):
            raise vlib.Infra('c02blocks: ' + '; '.join(out['infra'])[:1500])
        viols = []
        seen = set()
        for f in out.get('findings') or []:
            if f['signature'] in seen:
                continue
            seen.add(f['signature'])
            path = vlib.save_replay(f['property'], 'blocks_' + re.sub(r'[^A-Za-z0-9]+', '_', f['signature'])[:90], f)
            viols.append({'property': f['property'], 'kind': 'property', 'signature': 'blocks|' + f['signature'], 'msg': f['msg'], 'replay': path})
        stats = {k: out[k] for k in ('requests', 'acked', 'blocks', 'rows', 'signature_counts')}
        stats['request_classes'] = len(out.get('classes') or {})
        stats['acked_by_protocol'] = out.get('acked_by_protocol')
        if out.get('subsvc_infra'):
            raise vlib.Infra('c02blocks subsvc phase: ' + '; '.join(out['subsvc_infra'][:3]))
        ss = out.get('subsvc') or {}
        if not ss.get('Blocks') or not ss.get('Rows') or ss.get('Acked', 0) == 0:
            raise vlib.Infra('c02blocks subsvc phase ran nothing: %r' % ss)
        stats['subservice_contention'] = ss
        stats['column_fill_model'] = cf
        return {'violations': viols, 'stats': stats}
    finally:
        shutil.rmtree(sd, ignore_errors=True)

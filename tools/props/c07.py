"""C07: the SQL generated for a LogQL log query selects exactly the matching lines.

LogQLSem.tla defines what a log query means over an abstract database; LogQLPlan.tla transcribes the planners (label
index + bit mask, like/notLike/match, simple label filters hoisted to time_series, labels join, parser / drop map
functions and the SELECT blocks they share (a label filter closes its block before a later drop / parser), ORDER/LIMIT
placement, the Go engine after a `json` stage).  TLC enumerates the
fragments of MC_LogQL.tla (M selectors, A whole-value regex matchers over values that extend a matched value, L line filters, P label filters / extraction / drop, W window / type / limit /
direction) exhaustively plus a seeded sample of the product grammar (S), checks the structural invariants, reports every
case where mechanism and definition differ (candidates) and exports cases with the definition's result.  cmd/c07
concretises every exported case with hostile strings, stores it, sends the LogQL text through the REAL
/loki/api/v1/query_range route (real parser, planners, post-processors; SQL run by chsql on the real DDL) and compares
the JSON answer with the definition's result."""
import hashlib
import json
import os
import random
import re
import shutil

import vlib

PID = 'C07'
SPECDIR = os.path.join(vlib.SPEC, 'query')

CFG = '''SPECIFICATION Spec
CONSTANTS
  Frags <- RunFrags
  Mods <- RunMods
  ModsDev <- RunModsDev
  DBMods <- RunDBMods
  MaxStreams = 3
  MaxMatchers = 2
  MaxEntries = %(maxentries)d
  ExportSeed = %(seed)d
  SCases <- DataSCases
INVARIANTS DefinitionWellFormed MechanismWellFormed NoLimitMonotone Export
CHECK_DEADLOCK FALSE
'''

TIERS = {
    # frag: (Mods: export 1 case in n, ModsDev: the same for cases where mechanism and definition differ,
    #        DBMods: enumerate the seeded 1/n sample of the databases; 1 = all)
    'quick': {'M': (20, 20), 'A': (60, 60), 'L': (1, 1), 'P': (1, 1), 'W': (20, 20, 3), 'S': (1, 1), 'maxentries': 3, 'nS': 300},
    'thorough': {'M': (1, 1), 'A': (1, 1), 'L': (1, 1), 'P': (1, 1), 'W': (18, 18), 'S': (1, 1), 'maxentries': 4, 'nS': 6000},
}
FRAGS = ['M', 'A', 'L', 'P', 'W', 'S']

_CASE = re.compile(r'^<<"C0[78]CASE", "(.*)">>$')
_DEV = re.compile(r'^<<"C0[78]DEV", (\d+), "([A-Z])", "([a-z-]+)">>$')


def parse_tlc_cases(out):
    cases, devs = [], {}
    for line in out.splitlines():
        if line.startswith('<<"C0'):
            m = _CASE.match(line.strip())
            if m:
                s = m.group(1).replace('\\"', '"').replace('\\\\', '\\')
                cases.append(s)
                continue
            m = _DEV.match(line.strip())
            if m:
                devs[int(m.group(1))] = (m.group(2), m.group(3))
    return cases, devs


# ------------------------------------------------------------------------------------------------------------------
# sampled product cases (fragment S): generated here by seed, evaluated (Eval / PlanEval) by TLC
# ------------------------------------------------------------------------------------------------------------------
NUMV = {'n0': 0, 'n1': 1, 'n2': 2, 'n3': 3}
REV = {'R_v1': {'v1'}, 'R_v2': {'v2'}, 'R_v1v2': {'v1', 'v2'}, 'R_n': {'n1', 'n3'}}


def re_matches(ra, v):
    if ra == 'R_any':
        return True
    if ra == 'R_some':
        return v != ''
    return v in REV[ra]


def str_pred_true(r, v, consts, regexes):
    """an (op, val) over strings that holds for the value v"""
    for _ in range(20):
        op = r.choice(['=', '!=', '=~', '!~'])
        val = r.choice(consts) if op in ('=', '!=') else r.choice(regexes)
        holds = {'=': v == val, '!=': v != val, '=~': op == '=~' and re_matches(val, v), '!~': op == '!~' and not re_matches(val, v)}[op]
        if holds:
            return op, val
    return '=', v


def num_pred_true(r, v):
    x = NUMV[v]
    for _ in range(30):
        op = r.choice(['==', '!=', '>', '>=', '<', '<='])
        k = r.choice([1, 2])
        if {'==': x == k, '!=': x != k, '>': x > k, '>=': x >= k, '<': x < k, '<=': x <= k}[op]:
            return op, k
    return '>=', 1


def rand_leaf(r, labels_str, labels_num, guess):
    target = guess is not None and r.random() < 0.65
    if r.random() < 0.45:
        lbl = r.choice(labels_num)
        if target and guess.get(lbl) in NUMV:
            op, k = num_pred_true(r, guess[lbl])
        else:
            op, k = r.choice(['==', '!=', '>', '>=', '<', '<=']), r.choice([1, 2])
        return {'t': 'leaf', 'lbl': lbl, 'op': op, 'num': True, 'val': '', 'k': k}
    lbl = r.choice(labels_str)
    consts, regexes = ['v1', 'v2', '', 'n1'], ['R_v1', 'R_v1v2', 'R_any', 'R_some', 'R_n']
    if target:
        op, val = str_pred_true(r, guess.get(lbl, ''), consts, regexes)
    else:
        op = r.choice(['=', '!=', '=~', '!~'])
        val = r.choice(consts) if op in ('=', '!=') else r.choice(regexes)
    return {'t': 'leaf', 'lbl': lbl, 'op': op, 'num': False, 'val': val, 'k': 0}


def rand_tree(r, depth, ls, ln, guess):
    if depth == 0 or r.random() < 0.4:
        return rand_leaf(r, ls, ln, guess)
    return {'t': r.choice(['and', 'or']), 'l': rand_tree(r, depth - 1, ls, ln, guess), 'r': rand_tree(r, depth - 1, ls, ln, guess)}


def rand_db(r, fmt=None, unwrap=False):
    fmt = fmt or r.choice(['json', 'plain'])
    vals_a = ['v1', 'v2', '']
    vals_b = ['', 'v1', 'v2', 'n1', 'n3', 'w']
    streams = []
    while len(streams) < r.randint(1, 3):
        s = {'a': r.choice(vals_a), 'b': r.choice(vals_b)}
        if (s['a'] or s['b']) and s not in streams:
            streams.append(s)
    ticks = r.sample([0, 1, 1, 2, 2, 3, 3, 4, 4, 5], r.randint(1, 4))
    ticks = sorted(set(ticks))
    db = []
    for t in ticks:
        db.append({'s': r.choice(streams), 't': t, 'feats': set(f for f in ('f1', 'f2', 'f3') if r.random() < 0.4),
                   'ty': 'log' if r.random() < 0.85 else 'metric', 'fmt': fmt,
                   'fld': {'x': r.choice(['', 'v1', 'v2']), 'ox': r.choice(['', 'v1', 'v2']), 'n': r.choice(['', 'n1', 'n3', 'w'])}})
    return fmt, db


def rand_matchers(r, tgt):
    ms = []
    for _ in range(r.randint(1, 2)):
        name = r.choice(['a', 'b'])
        consts = ['v1', 'v2', ''] if name == 'a' else ['v1', 'n1', 'w', '']
        regexes = ['R_v1', 'R_v1v2', 'R_any', 'R_some'] + (['R_n'] if name == 'b' else [])
        if r.random() < 0.75:
            op, val = str_pred_true(r, tgt['s'][name], consts, regexes)
        else:
            op = r.choice(['=', '!=', '=~', '!~'])
            val = r.choice(consts) if op in ('=', '!=') else r.choice(regexes)
        ms.append({'name': name, 'op': op, 'val': val})
    return ms


def rand_stages(r, fmt, tgt, n, allow_ex=True):
    stages = []
    have_ex = False
    guess = {'a': tgt['s']['a'], 'b': tgt['s']['b'], 'x': '', 'y': '', 'o_x': '', 'n': ''}
    for _ in range(n):
        kind = r.choice(['lf', 'lf', 'lbl', 'lbl', 'ex', 'drop'])
        if kind == 'lf':
            op = r.choice(['|=', '!=', '|~', '!~'])
            arg = r.choice(['f1', 'f2', 'f3']) if op in ('|=', '!=') else r.choice(['L_f1', 'L_f2', 'R_f1', 'R_f2', 'R_f1f2', 'R_f2f3'])
            if r.random() < 0.7:   # make it hold for the target entry
                fe = {'f1': {'f1'}, 'f2': {'f2'}, 'f3': {'f3'}, 'L_f1': {'f1'}, 'L_f2': {'f2'}, 'R_f1': {'f1'}, 'R_f2': {'f2'},
                      'R_f1f2': {'f1', 'f2'}, 'R_f2f3': {'f2', 'f3'}}[arg]
                hit = bool(fe & set(tgt['feats']))
                if op in ('|=', '|~') and not hit:
                    op = {'|=': '!=', '|~': '!~'}[op]
                elif op in ('!=', '!~') and hit:
                    op = {'!=': '|=', '!~': '|~'}[op]
            stages.append({'k': 'lf', 'op': op, 'arg': arg})
        elif kind == 'lbl':
            stages.append({'k': 'lbl', 'tree': rand_tree(r, 2, ['a', 'b', 'x', 'y', 'o_x'], ['b', 'n'], guess)})
        elif kind == 'ex' and not have_ex and allow_ex:
            have_ex = True
            if fmt == 'json':
                if r.random() < 0.35:
                    stages.append({'k': 'json'})
                    guess.update({'x': tgt['fld']['x'], 'o_x': tgt['fld']['ox'], 'n': tgt['fld']['n']})
                else:
                    ps = r.sample([('x', 'x'), ('y', 'o.x'), ('n', 'n')], r.randint(1, 2))
                    stages.append({'k': 'jsonp', 'params': [{'lbl': a, 'path': b} for a, b in ps]})
                    for a, b in ps:
                        guess[a] = tgt['fld'][{'x': 'x', 'o.x': 'ox', 'n': 'n'}[b]]
            else:
                g = r.choice([['x'], ['n'], ['x', 'n']])
                stages.append({'k': 'regexp', 'groups': g})
                for a in g:
                    guess[a] = tgt['fld'][a]
        elif kind == 'drop':
            if r.random() < 0.6:
                names = set(r.sample(['a', 'b', 'x', 'n'], r.randint(1, 2)))
                stages.append({'k': 'drop', 'names': names})
                for a in names:
                    guess[a] = ''
            else:
                stages.append({'k': 'dropv', 'name': r.choice(['a', 'b', 'x']), 'val': r.choice(['v1', 'v2'])})
    return stages


def limit_shadow_case(r):
    """directed: a parser followed by a filter on what it extracted, a limit smaller than the number of candidate lines, and
    the lines nearest to the scan start FAIL the later filter - the limit must count matching lines, not scanned ones"""
    fmt = r.choice(['json', 'plain'])
    s = {'a': r.choice(['v1', 'v2']), 'b': r.choice(['', 'v1', 'n1'])}
    fwd = r.random() < 0.5
    ticks = [1, 2, 3, 4]
    nfail = r.choice([1, 2])
    failing = set(ticks[:nfail] if fwd else ticks[-nfail:])
    db = []
    for t in ticks:
        good = t not in failing
        db.append({'s': s, 't': t, 'feats': {'f1'} if good else {'f2'}, 'ty': 'log', 'fmt': fmt,
                   'fld': {'x': 'v1' if good else 'v2', 'ox': '', 'n': 'n1' if good else 'n3'}})
    if fmt == 'json':
        ex = {'k': 'jsonp', 'params': [{'lbl': 'x', 'path': 'x'}] + ([{'lbl': 'n', 'path': 'n'}] if r.random() < 0.5 else [])}
    else:
        ex = {'k': 'regexp', 'groups': ['x', 'n'] if r.random() < 0.5 else ['x']}
    if r.random() < 0.6:
        flt = {'k': 'lbl', 'tree': {'t': 'leaf', 'lbl': 'x', 'op': '=', 'num': False, 'val': 'v1', 'k': 0}}
    else:
        flt = {'k': 'lf', 'op': '|=', 'arg': 'f1'}
    q = {'m': [{'name': 'a', 'op': '=', 'val': s['a']}], 'p': [ex, flt], 'from': 1, 'to': 5, 'lim': r.choice([1, 1, 2]), 'fwd': fwd}
    return {'q': q, 'db': db}


def whole_value_case(r):
    """directed: regex stream matchers over streams whose label values START WITH / END WITH / CONTAIN a value the regex
    matches (LogQLSem.ExtVals) - a label regex is matched against the whole value - in front of an arbitrary pipeline
    whose label filters do not look at the stream labels"""
    fmt = r.choice(['json', 'plain'])
    ext = ['v1s', 'pv2', 'pv1s']
    streams = []
    while len(streams) < r.randint(2, 4):
        if r.random() < 0.5:
            s = {'a': r.choice(['v1', 'v2'] + ext + ext), 'b': r.choice(['v1', 'v2'])}
        else:
            s = {'a': r.choice(['v1', 'v2']), 'b': r.choice(['v1', 'v2'] + ext + ext)}
        if s not in streams:
            streams.append(s)
    db = []
    for t in sorted(set(r.sample([0, 1, 1, 2, 2, 3, 3, 4, 4, 5], r.randint(2, 4)))):
        db.append({'s': r.choice(streams), 't': t, 'feats': set(f for f in ('f1', 'f2', 'f3') if r.random() < 0.4),
                   'ty': 'log' if r.random() < 0.9 else 'metric', 'fmt': fmt,
                   'fld': {'x': r.choice(['', 'v1', 'v2']), 'ox': r.choice(['', 'v1', 'v2']), 'n': r.choice(['', 'n1', 'n3', 'w'])}})
    ms = []
    for _ in range(r.randint(1, 2)):
        ms.append({'name': r.choice(['a', 'b']), 'op': r.choice(['=~', '=~', '!~']), 'val': r.choice(['R_v1', 'R_v2', 'R_v1v2', 'R_v1v2'])})
    tgt = r.choice(db)
    stages = []
    for st in rand_stages(r, fmt, tgt, r.randint(0, 2)):
        if st['k'] == 'lbl' and _mentions(st['tree']) & {'a', 'b'}:
            continue
        if st['k'] in ('drop', 'dropv') or st['k'] == 'json':
            continue
        stages.append(st)
    q = {'m': ms, 'p': stages, 'from': 1, 'to': 5, 'lim': r.choice([0, 1000, 1000, 2]), 'fwd': r.random() < 0.5}
    return {'q': q, 'db': db}


def _mentions(tree):
    if tree['t'] == 'leaf':
        return {tree['lbl']}
    return _mentions(tree['l']) | _mentions(tree['r'])


def rand_case(r):
    x = r.random()
    if x < 0.12:
        return limit_shadow_case(r)
    if x < 0.22:
        return whole_value_case(r)
    fmt, db = rand_db(r)
    cands = [e for e in db if e['ty'] == 'log' and 1 <= e['t'] < 5] or db
    tgt = r.choice(cands)
    ms = rand_matchers(r, tgt)
    stages = rand_stages(r, fmt, tgt, r.randint(0, 4))
    has_json = any(s['k'] == 'json' for s in stages)
    lim = r.choice([0, 1, 2, 3, 1000]) if not has_json else r.choice([1, 2, 3, 1000, 1000, 0])
    q = {'m': ms, 'p': stages, 'from': 1, 'to': 5, 'lim': lim, 'fwd': r.random() < 0.5}
    return {'q': q, 'db': db}


def run_module(name, extends, frags, tiers, cases):
    mods = '[%s]' % ', '.join('%s |-> %d' % (f, tiers[f][0]) for f in frags)
    modsdev = '[%s]' % ', '.join('%s |-> %d' % (f, tiers[f][1]) for f in frags)
    dbmods = '[%s]' % ', '.join('%s |-> %d' % (f, tiers[f][2] if len(tiers[f]) > 2 else 1) for f in frags)
    body = ',\n  '.join(vlib.tla_value(c) for c in cases)
    return ('---- MODULE %s ----\nEXTENDS %s\nRunFrags == {%s}\nRunMods == %s\nRunModsDev == %s\nRunDBMods == %s\nDataSCases == <<\n  %s\n>>\n====\n' % (
        name, extends, ', '.join('"%s"' % f for f in frags), mods, modsdev, dbmods, body))


# ------------------------------------------------------------------------------------------------------------------
def tlc_run(tier, sd, seed, frags=None, mc_module='MC_LogQL', gen=None, cfg_tpl=None, tiers=None, attempt=0):
    """One TLC run over all fragments: returns per-fragment case lists and mechanism/definition differences."""
    tiers = tiers or TIERS
    frags = frags or FRAGS
    gen = gen or rand_case
    t = tiers[tier]
    r = random.Random(seed * 7919 + 17)
    cases = [gen(r) for _ in range(t['nS'])] if 'S' in frags else []
    name = mc_module + 'Run'
    p = os.path.join(sd, name + '.tla')
    open(p, 'w').write(run_module(name, mc_module, frags, t, cases))
    cfgname = name + '.cfg'
    cfgp = os.path.join(sd, cfgname)
    open(cfgp, 'w').write((cfg_tpl or CFG) % {'maxentries': t['maxentries'], 'seed': seed % 1000003})
    res = vlib.tlc(SPECDIR, name + '.tla', cfgname, workers=8, timeout=2400, copy_extra=[p, cfgp])
    try:
        if res['violated']:
            raise vlib.Infra('TLC: invariant %s violated in %s (the specification is inconsistent):\n%s' % (
                res['violated'], mc_module, res['out'][-2500:]))
        if not res.get('finished') or 'No error has been found' not in res['out']:
            if attempt == 0 and 'rror' not in res['out'][-3000:]:
                # another checker's timeout handler kills every TLC on the machine: try once more
                return tlc_run(tier, sd, seed, frags, mc_module, gen, cfg_tpl, tiers, attempt=1)
            raise vlib.Infra('TLC did not finish %s: %s' % (mc_module, res['out'][-2000:]))
        cases_txt, devs = parse_tlc_cases(res['out'])
        frs = []
        for f in frags:
            tag = '"frag":"%s"' % f
            frs.append({'frag': f, 'cases': [c for c in cases_txt if c.startswith('{' + tag)],
                        'devs': {i: d[1] for i, d in devs.items() if d[0] == f}})
        got = sum(len(fr['cases']) for fr in frs)
        if got != len(cases_txt):
            raise vlib.Infra('could not attribute %d exported cases to fragments' % (len(cases_txt) - got))
        return frs, {'states': res.get('distinct', 0), 'generated': res.get('generated', 0), 'wall_s': round(res['wall'], 1)}
    finally:
        vlib.tlc_cleanup(res)


def run_driver(binp, sd, cases, tag):
    cp = os.path.join(sd, 'cases_%s.ndjson' % tag)
    with open(cp, 'w') as f:
        for c in cases:
            f.write(c + '\n')
    op = os.path.join(sd, 'result_%s.json' % tag)
    rd = os.path.join(sd, 'replays_%s' % tag)
    env = dict(os.environ)
    env['TZ'] = 'UTC'
    r = vlib.run_cmd([binp, 'run', '-cases', cp, '-out', op, '-seed', str(vlib.seed()), '-replays', rd, '-maxreplays', '3'],
                     timeout=3000, env=env)
    if r.returncode != 0 or not os.path.exists(op):
        raise vlib.Infra('c07 driver failed: ' + (r.stdout + r.stderr)[-3000:])
    return json.load(open(op))


def collect(pid, result, frs, tier):
    """Turn the driver's result into violations / Infra."""
    if result.get('infra'):
        raise vlib.Infra('driver reported infrastructure problems: ' + '; '.join(result['infra'][:5]))
    refuted = result.get('dev_cases_where_code_meets_definition') or []
    unexplained = [m for m in result.get('mismatches') or [] if m['signature'].startswith('unattributed')]
    if refuted and not unexplained:
        # (with unexplained mismatches the code misbehaves in ways the mechanism model does not know; coincidences are expected)
        raise vlib.Infra('%d cases on which LogQLPlan (mechanism) differs from LogQLSem (definition) but the real code meets the '
                         'definition: the mechanism specification misrepresents the code (first: %s)' % (len(refuted), refuted[:5]))
    viols = []
    seen = {}
    for m in result.get('mismatches') or []:
        sig = m['signature']
        seen.setdefault(sig, []).append(m)
    for sig, ms in sorted(seen.items()):
        m = next((x for x in ms if x.get('replay')), ms[0])
        path = ''
        if m.get('replay') and os.path.exists(m['replay']):
            obj = json.load(open(m['replay']))
            obj['kind'] = 'TLC case replayed through /loki/api/v1/query_range of the real reader'
            obj['signature'] = sig
            obj['cases_with_this_signature'] = len(ms)
            path = vlib.save_replay(pid, '%s_%s' % (re.sub(r'[^A-Za-z0-9]+', '_', sig)[:90], hashlib.md5(sig.encode()).hexdigest()[:6]), obj)
        viols.append({'property': pid, 'signature': sig, 'replay': path,
                      'msg': '%s [%d cases; mechanism model predicts it: %s]' % (m['msg'][:900], len(ms), m.get('matches_mechanism_model'))})
    return viols


def run(tier):
    binp = vlib.go_build('cmd/c07', 'c07')
    sd = vlib.scratch('c07')
    try:
        frs, tl = tlc_run(tier, sd, vlib.seed())
        cases = []
        for fr in frs:
            if not fr['cases']:
                raise vlib.Infra('fragment %s exported no case (vacuous)' % fr['frag'])
            cases += fr['cases']
        result = run_driver(binp, sd, cases, 'c07')
        viols = collect(PID, result, frs, tier)
        su = result.get('stage_use') or {}
        need = ['matcher=', 'matcher!=', 'matcher=~', 'matcher!~', 'lf|=', 'lf!=', 'lf|~', 'lf!~', 'lbl', 'json', 'jsonp', 'regexp', 'drop', 'dropv']
        missing = [n for n in need if not su.get(n)]
        if missing:
            raise vlib.Infra('vacuous: query constructs never exercised against the real code: %s' % missing)
        pu = result.get('pool_use') or {}
        needp = ['extvalue:%s:%s' % (a, o) for a in ('v1s', 'pv2', 'pv1s') for o in ('=~', '!~')] + \
                ['valueregex:bare-alternation', 'valueregex:outer-anchors-on-alternatives', 'valueregex:bare', 'valueregex:capture-group']
        missing = [n for n in needp if not pu.get(n)]
        if missing:
            raise vlib.Infra('vacuous: whole-value regex matching never exercised against the real code: %s' % missing)
        if result['nontrivial_cases'] < 100:
            raise vlib.Infra('vacuous: only %d non-trivial cases ran' % result['nontrivial_cases'])
        ndev = sum(len(fr['devs']) for fr in frs)
        cov = {
            'states': tl['states'],
            'transitions': tl['generated'],
            'tlc_wall_s': tl['wall_s'],
            'traces_validated_against_impl': result['cases_run'],
            'samples': result.get('samples') or [{}],
            'exhaustive': tier == 'thorough',
            'distinct_nontrivial': result['nontrivial_cases'],
            'fragments': [{'frag': fr['frag'], 'cases_exported': len(fr['cases']), 'mechanism_differs': len(fr['devs'])} for fr in frs],
            'cases_where_mechanism_differs_from_definition': ndev,
            'mechanism_difference_classes': {f['frag']: dict((c, list(f['devs'].values()).count(c)) for c in set(f['devs'].values())) for f in frs},
            'candidates_confirmed_against_real_code': result['dev_cases_matching_mechanism_model'],
            'driver': {k: result[k] for k in ('cases_run', 'agree', 'by_frag', 'wall_s', 'writer_pushes', 'stage_use', 'pool_use')},
            'mismatch_signatures': sorted(set(m['signature'] for m in result.get('mismatches') or [])),
            'checker_cmd': 'tlc MC_LogQL (Frag=M,L,P,W,S) -> cases -> c07 run (real /loki/api/v1/query_range over chsql)',
        }
        return {'level': 'model_checking', 'coverage': cov, 'violations': viols, 'assumptions': ASSUMPTIONS}
    finally:
        shutil.rmtree(sd, ignore_errors=True)


ASSUMPTIONS = [
    'chsql gives the generated SQL its meaning (ClickHouse semantics as documented in harness/chsql/doc.go); a statement chsql '
    'cannot run is an infrastructure error, never a verdict',
    'atoms: label values / features / regex atoms are drawn per case from seeded pools of hostile strings with decoys; a regex '
    'atom is realised as a pattern matching exactly its members of the pool, pool values are mutually non-substring, so the '
    'answer of those cases does not depend on whether =~ is anchored; anchoring of STREAM MATCHERS is decided by fragment A and the '
    'whole-value cases of S: stored label values that start with / end with / contain a value the regex matches (LogQLSem.ExtVals), '
    'the regex written bare, grouped, in either order of its alternatives and with anchors of its own; label FILTERS (| lbl =~ ..) '
    'are only run against pool values (their anchoring is not decided here)',
    'a label with the empty value is an absent label (LogQL); returned labels are compared after dropping empty values',
    'out of scope: lines that are not JSON objects under a json stage, __error__ labels, more than one extraction stage per '
    'query, extracted labels that collide with stream labels, line_format / label_format / logfmt, and/or without parentheses '
    'between different operators (qryn parses a and b or c as a and (b or c))',
    'window edges: start/end on whole seconds (the reader truncates them), entries at +-1 ns / +-1 s around them; dates are not '
    'the subject (C13)',
]

"""C03: log and metric ingest decodes every entry to exactly one faithful row.
Chunker.tla (decoder callbacks + chunk builder incl. the points / size thresholds) is model-checked by TLC; every body shape
TLC enumerates is concretised for 11 protocol variants and parsed by the REAL exported parsers; responses are compared with
the submitted entries."""
import json
import os
import re
import shutil

import vlib

SPECDIR = os.path.join(vlib.SPEC, 'ingest')


def tlc_cases(tier):
    if tier != 'quick':
        # 3 streams without the label-set classes (MC_Chunker_thorough.cfg) + 2 streams with them (MC_Chunker_quick.cfg)
        c1, m1 = tlc_cases_cfg('MC_Chunker_thorough.cfg')
        c2, m2 = tlc_cases_cfg('MC_Chunker_quick.cfg')
        have = set(json.dumps(c, sort_keys=True) for c in c1)
        c1 += [c for c in c2 if json.dumps(c, sort_keys=True) not in have]
        return c1, {'states': m1['states'] + m2['states'], 'transitions': m1['transitions'] + m2['transitions'],
                    'cfg': m1['cfg'] + '+' + m2['cfg'], 'wall_s': round(m1['wall_s'] + m2['wall_s'], 1)}
    return tlc_cases_cfg('MC_Chunker_quick.cfg')


def tlc_cases_cfg(cfg):
    res = vlib.tlc(SPECDIR, 'MC_Chunker.tla', cfg, timeout=1500)
    try:
        if res['violated']:
            raise vlib.Infra('Chunker.tla: Faithful/SeriesAnnounced violated on the specification: ' + res['out'][-2000:])
        cases = []
        for m in re.finditer(r'^<<"CASE", (".*")>>\s*$', res['out'], flags=re.M):
            cases.append(json.loads(json.loads(m.group(1))))
        if not cases:
            raise vlib.Infra('TLC exported no cases: ' + res['out'][-1500:])
        return cases, {'states': res['distinct'], 'transitions': res['generated'], 'cfg': cfg, 'wall_s': round(res['wall'], 1)}
    finally:
        vlib.tlc_cleanup(res)


def tlc_candidates():
    """ShapeOK / NoPanic on the transcribed mechanism: violations are candidates confirmed (or not) by the replay."""
    res = vlib.tlc(SPECDIR, 'MC_Chunker.tla', 'MC_Chunker_props.cfg', timeout=600, extra=['-continue'])
    try:
        out = res['out']
        return {'ShapeOK_violating_states': len(re.findall(r'Invariant ShapeOK is violated', out)),
                'NoPanic_violating_states': len(re.findall(r'Invariant NoPanic is violated', out)),
                'states': res.get('distinct', 0)}
    finally:
        vlib.tlc_cleanup(res)


def tlc_leak():
    """The label-set part of Faithful has teeth: with the named deviation family LeakLabels (label state of a container
    survives from one callback to the next) TLC must find Faithful violated on the bodies with a pseudo label / a mixed container."""
    res = vlib.tlc(SPECDIR, 'MC_Chunker.tla', 'MC_Chunker_leak.cfg', timeout=600)
    try:
        if 'Invariant Faithful is violated' not in res['out']:
            raise vlib.Infra('Chunker.tla with LeakLabels = TRUE does not violate Faithful: the own-label-set part of the invariant is vacuous: ' + res['out'][-1500:])
        return {'LeakLabels_violates_Faithful': True}
    finally:
        vlib.tlc_cleanup(res)


def run(tier):
    cases, mc = tlc_cases(tier)
    cand = tlc_candidates()
    cand.update(tlc_leak())
    binp = vlib.go_build('cmd/c03', 'c03')
    sd = vlib.scratch('c03')
    try:
        inp, outp = os.path.join(sd, 'cases.json'), os.path.join(sd, 'out.json')
        json.dump(cases, open(inp, 'w'))
        r = vlib.run_cmd([binp, '-in', inp, '-out', outp, '-seed', str(vlib.seed()), '-maxbig', '40' if tier == 'quick' else '400'], timeout=3000)
        if r.returncode != 0 or not os.path.exists(outp):
            raise vlib.Infra('c03 driver failed: ' + (r.stdout + r.stderr)[-3000:])
        out = json.load(open(outp))
        viols = []
        seen = set()
        for m in out.get('mismatches') or []:
            # structural signature: kind of failure | protocol | body class (size class is incidental)
            sig = re.sub(r'\+?crosses-size-limit', '', m['signature']).rstrip('|')
            sig = sig.replace('zero-entry-stream+crosses-points-limit', 'zero-entry-stream')
            if sig.startswith('ragged|') and 'crosses-points-limit' in m['signature']:
                sig = 'ragged|%s|crosses-points-limit' % m['protocol']
            if sig in seen:
                continue
            seen.add(sig)
            path = vlib.save_replay('C03', re.sub(r'[^A-Za-z0-9]+', '_', sig)[:100], m)
            viols.append({'property': 'C03', 'signature': sig, 'msg': '%s: %s (body shape %s)' % (m['protocol'], m['msg'], json.dumps(m['case']['body'])), 'replay': path})
        confirmed = {'ShapeOK': any(v['signature'].startswith('ragged') for v in viols), 'NoPanic': any(v['signature'].startswith('error|') for v in viols)}
        # a TLC candidate (the transcribed mechanism breaks ShapeOK/NoPanic) that the real parsers do not reproduce means the
        # transcription is wrong: infrastructure. The other direction (real code fails, model does not) is a violation.
        if (cand['ShapeOK_violating_states'] > 0 and not confirmed['ShapeOK']) or (cand['NoPanic_violating_states'] > 0 and not confirmed['NoPanic']):
            raise vlib.Infra('Chunker.tla predicts a ShapeOK/NoPanic failure that the real parsers do not show: TLC %s, real code %s — '
                             'the transcription in Chunker.tla no longer matches the code' % (cand, confirmed))
        cov = {'states': mc['states'] + cand['states'], 'transitions': mc['transitions'],
               'traces_validated_against_impl': out['runs'],
               'samples': [cases[len(cases) // 2], {'per_protocol': out['per_protocol']}],
               'exhaustive': True, 'model_check': mc, 'mechanism_candidates': cand,
               'replay': {'cases_from_tlc': len(cases), 'parser_runs': out['runs'], 'classes': out['classes'], 'label_classes': out.get('label_classes'), 'signature_counts': out['signature_counts']}}
        lc = out.get('label_classes') or {}
        for need in ('influx-metrics/pseudo-label+mixed-container', 'otlp-logs/mixed-container', 'prom-remote-write/pseudo-label', 'loki-json-values/pseudo-label'):
            if not lc.get(need):
                raise vlib.Infra('vacuous: no body of label class %s was replayed' % need)
        if tier == 'thorough':
            # the ingest protocols beyond this property's list (Elasticsearch bulk/doc, Cloudflare, Datadog metrics by route) are
            # checked with the same oracle style by the extra check X04 (BulkIngest.tla); it belongs to this property's deep tier
            import props.x04 as x04
            xr = x04.run('quick')
            for v in xr['violations']:
                viols.append(dict(v, property='C03', signature='bulk|' + v['signature']))
            cov['bulk_x04'] = {k: xr['coverage'].get(k) for k in ('states', 'transitions', 'traces_validated_against_impl')}
            cov['states'] += xr['coverage'].get('states', 0)
            cov['transitions'] += xr['coverage'].get('transitions', 0)
            cov['traces_validated_against_impl'] += xr['coverage'].get('traces_validated_against_impl', 0)
        return {'level': 'model_checking', 'coverage': cov, 'violations': viols,
                'assumptions': ['thresholds scaled: 3 points in the model = 1000 in the code, 4 size units = 1 MiB',
                                'the retention pseudo label __ttl_days__ is not part of the stream (no TTL_DAYS request context): a stream gets the same fingerprint with and without it; reference fingerprint of a label set = the one it gets when one entry of it is sent alone through the same parser',
                                'label names/values in this check are benign (hostile labels are C04\'s subject)',
                                'Loki values layout with a numeric third element is a sample of both kinds (type 0) by the project\'s own convention']}
    finally:
        shutil.rmtree(sd, ignore_errors=True)

"""X04 (coverage extension of C03): the line / element oriented ingest protocols C03 does not bind - Elasticsearch bulk
and doc routes, Cloudflare logpush (/cf/v1/insert) and the Datadog metrics ROUTE (/api/v2/series).

spec/ingest/BulkIngest.tla holds the DEFINITION (which rows every body must produce: one per document / point, its own
target, timestamp source, verbatim line text; 2xx never hides a dropped document; a malformed line rejects the request and
keeps at most a prefix) and the MECHANISM (the decoders transcribed line by line, the code's named deviations switchable).
TLC (1) proves mechanism = definition for the deviation-free constants under every chunking, (2) refutes the as-coded
constants, (3) enumerates every body shape within the bounds and exports definition rows + as-coded rows.  cmd/x04
concretises each shape and pushes it through the REAL parser functions and the REAL HTTP routes down to the store; rows
observed are compared with both.  A deviation the real code exhibits is a violation (as-coded|<name>); behaviour that is
neither the definition's nor the as-coded model's is a violation (unexplained|...) when the definition speaks about the
body (otherwise it is only counted).  The set of deviations the code exhibits is determined from the cases that isolate one."""
import json
import os
import re
import shutil

import vlib

SPECDIR = os.path.join(vlib.SPEC, 'ingest')
QUIRKS = ['QPathLost', 'QPathWins', 'QDocKey', 'QLongStops', 'QCfBlank', 'QDdTags']
BLAME = {'path_lost': 'QPathLost', 'path_wins': 'QPathWins', 'doc_key': 'QDocKey', 'long_stops': 'QLongStops',
         'cf_blank': 'QCfBlank', 'dd_tags': 'QDdTags'}
WHAT = {
    'path_lost': 'Elasticsearch routes lose the path\'s {target} and {id}: writer/controller/elasticController.go getRequestParams reads ctx value '
                 '"params", which only the unused writer/http router sets; under the gorilla mux routes it is always empty, so every document of '
                 '/{target}/_doc, /{target}/_doc/{id}, /{target}/_create/{id} is stored under _index="" / _id="" and /{target}/_bulk ignores its target',
    'path_wins': 'bulk: with a target in the path the action line\'s own "_index" is skipped (elasticUnmarshal.go decodeCreateObj), the document is '
                 'attributed to the path\'s target; in Elasticsearch the explicit _index wins and the path is only the default',
    'doc_key': 'bulk: elasticBulkDec.decodeLine does not know whether an action or a document is due; a DOCUMENT with a top-level key '
               'delete/update (dropped, 200), index/create with an object value (dropped, 200, labels overwritten) or index/create with another '
               'value (whole request 400) is taken for an action line',
    'long_stops': 'bulk and cf: a line longer than 64 KiB ends bufio.Scanner (default token limit) and Decode() never reads scanner.Err(): the '
                  'request is acknowledged with 2xx while that document and EVERY later one is dropped (elasticUnmarshal.go / '
                  'datadogCFJsonUnmarshal.go Decode)',
    'cf_blank': 'cf: a blank line is decoded as an event (datadogCFJsonUnmarshal.go Decode calls DecodeLine for every scanned line) and the whole '
                'request is rejected with 400; the bulk decoder skips blank lines',
    'dd_tags': 'Datadog metrics: "tags" of a series are ignored (datadogMetricsJsonUnmarshal.go DecodeSeriesItem), series that differ only in tags '
               'share one label set and their points are merged into one series',
}

CFG = """SPECIFICATION Spec
CONSTANTS
  Targets = {"t1", "t2"}
  MaxLines = %(lines)d
  MaxSeries = %(series)d
  MaxMalformed = %(malformed)d
  S = %(S)d
  MaxClock = %(clock)d
  Protos = {"bulk", "doc", "cf", "ddm"}
  Vias = {"parser", "route"}
%(quirks)s
INVARIANTS %(inv)s
%(extra)s
CHECK_DEADLOCK FALSE
"""


def bounds(tier):
    return dict(lines=3, series=2, malformed=2) if tier == 'quick' else dict(lines=4, series=3, malformed=3)


def run_cfg(name, text, timeout=1500, extra=None):
    sd = vlib.scratch('x04cfg')
    try:
        p = os.path.join(sd, name)
        open(p, 'w').write(text)
        return vlib.tlc(SPECDIR, 'MC_BulkIngest.tla', name, timeout=timeout, copy_extra=[p], extra=extra)
    finally:
        shutil.rmtree(sd, ignore_errors=True)


def quirk_lines(on):
    return '\n'.join('  %s = %s' % (q, 'TRUE' if q in on else 'FALSE') for q in QUIRKS)


def tlc_demanded(tier):
    """mechanism = definition for the deviation-free constants, under every chunking (S = 1, 2) and a ticking clock"""
    stats = {'states': 0, 'transitions': 0, 'runs': []}
    for S, clock in ((1, 1), (2, 0)):
        b = bounds(tier)
        text = CFG % dict(b, S=S, clock=clock, quirks=quirk_lines(set()), inv='Conforms AckedMeansStored NoGarbage ArrivalInRange', extra='')
        res = run_cfg('MC_BulkIngest_gen_demanded.cfg', text)
        try:
            if res['violated'] or not res.get('finished'):
                raise vlib.Infra('BulkIngest.tla: the deviation-free mechanism does not meet the definition (S=%d): %s' % (S, res['out'][-2500:]))
            stats['states'] += res['distinct']
            stats['transitions'] += res['generated']
            stats['runs'].append({'S': S, 'clock': clock, 'states': res['distinct'], 'wall_s': round(res['wall'], 1)})
        finally:
            vlib.tlc_cleanup(res)
    return stats


def tlc_refute(on):
    """the as-coded constants must break the headline invariant on the specification"""
    text = CFG % dict(bounds('quick'), S=99, clock=0, quirks=quirk_lines(on), inv='AckedMeansStored', extra='')
    res = run_cfg('MC_BulkIngest_gen_refute.cfg', text, timeout=600)
    try:
        return 'AckedMeansStored' in res['violated'], res.get('distinct', 0)
    finally:
        vlib.tlc_cleanup(res)


def tlc_cases(tier, on):
    text = CFG % dict(bounds(tier), S=99, clock=0, quirks=quirk_lines(on), inv='NoGarbage ArrivalInRange', extra='CONSTRAINT ExportCase')
    res = run_cfg('MC_BulkIngest_gen_coded.cfg', text)
    try:
        if res['violated'] or not res.get('finished'):
            raise vlib.Infra('BulkIngest.tla (as coded): NoGarbage/ArrivalInRange violated on the specification: ' + res['out'][-2500:])
        cases = [json.loads(json.loads(m.group(1))) for m in re.finditer(r'^<<"CASE", (".*")>>\s*$', res['out'], flags=re.M)]
        if not cases:
            raise vlib.Infra('TLC exported no cases: ' + res['out'][-1500:])
        return cases, {'states': res['distinct'], 'transitions': res['generated'], 'wall_s': round(res['wall'], 1)}
    finally:
        vlib.tlc_cleanup(res)


def drive(binp, cases, nbig):
    sd = vlib.scratch('x04')
    try:
        inp, outp = os.path.join(sd, 'cases.json'), os.path.join(sd, 'out.json')
        json.dump(cases, open(inp, 'w'))
        env = dict(os.environ)
        env['TZ'] = 'UTC'
        r = vlib.run_cmd([binp, '-in', inp, '-out', outp, '-seed', str(vlib.seed()), '-big', str(nbig)], timeout=2400, env=env)
        if r.returncode != 0 or not os.path.exists(outp):
            raise vlib.Infra('x04 driver failed: ' + (r.stdout + r.stderr)[-3000:])
        out = json.load(open(outp))
        if out.get('infra'):
            raise vlib.Infra('x04 driver: ' + '; '.join(out['infra'][:5]))
        if len(out['verdicts']) != len(cases):
            raise vlib.Infra('x04 driver answered %d of %d cases' % (len(out['verdicts']), len(cases)))
        return out
    finally:
        shutil.rmtree(sd, ignore_errors=True)


def exhibited(cases, verdicts):
    """per deviation: does the real code show it?  decided on the cases in which ONLY that deviation took effect"""
    res = {}
    for b in BLAME:
        cs = [verdicts[i] for i, c in enumerate(cases) if c['blame'] == [b]]
        res[b] = {'C': cs.count('C'), 'W': cs.count('W'), 'N': cs.count('N'), 'B': cs.count('B')}
    return res


def run(tier):
    dem = tlc_demanded(tier)
    binp = vlib.go_build('cmd/x04', 'x04')
    on = set(QUIRKS)
    rounds = []
    for rnd in range(4):
        cases, mc = tlc_cases(tier, on)
        out = drive(binp, cases, 1 if tier == 'quick' else 6)
        verdicts = out['verdicts']
        ex = exhibited(cases, verdicts)
        rounds.append({'deviations_assumed': sorted(on), 'cases': len(cases), 'verdicts': {k: verdicts.count(k) for k in 'BWCN'}, 'isolating_cases': ex})
        drop = set()
        for b, n in ex.items():
            q = BLAME[b]
            # the code meets the definition where only this deviation would show: it is not there.  (Mixed answers - a partial
            # repair or a new defect nearby - go with the majority; either way every case that misses the definition is reported,
            # as as-coded|<name> if the deviation is kept, as unexplained|... if it is dropped.)
            if q in on and n['W'] > n['C']:
                drop.add(q)
        if not drop:
            break
        on -= drop
    else:
        raise vlib.Infra('the set of deviations did not stabilise: %s' % rounds)

    refuted, rstates = (None, 0)
    if on:
        refuted, rstates = tlc_refute(on)
        if not refuted:
            raise vlib.Infra('the as-coded constants %s do not break AckedMeansStored on the specification' % sorted(on))

    viols, seen = [], set()

    def add(sig, msg, obj):
        if sig in seen:
            return
        seen.add(sig)
        path = vlib.save_replay('X04', re.sub(r'[^A-Za-z0-9]+', '_', sig)[:100], obj)
        viols.append({'property': 'X04', 'signature': sig, 'msg': msg, 'replay': path})

    details = out.get('details') or []
    for b in sorted(BLAME):
        if BLAME[b] not in on or ex[b]['C'] == 0:
            continue
        cand = [d for d in details if d['verdict'] == 'C' and d['blame'] == [b]]
        # the most telling example: through the HTTP route, a silent loss rather than a rejection, more than one line
        cand.sort(key=lambda d: (d['via'] != 'route', d['demanded_kind'] not in ('dropped', 'labels', 'merged-series'), len(d['case']['body']) < 2))
        d = cand[0] if cand else None
        eg = ''
        if d:
            eg = ' | e.g. %s body %s -> %s: %s' % (d['request'], json.dumps(d['body'][:300]), d['observed_status'].strip(), d['demanded_msg'])
        add('as-coded|' + b, WHAT[b] + eg, {'deviation': b, 'what': WHAT[b], 'cases_showing_only_it': ex[b], 'example': d})
    conformance = []
    for i, c in enumerate(cases):
        v = verdicts[i]
        if v == 'N' or (v == 'W'):
            d = next((d for d in details if d['index'] == i), None) or next((d for d in details if d['signature'].startswith(
                '%s|%s|%s|%s|' % (v, c['proto'], c['via'], c['cls']))), {})
            if v == 'N' and c['cls'] in ('wf', 'fault'):
                add('unexplained|%s|%s|%s|%s' % (c['proto'], c['via'], c['cls'], d.get('demanded_kind', '?')),
                    '%s/%s: %s (also not the as-coded model: %s) body shape %s' % (c['proto'], c['via'], d.get('demanded_msg', ''), d.get('coded_msg', ''),
                                                                               json.dumps(c['body'])), {'case': c, 'detail': d})
            else:
                conformance.append({'case': i, 'verdict': v, 'proto': c['proto'], 'via': c['via'], 'cls': c['cls'], 'coded': d.get('coded_msg', '')})
    for b in out.get('big') or []:
        if b['Kind']:
            add('big|%s|%s|%s|%s' % (b['Proto'], b['Via'], 'faulty' if b['Fault'] else 'wellformed', b['Kind']),
                'large %s body (%d documents, %d bytes) via %s: %s' % (b['Proto'], b['Docs'], b['Bytes'], b['Via'], b['Msg']), b)
    # (a body about which the definition says nothing, or on which it is met, may be treated differently from the as-coded
    # model without violating anything: such cases are counted, never a verdict)

    # vacuity
    need = ['bulk/%s/%s' % (v, k) for v in ('parser', 'route') for k in ('wf', 'fault', 'orphan', 'missing', 'dangling')]
    need += ['%s/%s/%s' % (p, v, k) for p in ('cf', 'ddm') for v in ('parser', 'route') for k in ('wf', 'fault')] + ['doc/parser/wf', 'doc/route/wf']
    missing = [k for k in need if not out['classes'].get(k)]
    if missing and not viols:
        raise vlib.Infra('vacuous: no case of class ' + ', '.join(missing))
    big = out.get('big') or []
    crossed = [b for b in big if b['Via'] == 'parser' and not b['Fault'] and b['Chunks'] >= 2]
    kept = [b for b in big if b['Fault'] and b['Stored'] > 0]
    if (len({b['Proto'] for b in crossed}) < 4 or not kept) and not viols:      # (a defect may itself be why nothing crossed)
        raise vlib.Infra('vacuous: the large bodies did not cross the flush threshold for every protocol (%s) or no rejected request kept a prefix'
                         % sorted({b['Proto'] for b in crossed}))

    mid = cases[len(cases) // 2]
    cov = {'states': dem['states'] + mc['states'] + rstates, 'transitions': dem['transitions'] + mc['transitions'],
           'traces_validated_against_impl': out['runs'],
           'samples': [mid, {'large_bodies': big[:4]}],
           'exhaustive': True, 'distinct_nontrivial': out['distinct_shapes'],
           'demanded_model': dem, 'as_coded_model': mc, 'as_coded_refuted_on_spec': refuted,
           'rounds': rounds, 'deviations_exhibited': sorted(b for b in BLAME if BLAME[b] in on and ex[b]['C'] > 0),
           'classes': out['classes'], 'signature_counts': out['signature_counts'],
           'large_bodies': {'run': len(big), 'crossed_flush_threshold': len(crossed), 'rejected_with_stored_prefix': len(kept)},
           'conformance_only_mismatches': len(conformance), 'conformance_only_examples': conformance[:10]}
    return {'level': 'model_checking', 'coverage': cov, 'violations': viols,
            'assumptions': ['small enumerated bodies stay below the 1 MiB flush threshold (S = 99 in the export model); chunking is covered by the '
                            'S = 1, 2 models and by the seeded large bodies',
                            'a label with an empty value is the same as no label (the doc route always adds _id, empty when the route has none)',
                            'Datadog tags are compared as series identity only (which label names they should become is not demanded)',
                            'arrival timestamps are checked against the interval [request sent, response received] on the driver\'s clock',
                            'structurally malformed bulk bodies (document without action, action without document) carry no demand beyond: '
                            'stored rows are submitted lines, none twice']}

"""X01 (extra check): the live tail of logs - reader/controller Tail (websocket handler) + reader/service Tail (ticker goroutine).

spec/query/Tail.tla specifies delivery (every line at or above the cursor is delivered exactly once; exactly the lines stored
below the cursor are lost - the named limit of the design), frames (one well-formed JSON document each) and life cycle (every
goroutine of the request ends once the client is gone; after a database error the handler ends the connection) with one action
per step of the code, and names the places where the code as written departs from it (switches Dev).
  1. MC_Tail: exhaustive TLC runs - Dev = {} satisfies every invariant and liveness property; with the as-coded switches the
     cursor / life-cycle properties still hold, and each switch breaks the property it is named for (not vacuous).
  2. MC_TailSched: TLC simulation generates schedules (lines stored between ticks with old / equal / new / future timestamps,
     one database fault, how and when the client leaves, request kinds); BFS counterexamples give the shortest schedule for
     each switch.
  3. harness/cmd/x01 replays every schedule against the REAL reader router (httptest.Server + real websocket client + real
     writer -> store -> chsql) in a child process and records a totally ordered event trace and a goroutine census.
  4. Trace_Tail: every recorded run must be a behaviour of Tail.tla with no as-coded branch taken. TLC explains the runs with
     Mixed = TRUE (both branches allowed at every switch, ghost `used`): a run that needs as-coded branches is a violation named
     after the smallest set of them; a run nothing explains is a conformance violation.
"""
import concurrent.futures as cf
import json
import os
import random
import re
import shutil
import time

import tlaparse
import vlib

PID = 'X01'
SPECDIR = os.path.join(vlib.SPEC, 'query')
ALLDEV = ['spin_on_closed', 'err_frame', 'row_err_unnoticed', 'cursor_stuck', 'silent_refusal']
FAULTS = ['version', 'query', 'row', 'scan']

DEV_TEXT = {
    'spin_on_closed': 'after a database error the service goroutine closes the result channel; the handler\'s `case str := <-watcher.GetRes()` '
                      '(queryRangeController.go Tail) has no `ok` check, receives zero values for ever and writes each as an empty websocket '
                      'message (hundreds of thousands per second, one core busy) instead of ending the connection',
    'err_frame': 'an error entry makes the service goroutine send "]}}" (onErr, queryRangeService.go) which the handler writes as a frame: '
                 'not a JSON document',
    'row_err_unnoticed': 'a database error while the rows of a tick are read is not noticed (ClickhouseGetterPlanner.Scan never checks rows.Err()): '
                         'the frame is partial, the tail goes on and `from` is moved past lines that were never delivered',
    'cursor_stuck': 'the frame loop advances the cursor with `if from.UnixNano() < e.TimestampNS { from = ts + 1 }` (queryRangeService.go Tail): a line whose '
                    'timestamp EQUALS the cursor (exactly 1 ns after the newest line delivered so far) is delivered but does not move the cursor, so the '
                    'same line is delivered again on every tick until a newer line arrives',
    'silent_refusal': 'an empty or unparsable `query` is answered with status 200 and an empty body (the handler only logs and returns)',
}

INV_ANY = ('TypeOK OldNeverDelivered OnlyStoredLines '
           'ServiceStopsAfterHandler DrainerOnlyAfterHandler ClosedOnlyByService RefusedStartsNothing')
INV_SPEC = INV_ANY + ' NoDuplicate DueDelivered FutureNotSkipped NoBadFrame RefusalIsAnError NothingAsCoded'
LIVE = 'NoFrameAfterReturn Termination SenderNeverStuck ClosedEndsHandler EventuallyDelivered'
LIVE_ASCODED = 'NoFrameAfterReturn Termination SenderNeverStuck'

CFG_MC = '''SPECIFICATION Spec
CONSTANTS
  Lines = {%(lines)s}
  MaxT = %(maxt)d
  Dev = {%(dev)s}
  Mixed = FALSE
  Faults = {"version", "query", "row", "scan"}
  MaxStale = 1
  MaxWire = %(wire)d
  ReqKinds = {%(kinds)s}
%(inv)s
%(props)s
CHECK_DEADLOCK FALSE
'''

CFG_SCHED = '''SPECIFICATION SSpec
CONSTANTS
  Lines = {%(lines)s}
  MaxT = %(maxt)d
  Dev = {%(dev)s}
  Mixed = FALSE
  Faults = {%(faults)s}
  MaxStale = 1
  MaxWire = 2
  ReqKinds = {%(kinds)s}
  MaxTicks = %(ticks)d
  LeaveAfter = %(leave)d
  MinTs = %(mints)d
  NoFuture = %(nofuture)s
  StoresPerTick = %(spt)d
%(inv)s
CHECK_DEADLOCK FALSE
'''

CFG_TRACE = '''SPECIFICATION TraceSpec
CONSTANTS
  Lines = {%(lines)s}
  MaxT = %(maxt)d
  Dev = {%(dev)s}
  Mixed = TRUE
  Faults = {"version", "query", "row", "scan"}
  MaxStale = 3
  MaxWire = 6
INVARIANTS %(inv)s
CONSTRAINT HighWaterPrint
CHECK_DEADLOCK FALSE
'''


def q(xs):
    return ', '.join('"%s"' % x for x in xs)


def ints(n):
    return ', '.join(str(i) for i in range(1, n + 1))


# ---------------------------------------------------------------------------------------------------------------- model checking

def mc_run(name, module, cfg_text, expect_violation=None, timeout=900, workers=None):
    """Run TLC on a generated cfg. Returns stats; raises Infra if the outcome is not the expected one."""
    sd = vlib.scratch('x01cfg')
    try:
        cfgp = os.path.join(sd, name + '.cfg')
        open(cfgp, 'w').write(cfg_text)
        res = vlib.tlc(SPECDIR, module, name + '.cfg', timeout=timeout, copy_extra=[cfgp], workers=workers)
        try:
            out = res['out']
            st = {'name': name, 'distinct': res.get('distinct', 0), 'generated': res.get('generated', 0), 'wall_s': round(res['wall'], 1),
                  'violated': res['violated']}
            if expect_violation is None:
                if res['violated'] or 'Model checking completed. No error has been found' not in out:
                    raise vlib.Infra('TLC %s: the specification itself violates %s (or did not finish):\n%s' % (name, res['violated'], out[-2500:]))
            else:
                if expect_violation not in res['violated'] and not (expect_violation == '*' and res['violated']):
                    raise vlib.Infra('TLC %s: expected a counterexample of %s (the switch would be vacuous), got %s:\n%s'
                                     % (name, expect_violation, res['violated'], out[-1500:]))
                st['sched'] = last_sched(out)
            return st
        finally:
            vlib.tlc_cleanup(res)
    finally:
        shutil.rmtree(sd, ignore_errors=True)


_SCHED = re.compile(r'/\\ sched = (<<.*?>>)\n(?:/\\|\n|$)', re.S)


def last_sched(text):
    i = text.rfind('/\\ sched = ')
    if i < 0:
        return None
    m = _SCHED.match(text, i)
    if not m:
        return None
    return tlaparse.flat(tlaparse.parse_value(m.group(1)))


def model_check(tier, pool):
    """Submit the TLC runs; returns list of futures."""
    big = tier == 'thorough'
    allk = q(['ok', 'empty', 'noparse', 'noupgrade'])
    jobs = []
    # 1. the intended design: every invariant (exhaustive)
    jobs.append(pool.submit(mc_run, 'mc_spec_safety', 'MC_Tail.tla', CFG_MC % {
        'lines': ints(3 if big else 2), 'maxt': 4 if big else 3, 'dev': '', 'wire': 2, 'kinds': allk,
        'inv': 'INVARIANTS ' + INV_SPEC, 'props': ''}, None, 3000 if big else 600, 6 if big else 4))
    # 2. the intended design: liveness under fairness
    jobs.append(pool.submit(mc_run, 'mc_spec_liveness', 'MC_Tail.tla', CFG_MC % {
        'lines': ints(2 if big else 1), 'maxt': 3, 'dev': '', 'wire': 1, 'kinds': q(['ok', 'noupgrade'] + (['empty'] if big else [])),
        'inv': '', 'props': 'PROPERTIES ' + LIVE}, None, 3000 if big else 600, 6 if big else 4))
    # 3. the code as written: cursor and life-cycle properties still hold
    jobs.append(pool.submit(mc_run, 'mc_ascoded_safety', 'MC_Tail.tla', CFG_MC % {
        'lines': ints(2), 'maxt': 4 if big else 3, 'dev': q(ALLDEV), 'wire': 2, 'kinds': allk,
        'inv': 'INVARIANTS ' + INV_ANY, 'props': ''}, None, 3000 if big else 600, 6 if big else 4))
    if big:
        jobs.append(pool.submit(mc_run, 'mc_ascoded_liveness', 'MC_Tail.tla', CFG_MC % {
            'lines': ints(1), 'maxt': 3, 'dev': q(ALLDEV), 'wire': 1, 'kinds': q(['ok', 'noupgrade']),
            'inv': '', 'props': 'PROPERTIES ' + LIVE_ASCODED}, None, 3000, 6))
    # 4. every switch breaks the property it is named for; the BFS counterexample is the shortest schedule that shows it
    for dev, inv, faults, kinds in (('spin_on_closed', 'NoBadFrame', ['query'], ['ok']), ('spin_on_closed', 'NoBadFrame', ['version'], ['ok']),
                                    ('err_frame', 'NoBadFrame', ['scan'], ['ok']), ('row_err_unnoticed', 'DueDelivered', ['row'], ['ok']),
                                    ('cursor_stuck', 'NoDuplicate', [], ['ok']), ('silent_refusal', 'RefusalIsAnError', [], ['empty'])):
        jobs.append(pool.submit(mc_run, 'cex_%s_%s' % (dev, (faults or ['none'])[0]), 'MC_TailSched.tla', CFG_SCHED % {
            'lines': ints(2), 'maxt': 4, 'dev': q([dev]), 'faults': q(faults), 'kinds': q(kinds), 'ticks': 3, 'leave': 99, 'spt': 2,
            'mints': 2 if dev == 'cursor_stuck' else 0,
            'nofuture': 'TRUE' if dev == 'cursor_stuck' else 'FALSE', 'inv': 'INVARIANTS ' + inv}, inv, 600, 2))
    jobs.append(pool.submit(mc_run, 'cex_spin_liveness', 'MC_Tail.tla', CFG_MC % {
        'lines': ints(1), 'maxt': 2, 'dev': q(['spin_on_closed']), 'wire': 1, 'kinds': q(['ok']),
        'inv': '', 'props': 'PROPERTIES ClosedEndsHandler'}, '*', 600, 2))
    return jobs


# ---------------------------------------------------------------------------------------------------------------- schedules

def simulate(kinds, n, depth, seed, ticks, leave, lines=4, maxt=6):
    sd = vlib.scratch('x01cfg')
    try:
        cfgp = os.path.join(sd, 'sim.cfg')
        open(cfgp, 'w').write(CFG_SCHED % {'lines': ints(lines), 'maxt': maxt, 'dev': q(ALLDEV), 'faults': q(FAULTS), 'kinds': q(kinds),
                                           'ticks': ticks, 'leave': leave, 'spt': 1, 'mints': 0, 'nofuture': 'FALSE', 'inv': ''})
        res = vlib.tlc(SPECDIR, 'MC_TailSched.tla', 'sim.cfg', timeout=600, copy_extra=[cfgp], workers=2,
                       simulate={'num': n, 'file': True}, depth=depth, seed=seed)
        try:
            scheds = []
            bd = os.path.join(res['scratch'], 'beh')
            for f in sorted(os.listdir(bd)):
                s = last_sched(open(os.path.join(bd, f)).read() + '\n')
                if s:
                    scheds.append(s)
            if len(scheds) < n // 4:
                raise vlib.Infra('TLC simulation wrote only %d usable behaviours:\n%s' % (len(scheds), res['out'][-1500:]))
            return scheds, res.get('generated', 0)
        finally:
            vlib.tlc_cleanup(res)
    finally:
        shutil.rmtree(sd, ignore_errors=True)


def project(sched, sid, rnd, origin):
    """TLC schedule (what the world did, relative to the data queries "q") -> scenario for the driver."""
    req = None
    pre, steps = [], []
    nq = awaited = ticks = 0
    fault, fault_at, cut = 'none', 0, 0
    left = None
    feats = {'late_store': 0, 'stores': 0}
    # the abstract cursor as the code moves it: a line stored exactly AT the cursor after a delivery gets the concrete
    # timestamp "newest delivered + 1 ns" (adj = 1), the concrete value of the cursor
    anow, afrom, astore, adeliv, tracking = 2, 1, [], False, True

    def sync():
        nonlocal awaited, ticks
        if nq > awaited:
            steps.append({'op': 'await', 'n': nq})
            awaited = nq
            if fault != 'none' and fault_at == nq and rnd.random() < 0.7:
                # the specification says the server ends the connection after a database error: give it the time to do so
                steps.append({'op': 'wait_eof', 'ms': 1500})
        if ticks > 0:
            # the model's step happens after the tick fired and before the service goroutine used it: in real time, shortly before that tick
            steps.append({'op': 'sleep', 'ms': max(50, min(ticks, 2) * 1000 - 350 + rnd.randint(-150, 150))})
            ticks = 0

    for e in sched:
        op = e['op']
        if req is None:
            if op == 'req':
                req = e['k']
            elif op == 'store':
                pre.append({'id': e['a'], 'ts': e['b'], 'stream': 1 + e['a'] % 2})
                astore.append(e['b'])
                feats['stores'] += 1
            elif op == 'tick':
                anow += 1
                afrom = anow - 1
            continue
        if op == 'store':
            sync()
            ln = {'id': e['a'], 'ts': e['b'], 'stream': 1 + e['a'] % 2}
            if tracking and adeliv and e['b'] == afrom:
                ln['adj'] = 1
                feats['at_cursor'] = feats.get('at_cursor', 0) + 1
            astore.append(e['b'])
            steps.append({'op': 'store', 'lines': [ln]})
            feats['stores'] += 1
            if nq > 0:
                feats['late_store'] += 1
        elif op == 'tick':
            ticks += 1
            anow += 1
        elif op == 'q':
            nq += 1
            ticks = 0
            if e['k'] != 'none':
                fault, fault_at, cut = e['k'], nq, e['a']
                tracking = False
            else:
                rows = [t for t in astore if afrom <= t < anow]
                if rows:
                    adeliv = True
                    if max(rows) > afrom:
                        afrom = max(rows) + 1
        elif op == 'fault':
            fault, fault_at = 'version', 0
            if rnd.random() < 0.7:
                steps.append({'op': 'sleep', 'ms': 1100})
                steps.append({'op': 'wait_eof', 'ms': 1500})
        elif op in ('close', 'drop') and left is None:
            sync()
            if op == 'drop' and rnd.random() < 0.4:
                op = 'reset'
            else:
                if rnd.random() < 0.5:
                    steps.append({'op': 'sleep', 'ms': rnd.randint(1, 700)})
            steps.append({'op': op})
            left = op
    if req is None:
        return None
    if left is None:
        sync()
    # merge adjacent stores (one push with several lines, possibly with equal timestamps)
    merged = []
    for s in steps:
        if s['op'] == 'store' and merged and merged[-1]['op'] == 'store' and rnd.random() < 0.5:
            merged[-1]['lines'] += s['lines']
        else:
            merged.append(s)
    # boundary probes: a late line 1 or 2 ns above the newest delivered timestamp
    seen_await = False
    for s in merged:
        if s['op'] == 'await':
            seen_await = True
        if s['op'] == 'store' and seen_await:
            for ln in s['lines']:
                r = rnd.random()
                if ln.get('adj'):
                    pass
                elif r < 0.08:
                    ln['adj'] = 1
                elif r < 0.14:
                    ln['adj'] = 2
    sc = {'id': str(sid), 'req': req, 'query': '', 'fault': fault, 'fault_at': fault_at, 'cut': cut, 'pre': pre, 'steps': merged,
          'grace_ms': 8000 if req == 'ok' else 3000,
          'meta': {'origin': origin, 'queries': nq, 'leave': left or 'close-at-end', 'late_store': feats['late_store'], 'stores': feats['stores'],
                   'at_cursor': feats.get('at_cursor', 0)}}
    return sc


def stratify(cands, n, rnd):
    """Pick n scenarios: 60 % without a database fault, the rest with one; round-robin over feature classes, richer classes first."""
    def pick(cs, m):
        groups = {}
        for c in cs:
            meta = c['meta']
            key = (c['fault'], meta['leave'], min(meta['queries'], 4), min(meta['late_store'], 2), meta.get('at_cursor', 0) > 0)
            groups.setdefault(key, []).append(c)
        keys = sorted(groups, key=str)
        rnd.shuffle(keys)
        keys.sort(key=lambda k: -(k[2] + 2 * k[3] + (4 if k[4] else 0)))
        rich = [k for k in keys if k[2] >= 2]
        poor = [k for k in keys if k[2] < 2]
        out = []

        def take(ks, upto):
            ks = ks[:max(1, upto - len(out))]       # one per class, the richest classes first
            while len(out) < upto and any(groups[k] for k in ks):
                for k in ks:
                    if groups[k] and len(out) < upto:
                        out.append(groups[k].pop(rnd.randrange(len(groups[k]))))
        take(rich, m - m // 6)
        take(poor, m)                               # a few runs in which the client leaves before / right after the first tick
        take(rich, m)
        return out, len(keys)
    a, ka = pick([c for c in cands if c['fault'] == 'none'], n - n * 2 // 5)
    b, kb = pick([c for c in cands if c['fault'] != 'none'], n * 2 // 5)
    return a + b, ka + kb


# ---------------------------------------------------------------------------------------------------------------- traces

def to_trace(events):
    """Driver events -> trace lines for Trace_Tail.tla (timestamps replaced by order-preserving ranks). Returns (lines, nLines, maxT)."""
    vals = set()
    for e in events:
        if e['ev'] == 'Start':
            vals.update((e['lo'], e['hi']))
        elif e['ev'] == 'Store':
            vals.update((e['ts'], e['ts'] + 1))
        elif e['ev'] == 'Query':
            vals.update((e['from'], e['to'], e['now']))
    rank = {v: i + 1 for i, v in enumerate(sorted(vals))}
    ids = set()
    out = []
    for e in events:
        ev = e['ev']
        if ev == 'Start':
            out.append({'ev': ev, 'req': e['req'], 'lo': rank[e['lo']], 'hi': rank[e['hi']]})
        elif ev == 'Refused':
            out.append({'ev': ev, 'code': e.get('code', 0)})
        elif ev == 'Store':
            ids.add(e['id'])
            out.append({'ev': ev, 'id': e['id'], 'ts': rank[e['ts']]})
        elif ev == 'Version':
            out.append({'ev': ev, 'fault': e.get('fault', 'none')})
        elif ev == 'Query':
            ids.update(e.get('ids') or [])
            out.append({'ev': ev, 'from': rank[e['from']], 'to': rank[e['to']], 'dbnow': rank[e['now']], 'ids': e.get('ids') or [],
                        'fault': e.get('fault', 'none'), 'cut': e.get('cut', 0)})
        elif ev == 'Frame':
            ids.update(e.get('ids') or [])
            out.append({'ev': ev, 'kind': e.get('kind', '?'), 'ids': e.get('ids') or []})
        elif ev == 'Census':
            out.append({'ev': ev, 'alive': e.get('alive') or []})
        elif ev == 'Flood':
            out.append({'ev': ev, 'n': e.get('n', 0)})
        else:  # ClientClose ClientDrop ConnEOF HandlerDone NoEOF AwaitTimeout HandlerPanic Upgraded
            out.append({'ev': ev})
    return out, (max(ids) if ids else 1), len(rank) + 2


def explain_chunk(chunk, sd, name):
    """chunk: list of (n, trace, nlines, maxt). One TLC run (Mixed = TRUE) explains as many runs as it can; a run nothing explains
    ends the TLC run, the rest is submitted again. Returns ({n: verdict}, tlc states, tlc runs)."""
    verdicts, states, nruns = {}, 0, 0
    rest = list(chunk)
    while rest:
        d = os.path.join(sd, '%s_%d' % (name, nruns))
        os.makedirs(d, exist_ok=True)
        tp = os.path.join(d, 'trace.ndjson')
        lines, owner, fb = [], [], 0
        for (n, tr, nl, mt) in rest:
            nf = sum(1 for e in tr if e['ev'] == 'Frame')
            flood = any(e['ev'] == 'Flood' for e in tr)
            for e in [{'ev': 'Reset', 'n': n, 'fb': fb, 'nf': nf, 'flood': flood}] + tr + [{'ev': 'End'}]:
                lines.append(e)
                owner.append(n)
            fb += nf
        with open(tp, 'w') as f:
            for e in lines:
                f.write(json.dumps(e) + '\n')
        cfgp = os.path.join(d, 'Trace_Tail.cfg')
        open(cfgp, 'w').write(CFG_TRACE % {'lines': ints(max(x[2] for x in rest)), 'maxt': max(x[3] for x in rest), 'dev': q(ALLDEV), 'inv': INV_ANY})
        res = vlib.tlc(SPECDIR, 'Trace_Tail.tla', 'Trace_Tail.cfg', workers=1, timeout=900, copy_extra=[cfgp, tp])
        nruns += 1
        try:
            out = res['out']
            states += res.get('distinct', 0)
            got = {}
            for m in re.finditer(r'<<"SCN", (\d+), \{([^}]*)\}>>', out):
                got.setdefault(int(m.group(1)), []).append(sorted(x.strip().strip('"') for x in m.group(2).split(',') if x.strip()))
            hw = [int(x) for x in re.findall(r'<<"HW", (\d+)>>', out)]
            hwl = max(hw) if hw else 1
            inv = re.search(r'Invariant ([A-Za-z0-9_]+) is violated', out)
            if not inv and 'Model checking completed. No error has been found' not in out:
                raise vlib.Infra('unexpected TLC output in trace validation:\n' + out[-3000:])
            done = 0
            for (n, tr, nl, mt) in rest:
                if n in got:
                    best = min(got[n], key=lambda s: (len(s), s))
                    verdicts[n] = {'ok': not best, 'dev': best, 'detail': {}}
                    done += 1
                else:
                    break
            if done == len(rest):
                break
            n = rest[done][0]
            if inv:
                verdicts[n] = {'ok': False, 'dev': None, 'detail': {'kind': 'invariant', 'invariant': inv.group(1)}}
            else:
                ln = min(hwl, len(lines))
                # the line TLC could not get past belongs to the first unexplained run, or the output is inconsistent
                if owner[ln - 1] != n:
                    raise vlib.Infra('trace validation: high-water line %d belongs to run %s, first unexplained run is %s' % (ln, owner[ln - 1], n))
                verdicts[n] = {'ok': False, 'dev': None, 'detail': {'kind': 'rejected', 'line': ln, 'event': json.dumps(lines[ln - 1])}}
            rest = rest[done + 1:]
        finally:
            vlib.tlc_cleanup(res)
    return verdicts, states, nruns


def line_classes(events):
    """Position of every stored line at the first query after it became visible (the spec's cls), and whether it was framed."""
    framed = set()
    for e in events:
        if e['ev'] == 'Frame' and e.get('kind') == 'ok':
            framed.update(e.get('ids') or [])
    res = {'old': 0, 'due': 0, 'future': 0, 'old_framed': 0, 'due_framed': 0, 'future_framed': 0, 'never_queried': 0, 'faulted': 0}
    for i, e in enumerate(events):
        if e['ev'] != 'Store':
            continue
        qn = next((x for x in events[i + 1:] if x['ev'] == 'Query'), None)
        if qn is None:
            res['never_queried'] += 1
            continue
        if qn.get('fault', 'none') != 'none':
            res['faulted'] += 1
            continue
        c = 'old' if e['ts'] < qn['from'] else ('due' if e['ts'] < qn['to'] else 'future')
        res[c] += 1
        if e['id'] in framed:
            res[c + '_framed'] += 1
    return res


# ---------------------------------------------------------------------------------------------------------------- run

def run(tier):
    t0 = time.time()
    seed = vlib.seed()
    rnd = random.Random(seed * 7919 + 11)
    binp = vlib.go_build('cmd/x01', 'x01')
    nscen = 36 if tier == 'quick' else 260
    par = 44 if tier == 'quick' else 48
    sd = vlib.scratch('x01')
    pool = cf.ThreadPoolExecutor(max_workers=24)
    try:
        marks = {}
        mcjobs = model_check(tier, pool)
        # ---- schedules from TLC
        sims = []
        for kinds, n, ticks, depth, leave in ((['ok'], 300 if tier == 'quick' else 3000, 4, 80, 3), (['ok'], 250 if tier == 'quick' else 2000, 4, 80, 2),
                                              (['ok'], 150 if tier == 'quick' else 1500, 3, 50, 0),
                                              (['empty', 'noparse', 'noupgrade'], 30, 2, 12, 0)):
            sims.append(pool.submit(simulate, kinds, n, depth, seed * 31 + ticks + len(kinds) + 7 * leave, ticks, leave))
        cands, sim_states, sid = [], 0, 0
        for f in sims:
            scheds, gen = f.result()
            sim_states += gen
            for s in scheds:
                sid += 1
                sc = project(s, sid, rnd, 'simulate')
                if sc:
                    cands.append(sc)
        refused = [c for c in cands if c['req'] != 'ok']
        okc = [c for c in cands if c['req'] == 'ok']
        chosen, nclasses = stratify(okc, nscen, rnd)
        seenk = set()
        for c in refused:  # one of each refused kind (quick), a few more (thorough)
            k = (c['req'], len(c['pre']) > 0)
            if k not in seenk or (tier == 'thorough' and rnd.random() < 0.3):
                seenk.add(k)
                chosen.append(c)
        env = dict(os.environ)
        env['TZ'] = 'UTC'

        def drive(scs, tagname):
            cp, op = os.path.join(sd, tagname + '_cases.json'), os.path.join(sd, tagname + '_out.json')
            json.dump(scs, open(cp, 'w'))
            r = vlib.run_cmd([binp, 'run', '-cases', cp, '-out', op, '-par', str(par), '-seed', str(seed)], timeout=3000, env=env)
            if r.returncode != 0 or not os.path.exists(op):
                raise vlib.Infra('x01 driver failed: ' + (r.stdout + r.stderr)[-3000:])
            return json.load(open(op))['runs']

        def prepare(runs):
            infra, work = [], []
            for ru in runs:
                sc, res = ru['scenario'], ru['result']
                if res is None:
                    infra.append(ru.get('crash', '?')[:1500])
                    continue
                if res.get('infra') or res.get('unsup') or res.get('store_err'):
                    infra.append('scenario %s: %s' % (sc['id'], json.dumps([res.get('infra'), res.get('unsup'), res.get('store_err')])[:1500]))
                    continue
                tr, nl, mt = to_trace(res['events'])
                work.append((sc, res, tr, nl, mt))
            if infra:
                raise vlib.Infra('%d scenario(s) could not be run: %s' % (len(infra), ' || '.join(infra[:3])))
            return work

        def submit(work, tagname, nchunks):
            futs = []
            for i in range(nchunks):
                part = work[i::nchunks]
                if part:
                    futs.append(pool.submit(explain_chunk, [(int(w[0]['id']), w[2], w[3], w[4]) for w in part], sd, '%s%d' % (tagname, i)))
            return futs

        for i, c in enumerate(chosen):
            c['id'] = str(i + 1)
        marks['schedules_s'] = round(time.time() - t0, 1)
        work = prepare(drive(chosen, 'sim'))        # the real runs go on while TLC checks the models
        marks['replayed_s'] = round(time.time() - t0, 1)
        vf = submit(work, 'v', 6 if tier == 'quick' else 12)
        # ---- the model checking results: the counterexample schedules are replayed too
        mc = [j.result() for j in mcjobs]
        marks['model_checked_s'] = round(time.time() - t0, 1)
        cexs = []
        for st in mc:
            if st.get('sched'):
                sc = project(st['sched'], 0, random.Random(1), 'counterexample:' + st['name'])
                if sc is None:
                    raise vlib.Infra('cannot project the counterexample of ' + st['name'])
                if sc['req'] == 'ok':
                    # the client stays so that the deviation can be observed; then it closes
                    sc['steps'] = [s for s in sc['steps'] if s['op'] not in ('close', 'drop', 'reset', 'wait_eof')]
                    if sc['fault'] == 'version':
                        sc['steps'] += [{'op': 'sleep', 'ms': 1100}, {'op': 'wait_eof', 'ms': 1500}]
                    elif sc['fault'] != 'none':
                        sc['steps'] += [{'op': 'await', 'n': sc['fault_at']}, {'op': 'wait_eof', 'ms': 1500}]
                    else:
                        sc['steps'] += [{'op': 'await', 'n': sc['meta']['queries']}, {'op': 'sleep', 'ms': 200}]
                    sc['steps'].append({'op': 'close'})
                sc['id'] = str(len(chosen) + len(cexs) + 1)
                cexs.append(sc)
        work2 = prepare(drive(cexs, 'cex')) if cexs else []
        marks['counterexamples_replayed_s'] = round(time.time() - t0, 1)
        vf += submit(work2, 'c', 3)
        verdicts, tstates, truns = {}, 0, 0
        for f in vf:
            v, s_, r_ = f.result()
            verdicts.update(v)
            tstates += s_
            truns += r_
        marks['validated_s'] = round(time.time() - t0, 1)
        work += work2
        viols, seen = [], {}
        stats = {'accepted': 0, 'explained_by_deviation': 0, 'unexplained': 0, 'tlc_trace_states': tstates, 'tlc_trace_runs': truns, 'events': 0, 'frames': 0,
                 'by_request': {}, 'by_fault': {}, 'by_leave': {}, 'census_ms_max': 0, 'line_classes': {}, 'refused_status': {}, 'at_cursor_probes': 0,
                 'counterexamples_reproduced': [], 'counterexamples_not_reproduced': [], 'event_kinds': {}}
        sample = None
        for (sc, res, tr, nl, mt) in work:
            v = verdicts.get(int(sc['id']))
            if v is None:
                raise vlib.Infra('no verdict for scenario ' + sc['id'])
            stats['events'] += len(tr)
            stats['frames'] += res.get('frames', 0)
            stats['by_request'][sc['req']] = stats['by_request'].get(sc['req'], 0) + 1
            stats['by_fault'][sc['fault']] = stats['by_fault'].get(sc['fault'], 0) + 1
            lv = sc['meta']['leave']
            stats['by_leave'][lv] = stats['by_leave'].get(lv, 0) + 1
            stats['census_ms_max'] = max(stats['census_ms_max'], res.get('census_ms', -1))
            stats['at_cursor_probes'] += sc['meta'].get('at_cursor', 0)
            for k_, n_ in line_classes(res['events']).items():
                stats['line_classes'][k_] = stats['line_classes'].get(k_, 0) + n_
            for e in res['events']:
                stats['event_kinds'][e['ev']] = stats['event_kinds'].get(e['ev'], 0) + 1
                if e['ev'] == 'Refused':
                    k_ = '%s:%s' % (sc['req'], e.get('code'))
                    stats['refused_status'][k_] = stats['refused_status'].get(k_, 0) + 1
            cex = sc['meta']['origin'].startswith('counterexample:')
            if v['ok']:
                stats['accepted'] += 1
                if cex:
                    stats['counterexamples_not_reproduced'].append(sc['meta']['origin'])
                if sample is None and sc['req'] == 'ok' and sc['meta']['late_store'] > 0:
                    sample = {'scenario': sc, 'trace': tr}
                continue
            if v['dev']:
                stats['explained_by_deviation'] += 1
                if cex:
                    stats['counterexamples_reproduced'].append(sc['meta']['origin'])
                for dname in v['dev']:       # one finding per switch: the set of signatures does not depend on which switches meet in one run
                    sig = 'as-coded|' + dname
                    msg = ('the recorded run of the real tail is not a behaviour of Tail.tla; it is one only if the as-coded branch(es) %s are taken. %s: %s. '
                           'Scenario: request %s, database fault %s at data query %d (cut %d), client %s'
                           % (v['dev'], dname, DEV_TEXT[dname], sc['req'], sc['fault'], sc['fault_at'], sc['cut'], lv))
                    if sig not in seen:
                        seen[sig] = vlib.save_replay(PID, re.sub(r'[^A-Za-z0-9_+-]+', '_', sig) + '_seed%d' % seed,
                                                     {'kind': 'recorded run + schedule (replay: x01 child < scenario)', 'scenario': sc, 'verdict': v,
                                                      'events': res['events'][:400], 'trace': tr[:400], 'census_stacks': res.get('census_stacks'),
                                                      'sql': res.get('sqls')})
                    viols.append({'property': PID, 'signature': sig, 'msg': msg, 'replay': seen[sig]})
                continue
            else:
                stats['unexplained'] += 1
                d = v['detail']
                if d.get('kind') == 'invariant':
                    sig = 'trace|invariant|' + d.get('invariant', '?')
                else:
                    evn = re.search(r'"ev": ?"([A-Za-z]+)"', d.get('event', ''))
                    evname = evn.group(1) if evn else '?'
                    sig = 'trace|rejected|' + evname
                    if evname == 'Census':
                        al = re.search(r'"alive": ?\[([^\]]*)\]', d.get('event', ''))
                        sig = 'lifecycle|alive|' + re.sub(r'[" ]', '', al.group(1) if al else '?')
                    elif evname == 'Frame':
                        kd = re.search(r'"kind": ?"([a-z]+)"', d.get('event', ''))
                        sig += '|' + (kd.group(1) if kd else '?')
                msg = ('the recorded run of the real tail is not a behaviour of Tail.tla, with or without the as-coded branches: %s. '
                       'Scenario: request %s, database fault %s at data query %d, client %s'
                       % (json.dumps(d)[:500], sc['req'], sc['fault'], sc['fault_at'], lv))
            if sig not in seen:
                rp = vlib.save_replay(PID, re.sub(r'[^A-Za-z0-9_+-]+', '_', sig) + '_seed%d' % seed,
                                      {'kind': 'recorded run + schedule (replay: x01 child < scenario)', 'scenario': sc, 'verdict': v,
                                       'events': res['events'][:400], 'trace': tr[:400], 'census_stacks': res.get('census_stacks'),
                                       'sql': res.get('sqls')})
                seen[sig] = rp
            viols.append({'property': PID, 'signature': sig, 'msg': msg, 'replay': seen[sig]})
        nontrivial = sum(1 for (sc, res, tr, nl, mt) in work if sc['req'] == 'ok' and sc['meta']['queries'] >= 1)
        lc = stats['line_classes']
        missing = [k for k in ('Start', 'Store', 'Version', 'Query', 'Frame', 'ClientClose', 'ClientDrop', 'ConnEOF', 'HandlerDone', 'Refused', 'Census')
                   if not stats['event_kinds'].get(k)]
        if not viols and (nontrivial < 10 or lc.get('old', 0) < 1 or lc.get('due_framed', 0) < 3 or lc.get('future_framed', 0) < 1 or missing):
            raise vlib.Infra('vacuous run: %d scenarios with a data query, line classes %s, event kinds never recorded %s' % (nontrivial, lc, missing))
        cov = {
            'states': sum(s['distinct'] for s in mc) + tstates,
            'transitions': sum(s['generated'] for s in mc) + sim_states,
            'traces_validated_against_impl': len(work),
            'samples': [sample or {'scenario': work[0][0], 'trace': work[0][2]}],
            'model_checking': [{k: v for k, v in s.items() if k != 'sched'} for s in mc],
            'simulated_behaviours': len(cands), 'schedule_classes': nclasses, 'scenarios': len(work), 'distinct_nontrivial': nontrivial,
            'replay': stats,
            'design_limit': 'lines stored below the cursor (older than / equal to the newest delivered line, or older than the 5 min look-back) are '
                            'never delivered: %d such lines in this run, %d of them framed (must be 0); lines at or above the cursor: %d due '
                            '(%d framed), %d future (%d framed later)' % (
                                lc.get('old', 0), lc.get('old_framed', 0), lc.get('due', 0), lc.get('due_framed', 0),
                                lc.get('future', 0), lc.get('future_framed', 0)),
            'wall_s': round(time.time() - t0, 1), 'phases': marks,
            'checker_cmd': 'tlc MC_Tail.tla (Dev={} invariants+liveness; as-coded); tlc -simulate MC_TailSched.tla -> cmd/x01 run -> tlc Trace_Tail.tla (Mixed)',
        }
        return {'level': 'model_checking', 'coverage': cov, 'violations': viols,
                'assumptions': [
                    'the database is chsql behind one lock: a push is visible atomically (series row and sample rows together) and a tail statement sees a consistent store',
                    'a line is "visible" when its push was acknowledged; ClickHouse insert/merge visibility delays are outside the model',
                    'timing: the schedules are paced by the observed data queries of the real 1 s ticker, verdicts come from trace validation (order of events and '
                    'the bounds in the SQL text), never from wall-clock expectations; the only real-time bounds are the census deadline (8 s after the client left) '
                    'and the 1.5 s the server gets to end the connection after a database error',
                    'a dropped connection is noticed by the handler at a failing write; at most 3 writes succeed after the peer closed (TCP buffering); '
                    'a half-open connection that never fails a write is outside the model',
                    'a connected client keeps reading (no back-pressure deadlock between a client that stopped reading and the handler blocked in WriteMessage)',
                    'database faults: one per request (version statement, tail statement, mid-rows error, undecodable row); the dbVersion cache expires every 10 s',
                ]}
    finally:
        pool.shutdown(wait=False)
        shutil.rmtree(sd, ignore_errors=True)

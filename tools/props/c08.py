"""C08: the SQL generated for LogQL metric queries computes the defined aggregates.

LogQLSem.tla (EvalMetric) defines the answer of a metric query: matching entries of the window widened to whole range
buckets, Bucket(t) = intDiv(t, range) * range, range function (rate, count_over_time, bytes_rate, bytes_over_time,
sum|avg|min|max|first|last_over_time and rate over unwrap), vector aggregation sum|min|max|avg|count by/without,
comparison, topk/bottomk and the comparison written after it (applied to the OUTPUT of the k-selection), points at
start + i*step.  LogQLPlan.tla (PlanMetric) transcribes the SQL planners in the
order of getFunctionOrder, the metrics_15s shortcut, StepFixPlanner and the Go post-processors ZeroEater and
FixPeriodPlanner as functions on rows.  TLC enumerates the fragments of MC_LogQLMetric.tla (R range x step x alignment x
unit, U unwrap, A vector aggregations / comparisons / topk, H the 15 s shortcut at second resolution, T comparisons after
topk / bottomk in both directions on every planning path, B results longer than one slice of the ClickHouse getter
(LogQLPlan!GetterBatch rows: the post-processors work slice by slice in goroutines of their own)) plus a seeded sample of the product (S), reports every case where mechanism and definition differ and exports cases; cmd/c07 runs them
through the REAL /loki/api/v1/query_range with `step` and compares series label sets and (timestamp, value) pairs."""
import os
import shutil

import vlib
from props import c07 as base

PID = 'C08'

CFG = '''SPECIFICATION Spec
CONSTANTS
  Frags <- RunFrags
  Mods <- RunMods
  ModsDev <- RunModsDev
  DBMods <- RunDBMods
  MaxEntries = %(maxentries)d
  ExportSeed = %(seed)d
  SCases <- DataSCases
INVARIANTS DefinitionWellFormed MechanismWellFormed OnlyWidenedWindowContributes ComparisonAfterSelection MultiSlice Export
CHECK_DEADLOCK FALSE
'''

TIERS = {
    'quick': {'R': (8, 8, 3), 'U': (8, 8, 3), 'A': (5, 5, 3), 'H': (4, 4), 'T': (3, 3, 2), 'B': (1, 1, 3), 'S': (1, 1), 'maxentries': 2, 'nS': 400},
    'thorough': {'R': (10, 10, 2), 'U': (12, 12, 3), 'A': (1, 1), 'H': (1, 1), 'T': (1, 1), 'B': (1, 1, 1), 'S': (1, 1), 'maxentries': 3, 'nS': 5000},
}

FRAGS = ['R', 'U', 'A', 'H', 'T', 'B', 'S']
UNWRAP_FNS = ['sum_over_time', 'avg_over_time', 'min_over_time', 'max_over_time', 'first_over_time', 'last_over_time', 'rate_unwrap']
LRA_FNS = ['rate', 'count_over_time', 'bytes_rate', 'bytes_over_time']


def rand_metric_case(r):
    fmt = r.choice(['json', 'plain'])
    streams = []
    while len(streams) < r.randint(1, 3):
        s = {'a': r.choice(['v1', 'v2']), 'b': r.choice(['', 'v1', 'v2', 'n1', 'n3'])}
        if s not in streams:
            streams.append(s)
    ticks = sorted(r.sample(range(0, 10), r.randint(1, 5)))
    db = []
    for t in ticks:
        db.append({'s': r.choice(streams), 't': t, 'feats': set(f for f in ('f1', 'f2', 'f3') if r.random() < 0.4),
                   'ty': 'log' if r.random() < 0.9 else 'metric', 'fmt': fmt, 'len': r.choice([1, 2]),
                   'fld': {'x': r.choice(['', 'v1', 'v2']), 'ox': '', 'n': r.choice(['n1', 'n2', 'n3', 'n1', 'n3', 'w', ''])}})
    tgt = r.choice([e for e in db if e['ty'] == 'log'] or db)
    ms = base.rand_matchers(r, tgt)
    unwrap = r.random() < 0.45
    fn = r.choice(UNWRAP_FNS) if unwrap else r.choice(LRA_FNS)
    stages = []
    if unwrap:
        pre = base.rand_stages(r, fmt, tgt, r.randint(0, 1), allow_ex=False)
        pre = [s for s in pre if s['k'] in ('lf', 'lbl')]
        ex = {'k': 'jsonp', 'params': [{'lbl': 'n', 'path': 'n'}] + ([{'lbl': 'x', 'path': 'x'}] if r.random() < 0.5 else [])} \
            if fmt == 'json' else {'k': 'regexp', 'groups': r.choice([['n'], ['x', 'n']])}
        post = []
        if r.random() < 0.4:
            guess = {'a': tgt['s']['a'], 'b': tgt['s']['b'], 'x': tgt['fld']['x'], 'y': '', 'o_x': '', 'n': tgt['fld']['n']}
            post.append({'k': 'lbl', 'tree': base.rand_tree(r, 1, ['a', 'b', 'x'], ['b', 'n'], guess)})
        stages = pre + [ex] + post + [{'k': 'unwrap', 'lbl': 'n'}]
    else:
        stages = [s for s in base.rand_stages(r, fmt, tgt, r.randint(0, 3)) if s['k'] != 'json']
    rng = r.choice([1, 2, 2, 4])
    step = r.choice([1, 2, 4])
    unit = r.choice([1, 1, 15])
    mq = {'fn': fn, 'range': rng, 'step': step, 'unit': unit, 'ugrp': '', 'uglbls': set(), 'agg': '', 'grp': '', 'gpos': 'prefix',
          'glbls': set(), 'cmpl': {'op': '', 'k4': 0}, 'cmpa': {'op': '', 'k4': 0}, 'topfn': '', 'topk': 0, 'cmpt': {'op': '', 'k4': 0}}
    if unwrap:
        if r.random() < 0.7:
            mq['ugrp'], mq['uglbls'] = 'by', set(r.sample(['a', 'b', 'x'], r.randint(1, 2)))
        else:
            mq['ugrp'], mq['uglbls'] = 'without', {'n'} | set(r.sample(['a', 'b', 'x'], r.randint(0, 2)))
    if r.random() < 0.5:
        mq['agg'] = r.choice(['sum', 'min', 'max', 'avg', 'count'])
        if fn == 'avg_over_time' and mq['agg'] in ('sum', 'avg'):
            mq['agg'] = 'max'
        if r.random() < 0.8:
            mq['grp'] = r.choice(['by', 'without'])
            mq['gpos'] = r.choice(['prefix', 'suffix'])
            mq['glbls'] = set(r.sample(['a', 'b'], r.randint(1, 2)))
            if mq['grp'] == 'without' and unwrap:
                mq['glbls'] |= {'n'}
    if fn in ('rate', 'count_over_time') and r.random() < 0.35:
        c = {'op': r.choice(['>', '>=', '<', '<=']), 'k4': r.choice([1, 5, 9])}
        if mq['agg'] and r.random() < 0.5:
            mq['cmpa'] = c
        else:
            mq['cmpl'] = c
    if r.random() < 0.2:
        mq['topfn'], mq['topk'] = r.choice(['topk', 'bottomk']), r.choice([1, 2])
        if fn in ('rate', 'count_over_time') and r.random() < 0.5:
            # a comparison written after topk / bottomk (thresholds between the values counts can take)
            mq['cmpt'] = {'op': r.choice(['>', '>=', '<', '<=']), 'k4': r.choice([1, 5, 9])}
    q = {'m': ms, 'p': stages, 'from': r.randint(2, 4), 'to': r.randint(5, 8), 'lim': 0, 'fwd': False, 'mq': mq}
    return {'q': q, 'db': db}


def run(tier):
    binp = vlib.go_build('cmd/c07', 'c07')
    sd = vlib.scratch('c08')
    try:
        frs, tl = base.tlc_run(tier, sd, vlib.seed(), frags=FRAGS, mc_module='MC_LogQLMetric',
                               gen=rand_metric_case, cfg_tpl=CFG, tiers=TIERS)
        cases = []
        for fr in frs:
            if not fr['cases']:
                raise vlib.Infra('fragment %s exported no case (vacuous)' % fr['frag'])
            cases += fr['cases']
        result = base.run_driver(binp, sd, cases, 'c08')
        viols = base.collect(PID, result, frs, tier)
        pu = result.get('pool_use') or {}
        need = (['fn:' + f for f in UNWRAP_FNS + LRA_FNS] + ['unit:1', 'unit:15', 'step<range', 'step=range', 'step>range', 'topk', 'bottomk',
                'grouping:by:prefix', 'grouping:by:suffix', 'grouping:without:prefix', 'grouping:without:suffix',
                'range-grouping:by', 'range-grouping:without'] + ['agg:' + a for a in ('sum', 'min', 'max', 'avg', 'count')]
                # a comparison after topk / bottomk: every operator under both selections, and on every planning path cases on
                # which the order of selection and threshold is observable
                + ['topcmp:%s:%s' % (tf, o) for tf in ('topk', 'bottomk') for o in ('>', '>=', '<', '<=', '==', '!=')]
                + ['topcmp-order-observable:%s:%s' % (tf, pth) for tf in ('topk', 'bottomk')
                   for pth in ('short-range', 'shortcut15s', 'long-range-sql')])
        # results that reach the Go post-processors in more than one slice of the getter, on every planning path
        need += ['getter-slices>1'] + ['getter-slices>1:' + pth for pth in ('short-range', 'shortcut15s', 'long-range-sql')]
        missing = [n for n in need if not pu.get(n)]
        if not any(k.startswith('comparison:') for k in pu):
            missing.append('comparison')
        if missing:
            raise vlib.Infra('vacuous: never exercised against the real code: %s' % missing)
        if result['nontrivial_cases'] < 100:
            raise vlib.Infra('vacuous: only %d cases with a non-empty expected answer ran' % result['nontrivial_cases'])
        cov = {
            'states': tl['states'],
            'transitions': tl['generated'],
            'tlc_wall_s': tl['wall_s'],
            'traces_validated_against_impl': result['cases_run'],
            'samples': result.get('samples') or [{}],
            'exhaustive': False,
            'distinct_nontrivial': result['nontrivial_cases'],
            'fragments': [{'frag': fr['frag'], 'cases_exported': len(fr['cases']), 'mechanism_differs': len(fr['devs'])} for fr in frs],
            'cases_where_mechanism_differs_from_definition': sum(len(fr['devs']) for fr in frs),
            'mechanism_difference_classes': {f['frag']: dict((c, list(f['devs'].values()).count(c)) for c in set(f['devs'].values())) for f in frs},
            'candidates_confirmed_against_real_code': result['dev_cases_matching_mechanism_model'],
            'driver': {k: result[k] for k in ('cases_run', 'agree', 'by_frag', 'wall_s', 'writer_pushes', 'stage_use', 'pool_use')},
            'mismatch_signatures': sorted(set(m['signature'] for m in result.get('mismatches') or [])),
            'checker_cmd': 'tlc MC_LogQLMetric (Frag=R,U,A,H,T,S) -> cases -> c07 run (real /loki/api/v1/query_range with step over chsql)',
        }
        return {'level': 'model_checking', 'coverage': cov, 'violations': viols, 'assumptions': ASSUMPTIONS}
    finally:
        shutil.rmtree(sd, ignore_errors=True)


ASSUMPTIONS = base.ASSUMPTIONS[:3] + [
    'instants: the property fixes values and window, not which instant reports which range bucket; a point at T must carry '
    'the value of a whole range bucket b with b - step < T <= b + range, and a point must exist at T when the bucket '
    'containing T has matching entries; topk/bottomk ties may be resolved either way',
    'values are compared with relative tolerance 1e-9 (unwrap values k*u for a dyadic u, byte lengths padded to multiples '
    'of 160, ranges of 1, 2, 4 ticks of 1 s or 15 s); quantile_over_time, stddev/stdvar and absent_over_time are excluded '
    '(ClickHouse quantile is approximate; absent_over_time runs in the Go engine)',
    'unwrap range functions are always grouped with by (..) or without (.. including the unwrapped label): LogQL removes the '
    'unwrapped label from the series, qryn keeps it, the ungrouped form is not decided here',
    'metric queries whose pipeline has `json` without parameters (Go engine, property C09) are outside this check; '
    'range durations that time.Truncate and intDiv align differently (not dividing 62135596800 s, e.g. 7 s) are not covered',
]

"""X06: the label and series endpoints of the Loki and Prometheus read APIs answer WHAT their definition says.

spec/query/LabelIndex.tla gives, over a small abstract database of stored series (label set over <= 3 names incl. __name__
with absent / empty / two values, signal type log / metric / both, the days it has index rows for, whether the label
document of the second day lists the keys in another order), an order-free DEFINITION of the answers of
/loki/api/v1/labels (= /label), /loki/api/v1/label/{name}/values, /loki/api/v1/series and their Prometheus twins
/api/v1/labels, /api/v1/label/{name}/values, /api/v1/series (names = the keys of the series of the called signal that have
index rows in the window and satisfy any of the match[] selectors; values of a name over those series; the distinct label
sets) next to a transcription of the MECHANISM (time_series rows, the time_series_gin rows the materialized view derives per
label, the SQL each endpoint sends at table grain incl. the type filter, the fp_sel sub-selects joined by UNION ALL, the
missing upper date bound of fp_sel, DISTINCT over the document text, LIMIT, ParseSeries / Prom2LogqlMatch, the parameter
parsing of GET and POST), parameterised by named quirks.  The matcher semantics are the ones of C17 (Selector.tla is
instantiated).  TLC (MC_LabelIndex) enumerates every database x request of the configurations, proves
mechanism-with-all-quirks-repaired = definition, proves that every difference between the mechanism as coded and the
definition is accounted for by a quirk, proves the laws that tie the definitions together (match[] lists are unions, a
window is the union of its days, names / values / series describe the same candidates, an API sees its own signal only),
and exports the cases.  harness/cmd/x06 concretises every case (hostile label names and values), pushes the series through
the REAL writer routes of e2e.World (Loki push JSON / protobuf, Prometheus remote write; the real materialized view derives
the gin rows), asks the REAL reader routes (GET and POST forms) and compares the answer as a bag with the definition.
Verdicts only come from answers of the real code."""
import concurrent.futures
import json
import os
import re
import shutil
import time

import vlib

SPECDIR = os.path.join(vlib.SPEC, 'query')
INVS = 'AllChecks'
NAMED_INVS = 'MechEqDef QuirksExplain Laws AbsentLocal'
ALL_QUIRKS = ['label_absent', 'dup_keyorder', 'labels_match_ignored', 'bare_colon', 'goquote', 'post_form', 'limit']
# The believed state of the code: the quirks of LabelIndex!AllQuirks that have been REPAIRED in /repo.  The as-coded mechanism
# is Mech(AllQuirks minus these); a repaired quirk stays in the specification as a mutation: TLC still says where it would
# fire, the real code must answer the definition there, and an answer that equals the prediction WITH the quirk is reported
# under the quirk's signature again.
REPAIRED = ['post_form',       # the form decoders ignore unknown keys (match[])
            'dup_keyorder',    # encodeLabels writes the labels sorted by name: one document per label set
            'bare_colon',      # ParseSeries takes the metric names of the Prometheus data model ([a-zA-Z_:][a-zA-Z0-9_:]*)
            'goquote']         # Prom2LogqlMatch writes matcher values as JSON strings

CFG = '''SPECIFICATION Spec
CONSTANTS
  Names <- MCNames
  LSPool <- %(ls)s
  Limit = %(limit)d
  ColonVals = %(colon)s
  CtrlVals = %(ctrl)s
  MaxSeries = %(S)d
  TypePool = %(types)s
  DayPool = %(days)s
  FlipOn = %(flip)s
  Plan = "%(plan)s"
  ExportMod = %(mod)d
  ExportSeed = %(seed)d
  Repaired = %(repaired)s
INVARIANTS %(invs)s
CHECK_DEADLOCK FALSE
'''

DEFAULTS = dict(ls='MCLS4', limit=10000, colon='{}', ctrl='{}', S=2, types='{0, 1, 2}', days='{1, 2, 3}', flip='TRUE', plan='W', mod=1, workers=4)

# name -> bounds.  plan W: all endpoints x the three windows (+ a window without data) x GET / POST x few selectors;
# plan M: the whole window, every single matcher over (a, b, __name__) x (=, !=, =~, !~) x 3 patterns, pairs of matchers,
# bare metric names, pairs of selectors, four label names asked for (one nobody has).  mod: the cases of every mod-th
# database (by content hash and seed) are exported; TLC checks all of them.
CONFIGS = {
    'quick': [
        ('W2', dict(ls='MCLS4', mod=3, workers=5)),
        ('M2', dict(ls='MCLS9', types='{1, 2}', days='{1}', flip='FALSE', plan='M', mod=3, workers=5)),
        ('W3', dict(ls='MCLS4', S=3, types='{1, 2}', days='{3}', mod=5, workers=3)),
        ('SC', dict(ls='MCLSS', types='{2}', days='{1}', flip='FALSE', plan='M', colon='{"xy"}', workers=2)),
        ('SK', dict(ls='MCLSS', types='{2}', days='{1}', flip='FALSE', plan='M', ctrl='{"xy"}', workers=2)),
        ('LIM', dict(ls='MCLS4', limit=1, types='{1, 2}', mod=0, workers=2)),
    ],
    'thorough': [
        ('W2', dict(ls='MCLS5', mod=2, workers=8)),
        ('M2', dict(ls='MCLS9', types='{0, 1, 2}', days='{1}', flip='FALSE', plan='M', mod=3, workers=8)),
        ('M2F', dict(ls='MCLS2N', types='{1, 2}', days='{2}', flip='FALSE', plan='M', mod=3, workers=8)),
        # every label set over the three names, one series
        ('WA', dict(ls='MCLSAll', S=1, mod=2, workers=8)),
        ('W3', dict(ls='MCLS4', S=3, types='{0, 1, 2}', days='{1, 3}', mod=12, workers=8)),
        # label sets over a (absent, empty, two values) and __name__, two series, every type and day set
        ('W2N', dict(ls='MCLS2N', mod=12, workers=8)),
        ('M3', dict(ls='MCLS5', S=3, types='{1, 2}', days='{1}', flip='FALSE', plan='M', mod=4, workers=8)),
        ('SC', dict(ls='MCLSS', types='{0, 2}', days='{1}', flip='FALSE', plan='M', colon='{"xy"}', workers=4)),
        ('SK', dict(ls='MCLSS', types='{0, 2}', days='{1}', flip='FALSE', plan='M', ctrl='{"xy"}', workers=4)),
        ('LIM', dict(ls='MCLS5', limit=1, mod=0, workers=4)),
    ],
}

CLUSTER_CONFIGS = ('W3',)

CLASSES_REQUIRED = ['ep_loki_labels', 'ep_loki_values', 'ep_loki_series', 'ep_prom_labels', 'ep_prom_values', 'ep_prom_series',
                    'window_1_1', 'window_2_2', 'window_1_2', 'window_3_3', 'request_with_0_selectors', 'request_with_1_selectors',
                    'request_with_2_selectors', 'selector_with_two_matchers', 'matcher_=', 'matcher_!=', 'matcher_=~', 'matcher_!~',
                    'selector_form_bare', 'selector_form_braces', 'series_of_type_0', 'series_of_type_1', 'series_of_type_2',
                    'series_on_both_days', 'series_with_two_key_orders', 'series_with_empty_valued_label', 'series_with___name__',
                    'db_with_a_label_on_some_series_only', 'db_with_one_label_set_under_two_types', 'db_of_1_series', 'db_of_2_series',
                    'db_of_3_series', 'expected_answer_with_several_items', 'cases_where_a_quirk_fires', 'values_colon', 'values_ctrl',
                    'values_ident', 'names_sanitized']

_CASE = re.compile(r'^<<"X06CASE", (".*")>>$')


def _model_check(name, c, sd, timeout):
    d = dict(DEFAULTS)
    d.update(c)
    d['seed'] = vlib.seed() % max(1, d['mod'])
    d['invs'] = INVS
    d['repaired'] = '{' + ', '.join('"%s"' % q for q in REPAIRED) + '}'
    cfgp = os.path.join(sd, 'MC_LabelIndex_%s.cfg' % name)
    open(cfgp, 'w').write(CFG % d)
    res = vlib.tlc(SPECDIR, 'MC_LabelIndex.tla', os.path.basename(cfgp), workers=d['workers'], timeout=timeout, copy_extra=[cfgp])
    try:
        if res['violated']:
            d['invs'], d['mod'] = NAMED_INVS, 0     # which of them is it
            open(cfgp, 'w').write(CFG % d)
            res2 = vlib.tlc(SPECDIR, 'MC_LabelIndex.tla', os.path.basename(cfgp), workers=d['workers'], timeout=timeout, copy_extra=[cfgp])
            out2 = res2['out']
            vlib.tlc_cleanup(res2)
            raise vlib.Infra('TLC reports %s on LabelIndex.tla (config %s): the specification is inconsistent with itself; nothing '
                             'was run against the code:\n%s' % (res2['violated'] or res['violated'], name, out2[-2500:]))
        if not res.get('finished') or 'Model checking completed' not in res['out']:
            raise vlib.Infra('TLC did not finish config %s: %s' % (name, res['out'][-1500:]))
        cases = []
        fired = {}
        for line in res['out'].splitlines():
            m = _CASE.match(line)
            if not m:
                continue
            try:
                case = json.loads(json.loads(m.group(1)))
            except ValueError as e:
                raise vlib.Infra('cannot parse an exported case of %s: %s: %s' % (name, e, line[:300]))
            case['cfg'] = name
            for q in set(case['fired']) | set(case['mutfired']) | set(case['fired2']) | set(case['mutfired2']):
                fired[q] = fired.get(q, 0) + 1
            cases.append((json.dumps(case['db'], sort_keys=True), json.dumps(case)))
        if not cases and d['mod'] != 0:
            raise vlib.Infra('config %s exported no case (%d states)' % (name, res.get('distinct', 0)))
        cases.sort(key=lambda c: c[0])    # the cases of one database become adjacent
        return {'config': name, 'bounds': {k: v for k, v in d.items() if k not in ('workers', 'invs')}, 'states': res.get('distinct', 0),
                'transitions': res.get('generated', 0), 'exported': len(cases), 'wall_s': round(res['wall'], 1),
                'cases_in_which_a_quirk_fires': fired, 'cases': cases}
    finally:
        vlib.tlc_cleanup(res)


def _shards(mcs, n):
    """split the cases into n files; the cases of one database stay together"""
    groups = []
    for mc in mcs:
        cur, key = None, None
        for (dbk, line) in mc.pop('cases'):
            if dbk != key or cur is None:
                cur, key = [], dbk
                groups.append(cur)
            cur.append(line)
    shards = [[] for _ in range(n)]
    sizes = [0] * n
    for g in sorted(groups, key=len, reverse=True):
        i = sizes.index(min(sizes))
        shards[i].append(g)
        sizes[i] += len(g)
    return shards


def _drive(binp, i, groups, sd, timeout, cluster=''):
    cp = os.path.join(sd, 'cases_%s%d.ndjson' % (cluster, i))
    rp = os.path.join(sd, 'result_%s%d.json' % (cluster, i))
    with open(cp, 'w') as o:
        for g in groups:
            o.write('\n'.join(g) + '\n')
    env = dict(os.environ)
    env['TZ'] = 'UTC'
    env['X06_CLUSTER'] = cluster      # '' = single node; a name: the reader names the *_dist tables
    r = vlib.run_cmd([binp, 'run', '-cases', cp, '-out', rp, '-seed', str(vlib.seed())], timeout=timeout, env=env)
    if r.returncode != 0 or not os.path.exists(rp):
        raise vlib.Infra('x06 driver failed (rc %s): %s' % (r.returncode, (r.stdout + r.stderr)[-3000:]))
    return json.load(open(rp))


def _big(binp, sd, timeout):
    rp = os.path.join(sd, 'result_big.json')
    env = dict(os.environ)
    env['TZ'] = 'UTC'
    r = vlib.run_cmd([binp, 'big', '-out', rp, '-seed', str(vlib.seed())], timeout=timeout, env=env)
    if r.returncode != 0 or not os.path.exists(rp):
        raise vlib.Infra('x06 big failed (rc %s): %s' % (r.returncode, (r.stdout + r.stderr)[-3000:]))
    return json.load(open(rp))


def _merge_counts(dst, src):
    for k, v in (src or {}).items():
        dst[k] = dst.get(k, 0) + v


def run(tier):
    sd = vlib.scratch('x06')
    try:
        configs = CONFIGS[tier]
        t0 = time.time()
        phases = {}
        tmo = 280 if tier == 'quick' else 2400
        binp = None
        with concurrent.futures.ThreadPoolExecutor(max_workers=len(configs) + 2) as ex:
            fb = ex.submit(vlib.go_build, 'cmd/x06', 'x06')
            if tier == 'quick':
                futs = [ex.submit(_model_check, n, c, sd, tmo) for n, c in configs]
                binp = fb.result()
                fbig = ex.submit(_big, binp, sd, 600)
                mcs = [f.result() for f in futs]
            else:   # 8 workers each: two at a time
                binp = fb.result()
                fbig = ex.submit(_big, binp, sd, 600)
                with concurrent.futures.ThreadPoolExecutor(max_workers=2) as ex2:
                    futs = [ex2.submit(_model_check, n, c, sd, tmo) for n, c in configs]
                    mcs = [f.result() for f in futs]
            phases['tlc_enumeration'] = round(time.time() - t0, 1)
            ncases = sum(mc['exported'] for mc in mcs)
            spec_fired = {}
            for mc in mcs:
                _merge_counts(spec_fired, mc['cases_in_which_a_quirk_fires'])
            lim = [mc for mc in mcs if mc['bounds']['limit'] < 10000]
            if not lim:
                raise vlib.Infra('no configuration with a small Limit: the quirk "limit" is never exercised by TLC')
            never = [q for q in ALL_QUIRKS if q != 'limit' and not spec_fired.get(q)]
            if never:
                raise vlib.Infra('vacuous coverage: no exported case in which TLC finds the quirks %s firing' % never)
            # ---- replay into the real code
            t1 = time.time()
            nsh = 7
            # the cases of the three-series configuration are replayed a second time against a reader that believes it talks to
            # a cluster (time_series_dist / time_series_gin_dist)
            cl = [dict(mc, cases=list(mc['cases'])) for mc in mcs if mc['config'] in CLUSTER_CONFIGS]
            ncluster = sum(len(mc['cases']) for mc in cl)
            jobs = [(i, g, '') for i, g in enumerate(s for s in _shards(mcs, nsh) if s)] + \
                   [(i, g, 'c1') for i, g in enumerate(s for s in _shards(cl, 1 if tier == 'quick' else 2) if s)]
            shards = [j for j in jobs if not j[2]]
            with concurrent.futures.ThreadPoolExecutor(max_workers=len(jobs)) as ex3:
                results = list(ex3.map(lambda a: _drive(binp, a[0], a[1], sd, 900 if tier == 'quick' else 3000, a[2]), jobs))
            ncases += ncluster
            big = fbig.result()
        phases['driver'] = round(time.time() - t1, 1)
        tot = {'cases': 0, 'databases': 0, 'distinct_nontrivial': 0, 'answers_equal_definition': 0}
        maps = {k: {} for k in ('pushes', 'requests', 'classes', 'fired_cases', 'fired_observed', 'fired_silent', 'mismatch_counts')}
        mismatches, infra, sample = [], [], None
        for r in results + [big]:
            for k in tot:
                tot[k] += r.get(k) or 0
            for k in maps:
                _merge_counts(maps[k], r.get(k))
            mismatches += r.get('mismatches') or []
            infra += r.get('infra') or []
            sample = sample or r.get('sample')
        if infra:
            raise vlib.Infra('x06 driver: %d infrastructure problems, first: %s' % (len(infra), infra[0]))
        nbig = big.get('cases') or 0
        if tot['cases'] != ncases + nbig or nbig < 5:
            raise vlib.Infra('driver ran %d of %d cases (+ %d of 5 big probes)' % (tot['cases'] - nbig, ncases, nbig))
        if sum(maps['requests'].values()) != ncases + nbig:
            raise vlib.Infra('driver sent %d requests for %d cases' % (sum(maps['requests'].values()), ncases + nbig))
        missing = [c for c in CLASSES_REQUIRED if not maps['classes'].get(c)]
        methods = {k.split('/')[2] for k in maps['requests']}
        if missing or tot['distinct_nontrivial'] < ncases // 10 or methods != {'get', 'post'} or \
                not all(maps['pushes'].get(k) for k in ('loki_json', 'loki_protobuf', 'remote_write')):
            raise vlib.Infra('vacuous coverage: classes never exercised %s (non-trivial %d of %d, methods %s, pushes %s)' % (
                missing, tot['distinct_nontrivial'], ncases, sorted(methods), maps['pushes']))
        # ---- verdicts
        viols = []
        nth = {}
        for m in sorted(mismatches, key=lambda m: (m['signature'], 0 if (m.get('expected') or {}).get('set') else 1, len(json.dumps(m.get('abstract'))))):
            sig = m['signature']
            nth[sig] = nth.get(sig, 0) + 1
            if nth[sig] > 2:
                continue
            path = vlib.save_replay('X06', re.sub(r'[^A-Za-z0-9]+', '_', sig)[:80] + '_%d' % nth[sig],
                                    {'kind': 'TLC case (MC_LabelIndex) replayed through the real writer and reader routes (harness/cmd/x06); '
                                             'write the object under mismatch.abstract as one line to a file and run '
                                             '`TZ=UTC x06 run -cases <file> -out r.json -seed <seed>` (big probes: `x06 big -out r.json -seed <seed>`)',
                                     'seed': vlib.seed(), 'tier': tier, 'mismatch': m, 'occurrences_in_this_run': maps['mismatch_counts'].get(sig)})
            if nth[sig] > 1:
                continue
            req = m.get('request') or {}
            viols.append({'property': 'X06', 'signature': sig, 'replay': path,
                          'msg': '%s (%d occurrences) request=%s %s %s expected=%s observed=%s' % (
                              m['msg'], maps['mismatch_counts'].get(sig, 1), req.get('method'), req.get('path'),
                              json.dumps(req.get('params'), ensure_ascii=False)[:300],
                              json.dumps(m.get('expected'), ensure_ascii=False)[:400],
                              json.dumps(dict(m.get('observed') or {}, status=m.get('status')), ensure_ascii=False)[:500])})
        unknown = [q for q in REPAIRED if q not in ALL_QUIRKS]
        if unknown:
            raise vlib.Infra('REPAIRED names quirks the specification does not have: %s' % unknown)
        for mc in mcs:
            mc.pop('cases', None)
        repaired = sorted(q for q in ALL_QUIRKS if maps['fired_cases'].get(q) and not maps['fired_observed'].get(q))
        cov = {'states': sum(mc['states'] for mc in mcs), 'transitions': sum(mc['transitions'] for mc in mcs),
               'traces_validated_against_impl': ncases + nbig,
               'samples': [sample or (mismatches[0] if mismatches else {'cases': ncases})],
               'exhaustive': all(mc['bounds']['mod'] <= 1 for mc in mcs),
               'model_check': mcs, 'phase_wall_s': phases, 'cases_replayed': ncases, 'of_those_replayed_in_cluster_mode': ncluster, 'big_probes': nbig, 'databases_ingested': tot['databases'],
               'distinct_nontrivial': tot['distinct_nontrivial'], 'answers_equal_definition': tot['answers_equal_definition'],
               'pushes': maps['pushes'], 'requests': maps['requests'], 'classes': maps['classes'],
               'quirks': {q: {'cases_in_which_tlc_finds_it_firing': maps['fired_cases'].get(q, 0),
                              'of_those_the_real_code_answers_as_coded': maps['fired_observed'].get(q, 0),
                              'of_those_the_real_code_answers_the_definition': maps['fired_silent'].get(q, 0)} for q in ALL_QUIRKS},
               'quirks_the_code_no_longer_exhibits': repaired,
               'quirks_believed_repaired': sorted(REPAIRED),
               'mismatch_counts': maps['mismatch_counts'], 'aux_not_part_of_X06': big.get('aux'),
               'checker_cmd': 'tlc MC_LabelIndex (x%d configs) -> x06 run (x%d processes) + x06 big' % (len(mcs), len(jobs))}
        return {'level': 'model_checking', 'coverage': cov, 'violations': viols,
                'assumptions': [
                    'a label is taken as stored: an empty-valued label is a key of its series and "" one of its values (the Prometheus data '
                    'model would drop it at ingestion); for the matchers an empty value and an absent label are the same (C17)',
                    'the writer\'s documented normalisation is part of the data, not of the property: label names are stored with every '
                    'character outside [a-zA-Z0-9_] (and a leading digit) replaced by "_", values longer than 100 bytes cut to 100 bytes + '
                    '"..."; hostile names are pushed, their stored forms expected; __ttl_days__ is not used as a label',
                    'all index rows of a case lie at noon of two consecutive UTC days, windows run from 10:00 of the first to 14:00 of the '
                    'last day and the process runs under TZ=UTC: date and window edges are C13; the well-formedness of the JSON documents '
                    'is C15; matcher semantics as such C17 (its definitions are instantiated); SQL escaping C10',
                    'fingerprints (cityHash64 over the label pairs, order free) are modelled as injective on label sets; the ClickHouse '
                    'server is the chsql interpreter over the real DDL and materialized view; the cases of the three-series '
                    'configurations are replayed a second time with a reader in cluster mode (*_dist table names, same data)',
                    'Prometheus API requests only carry selectors the PromQL parser accepts (a bare metric name or a matcher that the '
                    'empty string does not satisfy); the Loki API is asked with every selector qryn\'s LogQL parser accepts; selectors '
                    'are written with \\uXXXX for control characters (valid for PromQL, Loki and qryn\'s JSON-style unquoting)',
                    '/loki/api/v1/series and /api/v1/series are asked with at least one match[]; the Loki API is asked in the dialect '
                    'qryn reads (match[] on label values, nanosecond start / end); values contain no newline (C17: . does not match it)',
                    'the LIMIT 10000 of the values / series statements is exercised by five big probes of the driver (10001..10200 '
                    'series per signal); TLC shows with Limit = 1 that the quirk "limit" accounts for truncated answers']}
    finally:
        shutil.rmtree(sd, ignore_errors=True)

"""X03 (extra coverage): the writer's SERVICE LAYER around the batcher - service registry (X-CH-DSN), multimodal /
round-robin insert services (worker selection, sync/async pools), Init/Run/Stop, watchdog.

spec/ingest/WriterLifecycle.tla is model checked (safety + liveness, with the implementation quirks off = what the
properties demand, and on = what the code is believed to do), then bound to the real code by
  cases   TLC-exported rule cases (registry lookup, mode -> pool, watchdog.Check verdict) run on the real objects
  probe   the TLC counterexample of NoOrphan (quirk on) replayed on the real services
  replay  TLC -simulate schedules of MC_WriterLifecycleReplay stepped through the real services (scripted random draws)
  trace   free-running recorded executions validated by TLC against Trace_WriterLifecycle
  wd      real-time watchdog scenarios generated from the watchdog part of the spec, run in child processes
Quirk sets: "q" = believed of the code (QOrphan, QUnknownDsn, QDefaultSync, QHeaderIgnored on; QSplit and QWdFirst RETIRED since the repairs
e5a8bf5 / 970b5a3), "i" = all off (demanded), "m" = all on (model mutations: TLC must refute PushOnOneNode / WdNoStaleSkipped on them; real code that
matches only a mutation is reported under the property it breaks).
Relation to C01/C02: Batcher.tla looks into one worker (rows, columns, retries); this check looks at the workers from
outside (which worker of which pool of which node, lifecycle, watchdog)."""
import concurrent.futures as cf
import json
import os
import shutil
import tempfile
import time

import tlaparse
import vlib

PID = 'X03'
SPECDIR = os.path.join(vlib.SPEC, 'ingest')
QUIRKS = ['QOrphan', 'QUnknownDsn', 'QSplit', 'QDefaultSync', 'QHeaderIgnored']
NODES, ASYNC, W, RG = ['n1', 'n2'], ['n2'], 2, 4
REQS = ['r%d' % i for i in range(1, 9)]

CFG_COMMON = '''CONSTANTS
  Nodes = {"n1", "n2"}
  AsyncNodes = {"n2"}
  Kinds = {"spl"}
  ParallelNum = 2
  Reqs = {%(reqs)s}
  Dsns = {"n1", "n2", ""}
  Hdrs = {"", "0", "1"}
  ViaHTTP = FALSE
  RG = %(rg)d
  QOrphan = %(QOrphan)s
  QUnknownDsn = %(QUnknownDsn)s
  QSplit = %(QSplit)s
  QDefaultSync = %(QDefaultSync)s
  QHeaderIgnored = %(QHeaderIgnored)s
  WT = 1
  MaxNow = 0
  WdKinds <- WdKindsOne
  QWdFirst = FALSE
'''


def cfg_common(q, rg=RG):
    d = {k: ('TRUE' if q.get(k, True) else 'FALSE') for k in QUIRKS}
    d['reqs'] = ', '.join('"%s"' % r for r in REQS)
    d['rg'] = rg
    return CFG_COMMON % d


def write_tmp(name, text):
    d = vlib.scratch('x03cfg')
    p = os.path.join(d, name)
    open(p, 'w').write(text)
    return p


def run_tlc(module, cfg, expect_violation=None, workers=4, timeout=900, extra_cfg=None, **kw):
    """Returns dict(states, transitions, wall, violated, out). A violation that is not expected is a spec problem."""
    res = vlib.tlc(SPECDIR, module, cfg, workers=workers, timeout=timeout, copy_extra=[extra_cfg] if extra_cfg else None, **kw)
    try:
        import re
        res['violated'] = sorted(set([x for x in res['violated'] if x != '?'] +
                                     re.findall(r'Error: Temporal property ([A-Za-z0-9_]+) was violated', res['out']))) or res['violated']
        if expect_violation is None and res['violated']:
            raise vlib.Infra('TLC reports %s violated on the specification itself (%s / %s): a specification problem, not a verdict\n%s'
                             % (res['violated'], module, cfg, res['out'][-2500:]))
        if expect_violation is not None and expect_violation not in res['violated']:
            raise vlib.Infra('TLC found no counterexample to %s on %s / %s although the quirk is switched on: the property is vacuous\n%s'
                             % (expect_violation, module, cfg, res['out'][-1500:]))
        if expect_violation is None and (not res.get('finished') or 'distinct' not in res):
            raise vlib.Infra('TLC did not finish (%s / %s):\n%s' % (module, cfg, res['out'][-2000:]))
        return {'cfg': cfg, 'states': res.get('distinct', 0), 'transitions': res.get('generated', 0), 'wall_s': round(res['wall'], 1),
                'violated': res['violated'], 'out': res['out'] if expect_violation else ''}
    finally:
        if extra_cfg:
            shutil.rmtree(os.path.dirname(extra_cfg), ignore_errors=True)
        vlib.tlc_cleanup(res)


def cex_behaviour(out):
    """The counterexample TLC printed, as a behaviour in the format of -simulate files."""
    i = out.find('Error: The behavior up to this point is:')
    if i < 0:
        i = out.find('Error: The following behavior constitutes a counter-example:')
    if i < 0:
        raise vlib.Infra('no counterexample in TLC output:\n' + out[-1500:])
    txt = out[i:]
    j = txt.find('\n', 0)
    txt = txt[j + 1:]
    lines = []
    for ln in txt.splitlines():
        if ln.startswith('Error:') or ln.startswith('Finished') or ln.startswith('Progress') or 'states generated' in ln or ln.startswith('Back to state') \
                or ln.startswith('The number of') or ln.startswith('The depth') or ln.startswith('The average') or ln.startswith('Worker:'):
            break
        lines.append(ln)
    with tempfile.NamedTemporaryFile('w', suffix='.txt', delete=False) as f:
        f.write('\n'.join(lines) + '\n')
        p = f.name
    try:
        return tlaparse.behaviour_flat(p)
    finally:
        os.unlink(p)


# ------------------------------------------------------------------------------------------------ model checking
def model_check(tier):
    jobs = [('MC_WriterLifecycle.tla', 'MC_WriterLifecycle_life_i.cfg', None),
            ('MC_WriterLifecycle.tla', 'MC_WriterLifecycle_sel_i.cfg', None),
            ('MC_WriterLifecycle.tla', 'MC_WriterLifecycle_life_q1.cfg', None),
            ('MC_WriterLifecycle.tla', 'MC_WriterLifecycle_route_i.cfg', None),
            ('MC_WriterLifecycle.tla', 'MC_WriterLifecycle_live_i.cfg', None),
            ('MC_WriterLifecycle.tla', 'MC_WriterLifecycle_live_q.cfg', 'EveryAcceptedCompletes'),
            ('MC_WriterLifecycleWD.tla', 'MC_WriterLifecycleWD_i.cfg', None),
            # retired quirks as model mutations: TLC must still refute the properties on them (non-vacuity)
            ('MC_WriterLifecycleWD.tla', 'MC_WriterLifecycleWD_mut.cfg', 'WdNoStaleSkipped'),
            ('MC_WriterLifecycle.tla', 'MC_WriterLifecycle_route_mut.cfg', 'PushOnOneNode')]
    if tier != 'quick':
        jobs += [('MC_WriterLifecycle.tla', 'MC_WriterLifecycle_t2_i.cfg', None),
                 ('MC_WriterLifecycle.tla', 'MC_WriterLifecycle_life_q.cfg', None),
                 ('MC_WriterLifecycleWD.tla', 'MC_WriterLifecycleWD_i2.cfg', None)]
    out = []
    with cf.ThreadPoolExecutor(max_workers=4) as ex:
        futs = [ex.submit(run_tlc, m, c, v, 4, 600 if tier == 'quick' else 3000) for (m, c, v) in jobs]
        for f in futs:
            r = f.result()
            r.pop('out', None)
            out.append(r)
    return out


# ------------------------------------------------------------------------------------------------ cases
def export_cases():
    res = {}
    for v in ('q', 'i', 'm'):
        r = vlib.tlc(SPECDIR, 'MC_WriterLifecycleCases.tla', 'MC_WriterLifecycleCases_%s.cfg' % v, workers=1, timeout=300)
        try:
            p = os.path.join(r['scratch'], 'cases_%s.json' % v)
            if not os.path.exists(p):
                raise vlib.Infra('case export failed (%s):\n%s' % (v, r['out'][-2000:]))
            res[v] = json.load(open(p))
        finally:
            vlib.tlc_cleanup(r)
    return res


def ckey(c):
    return (c['d'], c['h'], tuple(sorted(c['nd'].items())))


def dsn_class(d):
    return 'dsn-absent' if d == '' else ('dsn-unknown' if d not in NODES else 'dsn-named')


def run_cases(binp, cases, seed):
    q = sorted(cases['q']['route'], key=ckey)

    def alt_of(c):
        # draws scripted for the lookups after the first one of a push: the OTHER node (the code must not draw again)
        return {k: [n for n in NODES if n != c['nd']['spl']][0] for k in c['nd']}
    route = [{'id': i, 'd': c['d'], 'h': c['h'], 'nd': c['nd'], 'alt': alt_of(c)} for i, c in enumerate(q)]
    mut = {ckey(c): c for c in cases['m']['route']}
    wdq = sorted(cases['q']['wd'], key=lambda c: json.dumps(sorted(c['stale'])))
    wdm = {json.dumps(sorted(c['stale'])): c for c in cases['m']['wd']}
    wd = [{'id': i, 'stale': c['stale']} for i, c in enumerate(wdq)]
    sd = vlib.scratch('x03cases')
    try:
        inp, outp = os.path.join(sd, 'in.json'), os.path.join(sd, 'out.json')
        clamp = sorted(cases['i']['clamp'], key=lambda c: c['p'])
        json.dump({'Nodes': NODES, 'AsyncNodes': ASYNC, 'Kinds': ['ts', 'spl'], 'WdKinds': ['ts', 'spl'], 'route': route, 'wd': wd,
                   'clamp': [{'p': c['p']} for c in clamp]}, open(inp, 'w'))
        r = vlib.run_cmd([binp, 'cases', '-in', inp, '-out', outp, '-seed', str(seed)], timeout=300)
        if r.returncode != 0 or not os.path.exists(outp):
            raise vlib.Infra('x03 cases failed: ' + (r.stdout + r.stderr)[-3000:] + (open(outp).read()[-2000:] if os.path.exists(outp) else ''))
        out = json.load(open(outp))
    finally:
        shutil.rmtree(sd, ignore_errors=True)
    viols, quirks = [], {}
    for pn in out.get('panics') or []:
        rp = vlib.save_replay(PID, 'cases_panic', {'kind': 'child process died of a panic in the code under test', 'panic': pn})
        viols.append({'property': PID, 'signature': 'panic|' + pn.split(' in ')[-1].split('/')[-1], 'msg': pn, 'replay': rp})
    # workers per pool for every configured ParallelNum (never zero: the selection cannot index an empty pool)
    want_w = {c['p']: c['w'] for c in clamp}
    bad = [o for o in out.get('clamp') or [] if o.get('note') or o.get('workers') != [want_w[o['p']]] * 2 or not o.get('landed')]
    if len(out.get('clamp') or []) != len(clamp):
        raise vlib.Infra('clamp cases not run')
    if bad:
        rp = vlib.save_replay(PID, 'cases_clamp', {'kind': 'constructor with ParallelNum = p', 'observed': bad, 'model': want_w})
        viols.append({'property': PID, 'signature': 'cases|clamp|' + ('panic' if any(o.get('note') for o in bad) else 'workers'), 'replay': rp,
                      'msg': 'impl.NewSamplesInsertService with ParallelNum %d: pools of %s workers (model: %d), push landed: %s %s' % (
                          bad[0]['p'], bad[0].get('workers'), want_w[bad[0]['p']], bad[0].get('landed'), bad[0].get('note', ''))})
    intended = {}
    for c in cases['i']['route']:
        for layer in ('http', 'svc'):
            intended.setdefault((c['d'], c['h'], layer), []).append(c[layer])
    stats = {'clamp_cases': len(clamp), 'zero_workers_without_constructor': out.get('zero_workers_direct'), 'route_cases': len(route), 'route_runs': 0, 'as_is': 0, 'as_demanded': 0, 'wd_cases': len(wd), 'wd_check_calls': 0}
    seen = {}
    for o in out['route']:
        c = q[o['id']]
        layer = o['layer']
        stats['route_runs'] += 1
        exp_q, broken = c[layer], c[layer + 'Broken']
        obs = o['obs']
        same_q = obs == exp_q
        same_i = obs in intended.get((c['d'], c['h'], layer), [])
        if same_i and not (same_q and broken):
            stats['as_demanded'] += 1
            continue
        if not same_q:
            # a model mutation (retired quirk switched on again)?  the draws of the later lookups were scripted to `alt`
            nd_m = dict(c['nd']) if c['d'] in NODES else {k: (c['nd'][k] if k == 'spl' else route[o['id']]['alt'][k]) for k in c['nd']}
            cm = mut.get((c['d'], c['h'], tuple(sorted(nd_m.items()))))
            if cm and obs == cm[layer] and cm[layer + 'Broken']:
                same_q, broken = True, cm[layer + 'Broken']
                stats['as_mutation'] = stats.get('as_mutation', 0) + 1
        if same_q:
            stats['as_is'] += 1
            for prop in broken:
                if prop == 'NamedModeObeyed':
                    sig = '%s|%s|%s' % (prop, layer, {'': 'mode-default-on-async-node', '0': 'mode-sync', '1': 'mode-async'}[c['h']])
                else:
                    sig = '%s|%s' % (prop, dsn_class(c['d']))
                seen.setdefault(sig, []).append({'case': route[o['id']], 'layer': layer, 'observed': obs, 'landed': o.get('landed'), 'http_status': o.get('code'),
                                                 'property': prop, 'nbroken': len(broken)})
        else:
            sig = 'cases|route|%s|unexplained' % layer
            seen.setdefault(sig, []).append({'case': route[o['id']], 'layer': layer, 'observed': o, 'model_as_is': exp_q,
                                             'model_demanded': intended.get((c['d'], c['h'], layer))})
    for sig, items in sorted(seen.items()):
        items.sort(key=lambda it: (it.get('nbroken', 9), it['layer'] != 'http', json.dumps(it['case'], sort_keys=True)))
        rp = vlib.save_replay(PID, 'cases_' + sig.replace('|', '_'), {'kind': 'rule cases on the real registry / services', 'signature': sig, 'cases': items[:12]})
        it = items[0]
        if sig.startswith('cases|'):
            msg = 'the real code matches neither the rule as believed nor as demanded: %s' % json.dumps(it)[:600]
        else:
            msg = {'UnknownDsnRefused': 'X-CH-DSN %(d)r names no node: the push is not refused but queued on node(s) %(n)s (%(l)s)',
                   'PushOnOneNode': 'one push (X-CH-DSN %(d)r) is split over nodes: %(n)s (%(l)s); every service kind draws its node independently',
                   'NamedNodeObeyed': 'X-CH-DSN %(d)r: a part of the push was queued on another node: %(n)s (%(l)s)',
                   'NamedModeObeyed': 'insert mode %(h)r (X-CH-DSN %(d)r): queued in pool %(p)s of node(s) %(n)s (%(l)s); the named mode resolves to another pool'}[it['property']] % {
                'd': it['case']['d'], 'h': it['case']['h'], 'n': it['observed']['node'], 'p': it['observed']['pool'], 'l': it['layer'] + ' layer'}
            msg += ' [%d case runs]' % len(items)
        viols.append({'property': PID, 'signature': sig, 'msg': msg, 'replay': rp})
    # quirk set for the service-layer behaviours
    quirks['QDefaultSync'] = any(s.startswith('NamedModeObeyed|svc') for s in seen)
    quirks['QUnknownDsn'] = any(s.startswith('UnknownDsnRefused') for s in seen)
    quirks['QSplit'] = any(s.startswith('PushOnOneNode') for s in seen)
    quirks['QHeaderIgnored'] = any(s.startswith('NamedModeObeyed|http|mode-async') for s in seen)
    # watchdog.Check verdicts
    wd_i = {json.dumps(sorted(c['stale'])): c for c in cases['i']['wd']}
    wseen = {}
    for o in out['wd']:
        c = wdq[o['id']]
        stats['wd_check_calls'] += o['calls']
        got = sorted(o['verdicts'])
        demanded = [c['demanded']]
        if got == demanded:
            continue
        cm = wdm.get(json.dumps(sorted(c['stale'])))
        if cm and set(got) <= set(cm['verdicts']):
            kinds = sorted({s[1] for s in c['stale']})
            cls = 'stale-%s-only' % '+'.join(kinds) if 'ts' not in kinds else 'stale-first-kind-on-some-node'
            wseen.setdefault('WdNoStaleSkipped|' + cls, []).append({'stale_services': c['stale'], 'stale_workers': o['stale_workers'],
                                                                     'verdicts_of_60_checks': got, 'demanded': c['demanded'], 'errors': o.get('errors')})
        else:
            wseen.setdefault('cases|wd|unexplained', []).append({'stale_services': c['stale'], 'observed': o, 'model_as_believed': c['verdicts'],
                                                                 'model_mutation': cm and cm['verdicts'], 'demanded': c['demanded']})
    for sig, items in sorted(wseen.items()):
        items.sort(key=lambda it: (len(it.get('stale_services', [])), json.dumps(it.get('stale_services'))))
        rp = vlib.save_replay(PID, 'cases_' + sig.replace('|', '_'), {'kind': 'watchdog.Check cases on real services', 'signature': sig, 'cases': items})
        it = items[0]
        msg = ('watchdog.Check with stale service(s) %s (workers %s past 2*WriteTimeout+5 s): verdicts %s over 60 calls, demanded: error every time '
               '(Check returns after the first service it pings)' % (it.get('stale_services'), it.get('stale_workers'), it.get('verdicts_of_60_checks'))) \
            if not sig.startswith('cases|') else 'watchdog.Check matches neither model: ' + json.dumps(it)[:600]
        viols.append({'property': PID, 'signature': sig, 'msg': msg, 'replay': rp})
    quirks['QWdFirst'] = any(s.startswith('WdNoStaleSkipped') for s in wseen)
    sample = {'case': route[1], 'http_layer_observed': [o for o in out['route'] if o['id'] == 1 and o['layer'] == 'http'][:1],
              'model_as_is': q[1]['http'], 'breaks': q[1]['httpBroken']}
    return viols, quirks, stats, sample


# ------------------------------------------------------------------------------------------------ replay
def replay(binp, behs, seed, par=16, consts=None):
    sd = vlib.scratch('x03rep')
    try:
        inp, outp = os.path.join(sd, 'in.json'), os.path.join(sd, 'out.json')
        json.dump({'consts': consts or {'Nodes': NODES, 'AsyncNodes': ASYNC, 'Kinds': ['spl'], 'ParallelNum': W, 'RG': RG}, 'behaviours': behs}, open(inp, 'w'))
        r = vlib.run_cmd([binp, 'replay', '-in', inp, '-out', outp, '-seed', str(seed), '-par', str(par)], timeout=3000)
        if r.returncode == 2 or not os.path.exists(outp):
            raise vlib.Infra('x03 replay failed: ' + (r.stdout + r.stderr)[-3000:])
        return json.load(open(outp))
    finally:
        shutil.rmtree(sd, ignore_errors=True)


def probe_orphan(binp, seed):
    """TLC counterexample of NoOrphan on the replay spec with QOrphan on; TRUE if the real code follows it to the end."""
    r = run_tlc('MC_WriterLifecycleReplay.tla', 'MC_WriterLifecycleReplay_cex.cfg', 'NoOrphan', workers=4, timeout=600)
    beh = cex_behaviour(r['out'])
    if len(beh) < 4:
        raise vlib.Infra('counterexample too short: %r' % [s['action'] for s in beh])
    out = replay(binp, [beh], seed, par=1, consts={'Nodes': ['n1'], 'AsyncNodes': [], 'Kinds': ['spl'], 'ParallelNum': 1, 'RG': 2})
    steps = [{'action': s['action'], 'args': s['args']} for s in beh[1:]]
    if not out.get('violations'):
        if out.get('orphaned_promises_observed', 0) < 1:
            raise vlib.Infra('the NoOrphan counterexample was replayed without mismatch but no orphaned promise was observed')
        return True, steps, r, None
    return False, steps, r, out['violations'][0]


def gen_behaviours(q, n, depth, seed):
    cfg = write_tmp('MC_WriterLifecycleReplay_run.cfg', 'SPECIFICATION ReplaySpec\n' + cfg_common(q) + 'INVARIANT SelectionInRange\nCHECK_DEADLOCK FALSE\n')
    res = vlib.tlc(SPECDIR, 'MC_WriterLifecycleReplay.tla', 'MC_WriterLifecycleReplay_run.cfg', workers=1, timeout=900,
                   simulate={'num': n, 'file': True}, depth=depth, seed=seed, copy_extra=[cfg])
    try:
        if res['violated']:
            raise vlib.Infra('invariant violated while generating behaviours: %s' % res['out'][-2000:])
        behs = vlib.behaviours(res)
        if len(behs) < n // 2:
            raise vlib.Infra('TLC wrote only %d behaviours:\n%s' % (len(behs), res['out'][-1500:]))
        return behs, res.get('generated', 0)
    finally:
        shutil.rmtree(os.path.dirname(cfg), ignore_errors=True)
        vlib.tlc_cleanup(res)


def sig_of_replay(v):
    return 'replay|%s|%s' % (v['action'], v['sig'])


# ------------------------------------------------------------------------------------------------ traces
TRACE_CFG = 'SPECIFICATION TraceSpec\n%(common)s' \
            'INVARIANTS QueuedOnceInItsPool PendingIffQueued NamedNodeObeyed SelectionInRange PreferInserting OneLoopPerWorker RunImpliesInit%(extra)s\n' \
            'CONSTRAINT Accept\nVIEW TraceView\n%%(diag)sCHECK_DEADLOCK FALSE\n'


def traces(binp, q, tier, seed):
    nscen = 8 if tier == 'quick' else 60
    chunks = 2 if tier == 'quick' else 10
    viols, stats = [], {'scenarios': 0, 'events': 0, 'requests': 0, 'orphans_recorded': 0, 'tlc_states': 0, 'accepted': 0, 'files': 0, 'event_kinds': {}}
    sample = []
    with cf.ThreadPoolExecutor(max_workers=4) as ex:
        parts = list(ex.map(lambda ch: trace_chunk(binp, q, seed, ch, nscen // chunks), range(chunks)))
    for v, st, sm in parts:
        viols += v
        sample = sample or sm
        for k, x in st.items():
            if isinstance(x, dict):
                for kk, vv in x.items():
                    stats[k][kk] = stats[k].get(kk, 0) + vv
            else:
                stats[k] += x
    if not viols:
        for k in ('Route', 'Append', 'Iter', 'Swap', 'DoCall', 'Release', 'Done', 'StopCall', 'StopRet', 'RunRet', 'PlanFlush', 'InitAgain', 'RunAgain'):
            if not stats['event_kinds'].get(k):
                raise vlib.Infra('recorded traces are vacuous: no %s event' % k)
    return viols, stats, sample


def trace_chunk(binp, q, seed, ch, nscen):
    viols, stats = [], {'scenarios': 0, 'events': 0, 'requests': 0, 'orphans_recorded': 0, 'tlc_states': 0, 'accepted': 0, 'files': 0, 'event_kinds': {}}
    sample = []
    for ch in [ch]:
        sd = vlib.scratch('x03tr')
        try:
            tp, mp = os.path.join(sd, 'trace.ndjson'), os.path.join(sd, 'meta.json')
            r = vlib.run_cmd([binp, 'trace', '-out', tp, '-meta', mp, '-seed', str(seed * 100 + ch), '-scenarios', str(nscen)], timeout=600)
            if r.returncode != 0 or not os.path.exists(mp):
                raise vlib.Infra('x03 trace failed: ' + (r.stdout + r.stderr)[-3000:])
            meta = json.load(open(mp))
            if meta['max_reqs'] > len(REQS):
                raise vlib.Infra('recorded scenario has more pushes than the trace model')
            stats['files'] += 1
            for k in ('scenarios', 'events', 'requests'):
                stats[k] += meta[k]
            stats['orphans_recorded'] += meta['orphans']
            for k, v in meta['event_kinds'].items():
                stats['event_kinds'][k] = stats['event_kinds'].get(k, 0) + v
            if not sample:
                lines = open(tp).read().splitlines()
                sample = [json.loads(x) for x in lines[15:33]]
            cfg_text = TRACE_CFG % {'common': cfg_common(q, rg=2), 'extra': ''}
            ok, detail, st = vlib.validate_trace(SPECDIR, 'Trace_WriterLifecycle.tla', cfg_text, tp, timeout=900)
            stats['tlc_states'] += st['states']
            if ok:
                stats['accepted'] += meta['scenarios']
            else:
                lines = open(tp).read().splitlines()
                ln = detail.get('line', len(lines))
                evname = ''
                if detail['kind'] == 'rejected':
                    try:
                        evname = json.loads(detail.get('event', '{}')).get('ev', '?')
                    except ValueError:
                        evname = 'end'
                sig = 'trace|' + detail['kind'] + '|' + (detail.get('invariant') or evname)
                rp = vlib.save_replay(PID, 'trace_seed%d_%d' % (seed, ch), {'kind': 'trace-validation', 'quirks': q, 'detail': detail,
                                                                           'trace_prefix': [json.loads(x) for x in lines[max(0, ln - 60):ln]]})
                viols.append({'property': PID, 'signature': sig, 'replay': rp,
                              'msg': 'a recorded free-running execution of the registry / insert services is not a behaviour of WriterLifecycle (quirks %s): %s'
                                     % ([k for k in q if q[k]], json.dumps(detail)[:600])})
        finally:
            shutil.rmtree(sd, ignore_errors=True)
    return viols, stats, sample


# ------------------------------------------------------------------------------------------------ watchdog, real time
def wd_plans(tier, seed):
    res = vlib.tlc(SPECDIR, 'MC_WriterLifecycleWD.tla', 'MC_WriterLifecycleWD_live.cfg', workers=1, timeout=600,
                   simulate={'num': 300, 'file': True}, depth=60, seed=seed)
    try:
        behs = vlib.behaviours(res)
    finally:
        vlib.tlc_cleanup(res)
    T, P = 7, 5
    plans, classes = [], {}
    for b in behs:
        events, exit_tick, robust, last_up = [], -1, True, -99
        for i in range(1, len(b)):
            pre, post = b[i - 1]['state'], b[i]['state']
            if pre['up'] != post['up']:
                ev = 'down' if pre['up']['n1'] else 'up'
                events.append({'t': pre['now'] + 0.5, 'ev': ev})
                if ev == 'up':
                    last_up = pre['now']
            if not pre['wdDone'] and post['wdDone']:
                # a Check at instant pre['now']: robust against the one-to-two second ping rhythm of the real workers
                for sv, l in pre['last'].items():
                    age = pre['now'] - l
                    if not (age >= T + 1 or age <= T - 3):
                        robust = False
                if pre['now'] - last_up < 4:
                    robust = False
            if post['wdExited'] and not pre['wdExited']:
                exit_tick = pre['now']
        if not robust:
            continue
        if exit_tick >= 0:
            dur = exit_tick + 6.5
        else:
            if b[-1]['state']['now'] < 16:
                continue       # (the behaviour was cut short)
            dur = 11.5 if (not events or events[-1]['t'] <= 6.5) else 16.5
        cls = (tuple(e['ev'] for e in events), exit_tick, tuple(e['t'] for e in events))
        classes.setdefault(cls, []).append({'events': events, 'exit_tick': exit_tick, 'duration': dur})
    want = 4 if tier == 'quick' else 10
    keys = sorted(classes, key=lambda c: (len(c[0]), c[1]))
    exits = sorted([k for k in keys if k[1] >= 0], key=lambda c: (c[1], len(c[0])))
    quiet = [k for k in keys if k[1] < 0 and len(k[0]) == 0]
    back = [k for k in keys if k[1] < 0 and len(k[0]) > 0
            and any(classes[k][0]['events'][x + 1]['t'] - classes[k][0]['events'][x]['t'] >= 2 for x in range(len(k[0]) - 1))]
    chosen = []

    def rot(l):
        return l[seed % len(l):] + l[:seed % len(l)] if l else l
    early, late = rot([k for k in exits if k[1] <= 10]), rot([k for k in exits if k[1] > 10])
    back = rot(back)
    for group in (early[:1], quiet[:1], back[:1], late[:1], early[1:], back[1:], late[1:]):
        for k in group:
            if k not in chosen and len(chosen) < want:
                chosen.append(k)
    flav = ['idle', 'load', 'slow']
    for i, k in enumerate(chosen):
        p = dict(classes[k][seed % len(classes[k])])
        p.update({'id': i, 'wt': 1, 'flavour': flav[(i + seed) % 3] if k[1] < 0 and len(k[0]) == 0 else flav[(i + seed) % 2]})
        plans.append(p)
    if not any(p['exit_tick'] >= 0 for p in plans) or not any(p['exit_tick'] < 0 for p in plans):
        raise vlib.Infra('watchdog scenario generation is vacuous: %r' % [(p['events'], p['exit_tick']) for p in plans])
    return plans, len(behs)


def wd_live(binp, plans, seed):
    viols, results = wd_live_once(binp, plans, seed)
    if viols:
        # real time on a loaded machine: a scenario that disagrees is run once more and must disagree again
        bad = [p for p in plans if any(v['replay'].endswith('_%d.json' % p['id']) for v in viols)]
        v2, r2 = wd_live_once(binp, bad, seed)
        keep = {x['replay'] for x in v2}
        viols = [v for v in viols if v['replay'] in keep]
    return viols, results


def wd_live_once(binp, plans, seed):
    sd = vlib.scratch('x03wd')
    try:
        inp, outp = os.path.join(sd, 'in.json'), os.path.join(sd, 'out.json')
        json.dump(plans, open(inp, 'w'))
        r = vlib.run_cmd([binp, 'wd', '-in', inp, '-out', outp, '-seed', str(seed), '-par', '12'], timeout=600)
        if r.returncode != 0 or not os.path.exists(outp):
            raise vlib.Infra('x03 wd failed: ' + (r.stdout + r.stderr)[-2000:] + (open(outp).read()[-2000:] if os.path.exists(outp) else ''))
        out = json.load(open(outp))
    finally:
        shutil.rmtree(sd, ignore_errors=True)
    viols = []
    for p, o in zip(plans, out['results']):
        want_exit = p['exit_tick'] >= 0
        sig = None
        if o.get('note', '').startswith('panic'):
            rp = vlib.save_replay(PID, 'wd_live_panic_%d' % p['id'], {'kind': 'real-time watchdog scenario (child process)', 'plan': p, 'observed': o})
            viols.append({'property': PID, 'signature': 'panic|wd-live', 'replay': rp, 'msg': o['note']})
            continue
        if want_exit and not o['exited']:
            sig = 'wd-live|no-exit-although-database-gone'
        elif not want_exit and o['exited']:
            sig = 'wd-live|exit-although-refreshed|' + p['flavour']
        elif want_exit and abs(o['exit_at'] - p['exit_tick']) > 1.2:
            sig = 'wd-live|exit-at-another-check'
        if sig:
            rp = vlib.save_replay(PID, 'wd_live_%d' % p['id'], {'kind': 'real-time watchdog scenario (child process)', 'plan': p, 'observed': o})
            viols.append({'property': PID, 'signature': sig, 'replay': rp,
                          'msg': 'watchdog scenario %s (%s): model says %s, the process %s' % (
                              p['events'], p['flavour'], ('terminate at the check of second %d' % p['exit_tick']) if want_exit else 'survive',
                              ('terminated at %.1f s (code %d)' % (o['exit_at'], o['exit_code'])) if o['exited'] else 'survived %.1f s' % p['duration'])})
    return viols, out['results']


# ------------------------------------------------------------------------------------------------ run
def run(tier):
    seed = vlib.seed()
    binp = vlib.go_build('cmd/x03', 'x03')
    viols = []
    with cf.ThreadPoolExecutor(max_workers=3) as ex:
        f_mc = ex.submit(model_check, tier)
        f_wdplans = ex.submit(wd_plans, tier, seed)
        cases = export_cases()
        plans, wd_behs = f_wdplans.result()
        f_wd = ex.submit(wd_live, binp, plans, seed)
        # rule cases -> quirk set of the routing rules
        v, quirks, case_stats, case_sample = run_cases(binp, cases, seed)
        viols += v
        # probe: the NoOrphan counterexample on the real services
        exhibited, cex_steps, cex_run, mismatch = probe_orphan(binp, seed)
        quirks['QOrphan'] = exhibited
        if exhibited:
            rp = vlib.save_replay(PID, 'cex_NoOrphan', {'kind': 'TLC counterexample (MC_WriterLifecycleReplay, QOrphan on) replayed on the real services',
                                                        'schedule': cex_steps, 'observed': 'every step conforms; the promise is still pending after Run() has returned'})
            viols.append({'property': PID, 'signature': 'NoOrphan|stop-with-queued-promise', 'replay': rp,
                          'msg': 'Stop() while a push is queued: the worker goroutine returns on ctx.Done with the promise still in svc.results; Run() returns, '
                                 'the promise is never completed (schedule: %s)' % ' ; '.join('%s%s' % (s['action'], json.dumps(s['args'])) for s in cex_steps)[:700]})
        rq = {k: quirks.get(k, False) for k in QUIRKS}
        # schedule replay with the quirk set the code exhibits
        n = 150 if tier == 'quick' else 2500
        behs, sim_states = gen_behaviours(rq, n, 70, seed)
        out = replay(binp, behs, seed)
        seen = set()
        for x in out.get('violations') or []:
            sig = sig_of_replay(x)
            if sig in seen:
                continue
            seen.add(sig)
            beh = behs[x['behaviour']]
            rp = vlib.save_replay(PID, 'replay_seed%d_b%d' % (seed, x['behaviour']),
                                  {'kind': 'schedule-replay', 'quirks': rq, 'violation': x,
                                   'behaviour': [{'action': s['action'], 'args': s['args']} for s in beh[1:x['step'] + 1]],
                                   'model_state_after': beh[min(x['step'], len(beh) - 1)]['state']})
            viols.append({'property': PID, 'signature': sig, 'msg': x['msg'], 'replay': rp})
        if not out.get('violations'):
            br = out.get('selection_branches', {})
            for need in ('inserting', 'idle', 'any'):
                if not any(k.startswith(need) for k in br):
                    raise vlib.Infra('schedule replay is vacuous: selection branch %r never exercised (%r)' % (need, br))
            for a in ('InitG', 'InitAgainG', 'RunG', 'RunAgainG', 'StopG', 'PlanFlushG', 'RequestG', 'TimerFireG', 'WakeG', 'ExitG', 'SwapG', 'DoReturnG', 'ForceG'):
                if not out['actions'].get(a):
                    raise vlib.Infra('schedule replay is vacuous: action %s never replayed' % a)
            bodies = out.get('insert_body_by_mode', {})
            if len(bodies) != 2:
                raise vlib.Infra('INSERT statements per mode not observed: %r' % bodies)
        def established():
            return [x for x in viols if x['signature'].split('|')[0] in ('replay', 'cases', 'trace', 'wd-live', 'panic')]
        # free-running traces
        try:
            tv, tstats, tsample = traces(binp, rq, tier, seed)
            viols += tv
        except vlib.Infra as e:
            if not established():
                raise
            tstats, tsample = {'aborted': str(e)[:300], 'scenarios': 0, 'tlc_states': 0}, []
        try:
            wv, wd_results = f_wd.result()
            viols += wv
        except vlib.Infra as e:
            if not established():
                raise
            wd_results = [{'aborted': str(e)[:300]}] * len(plans)
        mc = f_mc.result()
    cov = {
        'states': sum(m['states'] for m in mc) + cex_run['states'] + tstats['tlc_states'],
        'transitions': sum(m['transitions'] for m in mc) + cex_run['transitions'] + sim_states,
        'traces_validated_against_impl': out['behaviours'] + 1 + tstats['scenarios'] + case_stats['route_runs'] + case_stats['wd_cases'] + len(plans),
        'samples': [{'replayed_behaviour_prefix': [{'action': s['action'], 'args': s['args']} for s in behs[0][1:20]]},
                    {'NoOrphan_counterexample': cex_steps}, {'rule_case': case_sample}, {'recorded_trace_part': tsample},
                    {'watchdog_scenario': plans[0], 'observed': wd_results[0]}],
        'exhaustive': True,
        'model_check': mc,
        'quirks_exhibited_by_the_code': quirks,
        'cases': case_stats,
        'replay': {k: out.get(k) for k in ('behaviours', 'steps', 'actions', 'blocks', 'selection_branches', 'insert_body_by_mode',
                                           'async_promises_seen_pending_while_do_blocked', 'orphaned_promises_observed')},
        'async_ack': 'INSERT statement identical in both pools: %s; an async-pool promise is completed by releaseWaiting after client.Do returned (%d promises seen '
                     'pending while their Do was blocked)' % (len(set(out.get('insert_body_by_mode', {}).values())) == 1, out.get('async_promises_seen_pending_while_do_blocked', 0)),
        'trace_validation': tstats,
        'watchdog_live': {'behaviours_generated': wd_behs, 'scenarios': [{'plan': p, 'observed': o} for p, o in zip(plans, wd_results)]},
        'checker_cmd': 'tlc MC_WriterLifecycle.tla / MC_WriterLifecycleWD.tla (cfgs above); MC_WriterLifecycleCases -> x03 cases; '
                       'MC_WriterLifecycleReplay (cex + -simulate) -> x03 replay; x03 trace -> Trace_WriterLifecycle; MC_WriterLifecycleWD LiveSpec -> x03 wd',
    }
    return {'level': 'model_checking', 'coverage': cov, 'violations': viols,
            'assumptions': ['fakech stands in for ClickHouse at the ch_wrapper.IChClient seam; a Do on a cancelled context returns an error',
                            'a batch is abstracted to the sequence of pushes queued in it (rows, sizes, retries, reconnects: C01/C02, Batcher.tla)',
                            'the private math/rand sources of registry and round-robin pools are replaced by scripted sources in cases/replay '
                            '(real sources in the recorded traces); INSERT_STATE_CLOSING is forced through the state field (the code never stores it)',
                            'pushes are served after Init (Request/Stop/PlanFlush/GetState on an un-initialised Multimodal service dereference nil)',
                            'watchdog period (5 s) and threshold (2*WriteTimeout+5 s) are not configurable: real-time scenarios use WriteTimeout = 1 s and are '
                            'chosen with a margin of 2 s around every check instant']}

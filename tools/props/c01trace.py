"""Trace validation for C01/C02: record the real ingest path (cmd/c01trace), validate with Trace_Batcher.tla."""
import json
import os
import re
import shutil

import vlib

SPECDIR = os.path.join(vlib.SPEC, 'ingest')

CFG = '''SPECIFICATION TraceSpec
CONSTANTS
  Reqs = {%(reqs)s}
  Svcs = {"ts", "spl"}
  Workers = {%(workers)s}
  MaxRows = 3
  MaxAttempts = %(attempts)d
  MaxQueue = 0
  Sibling <- SibLogs
INVARIANTS AckImpliesInserted PromiseOkImpliesInserted ExhaustedImpliesError BatchMatchesResults PortionMatchesResults NoRowTwice PendingIsQueued
CONSTRAINT Accept
%(diag)sCHECK_DEADLOCK FALSE
'''


def validate(trace_path, workers, attempts, max_reqs, timeout=900, diag=False):
    """Returns (accepted, detail, stats)"""
    sd = vlib.scratch('c01tr')
    try:
        cfgp = os.path.join(sd, 'Trace_Batcher.cfg')
        open(cfgp, 'w').write(CFG % {'reqs': ', '.join('"r%d"' % i for i in range(1, max_reqs + 1)),
                                     'workers': ', '.join(str(i) for i in range(1, workers + 1)), 'attempts': attempts,
                                     'diag': 'CONSTRAINT HighWaterPrint\n' if diag else ''})
        shutil.copy(trace_path, os.path.join(sd, 'trace.ndjson'))
        res = vlib.tlc(SPECDIR, 'Trace_Batcher.tla', 'Trace_Batcher.cfg', workers=1, timeout=timeout,
                       copy_extra=[cfgp, os.path.join(sd, 'trace.ndjson')])
        try:
            out = res['out']
            stats = {'states': res.get('distinct', 0), 'generated': res.get('generated', 0), 'wall_s': round(res['wall'], 1)}
            if res['violated'] and 'TraceAccepted' not in out.split('violated')[0][-200:]:
                m = re.search(r'Invariant ([A-Za-z0-9_]+) is violated', out)
                return False, {'kind': 'invariant', 'invariant': m.group(1) if m else '?', 'tail': out[-3000:]}, stats
            if 'TRACE-ACCEPTED' in out:
                return True, {}, stats
            if 'Model checking completed. No error has been found' in out:
                if not diag:
                    return validate(trace_path, workers, attempts, max_reqs, timeout, diag=True)
                hw = [int(x) for x in re.findall(r'<<"HW", (\d+)>>', out)]
                ln = max(hw) if hw else 1
                lines = open(trace_path).read().splitlines()
                return False, {'kind': 'rejected', 'line': ln, 'event': lines[ln - 1] if ln <= len(lines) else '<end>'}, stats
            raise vlib.Infra('unexpected TLC output in trace validation:\n' + out[-3000:])
        finally:
            vlib.tlc_cleanup(res)
    finally:
        shutil.rmtree(sd, ignore_errors=True)


def run_traces(tier):
    binp = vlib.go_build('cmd/c01trace', 'c01trace')
    seed = vlib.seed()
    configs = [(1, 1), (2, 2), (3, 3)] if tier == 'quick' else [(1, 1), (1, 3), (2, 2), (2, 1), (3, 3), (4, 2)]
    nscen = 12 if tier == 'quick' else 120
    viols = []
    stats = {'configs': [], 'events': 0, 'requests': 0, 'tlc_states': 0}
    traces = 0
    sample = []
    for (w, a) in configs:
        sd = vlib.scratch('c01rec')
        try:
            tp = os.path.join(sd, 'trace.ndjson')
            mp = os.path.join(sd, 'meta.json')
            r = vlib.run_cmd([binp, '-out', tp, '-meta', mp, '-seed', str(seed), '-scenarios', str(nscen),
                              '-workers', str(w), '-attempts', str(a)], timeout=1500)
            if r.returncode != 0 or not os.path.exists(mp):
                raise vlib.Infra('c01trace failed: ' + (r.stdout + r.stderr)[-3000:])
            meta = json.load(open(mp))
            if meta.get('unanswered'):
                evs = [json.loads(x) for x in open(tp)]
                un = [e for e in evs if e.get('ev') == 'Unanswered']
                rp = vlib.save_replay('C01', 'unanswered_seed%d_w%d_a%d' % (seed, w, a), {'kind': 'recorded run', 'workers': w, 'attempts': a,
                                      'unanswered': un, 'events_of_first': [e for e in evs if e.get('r') == un[0]['r']][:40]})
                viols.append({'property': 'C01', 'kind': 'property', 'signature': 'trace|unanswered', 'replay': rp,
                              'msg': '%d push request(s) got no answer within 15 s although the database answered every INSERT' % meta['unanswered']})
                # drop the unanswered requests' tail from validation: the trace up to there is still validated
            ok, detail, st = validate(tp, w, a, max(meta['max_reqs'], 1))
            stats['configs'].append({'workers': w, 'attempts': a, 'scenarios': meta['scenarios'], 'events': meta['events'],
                                     'requests': meta['requests'], 'accepted': ok, 'tlc': st})
            stats['events'] += meta['events']
            stats['requests'] += meta['requests']
            stats['tlc_states'] += st['states']
            traces += meta['scenarios']
            if not sample:
                with open(tp) as f:
                    sample = [json.loads(x) for x in f.readlines()[12:30]]
            if not ok:
                lines = open(tp).read().splitlines()
                ln = detail.get('line', len(lines))
                rp = vlib.save_replay('C01', 'trace_seed%d_w%d_a%d' % (seed, w, a),
                                      {'kind': 'trace-validation', 'workers': w, 'attempts': a, 'detail': detail,
                                       'trace_prefix': [json.loads(x) for x in lines[max(0, ln - 40):ln]]})
                prop = 'C01'
                sig = 'trace|' + detail['kind']
                if detail['kind'] == 'invariant':
                    sig += '|' + detail['invariant']
                    if detail['invariant'] in ('BatchMatchesResults', 'PortionMatchesResults', 'NoRowTwice'):
                        prop = 'C02'
                else:
                    evn = re.search(r'"ev": ?"([A-Za-z]+)"', detail.get('event', ''))
                    sig += '|' + (evn.group(1) if evn else '?')
                    if evn and evn.group(1) == 'DoCall':
                        prop = 'C02'
                viols.append({'property': prop, 'kind': 'property', 'signature': sig, 'replay': rp,
                              'msg': 'recorded execution of the real ingest path is not a behaviour of Batcher.tla: %s' % json.dumps(detail)[:700]})
        finally:
            shutil.rmtree(sd, ignore_errors=True)
    return {'violations': viols, 'traces': traces, 'stats': stats, 'sample': sample}

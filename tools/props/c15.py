"""C15: query responses are always one well-formed document of the documented shape.

spec/query/JsonStream.tla transcribes the streaming JSON writers (streams, tail, matrix, vector, label lists, tempo lists)
as comma/bracket automata over a channel of batches and states the property with a stack automaton over the emitted
tokens.  TLC (1) searches for a counterexample of the unconditional Property at small bounds, (2) enumerates ALL inputs
within the tier's bounds, checks the characterisation (property holds off the `lastFp starts at 0` hazard class, fails
inside it) and exports every case.  harness/cmd/c15 replays every exported case into the REAL writers
(QueryRangeService.QueryRange/QueryInstant/Tail through the planner plugin point; QueryLabelsService and the tempo
controllers over fakesql), parses the real response strictly and compares it with the rows and with the spec's token
string; plus seeded full-stack cases (rows -> real getter batching -> real writers) and the Prometheus writers.
A verdict comes only from a real response."""
import json
import os
import re
import shutil

import vlib

SPECDIR = os.path.join(vlib.SPEC, 'query')

BOUNDS = {
    # writer: (entries, batches, entries on inputs outside the property's domain: error marker / EOF marker inside a batch)
    'quick': {'streams': (5, 3, 3), 'matrix': (5, 3, 3), 'tail': (3, 2, 3), 'vector': (3, 2, 3),
              'labels': (4, 3, 4), 'tags': (4, 3, 4), 'trace': (4, 3, 4), 'traceql': (4, 4, 0)},
    'thorough': {'streams': (6, 3, 4), 'matrix': (6, 3, 4), 'tail': (5, 3, 4), 'vector': (4, 3, 4),
                 'labels': (6, 4, 6), 'tags': (6, 4, 6), 'trace': (6, 4, 6), 'traceql': (6, 5, 0)},
}
SMALL = {w: (2, 2, 2) for w in BOUNDS['quick']}

CFG = '''SPECIFICATION Spec
CONSTANTS
  Bounds <- GenBounds
  MaxTs = 2
  GuardStreams = %(gs)s
  GuardTail = %(gt)s
  GuardMatrix = %(gm)s
INVARIANTS %(inv)s
CHECK_DEADLOCK FALSE
'''


def derive_guards():
    """Does the new-series test of each series writer read `i == 0 || lastFp != e.Fingerprint` (TRUE) or only
    `lastFp != e.Fingerprint` (FALSE)?  Read from the source so that the spec describes the tree under test."""
    p = os.path.join(vlib.REPO, 'reader', 'service', 'queryRangeService.go')
    try:
        src = open(p).read()
    except OSError as e:
        raise vlib.Infra('cannot read %s: %s' % (p, e))
    code = '\n'.join(l for l in src.split('\n') if not l.lstrip().startswith('//'))
    funcs = {}
    for m in re.finditer(r'^func \(q \*QueryRangeService\) (\w+)\(', code, flags=re.M):
        nxt = re.search(r'^func ', code[m.end():], flags=re.M)
        funcs[m.group(1)] = code[m.start():m.end() + (nxt.start() if nxt else len(code))]
    out = {}
    for key, fn in (('streams', 'exportStreamsValue'), ('matrix', 'QueryRange'), ('tail', 'Tail')):
        body = funcs.get(fn)
        if body is None:
            raise vlib.Infra('function %s not found in queryRangeService.go' % fn)
        tests = re.findall(r'if\s+([^\n{]*?)lastFp\s*!=\s*e\.Fingerprint\s*\{', body)
        if len(tests) != 1:
            raise vlib.Infra('cannot locate the new-series test (lastFp != e.Fingerprint) of %s: %d candidates; '
                             'JsonStream.tla must be re-transcribed' % (fn, len(tests)))
        pre = tests[0].replace(' ', '')
        if pre == 'i==0||':
            out[key] = True
        elif pre == '':
            out[key] = False
        else:
            raise vlib.Infra('unrecognised new-series test in %s: %r' % (fn, tests[0]))
    return out


def tla_bool(b):
    return 'TRUE' if b else 'FALSE'


def gen_module(bounds):
    parts = ['"%s" :> <<%d, %d, %d>>' % (w, b[0], b[1], b[2]) for w, b in sorted(bounds.items())]
    return '---- MODULE MC_JsonStreamGen ----\nEXTENDS MC_JsonStream\nGenBounds == %s\n====\n' % ' @@ '.join(parts)


def run_tlc(bounds, guards, inv, timeout, dump=None):
    sd = vlib.scratch('c15mc')
    try:
        mod = os.path.join(sd, 'MC_JsonStreamGen.tla')
        cfg = os.path.join(sd, 'MC_JsonStreamGen.cfg')
        open(mod, 'w').write(gen_module(bounds))
        open(cfg, 'w').write(CFG % {'gs': tla_bool(guards['streams']), 'gt': tla_bool(guards['tail']),
                                    'gm': tla_bool(guards['matrix']), 'inv': inv})
        extra = ['-dumpTrace', 'json', dump] if dump else None
        return vlib.tlc(SPECDIR, 'MC_JsonStreamGen.tla', 'MC_JsonStreamGen.cfg', timeout=timeout, copy_extra=[mod, cfg], extra=extra)
    finally:
        shutil.rmtree(sd, ignore_errors=True)


def entry_code(w, e):
    if e['kind'] == 'eof':
        return 8
    if e['kind'] == 'err':
        return 9
    return 10 * e['ts'] + e['fp'] if w == 'vector' else e['fp']


def small_counterexample(guards):
    """TLC, unconditional Property, tiny bounds: a minimal counterexample of the spec (or none)."""
    sd = vlib.scratch('c15cex')
    try:
        dump = os.path.join(sd, 'cex.json')
        res = run_tlc(SMALL, guards, 'TypeOK Property', 300, dump=dump)
        try:
            st = {'states': res.get('distinct', 0), 'transitions': res.get('generated', 0), 'wall_s': round(res['wall'], 1),
                  'violated': res['violated']}
            if not res['violated']:
                if not res.get('finished'):
                    raise vlib.Infra('TLC did not finish:\n' + res['out'][-2000:])
                return st, None
            if not os.path.exists(dump):
                raise vlib.Infra('TLC reported %s but wrote no counterexample' % res['violated'])
            cx = json.load(open(dump))['counterexample']['state']
            last = cx[-1][1]
            w = last['w']
            inp = [[entry_code(w, e) for e in b] for b in last['hist']]
            return st, {'w': w, 'in': inp, 'invariant': res['violated'][0], 'trace_len': len(cx)}
        finally:
            vlib.tlc_cleanup(res)
    finally:
        shutil.rmtree(sd, ignore_errors=True)


def collapse_signatures(by_sig):
    """A failure signature names the class of string content of the case (endpoint|[general|]<class>|kind).  When cases
    with only plain strings fail in the same way, the content is not to blame: one signature endpoint|...|any|kind."""
    classes = ('plain', 'quote-backslash', 'control', 'invalid-utf8', 'u2028', 'nonprintable-unicode', 'long', 'json-lookalike')
    remap = {}
    for sig in by_sig:
        parts = sig.split('|')
        for i, p_ in enumerate(parts):
            if p_ in classes:
                plain = '|'.join(parts[:i] + ['plain'] + parts[i + 1:])
                if plain in by_sig:
                    remap[sig] = '|'.join(parts[:i] + ['any'] + parts[i + 1:])
                break
    # the fingerprint-0 class of a series case says nothing when the same failure shows on other cases as well
    new = {remap.get(s_, s_) for s_ in by_sig}
    for sig in by_sig:
        parts = sig.split('|')
        if len(parts) == 3 and parts[1] in ('fp0-first', 'fp0-later'):
            cands = sorted(s_ for s_ in new if s_.startswith(parts[0] + '|general|') and s_.endswith('|' + parts[2]))
            if len(cands) == 1:
                remap[sig] = cands[0]
            elif cands:
                remap[sig] = '%s|general|any|%s' % (parts[0], parts[2])
    return remap


_LINE = re.compile(r'^"C15\|(\w+)\|(\w+)\|(.*)"$', flags=re.M)


def enumerate_cases(tier, guards):
    res = run_tlc(BOUNDS[tier], guards, 'TypeOK ExportAndCheck', 600 if tier == 'quick' else 3000)
    try:
        if res['violated']:
            raise vlib.Infra('TLC: the characterisation of JsonStream (property holds off the hazard class, fails inside it, '
                             'Doc is well formed, list writers always close) is violated (%s): a specification problem, '
                             'not a verdict:\n%s' % (res['violated'], res['out'][-3000:]))
        if not res.get('finished') or 'distinct' not in res:
            raise vlib.Infra('TLC did not finish:\n' + res['out'][-2000:])
        cases = {}
        for m in _LINE.finditer(res['out']):
            w, pc, val = m.group(1), m.group(2), m.group(3)
            v = json.loads(val.replace('<<', '[').replace('>>', ']').replace('TRUE', 'true').replace('FALSE', 'false'))
            inp, flags, toks, groups = v
            key = (w, json.dumps(inp))
            if key in cases:   # vector: one terminal state per map iteration order; same input, same verdicts
                continue
            cases[key] = {'w': w, 'in': inp, 'pc': pc, 'ben': flags[0], 'hz': flags[1], 'wf': flags[2], 'cf': flags[3],
                          'toks': toks, 'groups': groups}
        st = {'states': res['distinct'], 'transitions': res['generated'], 'wall_s': round(res['wall'], 1),
              'bounds(entries,batches,entries_outside_domain)': BOUNDS[tier]}
        return st, list(cases.values())
    finally:
        vlib.tlc_cleanup(res)


def run(tier):
    guards = derive_guards()
    binp = vlib.go_build('cmd/c15', 'c15')
    small, cex = small_counterexample(guards)
    mc, cases = enumerate_cases(tier, guards)
    if len(cases) < 1000:
        raise vlib.Infra('only %d cases exported by TLC' % len(cases))
    classes = {}
    for n, c in enumerate(cases):
        c['n'] = n + 1
        k = '%s/%s/%s/%s' % (c['w'], c['pc'], 'benign' if c['ben'] else 'nonbenign', 'ok' if c['wf'] and c['cf'] else 'bad')
        classes[k] = classes.get(k, 0) + 1
    for w_ in BOUNDS[tier]:
        if not classes.get('%s/done/benign/ok' % w_):
            raise vlib.Infra('vacuous: no benign, well-formed case exported for writer %s' % w_)
    spec_bad = [c for c in cases if c['ben'] and c['pc'] == 'done' and not (c['wf'] and c['cf'])]
    cexcase = None
    if cex:
        for c in cases:
            if c['w'] == cex['w'] and c['in'] == cex['in']:
                cexcase = c
                break
        if cexcase is None:
            raise vlib.Infra('the TLC counterexample %s is not among the exported cases' % json.dumps(cex))
    sd = vlib.scratch('c15')
    viols = []
    try:
        cp = os.path.join(sd, 'cases.ndjson')
        with open(cp, 'w') as f:
            for c in cases:
                f.write(json.dumps(c, separators=(',', ':')) + '\n')
        op = os.path.join(sd, 'out.json')
        full = 120 if tier == 'quick' else 2500
        tails = 400 if tier == 'quick' else 4000
        r = vlib.run_cmd([binp, 'run', '-cases', cp, '-out', op, '-seed', str(vlib.seed()), '-full', str(full), '-tail', str(tails)],
                         timeout=900 if tier == 'quick' else 2400)
        if not os.path.exists(op):
            raise vlib.Infra('c15 driver failed (rc=%s): %s' % (r.returncode, (r.stdout + r.stderr)[-3000:]))
        out = json.load(open(op))
        if r.returncode != 0 or out.get('driver_errors'):
            raise vlib.Infra('c15 driver errors (rc=%s): %s %s' % (r.returncode, json.dumps(out.get('driver_errors'))[:2000], r.stderr[-1500:]))
        stats = out['stats']
        # --- violations: real responses that contradict the property
        seen = set()
        remap = collapse_signatures(out['by_signature'])
        by_sig = {}
        for k_, v_ in out['by_signature'].items():
            by_sig[remap.get(k_, k_)] = by_sig.get(remap.get(k_, k_), 0) + v_
        out['by_signature'] = by_sig
        for f in (out.get('failures') or []):
            sig = f['signature'] = remap.get(f['signature'], f['signature'])
            if sig in seen:
                continue
            seen.add(sig)
            name = re.sub(r'[^A-Za-z0-9]+', '_', sig)[:100]
            path = vlib.save_replay('C15', name, {'kind': 'real response of the reader contradicts C15', 'signature': sig,
                                                  'occurrences_in_this_run': out['by_signature'].get(sig), 'failure': f,
                                                  'how_to_replay': 'python3 tools/check.py C15 %s (VERIF_SEED=%d)' % (tier, vlib.seed())})
            viols.append({'property': 'C15', 'signature': sig, 'replay': path,
                          'msg': '%s: %s [%d occurrences]' % (f['endpoint'], f['msg'][:300], out['by_signature'].get(sig, 0))})
        # --- the spec must describe the code (judged only when the real code shows no violation: a real violation wins)
        if not viols:
            if out.get('not_reproduced'):
                raise vlib.Infra('JsonStream.tla predicts a malformed response for %d inputs on which the real response is fine: the '
                                 'specification misrepresents the code: %s' % (stats.get('spec_failure_not_reproduced', 0),
                                                                                json.dumps(out['not_reproduced'][:2])[:1500]))
            if out.get('conformance'):
                raise vlib.Infra('the token string of the real response differs from the specification for %d inputs although the '
                                 'property holds: JsonStream.tla does not describe the code: %s'
                                 % (stats.get('conformance_mismatch', 0), json.dumps(out['conformance'][:2])[:1500]))
            if cexcase is not None:
                raise vlib.Infra('TLC counterexample %s did not reproduce against the real code' % json.dumps(cex))
        elif cexcase is not None and not [s_ for s_ in out['by_signature'] if s_.startswith(cexcase['w'] + '|')]:
            raise vlib.Infra('TLC counterexample %s did not reproduce against the real code' % json.dumps(cex))
        replayed = sum(v for k, v in stats.items() if k.startswith('cases_'))
        want = sum(1 for c in cases if c['w'] in ('streams', 'matrix', 'vector'))
        if stats.get('cases_streams', 0) + stats.get('cases_matrix', 0) + stats.get('cases_vector', 0) != want:
            raise vlib.Infra('driver replayed %d of %d series cases' % (replayed, want))
        want_tq = sum(1 for c in cases if c['w'] == 'traceql')
        if stats.get('traceql_spec_cases', 0) != want_tq:
            raise vlib.Infra('driver replayed %d of %d traceql batch cases' % (stats.get('traceql_spec_cases', 0), want_tq))
        for k_, least in (('prom_ok', 50), ('list_ok', 100), ('fullstack_ok', 50), ('cases_tail', 50)):
            if stats.get(k_, 0) < least:
                raise vlib.Infra('vacuous: %s = %d (< %d)' % (k_, stats.get(k_, 0), least))
        # counters of PASSED cases of one class: a real violation of that class empties them, so judged only on a clean run
        for k_, least in (('traceql_emptybatch_mixed_ok', 30), ('trace_attr_double_ok', 100), ('trace_attr_int_ok', 100)):
            if not viols and stats.get(k_, 0) < least:
                raise vlib.Infra('vacuous: %s = %d (< %d)' % (k_, stats.get(k_, 0), least))
        if stats.get('nontrivial_ok', 0) < 100:
            raise vlib.Infra('vacuous: only %d non-trivial cases passed' % stats.get('nontrivial_ok', 0))
        total = replayed + sum(v for k, v in stats.items() if k.startswith(('fullstack_streams', 'fullstack_matrix', 'fullstack_vector', 'list_loki', 'list_tempo', 'prom_scalar', 'prom_vector', 'prom_matrix')))
        cov = {'states': small['states'] + mc['states'], 'transitions': small['transitions'] + mc['transitions'],
               'traces_validated_against_impl': total,
               'exhaustive': True,
               'samples': (out.get('samples') or [])[:4] + [{'tlc_counterexample_of_Property_at_small_bounds': cex}],
               'guards_derived_from_source(i==0||)': guards,
               'tlc_small_unconditional_property': small,
               'tlc_enumeration': mc,
               'exported_cases': len(cases), 'case_classes': classes,
               'spec_predicts_failure_for_benign_inputs': len(spec_bad),
               'distinct_nontrivial': stats.get('nontrivial_ok', 0),
               'driver_stats': stats,
               'failures_by_signature': out['by_signature'],
               'conformance_mismatches': stats.get('conformance_mismatch', 0),
               'spec_failures_not_reproduced': stats.get('spec_failure_not_reproduced', 0),
               'checker_cmd': 'tlc MC_JsonStream (Property @small bounds; ExportAndCheck @tier bounds) -> c15 run'}
        return {'level': 'model_checking', 'coverage': cov, 'violations': viols,
                'assumptions': [
                    'the property is demanded for result sets: batches of rows, EOF markers only as the last entry of a batch (where '
                    'ClickhouseGetterPlanner puts them), no error marker; error paths and EOF markers in the middle of a batch are '
                    'checked for conformance with the spec only',
                    'timestamps reaching the matrix writer are multiples of 1 ms (second-aligned start + k * step[ms]) and those '
                    'reaching the vector writer are fed as whole seconds; "without loss" is demanded for these',
                    'stored strings that are not valid UTF-8 cannot be represented in JSON: the check accepts what encoding/json '
                    'decodes (U+FFFD per invalid byte); raw invalid bytes in the body are counted, not judged',
                    'series label documents handed to the series endpoint are valid JSON objects (as the writer stores them)',
                    'the TraceQL branch of Search is driven through the ITempoService seam: the real TempoService with SearchTraceQL '
                    'replaced by a producer that delivers exactly the batches of the case (the real producers send one-trace batches '
                    'or one batch; the property quantifies over all batchings); its traces carry finite durations (json.Marshal '
                    'rejects NaN/Inf and the handler ignores that error: not judged)',
                    'attribute values of the trace-by-id document are strings by the shape of JSONSpanAttribute: "without loss" is '
                    'demanded as: the text parses back to the stored bool / int64 / float64 (bit-identical, NaN as NaN) / bytes (base64)',
                    'TagsV2 / ValuesV2 (encoding/json.Marshal of a whole value) and the protobuf branch of Trace are not covered']}
    finally:
        shutil.rmtree(sd, ignore_errors=True)

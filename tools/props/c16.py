"""C16: profile call trees conserve weight from ingest to flame graph.

ProfTree.tla (writer walk / node identity / reader MergeTrie / BFS as operators, plus their order-free definitions) is
model-checked by TLC over ALL small cases (sequences of profiles, each a bag of (stack, values) samples): conservation,
root sums, merge = build of the union in every order, layout mechanism = definition, bars nest.  Every reachable state is
a case; TLC prints the case with the spec's expected trees / merged tree / layouts (MC_ProfTree!Export); harness/cmd/c16
concretises each case into real pprof profiles, pushes them through the REAL /ingest parsers and the REAL reader
MergeTrie + BFS in many profile/row orders, and compares.  A seeded sample of the non-canonical row orders with what the
real code produced is validated by TLC against the spec (MC_ProfTreeObs).

The second merge of stored profiles -- the pprof PAYLOADS, merged by the reader's ProfileMergeV2 after sanitizeProfile (what
SelectMergeProfile answers) -- is in the spec as PMergeMech / PMergeDef (PayloadMergeEqDef in every order of the profiles,
PayloadMergeSum, PayloadMergeTree: the merged payload's call tree is the merged tree); every case carries the expected merged
payload (one value vector per stack) and the driver merges the real stored payloads in every order of the profiles and
compares stack by stack.  The frames are realised in every location class of ProfTree!LocClasses (no mapping, a mapping
with a dense or a sparse id, a second mapping; none / some / all locations of a profile mapped).

Depth: the spec has the level clamp of getNodeId as a constant (LevelCap) and enumerates stacks below / at / beyond it;
it defines depth stretching (every level of every call path becomes a chain of R[l] frames: recursion, mutual recursion
or distinct functions) and TLC proves on the small cases that building, merging and laying out commute with it
(StretchHom, StretchLayout).  The driver runs a seeded part of the cases (and all of the cases of the configurations
marked deep) a second time stretched by that map to REAL depths: the abstract level LevelCap becomes the writer's real
level clamp (probed from the node ids; 511) or its neighbours / other bit-width boundaries, the levels beyond it 1 to
thousands of frames; the real stored tree, merged tree, totals and layout are compared with the stretched expectation
and the statement's conservation / root-sum clauses are read off the real rows directly."""
import concurrent.futures
import json
import os
import re
import shutil
import time

import vlib

SPECDIR = os.path.join(vlib.SPEC, 'ingest')

INVS = ('BuildMechEqDef TreeWellFormed Conservation RootSumStacked MergeEqBuildUnion MergeCommAssoc ReaderMergeEqDef '
        'PayloadMergeEqDef PayloadMergeSum PayloadMergeTree RowsCommute FlameTotals LayoutMechEqDef LayoutNested KeyInjective SelfSumStacked StretchHom StretchLayout Export')

CFG = '''SPECIFICATION Spec
CONSTANTS
  FnSeq <- %(fn)s
  K = %(K)d
  MaxDepth = %(depth)d
  LevelCap = %(cap)d
  StretchPlans <- %(plans)s
  MinVal = %(minv)d
  MaxVal = %(maxv)d
  MaxProfiles = %(P)d
  MaxSamples = %(S)d
  MaxTotal = %(T)d
  ExportMod = %(mod)d
  ExportSeed = %(seed)d
INVARIANTS %(invs)s
CHECK_DEADLOCK FALSE
'''

CFG_OBS = '''SPECIFICATION ObsSpec
CONSTANTS
  FnSeq <- MCFnObs
  K = %(K)d
  MaxDepth = 9
  LevelCap = 2
  StretchPlans <- MCNoPlans
  MinVal = 0
  MaxVal = 9
  MaxProfiles = 9
  MaxSamples = 9
  MaxTotal = 9
INVARIANTS ObsChecked BuildMechEqDef Conservation MergeEqBuildUnion
CHECK_DEADLOCK FALSE
'''

# name -> bounds; mod = export every mod-th case (by CaseHash + seed), workers = TLC worker threads; cap = LevelCap (the
# abstract level that stands for the level clamp of the node ids: stacks of depth < cap, = cap, > cap are all enumerated);
# plans = the stretch plans StretchHom / StretchLayout are checked for (default none); deep = every deep-th case of the
# configuration (by content hash and seed) is also replayed depth-stretched (of the others: every DEEPMOD-th)
CONFIGS = {
    'quick': [
        # one profile, <= 3 samples, depth <= 3 over 2 functions (recursion + shared frames), values 1..2: 5457 cases
        # (zero values: config M2 holds every single profile of <= 2 samples with values 0..2; thorough S3 has 0..2 x 3 samples)
        ('S3', dict(fn='MCFn2', K=1, depth=3, minv=1, maxv=2, P=1, S=3, T=3, mod=1, workers=6)),
        # two sample types
        ('K2', dict(fn='MCFn2', K=2, depth=3, minv=0, maxv=1, P=1, S=2, T=2, mod=1, workers=2)),
        # two profiles, all merge orders
        ('M2', dict(fn='MCFn2', K=1, depth=3, minv=0, maxv=2, P=2, S=2, T=2, mod=1, workers=3)),
        # three profiles
        ('M3', dict(fn='MCFn2', K=1, depth=3, minv=1, maxv=1, P=3, S=1, T=3, mod=1, workers=3)),
        # the depth dimension: stacks up to two levels beyond the clamp level, stretching commutes with build/merge/layout
        ('D4', dict(fn='MCFn2', K=1, depth=4, cap=2, plans='MCPlans5', minv=1, maxv=1, P=1, S=2, T=2, mod=1, workers=3, deep=4)),
        # two sample types, two profiles, all three stretch plans
        ('H3', dict(fn='MCFn2', K=2, depth=3, cap=2, plans='MCPlans3', minv=1, maxv=1, P=2, S=1, T=2, mod=1, workers=2, deep=2)),
    ],
    'thorough': [
        ('S3', dict(fn='MCFn2', K=1, depth=3, minv=0, maxv=2, P=1, S=3, T=3, mod=2, workers=8)),
        ('S4', dict(fn='MCFn2', K=1, depth=3, minv=1, maxv=2, P=1, S=4, T=4, mod=4, workers=8)),
        ('K2', dict(fn='MCFn2', K=2, depth=3, minv=0, maxv=1, P=1, S=3, T=3, mod=3, workers=8)),
        ('K2v', dict(fn='MCFn2', K=2, depth=3, minv=0, maxv=2, P=1, S=2, T=2, mod=1, workers=8)),
        ('M2', dict(fn='MCFn2', K=1, depth=3, minv=1, maxv=2, P=2, S=3, T=3, mod=3, workers=8)),
        ('M2z', dict(fn='MCFn2', K=1, depth=3, minv=0, maxv=2, P=2, S=2, T=2, mod=1, workers=8)),
        ('M3', dict(fn='MCFn2', K=1, depth=3, minv=1, maxv=2, P=3, S=1, T=3, mod=2, workers=8)),
        ('M3b', dict(fn='MCFn2', K=1, depth=3, minv=1, maxv=1, P=3, S=2, T=3, mod=2, workers=8)),
        ('M2K2', dict(fn='MCFn2', K=2, depth=2, minv=0, maxv=1, P=2, S=2, T=3, mod=2, workers=8)),
        ('D4', dict(fn='MCFn2', K=1, depth=4, minv=1, maxv=2, P=1, S=3, T=3, mod=3, workers=8)),
        ('F3', dict(fn='MCFn3', K=1, depth=3, minv=1, maxv=1, P=2, S=2, T=3, mod=4, workers=8)),
        ('D5', dict(fn='MCFn2', K=1, depth=5, cap=3, plans='MCPlans5', minv=1, maxv=2, P=1, S=2, T=2, mod=2, workers=8, deep=4)),
        ('D5m', dict(fn='MCFn2', K=1, depth=5, cap=3, plans='MCPlans5', minv=1, maxv=1, P=2, S=1, T=2, mod=1, workers=8, deep=4)),
        ('H3', dict(fn='MCFn2', K=2, depth=3, cap=2, plans='MCPlans3', minv=0, maxv=1, P=2, S=2, T=2, mod=2, workers=8, deep=4)),
        ('H3s', dict(fn='MCFn2', K=1, depth=3, cap=2, plans='MCPlans3', minv=1, maxv=2, P=1, S=3, T=3, mod=4, workers=8, deep=4)),
    ],
}
# the statement's root-sum clause on ALL samples (empty stacks included): expected to yield a candidate counterexample
ROOTSUM = dict(fn='MCFn2', K=1, depth=1, minv=0, maxv=1, P=1, S=2, T=2, mod=0, workers=1)

CLASSES_REQUIRED = ['empty_stack_sample', 'recursive_stack', 'sample_with_lineless_location', 'multi_profile_case',
                    'merge_with_shared_nodes', 'node_with_self_and_children', 'cases_with_all_row_orders',
                    'profile_without_samples',
                    # the depth dimension
                    'stretched_cases', 'stretched_cases_through_reader', 'abstract_stack_below_cap', 'abstract_stack_at_cap',
                    'abstract_stack_beyond_cap', 'real_stack_below_level_clamp', 'real_stack_at_level_clamp',
                    'real_stack_one_beyond_level_clamp', 'real_stack_beyond_level_clamp', 'real_stack_of_thousands_of_frames',
                    'level_stretched_by_recursion', 'level_stretched_by_distinct_functions',
                    'level_stretched_by_mutual_recursion',
                    # the merge of the stored payloads (ProfTree!PayloadMerged) over every location class (ProfTree!LocClasses)
                    'payload_merge_runs', 'payload_stacks_compared', 'payload_location_unmapped', 'payload_location_mapped',
                    'payload_location_sparse_mapping_id', 'payload_location_second_mapping']
DEEPMOD = {'quick': 96, 'thorough': 32}
DEFAULTS = dict(cap=2, plans='MCNoPlans', deep=0)

_CASE = re.compile(r'^<<"C16CASE", (".*")>>$')


def _tlc_config(name, c, invs, sd, timeout, dump=None):
    cfgp = os.path.join(sd, 'MC_ProfTree_%s.cfg' % name)
    d = dict(DEFAULTS)
    d.update(c)
    d['seed'] = vlib.seed() % max(1, c['mod'])
    d['invs'] = invs
    open(cfgp, 'w').write(CFG % d)
    extra = ['-dumpTrace', 'json', dump] if dump else None
    return vlib.tlc(SPECDIR, 'MC_ProfTree.tla', os.path.basename(cfgp), workers=c['workers'], timeout=timeout,
                    copy_extra=[cfgp], extra=extra)


def _model_check(name, c, sd, casefile_dir, timeout):
    res = _tlc_config(name, c, INVS, sd, timeout)
    try:
        if res['violated']:
            raise vlib.Infra('TLC reports %s on ProfTree.tla (config %s): the specification is inconsistent with itself; '
                             'nothing was run against the code:\n%s' % (res['violated'], name, res['out'][-2500:].replace('C16CASE', 'case')))
        if not res.get('finished') or 'Model checking completed' not in res['out']:
            raise vlib.Infra('TLC did not finish config %s: %s' % (name, res['out'][-1500:]))
        n = 0
        path = os.path.join(casefile_dir, 'cases_%s.ndjson' % name)
        lines = []
        with open(path, 'w') as o:
            for line in res['out'].splitlines():
                m = _CASE.match(line)
                if not m:
                    continue
                try:
                    case = json.loads(json.loads(m.group(1)))
                except ValueError as e:
                    raise vlib.Infra('cannot parse an exported case of %s: %s: %s' % (name, e, line[:300]))
                case['cfg'] = name
                if c.get('deep'):
                    case['deep'] = c['deep']
                lines.append(json.dumps(case))
                n += 1
            if n == 0 or (c['mod'] > 1 and n < res.get('distinct', 0) // (4 * c['mod'])):
                raise vlib.Infra('config %s exported %d of %d cases (mod %d): export sampling is degenerate' % (name, n, res.get('distinct', 0), c['mod']))
            lines.sort()    # TLC's workers print in a scheduling-dependent order
            o.write('\n'.join(lines) + ('\n' if lines else ''))
        return {'config': name, 'bounds': {k: v for k, v in dict(DEFAULTS, **c).items() if k != 'workers'}, 'states': res.get('distinct', 0),
                'transitions': res.get('generated', 0), 'exported': n, 'wall_s': round(res['wall'], 1), 'cases': path}
    finally:
        vlib.tlc_cleanup(res)


def _rootsum_candidate(sd):
    dump = os.path.join(sd, 'rootsum_cex.json')
    res = _tlc_config('ROOTSUM', ROOTSUM, 'RootSumAll', sd, 300, dump=dump)
    try:
        out = {'states': res.get('distinct', 0), 'violated': res['violated'], 'candidate': None}
        if res['violated']:
            if not os.path.exists(dump):
                raise vlib.Infra('TLC reported %s but wrote no counterexample' % res['violated'])
            sts = json.load(open(dump)).get('counterexample', {}).get('state', [])
            last = sts[-1][1] if sts else {}
            out['candidate'] = {'invariant': res['violated'][0], 'profs': str(last.get('profs'))[:400], 'stored': str(last.get('stored'))[:400]}
        elif not res.get('finished'):
            raise vlib.Infra('TLC did not finish the root-sum run: ' + res['out'][-1500:])
        return out
    finally:
        vlib.tlc_cleanup(res)


def _validate_obs(k, obsfile, sd, timeout):
    od = os.path.join(sd, 'obs_k%d' % k)
    os.makedirs(od, exist_ok=True)
    shutil.copy(obsfile, os.path.join(od, 'obs.ndjson'))
    cfgp = os.path.join(od, 'MC_ProfTreeObs_k%d.cfg' % k)
    open(cfgp, 'w').write(CFG_OBS % {'K': k})
    n = sum(1 for l in open(obsfile) if l.strip())
    if n == 0:
        return {'k': k, 'observations': 0, 'rejected': [], 'states': 0, 'transitions': 0}
    res = vlib.tlc(SPECDIR, 'MC_ProfTreeObs.tla', os.path.basename(cfgp), workers=8, timeout=timeout,
                   copy_extra=[cfgp, os.path.join(od, 'obs.ndjson')])
    try:
        if res['violated']:
            raise vlib.Infra('TLC reports %s while validating observations (K=%d): spec-level invariant broken on a recorded '
                             'case:\n%s' % (res['violated'], k, res['out'][-2500:]))
        if 'Model checking completed' not in res['out'] or res.get('distinct', 0) != n:
            raise vlib.Infra('observation validation (K=%d) did not cover the %d observations: %s' % (k, n, res['out'][-1500:]))
        rej = []
        for m in re.finditer(r'^<<"OBS-REJECT", (\d+), (".*")>>$', res['out'], flags=re.M):
            try:
                exp = json.loads(json.loads(m.group(2)))
            except ValueError:
                exp = m.group(2)
            rej.append((int(m.group(1)), exp))
        return {'k': k, 'observations': n, 'rejected': rej, 'states': res.get('distinct', 0), 'transitions': res.get('generated', 0),
                'wall_s': round(res['wall'], 1)}
    finally:
        vlib.tlc_cleanup(res)


def run(tier):
    sd = vlib.scratch('c16')
    viols = []
    try:
        configs = CONFIGS[tier]
        t0 = time.time()
        phases = {}
        tmo = 300 if tier == 'quick' else 3000
        with concurrent.futures.ThreadPoolExecutor(max_workers=len(configs) + 2) as ex:
            fb = ex.submit(vlib.go_build, 'cmd/c16', 'c16')
            fr = ex.submit(_rootsum_candidate, sd)
            if tier == 'quick':
                futs = [ex.submit(_model_check, n, c, sd, sd, tmo) for n, c in configs]
                mcs = [f.result() for f in futs]
            else:   # the thorough configurations use 8 workers each: two at a time
                mcs = []
                with concurrent.futures.ThreadPoolExecutor(max_workers=2) as ex2:
                    futs = [ex2.submit(_model_check, n, c, sd, sd, tmo) for n, c in configs]
                    mcs = [f.result() for f in futs]
            binp = fb.result()
            rootsum = fr.result()
        phases['tlc_enumeration'] = round(time.time() - t0, 1)
        # ---- replay all exported cases into the real code
        allcases = os.path.join(sd, 'cases.ndjson')
        with open(allcases, 'w') as o:
            for mc in sorted(mcs, key=lambda m: 0 if m['bounds'].get('deep') else 1):   # the stretched (long) cases first
                cp = mc.pop('cases')
                with open(cp) as f:
                    shutil.copyfileobj(f, o)
                os.remove(cp)
        ncases = sum(mc['exported'] for mc in mcs)
        if ncases == 0:
            raise vlib.Infra('no case exported by TLC')
        obsdir = os.path.join(sd, 'obs')
        os.makedirs(obsdir)
        resp = os.path.join(sd, 'result.json')
        args = [binp, 'run', '-cases', allcases, '-out', resp, '-obs', obsdir, '-seed', str(vlib.seed()), '-deepmod', str(DEEPMOD[tier])]
        args += ['-permmax', '6', '-allperms', '24', '-obsmax', '1500'] if tier == 'quick' else ['-permmax', '24', '-allperms', '120', '-obsmax', '8000']
        t1 = time.time()
        r = vlib.run_cmd(args, timeout=600 if tier == 'quick' else 3000)
        phases['driver'] = round(time.time() - t1, 1)
        t1 = time.time()
        if r.returncode != 0 or not os.path.exists(resp):
            raise vlib.Infra('c16 driver failed (rc %s): %s' % (r.returncode, (r.stdout + r.stderr)[-3000:]))
        result = json.load(open(resp))
        if result['cases'] != ncases:
            raise vlib.Infra('driver ran %d of %d cases' % (result['cases'], ncases))
        missing = [c for c in CLASSES_REQUIRED if result['classes'].get(c, 0) == 0]
        if missing or result['distinct_nontrivial'] < ncases // 2 or result['merge_runs'] < ncases:
            raise vlib.Infra('vacuous coverage: classes never exercised %s (classes %s, non-trivial %d of %d)' % (
                missing, result['classes'], result['distinct_nontrivial'], ncases))
        nth = {}
        for m in result['mismatches']:
            sig = m['signature']
            nth[sig] = nth.get(sig, 0) + 1
            path = vlib.save_replay('C16', re.sub(r'[^A-Za-z0-9]+', '_', sig)[:80] + '_%d' % nth[sig],
                                    {'kind': 'TLC case replayed into the real profile parsers and reader tree code (harness/cmd/c16)',
                                     'seed': vlib.seed(), 'tier': tier, 'mismatch': m,
                                     'occurrences_in_this_run': result['mismatch_counts'].get(sig)})
            viols.append({'property': 'C16', 'signature': sig, 'msg': '%s (%d occurrences) abstract=%s concrete=%s' % (
                m['msg'], result['mismatch_counts'].get(sig, 1), json.dumps(m['abstract'])[:300], json.dumps(m['concrete'], ensure_ascii=False)[:300]),
                'replay': path})
        # the spec-level candidate for the statement's root-sum clause must be a behaviour of the real code
        real_rootsum = [s for s in result['mismatch_counts'] if s.startswith('root_sum')]
        if rootsum['candidate'] and not real_rootsum:
            raise vlib.Infra('TLC violates RootSumAll on ProfTree.tla (%s) but no run of the real writer reproduces it: the '
                             'specification misrepresents the code' % json.dumps(rootsum['candidate']))
        # ---- observations of the real reader validated by TLC
        obsres = []
        nobs = 0
        with concurrent.futures.ThreadPoolExecutor(max_workers=3) as ex:
            ofuts = {k: ex.submit(_validate_obs, k, os.path.join(obsdir, 'obs_k%d.ndjson' % k), sd, tmo)
                     for k in (1, 2, 3) if os.path.exists(os.path.join(obsdir, 'obs_k%d.ndjson' % k))}
            odone = {k: f.result() for k, f in ofuts.items()}
        for k in sorted(odone):
            p = os.path.join(obsdir, 'obs_k%d.ndjson' % k)
            o = odone[k]
            lines = open(p).read().splitlines()
            for (idx, exp) in o['rejected']:
                ob = json.loads(lines[idx - 1])
                okind = ob['order'].split(':')[0]
                sig = 'obs_rejected|' + okind
                nth[sig] = nth.get(sig, 0) + 1
                if nth[sig] > 3:
                    continue
                path = vlib.save_replay('C16', 'obs_rejected_%s_%d' % (okind, nth[sig]),
                                        {'kind': 'observation of the real MergeTrie/BFS rejected by TLC (MC_ProfTreeObs)', 'seed': vlib.seed(),
                                         'observation': ob, 'spec_expected': exp})
                viols.append({'property': 'C16', 'signature': sig, 'replay': path,
                              'msg': 'rows fed in order %s: real levels/tree %s differ from the spec %s' % (
                                  ob['order'], json.dumps(ob['levels'])[:300], json.dumps(exp)[:300])})
            nobs += o['observations'] - len(o['rejected'])
            o['rejected'] = len(o['rejected'])
            obsres.append(o)
        phases['tlc_observations'] = round(time.time() - t1, 1)
        if nobs == 0 and not viols:
            raise vlib.Infra('no observation of the real reader was validated')
        sample = result.get('sample')
        cov = {'states': sum(mc['states'] for mc in mcs) + sum(o['states'] for o in obsres),
               'transitions': sum(mc['transitions'] for mc in mcs) + sum(o['transitions'] for o in obsres),
               'traces_validated_against_impl': ncases + nobs,
               'samples': [sample] if sample else [result['mismatches'][0] if result['mismatches'] else {'cases': ncases}],
               'exhaustive': all(mc['bounds']['mod'] == 1 for mc in mcs),
               'model_check': mcs, 'rootsum_all_samples': rootsum,
               'phase_wall_s': phases, 'cases_replayed': ncases, 'distinct_nontrivial': result['distinct_nontrivial'],
               'cases_replayed_depth_stretched': result['classes'].get('stretched_cases', 0),
               'stretched_tree_nodes_compared': result.get('stretched_nodes_expected', 0), 'level_clamp': result.get('level_clamp'),
               'profiles_built': result['profiles'], 'real_parser_runs': result['parses'], 'real_merge_runs': result['merge_runs'],
               'canonical_layouts_compared': result['canon_layouts'], 'classes': result['classes'],
               'names_used': result['name_pool_used'], 'row_orders_per_case_max': result['orders_per_case_max'],
               'observations_validated_by_tlc': obsres, 'mismatch_counts': result['mismatch_counts'],
               'payload_merges_compared': result['classes'].get('payload_merge_runs', 0),
               'payload_stacks_compared': result['classes'].get('payload_stacks_compared', 0),
               'aux_not_part_of_C16': result['aux'],
               'checker_cmd': 'tlc MC_ProfTree (x%d configs) -> c16 run -> tlc MC_ProfTreeObs' % len(mcs)}
        if tier == 'thorough':
            # the other Pyroscope read endpoints over the same stored profiles (SelectSeries, SelectMergeProfile, ProfileTypes, label
            # endpoints, stats) are checked by the extra check X05 (ProfSeries.tla); it belongs to this property's deep tier
            import props.x05 as x05
            xr = x05.run('quick')
            for v in xr['violations']:
                viols.append(dict(v, property='C16', signature='series|' + v['signature']))
            cov['series_x05'] = {k: xr['coverage'].get(k) for k in ('states', 'transitions', 'traces_validated_against_impl')}
            cov['states'] += xr['coverage'].get('states', 0)
            cov['transitions'] += xr['coverage'].get('transitions', 0)
            cov['traces_validated_against_impl'] += xr['coverage'].get('traces_validated_against_impl', 0)
        return {'level': 'model_checking', 'coverage': cov, 'violations': viols,
                'assumptions': ['node ids (city hash of parent id and function id, level clamped at LevelCap on top) are modelled as injective in '
                                '(parent, function): the id is the root-first call path, hash collisions are outside the model; the level clamp is '
                                'in the model (Key, KeyInjective) and stacks below / at / beyond it are enumerated',
                                'real depths are reached by stretching the enumerated cases (ProfTree!SBag/STree/SRows/SLevels, proved to commute with '
                                'build / merge / layout on the small cases by StretchHom / StretchLayout), not by enumerating deep stacks frame by frame',
                                'the ClickHouse step between writer and reader is replaced by the driver: rows [parent, fn, node, self, total] of the '
                                'selected sample type (arrayFirst by "type:unit"), raw per profile or summed per (parent, fn, node) ordered by parent',
                                'one reader Tree per sample type, as ProfService.getTree builds it; trailing empty BFS levels are ignored',
                                'function identity is the function NAME (the writer hashes names), a location without line info is the function "n/a"; '
                                'only Line[0] of a location counts (no inlined frames generated)',
                                'MaxSelf is not part of the statement and is not compared',
                                'the merged pprof payload is read back as a bag of (stack of function names, values): samples of one stack that '
                                'differ in labels or in the locations that realise a function are added up; mappings, addresses and ids of the '
                                'merged profile are not compared']}
    finally:
        shutil.rmtree(sd, ignore_errors=True)

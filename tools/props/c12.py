"""C12: no query can crash, hang or leak work on the read side.
ReadPipeline.tla (goroutine pipeline with unbuffered channels: scan, map/limit/fix stages, exporter, handler; database
failure at any row, context cancellation) is model-checked by TLC for termination of every goroutine. TLC enumerates the
cases (endpoint x query class x parameter x parameter class x database fault, and for the endpoints with start/end/step
the product of window alignment classes: start and end relative to the range grid and to the data x step relative to the
range) from the driver's schema; each case plus
seeded random/mutated query strings is sent to the REAL reader router (over fakesql/chsql with preloaded data and scripted
database faults, optional client abort) in a child process with a goroutine census after the request."""
import json
import os
import random
import re
import shutil

import vlib

SPECDIR = os.path.join(vlib.SPEC, 'query')

CASES_TLA = '''---- MODULE MC_ReadCases ----
(* generated from `c12 schema` *)
EXTENDS Naturals, Sequences, TLC, Json
AllQ == %(allq)s        \\* <<endpoint, query class>>
GoodQ == %(goodq)s      \\* <<endpoint, good query class>>
Params == %(params)s    \\* <<endpoint, param, class>>
Faults == %(faults)s
\* window alignment: where start and end lie relative to the range grid and to the data, step relative to the range
WinEP == %(winep)s
WinStart == %(winstart)s
WinEnd == %(winend)s
WinStep == %(winstep)s
VARIABLE c
Init == c \\in   { <<q[1], q[2], "", "valid", "none">> : q \\in AllQ }
          \\cup UNION { { <<q[1], q[2], p[2], p[3], "none">> : p \\in {x \\in Params : x[1] = q[1] /\\ x[3] # "valid"} } : q \\in GoodQ }
          \\cup UNION { { <<q[1], q[2], "", "valid", f>> : f \\in Faults \\ {"none"} } : q \\in GoodQ }
          \\* a parameter that is absent / empty / zero can select another code path of the handler (another service call, another
          \\* statement): every database fault on those paths too
          \\cup UNION { { <<q[1], q[2], p[2], p[3], f>> : p \\in {x \\in Params : x[1] = q[1] /\\ x[3] \\in {"absent", "empty", "zero"}},
                                                          f \\in {"query_err", "row_err_first"} \\cap Faults } : q \\in GoodQ }
          \\cup UNION { { <<q[1], q[2], "@window", s \\o "/" \\o e \\o "/" \\o t, "none">> : s \\in WinStart, e \\in WinEnd, t \\in WinStep }
                        : q \\in {g \\in GoodQ : g[1] \\in WinEP} }
Next == UNCHANGED c
Spec == Init /\\ [][Next]_c
Export == PrintT(<<"CASE", ToJson([endpoint |-> c[1], query |-> c[2], param |-> c[3], class |-> c[4], fault |-> c[5]])>>)
====
'''


def pipeline_model():
    res = vlib.tlc(SPECDIR, 'MC_ReadPipeline.tla', 'MC_ReadPipeline.cfg', timeout=900)
    try:
        if res['violated'] or not res.get('finished'):
            raise vlib.Infra('ReadPipeline.tla: ' + res['out'][-2500:])
        out = {'states': res['distinct'], 'transitions': res['generated'], 'wall_s': round(res['wall'], 1)}
    finally:
        vlib.tlc_cleanup(res)
    # mutation: an exporter that does not drain after an error message leaves a holding stage blocked - TLC must find it
    mut = vlib.tlc(SPECDIR, 'MC_ReadPipeline.tla', 'MC_ReadPipeline_nodrain.cfg', timeout=900)
    try:
        if 'EventuallyAllTerminated' not in ' '.join(mut['violated'] or []) and 'EventuallyAllTerminated was violated' not in mut['out']:
            raise vlib.Infra('ReadPipeline.tla with ExportDrainsOnError = FALSE violates nothing: the termination property is vacuous\n' + mut['out'][-1500:])
        out['mutation_no_drain'] = 'EventuallyAllTerminated violated (as it must be)'
        out['states'] += mut.get('distinct', 0)
        out['transitions'] += mut.get('generated', 0)
    finally:
        vlib.tlc_cleanup(mut)
    return out


def tset(items):
    return '{' + ', '.join('<<' + ', '.join('"%s"' % x for x in it) + '>>' for it in sorted(items)) + '}'


def enumerate_cases(binp, sd):
    r = vlib.run_cmd([binp, 'schema'], timeout=60)
    if r.returncode != 0:
        raise vlib.Infra('c12 schema failed: ' + r.stderr[-1000:])
    s = json.loads(r.stdout)
    allq, goodq, params = set(), set(), set()
    for ep, d in s['endpoints'].items():
        for q in d['queries']:
            allq.add((ep, q))
        for q in d['good']:
            goodq.add((ep, q))
        for p, cls in d['params'].items():
            for c in cls:
                params.add((ep, p, c))
    sset = lambda xs: '{' + ', '.join('"%s"' % x for x in xs) + '}'
    win = s['window']
    mod = CASES_TLA % {'allq': tset(allq), 'goodq': tset(goodq), 'params': tset(params), 'faults': sset(s['faults']),
                       'winep': sset(win['endpoints']), 'winstart': sset(win['start']), 'winend': sset(win['end']), 'winstep': sset(win['step'])}
    open(os.path.join(sd, 'MC_ReadCases.tla'), 'w').write(mod)
    open(os.path.join(sd, 'MC_ReadCases.cfg'), 'w').write('SPECIFICATION Spec\nCONSTRAINT Export\nCHECK_DEADLOCK FALSE\n')
    res = vlib.tlc(sd, 'MC_ReadCases.tla', 'MC_ReadCases.cfg', timeout=600)
    try:
        cases = [json.loads(json.loads(m.group(1))) for m in re.finditer(r'^<<"CASE", (".*")>>\s*$', res['out'], flags=re.M)]
        if len(cases) < len(allq):
            raise vlib.Infra('TLC enumerated only %d cases: %s' % (len(cases), res['out'][-1500:]))
        return cases, {'states': res.get('distinct', 0), 'transitions': max(res.get('generated', 0), 1)}
    finally:
        vlib.tlc_cleanup(res)


def run(tier):
    pm = pipeline_model()
    binp = vlib.go_build('cmd/c12', 'c12')
    sd = vlib.scratch('c12')
    try:
        cases, en = enumerate_cases(binp, sd)
        rnd = random.Random(vlib.seed())
        # quick: all query classes + all fault cases + every parameter class for a seeded third of the good queries
        if tier == 'quick':
            keep = []
            goodsel = {}
            for c in cases:
                if c['param'] != '' and c['fault'] != 'none':
                    # parameter class x fault: the first good query of every endpoint always, a seeded third of the others
                    k2 = ('pf', c['endpoint'])
                    if k2 not in goodsel:
                        goodsel[k2] = c['query']
                    if goodsel[k2] == c['query'] or rnd.random() < 0.33:
                        keep.append(c)
                    continue
                if c['param'] == '' or c['fault'] != 'none':
                    keep.append(c)
                    continue
                if c['param'] == '@window':
                    # the whole window product for one metric query per language, a seeded fifth of it for the other queries
                    if c['query'] in ('metric_agg', 'rate', 'sel') or rnd.random() < 0.2:
                        keep.append(c)
                    continue
                key = (c['endpoint'], c['query'])
                if key not in goodsel:
                    goodsel[key] = rnd.random() < 0.4 or c['query'] in ('metric_agg', 'log', 'rate', 'attr', 'sel')
                if goodsel[key]:
                    keep.append(c)
            chosen = keep
        else:
            chosen = cases
        cp, op = os.path.join(sd, 'cases.json'), os.path.join(sd, 'out.json')
        json.dump(chosen, open(cp, 'w'))
        r = vlib.run_cmd([binp, 'run', '-cases', cp, '-out', op, '-seed', str(vlib.seed()), '-random', '12' if tier == 'quick' else '400'], timeout=3300)
        if r.returncode != 0 or not os.path.exists(op):
            inf = ''
            if os.path.exists(op):
                try:
                    inf = ' infra: %s' % json.load(open(op)).get('infra')
                except ValueError:
                    pass
            raise vlib.Infra('c12 run failed (rc=%s):%s %s' % (r.returncode, inf, (r.stdout + r.stderr)[-3000:]))
        out = json.load(open(op))
        viols = []
        seen = set()
        for f in out.get('findings') or []:
            if f['signature'] in seen:
                continue
            seen.add(f['signature'])
            path = vlib.save_replay('C12', re.sub(r'[^A-Za-z0-9]+', '_', f['signature'])[:100], f)
            viols.append({'property': 'C12', 'signature': f['signature'], 'msg': f['msg'], 'replay': path})
        cov = {'states': pm['states'] + en['states'], 'transitions': pm['transitions'] + en['transitions'],
               'traces_validated_against_impl': out['requests'],
               'samples': [chosen[0], chosen[len(chosen) // 2], {'status_codes': out['status_codes']}],
               'exhaustive': False, 'pipeline_model': pm, 'case_enumeration': dict(en, cases_total=len(cases), cases_run=len(chosen)),
               'run': {k: out[k] for k in ('requests', 'random_queries', 'child_restarts', 'signature_counts', 'chsql_unsupported')},
               'explanation': 'parameter classes x good queries and fault positions exhaustive in the thorough tier (seeded subset in quick); query strings beyond the classes are sampled'}
        if tier == 'thorough':
            # the live tail is a read endpoint the recorder-based sweep cannot drive (hijacked websocket): the extra check X01
            # (Tail.tla + real controller over a websocket, goroutine census, trace validation) belongs to this property's deep tier
            import props.x01 as x01
            xr = x01.run('quick')
            for v in xr['violations']:
                viols.append(dict(v, property='C12', signature='tail|' + v['signature']))
            cov['tail_x01'] = {k: xr['coverage'].get(k) for k in ('states', 'transitions', 'traces_validated_against_impl')}
            cov['states'] += xr['coverage'].get('states', 0)
            cov['transitions'] += xr['coverage'].get('transitions', 0)
            cov['traces_validated_against_impl'] += xr['coverage'].get('traces_validated_against_impl', 0)
        return {'level': 'model_checking', 'coverage': cov, 'violations': viols,
                'assumptions': ['the reader router runs in a child process over fakesql answered by chsql; a died child = process crash',
                                'time limit 6 s per request; goroutine census 60 ms after the response counts goroutines with frames in reader/ that are not permanent service loops',
                                'query-string universality is sampled, not decided (DESIGN section 6)']}
    finally:
        shutil.rmtree(sd, ignore_errors=True)

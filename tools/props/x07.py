"""X07: the Tempo v1 read API answers WHAT its definition says.

spec/query/TempoSearch.tla gives, over a small abstract database of traces (<= 3 traces of <= 3 spans: parent, service, span
name, start tick on either side of the window ends, duration in half milliseconds, 0-2 tags), an order-free DEFINITION of the
answers of /api/search (tags=, minDuration, maxDuration, limit, start, end: WHICH traces are listed, each once, with the root
span's service and name, the start of the earliest span and the duration of the trace), /api/search/tags,
/api/search/tag/{tag}/values (what exists, no window), /api/traces/{id}[/json] (all spans of the id, none of another; an
unknown id is 404; upper case, short and malformed ids) and /api/echo, next to a transcription of the MECHANISM (the
tempo_traces rows, the tempo_traces_attrs_gin / tempo_traces_kv rows the materialized views derive, the index sub-select per
tag and their join, the duration and time bounds, ORDER BY / LIMIT, with and without the "tempo_v2" settings row, the missing
grouping into traces), parameterised by named quirks.  TLC (MC_TempoSearch) enumerates every database x request of the
configurations, proves mechanism-with-all-quirks-repaired = definition, proves that every difference between the mechanism
as coded and the definition is accounted for by a quirk, proves the laws that tie the definitions together (a listed trace is
listed once and can be fetched, a smaller limit answers the newest subset, two tags answer the intersection, a tag is listed
iff it has values iff a search for it finds a trace), and exports the cases.  harness/cmd/x07 concretises every case (hostile
names and values, real nanosecond times, neighbouring trace ids), pushes the traces through the REAL writer routes of
e2e.World (Zipkin JSON, OTLP protobuf; the real materialized views derive the index rows), asks the REAL reader routes and
compares the answer as a bag with the definition.  Verdicts only come from answers of the real code."""
import concurrent.futures
import json
import os
import re
import shutil
import time

import vlib

SPECDIR = os.path.join(vlib.SPEC, 'query')
INVS = 'AllChecks'
NAMED_INVS = 'MechEqDef QuirksExplain Laws'
ALL_QUIRKS = ['span_rows', 'tags_same_span', 'dur_span', 'min_exclusive', 'dur_trunc_ms', 'v2_max_exclusive', 'v2_inner_limit',
              'values_scope_strip', 'unknown_200', 'short_id']
BIG_QUIRKS = ['byid_cap']      # exercised by `x07 big` only (a trace of more than 2000 spans)
# The believed state of the code: the quirks of TempoSearch!AllQuirks that have been REPAIRED in /repo.  The as-coded mechanism
# is Mech(AllQuirks minus these); a repaired quirk stays in the specification as a mutation: TLC still says where it would
# fire, the real code must answer the definition there, and an answer that equals the prediction WITH the quirk is reported
# under the quirk's signature again.
# Repaired in /repo: min_exclusive a8ca739, dur_trunc_ms 28dc994, v2_max_exclusive c1df2e9, short_id 16f537a, unknown_200 e56f58e,
# values_scope_strip 76d5c8d.  v2_inner_limit is still in the code (the LIMIT of the tempo_v2 index statement) and therefore NOT listed
# here, but since the three duration repairs the index and the outer statement test the same conditions and the inner LIMIT cuts what
# the outer LIMIT would cut: no case is left in which it fires on its own (it comes back when search is regrouped into traces).
# Open (known_findings.json, property X07): span_rows, tags_same_span, dur_span (one root cause: search over span rows), byid_cap.
REPAIRED = ['min_exclusive', 'dur_trunc_ms', 'v2_max_exclusive', 'values_scope_strip', 'unknown_200', 'short_id']

CFG = '''SPECIFICATION Spec
CONSTANTS
  Keys <- MCKeys
  TagPool <- %(tags)s
  V2 = %(v2)s
  ScopedKeys = %(scoped)s
  MaxTraces = %(T)d
  MaxSpans = %(S)d
  SvcPool = %(svc)s
  NmPool = %(nm)s
  TickPool = %(ticks)s
  DurPool = %(durs)s
  ParMode = "%(par)s"
  Plan = "%(plan)s"
  ExportMod = %(mod)d
  ExportSeed = %(seed)d
  Repaired = %(repaired)s
INVARIANTS %(invs)s
CHECK_DEADLOCK FALSE
'''

DEFAULTS = dict(tags='MCTags5', v2='FALSE', scoped='{}', T=2, S=2, svc='{"s1"}', nm='{"n1"}', ticks='{2}', durs='{4}', par='tree', plan='T',
                mod=1, workers=4)

# name -> bounds.  plan T: every tags= request (0-2 tags, pseudo tags, a tag nobody carries), the tag endpoints; plan I: every form
# of the trace-by-id request; plan D: the duration bounds (exact, on the millisecond, below it; min, max, both) with and without a
# tag; plan W: two windows x limit 0 / 1 / 2 x 0-2 tags.  mod: the cases of every mod-th database (by content hash and seed) are
# exported; TLC checks all of them.
CONFIGS = {
    'quick': [
        ('T2', dict(svc='{"s1", "s2"}', scoped='{"b"}', mod=3, workers=5)),
        ('I3', dict(tags='MCTags1', T=3, S=2, svc='{"s1", "s2"}', plan='I', mod=1, workers=1)),
        ('D2', dict(tags='MCTags2', durs='{1, 4, 5, 8}', plan='D', mod=2, workers=4)),
        ('D2v', dict(tags='MCTags2', durs='{4, 5, 8}', plan='D', v2='TRUE', mod=1, workers=2)),
        ('W2', dict(tags='MCTags2', ticks='{0, 2, 3, 4}', plan='W', mod=3, workers=3)),
        ('R2', dict(tags='MCTags1', svc='{"s1", "s2"}', par='free', plan='W', mod=1, workers=2)),
        ('W3v', dict(tags='MCTags2', T=3, S=1, ticks='{1, 2, 4}', durs='{4, 8}', plan='W', v2='TRUE', mod=1, workers=2)),
    ],
    'thorough': [
        ('T2', dict(svc='{"s1", "s2"}', scoped='{"b"}', mod=2, workers=8)),
        ('T2n', dict(tags='MCTags3', svc='{"s1", "s2"}', nm='{"n1", "n2"}', scoped='{"a"}', mod=2, workers=8)),
        ('T3', dict(tags='MCTags3', T=3, S=2, svc='{"s1", "s2"}', scoped='{"a"}', mod=5, workers=8)),
        ('T23', dict(tags='MCTags3', T=2, S=3, svc='{"s1", "s2"}', scoped='{"a", "b"}', mod=12, workers=8)),
        ('I3', dict(tags='MCTags1', T=3, S=3, svc='{"s1", "s2"}', plan='I', mod=1, workers=4)),
        ('D2', dict(tags='MCTags2', durs='{1, 4, 5, 8}', ticks='{2, 3}', plan='D', mod=12, workers=8)),
        ('D2v', dict(tags='MCTags2', durs='{1, 4, 5, 8}', ticks='{2, 3}', plan='D', v2='TRUE', mod=12, workers=8)),
        ('D3', dict(tags='MCTags2', T=1, S=3, durs='{1, 4, 5, 8}', plan='D', mod=1, workers=4)),
        ('W2', dict(tags='MCTags2', ticks='{0, 1, 2, 3, 4}', plan='W', mod=3, workers=8)),
        ('W2v', dict(tags='MCTags2', ticks='{0, 2, 3, 4}', plan='W', v2='TRUE', mod=2, workers=8)),
        ('W3', dict(tags='MCTags2', T=3, S=2, ticks='{1, 3, 4}', plan='W', mod=6, workers=8)),
        ('R2', dict(tags='MCTags2', svc='{"s1", "s2"}', par='free', plan='W', mod=5, workers=8)),
        ('R13', dict(tags='MCTags2', T=1, S=3, svc='{"s1", "s2"}', par='free', plan='W', mod=1, workers=8)),
        ('W3v', dict(tags='MCTags2', T=3, S=1, ticks='{1, 2, 4}', durs='{4, 8}', plan='W', v2='TRUE', mod=1, workers=4)),
    ],
}

CLUSTER_CONFIGS = ('W3v', 'D2')

CLASSES_REQUIRED = ['ep_search', 'ep_tags', 'ep_values', 'ep_byid', 'ep_echo', 'search_with_0_tags', 'search_with_1_tags', 'search_with_2_tags',
                    'search_pseudo_tag_svc', 'search_pseudo_tag_nm', 'search_tag_nobody_carries', 'search_tags_quoted', 'search_with_minDuration',
                    'search_with_maxDuration', 'search_limit_0', 'search_limit_1', 'search_limit_2', 'search_window_1_3', 'search_window_2_2',
                    'byid_form_lower', 'byid_form_upper', 'byid_form_short', 'byid_form_nothex', 'byid_form_long', 'byid_accept_json',
                    'byid_accept_proto', 'byid_unknown_id', 'values_of_a', 'values_of_svc', 'values_of_nm', 'values_of_z',
                    'values_of_a_key_with_scope_prefix', 'db_of_1_traces', 'db_of_2_traces', 'db_of_3_traces', 'trace_of_1_spans', 'trace_of_2_spans',
                    'trace_via_zipkin', 'trace_via_zipkin2', 'trace_via_otlp', 'db_pushed_over_two_protocols', 'db_with_64_bit_trace_ids',
                    'db_with_the_same_span_ids_in_every_trace', 'db_with_tempo_v2_announced', 'trace_without_root_span', 'trace_with_two_roots',
                    'trace_whose_root_is_not_its_first_span', 'trace_over_several_ticks', 'trace_over_two_services',
                    'trace_on_both_sides_of_a_window_end', 'trace_outside_the_window', 'span_with_0_tags', 'span_with_1_tags', 'span_with_2_tags',
                    'expected_answer_with_several_items', 'cases_where_a_quirk_fires', 'big_byid_json', 'big_byid_proto']
CLASSES_REQUIRED_THOROUGH = ['trace_of_3_spans']

_CASE = re.compile(r'^<<"X07CASE", (".*")>>$')


def _model_check(name, c, sd, timeout):
    d = dict(DEFAULTS)
    d.update(c)
    d['seed'] = vlib.seed() % max(1, d['mod'])
    d['invs'] = INVS
    d['repaired'] = '{' + ', '.join('"%s"' % q for q in REPAIRED) + '}'
    cfgp = os.path.join(sd, 'MC_TempoSearch_%s.cfg' % name)
    open(cfgp, 'w').write(CFG % d)
    res = vlib.tlc(SPECDIR, 'MC_TempoSearch.tla', os.path.basename(cfgp), workers=d['workers'], timeout=timeout, copy_extra=[cfgp])
    try:
        if res['violated']:
            d['invs'], d['mod'] = NAMED_INVS, 0     # which of them is it
            open(cfgp, 'w').write(CFG % d)
            res2 = vlib.tlc(SPECDIR, 'MC_TempoSearch.tla', os.path.basename(cfgp), workers=d['workers'], timeout=timeout, copy_extra=[cfgp])
            out2 = res2['out']
            vlib.tlc_cleanup(res2)
            raise vlib.Infra('TLC reports %s on TempoSearch.tla (config %s): the specification is inconsistent with itself; nothing '
                             'was run against the code:\n%s' % (res2['violated'] or res['violated'], name, out2[-2500:]))
        if not res.get('finished') or 'Model checking completed' not in res['out']:
            raise vlib.Infra('TLC did not finish config %s: %s' % (name, res['out'][-1500:]))
        cases = []
        fired = {}
        for line in res['out'].splitlines():
            m = _CASE.match(line)
            if not m:
                continue
            try:
                case = json.loads(json.loads(m.group(1)))
            except ValueError as e:
                raise vlib.Infra('cannot parse an exported case of %s: %s: %s' % (name, e, line[:300]))
            case['cfg'] = name
            for q in set(case['fired']) | set(case['mutfired']):
                fired[q] = fired.get(q, 0) + 1
            cases.append((json.dumps(case['db'], sort_keys=True), json.dumps(case)))
        if not cases and d['mod'] != 0:
            raise vlib.Infra('config %s exported no case (%d states)' % (name, res.get('distinct', 0)))
        cases.sort(key=lambda c: c[0])    # the cases of one database become adjacent
        return {'config': name, 'v2': d['v2'] == 'TRUE', 'bounds': {k: v for k, v in d.items() if k not in ('workers', 'invs')},
                'states': res.get('distinct', 0), 'transitions': res.get('generated', 0), 'exported': len(cases), 'wall_s': round(res['wall'], 1),
                'cases_in_which_a_quirk_fires': fired, 'cases': cases}
    finally:
        vlib.tlc_cleanup(res)


def _shards(mcs, n):
    """split the cases into n files; the cases of one database stay together"""
    groups = []
    for mc in mcs:
        cur, key = None, None
        for (dbk, line) in mc['cases']:
            if dbk != key or cur is None:
                cur, key = [], dbk
                groups.append(cur)
            cur.append(line)
    shards = [[] for _ in range(n)]
    sizes = [0] * n
    for g in sorted(groups, key=len, reverse=True):
        i = sizes.index(min(sizes))
        shards[i].append(g)
        sizes[i] += len(g)
    return [s for s in shards if s]


def _drive(binp, tag, groups, sd, timeout, cluster=''):
    cp = os.path.join(sd, 'cases_%s.ndjson' % tag)
    rp = os.path.join(sd, 'result_%s.json' % tag)
    with open(cp, 'w') as o:
        for g in groups:
            o.write('\n'.join(g) + '\n')
    env = dict(os.environ)
    env['TZ'] = 'UTC'
    env['X07_CLUSTER'] = cluster      # '' = single node; a name: the reader names the *_dist tables
    r = vlib.run_cmd([binp, 'run', '-cases', cp, '-out', rp, '-seed', str(vlib.seed())], timeout=timeout, env=env)
    if r.returncode != 0 or not os.path.exists(rp):
        raise vlib.Infra('x07 driver failed (rc %s): %s' % (r.returncode, (r.stdout + r.stderr)[-3000:]))
    return json.load(open(rp))


def _big(binp, sd, timeout):
    rp = os.path.join(sd, 'result_big.json')
    env = dict(os.environ)
    env['TZ'] = 'UTC'
    r = vlib.run_cmd([binp, 'big', '-out', rp, '-seed', str(vlib.seed())], timeout=timeout, env=env)
    if r.returncode != 0 or not os.path.exists(rp):
        raise vlib.Infra('x07 big failed (rc %s): %s' % (r.returncode, (r.stdout + r.stderr)[-3000:]))
    return json.load(open(rp))


def _merge_counts(dst, src):
    for k, v in (src or {}).items():
        if isinstance(v, int):
            dst[k] = dst.get(k, 0) + v
        else:
            dst[k] = v


def run(tier):
    sd = vlib.scratch('x07')
    try:
        configs = CONFIGS[tier]
        t0 = time.time()
        phases = {}
        tmo = 280 if tier == 'quick' else 2400
        with concurrent.futures.ThreadPoolExecutor(max_workers=len(configs) + 2) as ex:
            fb = ex.submit(vlib.go_build, 'cmd/x07', 'x07')
            if tier == 'quick':
                futs = [ex.submit(_model_check, n, c, sd, tmo) for n, c in configs]
                binp = fb.result()
                fbig = ex.submit(_big, binp, sd, 600)
                mcs = [f.result() for f in futs]
            else:   # 8 workers each: two at a time
                binp = fb.result()
                fbig = ex.submit(_big, binp, sd, 600)
                with concurrent.futures.ThreadPoolExecutor(max_workers=2) as ex2:
                    futs = [ex2.submit(_model_check, n, c, sd, tmo) for n, c in configs]
                    mcs = [f.result() for f in futs]
            phases['tlc_enumeration'] = round(time.time() - t0, 1)
            ncases = sum(mc['exported'] for mc in mcs)
            spec_fired = {}
            for mc in mcs:
                _merge_counts(spec_fired, mc['cases_in_which_a_quirk_fires'])
            never = [q for q in ALL_QUIRKS if not spec_fired.get(q)]
            if never:
                raise vlib.Infra('vacuous coverage: no exported case in which TLC finds the quirks %s firing' % never)
            # ---- replay into the real code: the cases with and without tempo_v2 in processes of their own; the cases of two
            # configurations a second time against a reader that believes it talks to a cluster (*_dist tables)
            t1 = time.time()
            jobs = []
            for v2, nsh in ((False, 5), (True, 2)):
                part = [mc for mc in mcs if mc['v2'] == v2]
                jobs += [('%s%d' % ('v' if v2 else 'p', i), g, '') for i, g in enumerate(_shards(part, nsh))]
            ncluster = 0
            for mc in mcs:
                if mc['config'] in CLUSTER_CONFIGS:
                    ncluster += len(mc['cases'])
                    jobs += [('c%s%d' % (mc['config'], i), g, 'c1') for i, g in enumerate(_shards([mc], 1 if tier == 'quick' else 2))]
            with concurrent.futures.ThreadPoolExecutor(max_workers=len(jobs)) as ex3:
                results = list(ex3.map(lambda a: _drive(binp, a[0], a[1], sd, 900 if tier == 'quick' else 3000, a[2]), jobs))
            ncases += ncluster
            big = fbig.result()
        phases['driver'] = round(time.time() - t1, 1)
        tot = {'cases': 0, 'databases': 0, 'distinct_nontrivial': 0, 'answers_equal_definition': 0}
        maps = {k: {} for k in ('pushes', 'requests', 'classes', 'fired_cases', 'fired_observed', 'fired_silent', 'mismatch_counts', 'aux')}
        mismatches, infra, sample = [], [], None
        for r in results + [big]:
            for k in tot:
                tot[k] += r.get(k) or 0
            for k in maps:
                _merge_counts(maps[k], r.get(k))
            mismatches += r.get('mismatches') or []
            infra += r.get('infra') or []
            sample = sample or r.get('sample')
        if infra:
            raise vlib.Infra('x07 driver: %d infrastructure problems, first: %s' % (len(infra), infra[0]))
        nbig = big.get('cases') or 0
        if tot['cases'] != ncases + nbig or nbig < 2:
            raise vlib.Infra('driver ran %d of %d cases (+ %d of 2 big probes)' % (tot['cases'] - nbig, ncases, nbig))
        if sum(maps['requests'].values()) != ncases + nbig:
            raise vlib.Infra('driver sent %d requests for %d cases' % (sum(maps['requests'].values()), ncases + nbig))
        required = CLASSES_REQUIRED + (CLASSES_REQUIRED_THOROUGH if tier == 'thorough' else [])
        missing = [c for c in required if not maps['classes'].get(c)]
        # a defect may itself be the reason why a class is never seen: vacuity is only an infrastructure verdict when nothing is reported
        if (missing or tot['distinct_nontrivial'] < ncases // 10) and not mismatches:
            raise vlib.Infra('vacuous coverage: classes never exercised %s (non-trivial %d of %d)' % (missing, tot['distinct_nontrivial'], ncases))
        # ---- verdicts
        viols = []
        nth = {}

        def weight(m):
            e = m.get('expected') or {}
            a = m.get('abstract') or {}
            return (len(a.get('fired') or []), 0 if (e.get('traces') or e.get('items') or e.get('spans')) else 1)
        for m in sorted(mismatches, key=lambda m: (m['signature'], weight(m), len(json.dumps(m.get('abstract'))))):
            sig = m['signature']
            nth[sig] = nth.get(sig, 0) + 1
            if nth[sig] > 2:
                continue
            path = vlib.save_replay('X07', re.sub(r'[^A-Za-z0-9]+', '_', sig)[:80] + '_%d' % nth[sig],
                                    {'kind': 'TLC case (MC_TempoSearch) replayed through the real writer and reader routes (harness/cmd/x07); '
                                             'write the object under mismatch.abstract as one line to a file and run '
                                             '`TZ=UTC x07 run -cases <file> -out r.json -seed <seed>` (big probes: `x07 big -out r.json -seed <seed>`)',
                                     'seed': vlib.seed(), 'tier': tier, 'mismatch': m, 'occurrences_in_this_run': maps['mismatch_counts'].get(sig)})
            if nth[sig] > 1:
                continue
            req = m.get('request') or {}
            viols.append({'property': 'X07', 'signature': sig, 'replay': path,
                          'msg': '%s (%d occurrences) request=GET %s %s expected=%s observed=%s' % (
                              m['msg'], maps['mismatch_counts'].get(sig, 1), req.get('path'),
                              json.dumps(req.get('params'), ensure_ascii=False)[:300],
                              json.dumps(m.get('expected'), ensure_ascii=False)[:500],
                              json.dumps(dict(m.get('observed') or {}, http_status=m.get('status')), ensure_ascii=False)[:600])})
        unknown = [q for q in REPAIRED if q not in ALL_QUIRKS]
        if unknown:
            raise vlib.Infra('REPAIRED names quirks the specification does not have: %s' % unknown)
        for mc in mcs:
            mc.pop('cases', None)
        allq = ALL_QUIRKS + BIG_QUIRKS
        repaired = sorted(q for q in allq if maps['fired_cases'].get(q) and not maps['fired_observed'].get(q))
        cov = {'states': sum(mc['states'] for mc in mcs), 'transitions': sum(mc['transitions'] for mc in mcs),
               'traces_validated_against_impl': ncases + nbig,
               'samples': [sample or (mismatches[0] if mismatches else {'cases': ncases})],
               'exhaustive': all(mc['bounds']['mod'] <= 1 for mc in mcs),
               'model_check': mcs, 'phase_wall_s': phases, 'cases_replayed': ncases, 'of_those_replayed_in_cluster_mode': ncluster,
               'big_probes': nbig, 'databases_ingested': tot['databases'],
               'distinct_nontrivial': tot['distinct_nontrivial'], 'answers_equal_definition': tot['answers_equal_definition'],
               'pushes': maps['pushes'], 'requests': maps['requests'], 'classes': maps['classes'],
               'classes_never_exercised': missing,
               'quirks': {q: {'cases_in_which_tlc_finds_it_firing': maps['fired_cases'].get(q, 0),
                              'of_those_the_real_code_answers_as_coded': maps['fired_observed'].get(q, 0),
                              'of_those_the_real_code_answers_the_definition': maps['fired_silent'].get(q, 0)} for q in allq},
               'quirks_the_code_no_longer_exhibits': repaired,
               'quirks_believed_repaired': sorted(REPAIRED),
               'mismatch_counts': maps['mismatch_counts'], 'aux_not_part_of_X07': maps['aux'],
               'checker_cmd': 'tlc MC_TempoSearch (x%d configs) -> x07 run (x%d processes) + x07 big' % (len(mcs), len(jobs))}
        return {'level': 'model_checking', 'coverage': cov, 'violations': viols,
                'assumptions': [
                    'the contract is the one of the Tempo HTTP API v1 as far as qryn\'s data model has it: a tag is carried with an equal key '
                    'and an equal value (Tempo\'s substring / case-insensitive matching is NOT demanded); tags are matched at trace level '
                    '(Tempo 1.x search data, Tempo 2.x trace-level join); the duration bounds are those of the trace, inclusive; a trace '
                    'overlaps the window when one of its spans starts inside it',
                    'the pseudo tags `name` and `service.name` and the keys the writer adds by itself (Zipkin: local_endpoint_service_name, '
                    'OTLP: remoteService.name) are part of the data: they are expected in /api/search/tags',
                    'for a trace without root span the service and name of ANY of its spans (or Tempo\'s placeholder) are accepted; traces '
                    'with two parentless spans take the earlier one as the root',
                    'start times are pairwise different (0.5 ms apart within a tick), every tick is at least 3 s away from a window end and '
                    'all ticks of a database lie on one UTC day, the process runs under TZ=UTC: window edges and date bounds are C13; the '
                    'well-formedness of the JSON documents is C15; the fidelity of ONE span read back by id is C06; TraceQL (q=) and the v2 '
                    'tag endpoints are C11; that an acknowledged span shows up is X02',
                    'ids are compared case-insensitively (qryn lists upper-case hex ids, which its own trace-by-id route accepts); the order of '
                    'the listed traces is not part of the verdict (counted in aux); a malformed id must be refused (4xx or 5xx), an unknown '
                    'one must be 404',
                    'the ClickHouse server is the chsql interpreter over the real DDL and materialized views (ReplacingMergeTree merges of '
                    'tempo_traces_kv - two values of a key with the same cityHash64 % 10000 on one day - are not modelled); the cases of two '
                    'configurations are replayed a second time with a reader in cluster mode (*_dist table names, same data)',
                    'the "tempo_v2" announcement is a row of the settings table that ctrl/qryn/sql never writes (traces.sql writes '
                    '"tempo_traces_v2"): both states of a deployment are checked, each in processes of its own']}
    finally:
        shutil.rmtree(sd, ignore_errors=True)

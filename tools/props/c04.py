"""C04: series identity depends only on the label set; every sample's series is indexed.
SeriesIndex.tla (history of pushes x insert outcomes x retries x cache resets x writer time zone) is model-checked by TLC;
its behaviours are replayed through the real push route / parser / cache / services / store and the REAL reader route decides
discoverability. Labels.tla validates the fingerprints and label documents recorded from the real parsers."""
import json
import os
import re
import shutil

import vlib

SPECDIR = os.path.join(vlib.SPEC, 'ingest')
ZONES = {'m5': (-5, 'America/New_York'), '0': (0, 'UTC'), 'p3': (3, 'Europe/Moscow')}

CFG_LABELS = '''SPECIFICATION Spec
INVARIANTS FingerprintIsFunctionOfSet NoCollision DocumentFaithful SampleIndexed
CONSTRAINT Accept
%(diag)s
CHECK_DEADLOCK FALSE
'''


# what the tree does: since fix eb377cd a failed request forgets the cache keys it set (CacheSetBeforeInsert = FALSE at history
# grain); the TRUE model stays as a mutation that TLC must still refute (the deviation constant is not vacuous)
CODED_CACHE_BEFORE = False


def model_check(zone, cache_before):
    cfg = 'MC_SeriesIndex_%s_%s.cfg' % (zone, 'TRUE' if cache_before else 'FALSE')
    res = vlib.tlc(SPECDIR, 'MC_SeriesIndex.tla', cfg, timeout=600)
    try:
        return {'zone': zone, 'cache_set_before_insert': cache_before, 'violated': res['violated'],
                'states': res.get('distinct', 0), 'transitions': res.get('generated', 0)}
    finally:
        vlib.tlc_cleanup(res)


def behaviours(zone, n, seed):
    res = vlib.tlc(SPECDIR, 'MC_SeriesIndex.tla', 'MC_SeriesIndex_%s_%s_sim.cfg' % (zone, 'TRUE' if CODED_CACHE_BEFORE else 'FALSE'), workers=1, timeout=600,
                   simulate={'num': n, 'file': True}, depth=12, seed=seed)
    try:
        return vlib.behaviours(res)
    finally:
        vlib.tlc_cleanup(res)


def run(tier):
    seed = vlib.seed()
    binp = vlib.go_build('cmd/c04', 'c04')
    sd = vlib.scratch('c04')
    viols = []
    try:
        # ---- model checking: the design with the code's deviations, per writer time zone
        mcs = []
        states = trans = 0
        candidates = set()
        for z in ZONES:
            for cb in (True, False):
                mc = model_check(z, cb)
                mcs.append(mc)
                states += mc['states']
                trans += mc['transitions']
            if any(m['violated'] for m in mcs if m['zone'] == z and m['cache_set_before_insert'] == CODED_CACHE_BEFORE):
                candidates.add(z)
        # ---- replay of TLC behaviours into the real code, under the matching process time zone
        nb = 60 if tier == 'quick' else 600
        hist = []
        total_beh = 0
        sample = None
        real_sigs = {}
        for z, (off, tzname) in ZONES.items():
            behs = behaviours(z, nb, seed)
            behs = [[{'action': s['action'], 'args': s['args'], 'state': s['state']} for s in b] for b in behs]
            inp, outp = os.path.join(sd, 'h_%s.json' % z), os.path.join(sd, 'ho_%s.json' % z)
            json.dump({'offset': off, 'writer_offset': 0, 'behaviours': behs}, open(inp, 'w'))
            env = dict(os.environ)
            env['TZ'] = tzname
            r = vlib.run_cmd([binp, 'history', '-in', inp, '-out', outp], timeout=3000, env=env)
            if r.returncode != 0 or not os.path.exists(outp):
                raise vlib.Infra('c04 history (TZ=%s) failed: %s %s' % (tzname, (r.stdout + r.stderr)[-2000:], open(outp).read()[-1500:] if os.path.exists(outp) else ''))
            out = json.load(open(outp))
            total_beh += out['behaviours']
            hist.append({'zone': tzname, 'behaviours': out['behaviours'], 'pushes': out['pushes'], 'cache_resets': out['cache_resets'], 'read_queries': out['read_queries'], 'unparsable_tails': out.get('unparsable_tails', {}),
                         'violations': len(out['violations'] or [])})
            if sample is None and behs:
                sample = [{'action': s['action'], 'args': s['args']} for s in behs[0][1:]]
            for v in out['violations'] or []:
                sig = v['signature'] if v['kind'] == 'conformance' else '%s|tz%+d' % (v['signature'], off) if 'another-day' in v['signature'] else v['signature']
                real_sigs.setdefault(sig, v)
        # vacuity: the replayed histories must contain requests rejected for a stream that does not parse, in both positions
        for tl in ('bad_after', 'bad_before'):
            if sum(h['unparsable_tails'].get(tl, 0) for h in hist) == 0 and not real_sigs:
                raise vlib.Infra('no replayed history contains a push with tail %s' % tl)
        for sig, v in real_sigs.items():
            path = vlib.save_replay('C04', re.sub(r'[^A-Za-z0-9]+', '_', sig)[:100], v)
            viols.append({'property': 'C04', 'signature': sig, 'msg': v['msg'], 'replay': path})
        reproduced = any(s.startswith('undiscoverable') for s in real_sigs)
        if candidates and not reproduced and not any(s.startswith('history|') for s in real_sigs):
            raise vlib.Infra('TLC reports AckedDiscoverable violated on SeriesIndex.tla (zones %s) but no replayed behaviour reproduces it in the real code' % sorted(candidates))
        # ---- labels: fingerprints and label documents from the real parsers, validated by TLC (Labels.tla)
        lo, lt = os.path.join(sd, 'labels.json'), os.path.join(sd, 'labels.ndjson')
        r = vlib.run_cmd([binp, 'labels', '-out', lo, '-trace', lt, '-seed', str(seed), '-sets', '150' if tier == 'quick' else '1500'], timeout=1200)
        if r.returncode != 0 or not os.path.exists(lo):
            raise vlib.Infra('c04 labels failed: ' + (r.stdout + r.stderr)[-2000:])
        lab = json.load(open(lo))
        if any(n == 0 for n in lab['shape_runs'].values()) or len(lab['shape_runs']) < 2:
            raise vlib.Infra('labels: a request shape was never run: %s' % lab['shape_runs'])
        for v in lab['violations'] or []:
            path = vlib.save_replay('C04', re.sub(r'[^A-Za-z0-9]+', '_', v['signature'])[:100], v)
            viols.append({'property': 'C04', 'signature': v['signature'], 'msg': v['msg'], 'replay': path})
        ok, detail, st = vlib.validate_trace(SPECDIR, 'Labels.tla', CFG_LABELS, lt, timeout=900)
        if not ok and detail.get('kind') == 'invariant':
            inv = detail['invariant']
            have = any(v['signature'].startswith('labels|doc') or v['signature'].startswith('fingerprint') or v['signature'].startswith('labels|index') or v['signature'].startswith('labels|sample') for v in viols)
            if not have:
                raise vlib.Infra('Labels.tla rejects the recorded trace (%s) but the driver found no corresponding mismatch' % inv)
        elif not ok:
            raise vlib.Infra('Labels trace rejected: %s' % detail)
        cov = {'states': states + st['states'], 'transitions': trans + st['generated'],
               'traces_validated_against_impl': total_beh + 1,
               'samples': [{'replayed_history': sample}, {'label_events': lab['events'], 'label_sets': lab['label_sets']}],
               'exhaustive': True, 'model_checks': mcs, 'history_replay': hist,
               'labels': {k: lab[k] for k in ('label_sets', 'parser_runs', 'distinct_fingerprints', 'events', 'shape_runs')}, 'labels_trace': {'accepted': ok, 'detail': detail, 'tlc': st}}
        if tier == 'thorough':
            # AckedDiscoverable is the logs/labels face of AckedReadable in the end-to-end composition (Qryn.tla, extra check X02):
            # all four signals, every read endpoint, parse errors and per-table insert faults; part of this property's deep tier
            import props.x02 as x02
            xr = x02.run('quick')
            for v in xr['violations']:
                viols.append(dict(v, property='C04', signature='e2e|' + v['signature']))
            cov['e2e_x02'] = {k: xr['coverage'].get(k) for k in ('states', 'transitions', 'traces_validated_against_impl')}
            cov['states'] += xr['coverage'].get('states', 0)
            cov['transitions'] += xr['coverage'].get('transitions', 0)
            cov['traces_validated_against_impl'] += xr['coverage'].get('traces_validated_against_impl', 0)
        return {'level': 'model_checking', 'coverage': cov, 'violations': viols,
                'assumptions': ['hash injectivity is checked on the enumerated universe only (a hash cannot be proved injective)',
                                'writer and reader run in the same process time zone in the replay (UTC-5, UTC, UTC+3 via TZ)',
                                'a failed INSERT = all retry attempts failed (retry_attempts=1 in the replay)']}
    finally:
        shutil.rmtree(sd, ignore_errors=True)

"""X02 (coverage extension): end-to-end composition of qryn for logs, metrics, traces and profiles --
"what was acknowledged can be read back, what was refused cannot".

spec/Qryn.tla composes the write side (per-table INSERTs of one push by independent services, acknowledgement rule,
the (day, fingerprint) cache, retries, cache resets) with the read side (every read endpoint as the SQL it sends, at
table grain) for all four signals and states AckedReadable, RetryIdempotentEnough, RefusedNotHalfVisible (RefusedResidue /
NoPhantom / SearchImpliesFetch) and NoCrossSignal.  Behaviour the code knowingly has is switched by named deviation
constants (CacheSetBeforeInsert = the open C04 finding, CacheKeyIgnoresType): TLC checks the properties exhaustively
with the deviations off (they hold) and with each deviation on alone (it finds the counterexample: the deviation is the
cause).  Binding: (1) the counterexamples and (2) TLC -simulate histories of the model "as coded" are replayed on the e2e
world (REAL writer routes -> insert services -> fake ClickHouse with a per-table fault plan -> store with the real DDL and
materialized views -> REAL reader routes); after every step every endpoint x key x window is asked and compared with the
model's exported view, and the properties are evaluated on the REAL answers; (3) free-running mixed workloads recorded
from the real code are validated as Trace_Qryn behaviours by TLC."""
import concurrent.futures
import json
import os
import re
import shutil

import tlaparse
import vlib

SPECDIR = vlib.SPEC

CFG = '''SPECIFICATION %(spec)s
CONSTANTS
  Signals = %(signals)s
  Keys = %(keys)s
  Slots = %(slots)s
  SlotsPerDay = %(spd)d
  MaxPushes = %(pushes)d
  MaxItems = %(items)d
  MaxFaults = %(faults)d
  MaxRetries = %(retries)d
  MaxClears = %(clears)d
  MaxLost = %(lost)d
  MaxBad = %(bad)d
  MaxQueries = %(queries)d
  CacheSetBeforeInsert = %(csbi)s
  CacheKeyIgnoresType = %(ckit)s
  ReaderFiltersType = %(rft)s
  Guided = %(guided)s
  ExportView = %(export)s
INVARIANTS %(invs)s
%(tail)sCHECK_DEADLOCK FALSE
'''

ALL_SIGNALS = ['logs', 'metrics', 'traces', 'profiles']
PROPS = 'TypeOK AckedReadable RetryIdempotentEnough RefusedResidue NoPhantom SearchImpliesFetch NoCrossSignal AckedStored'
# what the tree does today (a repaired deviation is switched off here and stays in the model as a mutation)
CODED_CSBI = False   # cache set before the insert: repaired by fix eb377cd (a failed request forgets the keys it set)
CODED_CKIT = False   # cache key ignores the sample type: repaired by the fix: commit recorded in known_findings.json
HOLD_AS_CODED = 'TypeOK RefusedResidue NoPhantom SearchImpliesFetch NoCrossSignal AckedStored'
ENDPOINTS = ['loki_query_range', 'loki_series', 'loki_label_values', 'prom_query_range', 'prom_series', 'prom_label_values',
             'tempo_by_id', 'tempo_search_tags', 'tempo_traceql', 'tempo_tag_values',
             'prof_select', 'prof_select_series', 'prof_series', 'prof_label_values', 'prof_profile_types']


def tset(xs):
    return '{' + ', '.join(('"%s"' % x) if isinstance(x, str) else str(x) for x in xs) + '}'


def b(v):
    return 'TRUE' if v else 'FALSE'


def cfg_text(signals, slots, spd, pushes, csbi, ckit, invs, rft=True, guided=False, export=False, queries=0, faults=1, retries=1,
             clears=1, lost=1, bad=1, items=2, spec='Spec', tail='', keys=(1, 2)):
    return CFG % {'spec': spec, 'signals': tset(signals), 'keys': tset(keys), 'slots': tset(slots), 'spd': spd, 'pushes': pushes,
                  'items': items, 'faults': faults, 'retries': retries, 'clears': clears, 'lost': lost, 'bad': bad, 'queries': queries,
                  'csbi': b(csbi), 'ckit': b(ckit), 'rft': b(rft), 'guided': b(guided), 'export': b(export), 'invs': invs, 'tail': tail}


def run_tlc(sd, name, text, workers, timeout, simulate=None, depth=None, seed=None):
    cfgp = os.path.join(sd, 'MC_Qryn_%s.cfg' % name)
    open(cfgp, 'w').write(text)
    return vlib.tlc(SPECDIR, 'MC_Qryn.tla', os.path.basename(cfgp), workers=workers, timeout=timeout, copy_extra=[cfgp],
                    simulate=simulate, depth=depth, seed=seed)


def steps_of(states):
    """A list of (action, state) -> replayable steps; the step and its arguments are read from the state's `last`."""
    steps = [{'action': 'Init', 'args': [], 'state': {}}]
    for action, st in states:
        if action == 'Choose':
            continue
        last = st.get('last')
        if not isinstance(last, dict):
            # a configuration without exported view: the step name only (such a trace is shown, never replayed)
            steps.append({'action': action, 'args': [], 'state': {}})
            continue
        kind = last['kind']
        if kind == 'init':
            continue
        if kind in ('push', 'retry'):
            args = [last['sig'], last['items'], last['fail']]
            if kind == 'push':
                args += [last['bad'], last['lost']]
            act = 'Push' if kind == 'push' else 'Retry'
        elif kind == 'clear':
            act, args = 'CacheClear', []
        elif kind == 'rollover':
            act, args = 'Rollover', []
        elif kind == 'query':
            act, args = 'Query', [last['ep'], last['key'], [last['from'], last['to']]]
        else:
            raise vlib.Infra('unknown step kind %r' % kind)
        steps.append({'action': act, 'args': args, 'state': {'last': last, 'view': st.get('view'), 'blame': st.get('blame')}})
    return steps


def counterexample(out, sd, name):
    """The error trace TLC printed -> steps."""
    i = out.find('Error: Invariant')
    if i < 0:
        return None
    txt = out[i:]
    m = re.search(r'\n\d+ states generated', txt)
    p = os.path.join(sd, 'cex_%s.txt' % name)
    open(p, 'w').write(txt[:m.start() + 1] if m else txt)
    try:
        beh = tlaparse.behaviour_flat(p)
    except Exception as e:  # noqa
        raise vlib.Infra('cannot parse the counterexample of %s: %s' % (name, e))
    return steps_of([(s['action'], s['state']) for s in beh])


def replay(binp, sd, name, model, behaviours, shards=1):
    """Run `x02 history` (in `shards` parallel processes: one e2e world per process) and merge the results."""
    env = dict(os.environ)
    env['TZ'] = 'UTC'
    parts = [behaviours[i::shards] for i in range(shards)]
    parts = [p for p in parts if p]

    def one(i):
        inp, outp = os.path.join(sd, 'h_%s_%d.json' % (name, i)), os.path.join(sd, 'ho_%s_%d.json' % (name, i))
        d = dict(model)
        d['behaviours'] = parts[i]
        json.dump(d, open(inp, 'w'))
        r = vlib.run_cmd([binp, 'history', '-in', inp, '-out', outp], timeout=3000, env=env)
        if not os.path.exists(outp):
            raise vlib.Infra('x02 history (%s) failed: %s' % (name, (r.stdout + r.stderr)[-2000:]))
        o = json.load(open(outp))
        if r.returncode != 0 or o.get('infra'):
            raise vlib.Infra('x02 history (%s): %s %s' % (name, o.get('infra'), (r.stderr or '')[-800:]))
        return o

    with concurrent.futures.ThreadPoolExecutor(max_workers=max(1, len(parts))) as ex:
        outs = list(ex.map(one, range(len(parts))))
    return merge(outs)


def merge(outs):
    stats, viols, sample = {}, {}, None

    def add(dst, src):
        for k, v in src.items():
            if isinstance(v, dict):
                add(dst.setdefault(k, {}), v)
            elif isinstance(v, (int, float)):
                dst[k] = dst.get(k, 0) + v
            elif isinstance(v, list):
                dst[k] = dst.get(k, []) + v
    for o in outs:
        add(stats, o['stats'])
        for v in o['violations'] or []:
            if v['signature'] in viols:
                viols[v['signature']]['count'] += v['count']
            else:
                viols[v['signature']] = v
        sample = sample or o.get('sample')
    return {'stats': stats, 'violations': list(viols.values()), 'sample': sample}


def run(tier):
    seed = vlib.seed()
    quick = tier == 'quick'
    binp = vlib.go_build('cmd/x02', 'x02')
    sd = vlib.scratch('x02')
    viols = []
    try:
        # ------------------------------------------------------------------ model checking
        lm = ['logs', 'metrics']
        s2, s3 = [0, 1], [0, 1, 2]
        jobs = []   # (name, cfg text, expectation, timeout)
        # the design (both deviations off): every property holds, per signal group
        jobs.append(('lm_design', cfg_text(lm, s2, 1, 2, False, False, PROPS), 'holds', 900))
        jobs.append(('tr', cfg_text(['traces'], s2 if quick else s3, 1 if quick else 2, 2, CODED_CSBI, CODED_CKIT, PROPS, faults=2, retries=2), 'holds', 900))
        jobs.append(('pf', cfg_text(['profiles'], s3, 2, 3, CODED_CSBI, CODED_CKIT, PROPS, faults=2, retries=2), 'holds', 900))
        # each deviation alone: TLC finds the counterexample (exported with the view, replayed on the real code below)
        jobs.append(('lm_csbi', cfg_text(lm, s2, 1, 2, True, False, 'AckedReadable RetryIdempotentEnough', export=True),
                     'cache-set-before-insert' if CODED_CSBI else 'model-mutation', 900))
        jobs.append(('lm_ckit', cfg_text(lm, s2, 1, 2, False, True, 'AckedReadable RetryIdempotentEnough', export=True),
                     'cache-key-ignores-type' if CODED_CKIT else 'model-mutation', 900))
        # model mutation: a reader without type filters violates NoCrossSignal (the invariant is not vacuous)
        jobs.append(('lm_notype', cfg_text(lm, s2, 1, 2, False, False, 'NoCrossSignal', rft=False), 'model-mutation', 900))
        if not quick:
            jobs.append(('lm_design_3slots', cfg_text(lm, s3, 2, 2, False, False, PROPS), 'holds', 2400))
            jobs.append(('lm_design_3pushes', cfg_text(lm, s2, 1, 3, False, False, PROPS), 'holds', 2400))
            jobs.append(('lm_coded', cfg_text(lm, s3, 2, 2, CODED_CSBI, CODED_CKIT, HOLD_AS_CODED), 'holds', 2400))
            jobs.append(('tr_3pushes', cfg_text(['traces'], s3, 2, 3, CODED_CSBI, CODED_CKIT, PROPS, faults=2, retries=2), 'holds', 2400))

        def mc(job):
            name, text, expect, to = job
            res = run_tlc(sd, name, text, workers=4 if quick else 6, timeout=to)
            try:
                r = {'config': name, 'expect': expect, 'states': res.get('distinct', 0), 'transitions': res.get('generated', 0),
                     'violated': res['violated'], 'wall_s': round(res['wall'], 1), 'cex': None}
                if res['violated']:
                    r['cex'] = counterexample(res['out'], sd, name)
                elif not res.get('finished'):
                    raise vlib.Infra('TLC did not finish on %s:\n%s' % (name, res['out'][-1500:]))
                return r
            finally:
                vlib.tlc_cleanup(res)

        with concurrent.futures.ThreadPoolExecutor(max_workers=4) as ex:
            mcs = list(ex.map(mc, jobs))
        states = sum(m['states'] for m in mcs)
        trans = sum(m['transitions'] for m in mcs)
        cexs = {}
        for m in mcs:
            if m['expect'] == 'holds' and m['violated']:
                raise vlib.Infra('Qryn.tla: %s is violated in configuration %s, where it must hold (specification problem):\n%s' % (
                    m['violated'], m['config'], json.dumps([(s['action'], s['args']) for s in (m['cex'] or [])])[:1500]))
            if m['expect'] != 'holds' and not m['violated']:
                raise vlib.Infra('Qryn.tla: configuration %s (%s) violates nothing: the deviation constant has no effect' % (m['config'], m['expect']))
            if m['expect'] in ('cache-set-before-insert', 'cache-key-ignores-type'):
                cexs[m['expect']] = m['cex']
        # ------------------------------------------------------------------ histories of the model as coded
        nb = 24 if quick else 320
        model3 = {'slots_per_day': 2, 'keys': [1, 2], 'slots': s3, 'signals': ALL_SIGNALS}
        sim = run_tlc(sd, 'coded_sim', cfg_text(ALL_SIGNALS, s3, 2, 4, CODED_CSBI, CODED_CKIT, HOLD_AS_CODED, guided=True, export=True, queries=2, faults=2,
                                                retries=2), workers=1, timeout=900, simulate={'num': nb, 'file': True}, depth=26, seed=seed)
        try:
            if sim['violated']:
                raise vlib.Infra('Qryn.tla as coded violates %s in simulation (specification problem):\n%s' % (sim['violated'], sim['out'][-1500:]))
            behs = [steps_of([(s['action'], s['state']) for s in bh]) for bh in vlib.behaviours(sim)]
            states += sim.get('generated', 0)
            trans += sim.get('generated', 0)
        finally:
            vlib.tlc_cleanup(sim)
        if not behs:
            raise vlib.Infra('TLC wrote no behaviours')
        hist = replay(binp, sd, 'sim', model3, behs, shards=3 if quick else 6)
        # the counterexamples TLC found for each deviation, on the real code
        model2 = {'slots_per_day': 1, 'keys': [1, 2], 'slots': s2, 'signals': lm}
        cexres = {}
        for cause, steps in cexs.items():
            o = replay(binp, sd, 'cex_' + cause.replace('-', '_'), model2, [steps])
            cexres[cause] = o
            got = [v['signature'] for v in o['violations']]
            if not any(g.startswith(cause + '|') for g in got) and not any(g.startswith('conformance|') for g in got):
                raise vlib.Infra('TLC: %s alone violates AckedReadable (history %s) but the replay on the real code reproduces neither it nor a '
                                 'conformance difference: %s' % (cause, json.dumps([(s['action'], s['args']) for s in steps])[:800], got))
        # ------------------------------------------------------------------ free-running workloads, validated as Trace_Qryn behaviours
        ntr = 4 if quick else 40
        ro, rt = os.path.join(sd, 'rec.json'), os.path.join(sd, 'rec.ndjson')
        env = dict(os.environ)
        env['TZ'] = 'UTC'
        r = vlib.run_cmd([binp, 'record', '-out', ro, '-trace', rt, '-seed', str(seed), '-n', str(ntr)], timeout=3000, env=env)
        if not os.path.exists(ro):
            raise vlib.Infra('x02 record failed: ' + (r.stdout + r.stderr)[-2000:])
        rec = json.load(open(ro))
        if r.returncode != 0 or rec.get('infra'):
            raise vlib.Infra('x02 record: %s %s' % (rec.get('infra'), (r.stderr or '')[-800:]))
        tcfg = cfg_text(ALL_SIGNALS, [0, 1, 2, 3], 2, 10 ** 6, CODED_CSBI, CODED_CKIT, 'TypeOK NoPhantom SearchImpliesFetch NoCrossSignal AckedStored', queries=10 ** 6,
                        faults=10 ** 6, retries=10 ** 6, clears=10 ** 6, lost=10 ** 6, bad=10 ** 6, spec='TraceSpec', tail='CONSTRAINT Accept\n%(diag)s')
        ok, detail, tst = vlib.validate_trace(SPECDIR, 'Trace_Qryn.tla', tcfg, rt, timeout=2400)
        lines = open(rt).read().splitlines()
        if not ok:
            ln = detail.get('line', 1)
            seg = [json.loads(x) for x in lines[max(0, ln - 40):ln]]
            # back to the start of that workload: the steps (not the queries) since the last reset
            k = ln - 1
            while k > 0 and '"ev":"reset"' not in lines[k]:
                k -= 1
            work = [json.loads(x) for x in lines[k:ln] if '"ev":"query"' not in x] + ([json.loads(lines[ln - 1])] if ln <= len(lines) else [])
            ev = json.loads(detail.get('event') or '{}') if detail.get('kind') == 'rejected' else {}
            sig = 'trace|%s|%s' % (detail.get('kind'), detail.get('invariant') or '%s|%s' % (ev.get('ev', '?'), ev.get('ep') or ev.get('sig') or ''))
            path = vlib.save_replay('X02', re.sub(r'[^A-Za-z0-9]+', '_', sig)[:100], {'kind': 'trace validation (Trace_Qryn)', 'detail': detail,
                                                                                       'workload_steps': work, 'last_events': seg})
            viols.append({'property': 'X02', 'signature': sig, 'replay': path,
                          'msg': 'a recorded workload of the real writer/reader is not a behaviour of Qryn.tla (as coded): %s' % json.dumps(detail)[:500]})
        states += tst['states']
        trans += tst['generated']
        # ------------------------------------------------------------------ violations observed on the real code
        seen = {}
        legend = {'Push': '[signal, items (key = stream/series/trace/profile series k<key>, t = time slot; slot t lies on day t div slots_per_day), '
                          'tables whose INSERT fails, body has a malformed tail, the client never sees the answer]',
                  'Retry': '[signal, items, tables whose INSERT fails]: the same items sent again', 'CacheClear': 'the 30-minute reset of the (day, fingerprint) cache',
                  'Rollover': 'later pushes may carry timestamps of the next day', 'Query': '[endpoint, key, [from slot, to slot]]',
                  'driver': 'cd /verif/harness && go build -tags verif -o /tmp/x02 ./cmd/x02 && TZ=UTC /tmp/x02 history -in <{slots_per_day, keys, slots, signals, behaviours: [[{action: Init}, steps...]]}> -out r.json'}
        # (the minimal counterexamples TLC found come first: their replay is the example kept for a signature)
        for src, o in [('cex:' + c, o) for c, o in cexres.items()] + [('history', hist), ('recorded', rec)]:
            for v in o['violations'] or []:
                v['source'] = src
                v['legend'] = legend
                if v['signature'] not in seen:
                    seen[v['signature']] = v
                else:
                    seen[v['signature']]['count'] += v['count']
        for sig, v in seen.items():
            path = vlib.save_replay('X02', re.sub(r'[^A-Za-z0-9]+', '_', sig)[:100], v)
            viols.append({'property': 'X02', 'signature': sig, 'msg': '%s [%d observations; first in %s]' % (v['msg'], v['count'], v['source']), 'replay': path})
        # ------------------------------------------------------------------ vacuity
        st = hist['stats']
        missing = [a for a in ('Push', 'Retry', 'CacheClear', 'Rollover', 'Query') if not st['steps'].get(a)]
        missing += ['push:' + s for s in ALL_SIGNALS if not st['pushes_by_signal'].get(s)]
        # (an endpoint that never answers anything is vacuity only if nothing was reported about it: a defect can silence it)
        reported = ' '.join(v['signature'] for v in viols)
        missing += ['answers:' + e for e in ENDPOINTS if not (st['nonempty_answers_by_endpoint'].get(e) or rec['stats']['nonempty_answers_by_endpoint'].get(e))
                    and e not in reported and 'unexplained|' not in reported]
        for k in ('pushes_with_failed_insert', 'answers_compared', 'acked_items_checked'):
            if not st.get(k):
                missing.append(k)
        if missing:
            raise vlib.Infra('vacuous run, not exercised: %s' % missing)
        cov = {'states': states, 'transitions': trans,
               'traces_validated_against_impl': st['histories'] + len(cexres) + rec['stats']['histories'],
               'samples': [{'replayed_history': [(s['action'], s['args']) for s in behs[0][1:]]},
                           {'recorded_workload_head': [json.loads(x) for x in lines[:6]]}],
               'exhaustive': True,
               'model_checks': [{k: m[k] for k in ('config', 'expect', 'states', 'transitions', 'violated', 'wall_s')} for m in mcs],
               'deviation_counterexamples': {c: [(s['action'], s['args']) for s in steps[1:]] for c, steps in cexs.items()},
               'history_replay': st, 'distinct_nontrivial': st.get('distinct_histories', 0),
               'evaluations': st['answers_compared'] + rec['stats']['queries'],
               'recorded': {'workloads': rec['stats']['histories'], 'events': rec['events'], 'accepted': ok, 'detail': detail, 'tlc': tst,
                            'steps': rec['stats']['steps'], 'queries': rec['stats']['queries']}}
        return {'level': 'model_checking', 'coverage': cov, 'violations': viols,
                'assumptions': ['an INSERT is atomic together with its materialized views (the store applies them with the block)',
                                'a failed INSERT = all retry attempts failed (retry_attempts = 1 in the replay)',
                                'presence, not multiplicity: samples_v3 / tempo_traces / profiles are plain MergeTree tables, a retry of a partially inserted push '
                                'stores and returns its data rows twice (at-least-once); index tables are (Replacing)MergeTree',
                                'query windows contain the items strictly (edges at -60 s / +60 s around the slots): window edge semantics are C13',
                                'one writer and one reader process, UTC, single node; requests are sequential (interleavings of concurrent pushes are C01/C02)',
                                'an empty profile merge is delivered by chbridge as an untyped array which the reader cannot scan (500): taken as the empty answer']}
    finally:
        shutil.rmtree(sd, ignore_errors=True)

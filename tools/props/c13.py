"""C13: every read is confined to the requested time window and signal type.

Window.tla (spec/query) defines, for a SCAN DESCRIPTOR (how one statement restricts one base table: timestamp bounds and
how their literals derive from the request, date bounds and which date function of from/to they use, type filter; the
writer's date rule of the table; the API's signal / metric / end-inclusive convention), what Leak and Miss mean.
The descriptors are not written by hand: harness/cmd/c13 calls every read endpoint of the REAL reader routes (e2e world:
real routes, real planners, SQL executed by the chsql reference interpreter over the store with the real DDL) on several
windows under several process time zones, parses every executed statement with chsql, walks to every base-table read
and classifies the literal bounds against the request.  TLC (MC_Window) then decides for every extracted descriptor,
over ALL windows / row timestamps / row types / reader and writer zones, whether it can leak or miss, and prints
witnesses.  A descriptor with a witness is only a CANDIDATE: the witness is replayed against the real endpoint
(boundary rows planted into the store, the endpoint called under the witness' TZ, rows offered vs admitted per scan by
DB.QueryWithScans plus the HTTP response); only such real-code observations become violations.  Every observed leak /
miss must belong to a descriptor TLC flagged (otherwise the model or the extraction is wrong: infrastructure error).

Sub-second resolution: the model's second has interior instants (QSec = 3 ticks) and a tick is replayed with a fractional
part at positions 1 / 2 of its second (seeded; ns for LogQL, ms for Prometheus / Pyroscope; Tempo, Prometheus series /
labels and query_range parameters are whole seconds by their parsers).  Prometheus selects get sub-second windows the
three ways the reader allows: RFC 3339 evaluation times with a fraction, PromQL offsets and ranges with a millisecond part
(descriptor field shift).  A timestamp literal that is not a named function of the request but lies in the second of one
is extracted as `<function>~sub` (Window.tla BoundLit sub) - a candidate like any other, judged by boundary rows at ns / ms
distance from both ends and at the starts of their seconds.  Rows strictly inside the window that a timestamp bound
rejects are misses (Window.tla TsMiss), like rows an index date bound rejects."""
import json
import os
import random
import re
import shutil
import subprocess
import time

import vlib

SPECDIR = os.path.join(vlib.SPEC, 'query')
BASE_NS = 1701216000 * 10**9          # 2023-11-29T00:00:00Z, tick 0 (cmd/c13/main.go baseNs)
TICK_NS = 900 * 10**9             # one tick = 15 minutes: half of FormatFromDate's 30 min margin, so that the margin is visible
ZONE_OF = {-20: 'America/New_York', 0: 'UTC', 12: 'Europe/Moscow'}   # offsets in ticks on the modelled days
OFF_OF = {v: k for k, v in ZONE_OF.items()}

CFG = '''SPECIFICATION Spec
CONSTANTS
  DescSeq <- MDescSeq
  Ticks <- MTicks
  DayTicks = 96
  Margin = 2
  QSec = 3
  Q15 = 6
  QBucket = 9
  Zones <- MZones
  Types <- MTypes
  PStep = 5
  PRange = 2
  WinLens <- MWinLens
  MaxTick = 287
  CompleteEvery = %(every)d
INVARIANTS TypeOK RefClean WitnessSound WitnessComplete Report
CHECK_DEADLOCK FALSE
'''

TS_PREF = ['none', 'sec', 'ms', 's15:floor', 's15:ceilp', 's15:ceilps', 's15:ceilx', 'bucket:floor', 'bucket:ceilp', 'bucket:ceilps', 'bucket:ceilx']
TS_PREF = TS_PREF + [p + '~sub' for p in TS_PREF]    # last: a literal in the second of a named derivation that is not the derivation itself

# sub-second positions of a tick (Window.tla: QSec = 3 ticks, position 1 / 2 = a fractional part; Q15 = 6 ticks: the
# second half of a 15 s quantum = whole seconds past the 15 s boundary): pools the seed draws from, in ns. Parts below
# the unit of an API are cut by the driver (alignWin): LogQL keeps multiples of 1024 ns, Prometheus / Pyroscope
# milliseconds, Tempo whole seconds.
FRAC_LOW = [1000448, 37000192, 250000512, 499999744]
FRAC_HIGH = [500000768, 750250496, 962000896, 999999488]
SEC_PHASE = [1, 7, 8, 14]


def concretiser(rng):
    lo, hi, sp = rng.choice(FRAC_LOW), rng.choice(FRAC_HIGH), rng.choice(SEC_PHASE) * 10**9
    def conc(t):
        return BASE_NS + t * TICK_NS + ((t % 6) // 3) * sp + (0, lo, hi)[t % 3]
    return conc, {'position_1_ns': lo, 'position_2_ns': hi, 'second_phase_ns': sp}

DLO_PREF = ['utcFromM30', 'utcFrom', 'localFrom', 'localFromM30']
DHI_PREF = ['utcTo', 'localTo', 'utcToM30', 'localToM30']


def ref_descs():
    """hand-written reference descriptors: the canonical bounds must be clean, known-bad ones must be flagged"""
    none_lo, none_hi = {'op': 'none', 'w': 'none'}, {'op': 'none', 'w': 'none', 'dir': 'floor'}
    base = dict(kind='data', wrule='', agg15=False, shift=0, sig=1, metric=False, upIncl=False, tlo=none_lo, thi=none_hi, dlo='none', dhi='none',
                tyf='set', tys={0, 1}, ph=dict(NO_PH))
    r = []
    r.append(dict(base, ref='clean', tlo={'op': 'ge', 'w': 'none'}, thi={'op': 'lt', 'w': 'none', 'dir': 'floor'}))
    r.append(dict(base, ref='clean', kind='index', wrule='utc', dlo='utcFromM30', dhi='utcTo'))
    r.append(dict(base, ref='clean', agg15=True, metric=True, upIncl=True, tlo={'op': 'gt', 'w': 's15'}, thi={'op': 'le', 'w': 's15', 'dir': 'ceilp'}))
    r.append(dict(base, ref='clean', metric=True, tlo={'op': 'ge', 'w': 'bucket'}, thi={'op': 'lt', 'w': 'bucket', 'dir': 'ceilx'}))
    r.append(dict(base, ref='clean', upIncl=True, tlo={'op': 'ge', 'w': 'none'}, thi={'op': 'le', 'w': 'none', 'dir': 'floor'}))
    r.append(dict(base, ref='clean', metric=True, upIncl=True, tlo={'op': 'ge', 'w': 'sec'}, thi={'op': 'le', 'w': 's15', 'dir': 'ceilp'}))   # widening below the start
    r.append(dict(base, ref='bad:miss', upIncl=True, tlo={'op': 'ge', 'w': 'none'}, thi={'op': 'le', 'w': 'sec', 'dir': 'floor'}))        # end cut to the second
    r.append(dict(base, ref='bad:miss', metric=True, upIncl=True, tlo={'op': 'ge', 'w': 'none', 'sub': True}, thi={'op': 'le', 'w': 'none', 'dir': 'floor', 'sub': True}))  # garbled fraction
    r.append(dict(base, ref='clean', metric=True, upIncl=True, shift=1, tlo={'op': 'ge', 'w': 's15'}, thi={'op': 'le', 'w': 's15', 'dir': 'ceilp'}))      # millisecond offset, exact
    r.append(dict(base, ref='bad:leak', metric=True, upIncl=True, shift=1, tlo={'op': 'ge', 'w': 's15', 'sub': True}, thi={'op': 'le', 'w': 's15', 'dir': 'ceilp'}))  # ... cut below the widened start
    r.append(dict(base, ref='bad:miss', metric=True, upIncl=True, tlo={'op': 'ge', 'w': 's15'}, thi={'op': 'le', 'w': 's15', 'dir': 'ceilps'}))  # fraction dropped before the ceiling
    r.append(dict(base, ref='bad:leak', tlo={'op': 'ge', 'w': 'none', 'sub': True}, thi={'op': 'lt', 'w': 'none', 'dir': 'floor'}))      # start cut on a query that may not widen
    r.append(dict(base, ref='bad:leak', thi=none_hi, tlo={'op': 'ge', 'w': 'none'}))                       # no upper timestamp bound
    r.append(dict(base, ref='bad:leak', tlo={'op': 'ge', 'w': 'none'}, thi={'op': 'le', 'w': 'none', 'dir': 'floor'}))   # <= on an exclusive end
    r.append(dict(base, ref='bad:leak', tlo={'op': 'ge', 'w': 'none'}, thi={'op': 'lt', 'w': 'none', 'dir': 'floor'}, tyf='none', tys=set()))  # no type filter
    r.append(dict(base, ref='bad:miss', kind='index', wrule='utc', dlo='utcFromM30', dhi='localTo'))         # local date as upper bound
    r.append(dict(base, ref='bad:miss', kind='index', wrule='utc', dlo='utcFromM30', dhi='utcToM30'))        # FormatFromDate(to) as upper bound
    r.append(dict(base, ref='bad:miss', kind='index', wrule='utc', dlo='utcFrom', dhi='utcTo', tyf='set', tys={2, 0}))  # filter of the other signal
    # the step filter of sparse range queries: the canonical form, and one reference per way of narrowing too far
    sparse = dict(base, metric=True, upIncl=True, tlo={'op': 'ge', 'w': 'none'}, thi={'op': 'le', 'w': 'none', 'dir': 'floor'})
    canon = {'on': True, 'eq0': True, 'op': 'ge', 'c': 0, 'anchor': 'eval'}
    r.append(dict(sparse, ref='clean', ph=dict(canon)))
    r.append(dict(sparse, ref='clean', ph=dict(canon, c=-1)))                    # looser than needed: reads more, inside the window
    r.append(dict(sparse, ref='bad:miss', ph=dict(canon, op='gt')))              # the left edge of every range window
    r.append(dict(sparse, ref='bad:miss', ph=dict(canon, c=1)))
    r.append(dict(sparse, ref='bad:miss', ph=dict(canon, eq0=False)))            # the evaluation instant itself
    r.append(dict(sparse, ref='bad:miss', ph=dict(canon, anchor='start')))       # position counted from the start of the range window
    r.append(dict(sparse, ref='bad:miss', ph=dict(canon, anchor='other')))
    r.append(dict(sparse, ref='bad:miss', ph=dict(canon, op='none')))
    for d in r:
        for b in ('tlo', 'thi'):
            d[b] = dict({'sub': False}, **d[b])
    return r


NO_PH = {'on': False, 'eq0': False, 'op': 'none', 'c': 0, 'anchor': 'eval'}


def phsig(ph):
    return 'none' if not ph['on'] else '%s%s%s@%s' % ('eq0+' if ph['eq0'] else '', ph['op'], {0: '', 1: '+', -1: '-'}[ph['c']], ph['anchor'])


def bsig(b):
    return b['w'] + ('~sub' if b.get('sub') else '')


def desc_sig(d):
    return '%s/%s%s sig=%d%s%s%s tlo=%s:%s thi=%s:%s:%s dlo=%s dhi=%s ty=%s%s' % (
        d['kind'], d['wrule'] or '-', '/agg15' if d['agg15'] else '', d['sig'], ' metric' if d['metric'] else '', ' endIncl' if d['upIncl'] else '',
        ' subsec-shift' if d['shift'] else '', d['tlo']['op'], bsig(d['tlo']), d['thi']['op'], bsig(d['thi']), d['thi']['dir'], d['dlo'], d['dhi'],
        'none' if d['tyf'] == 'none' else ','.join(str(x) for x in sorted(d['tys'])), ' step-filter=' + phsig(d['ph']) if d['ph']['on'] else '')


def cause_sig(d, f):
    """the table shape and the one predicate that is to blame: stable across endpoints, zones and seeds"""
    tbl = f['table'] + '(' + d['kind'] + ('/' + d['wrule'] if d['wrule'] else '') + ')'
    by_ts = d['kind'] == 'data' or (d['kind'] == 'both' and (d['tlo']['op'] != 'none' or d['thi']['op'] != 'none'))
    side = f.get('side')
    if side == 'ty' or f['why'] in ('other-signal', 'type-filter'):
        return '%s|type=%s' % (tbl, 'none' if d['tyf'] == 'none' else ','.join(str(x) for x in sorted(d['tys'])))
    if side == 'ph' or f['why'] == 'step-filter':
        return '%s|step-filter=%s' % (tbl, phsig(d['ph']))
    if (f['kind'] == 'leak' and by_ts) or f['why'] == 'ts-bound':
        if side == 'lo':
            return '%s|tlo=%s:%s%s' % (tbl, d['tlo']['op'], bsig(d['tlo']), '' if d['metric'] else ' (not a metric query)' if bsig(d['tlo']) != 'none' else '')
        return '%s|thi=%s:%s:%s%s' % (tbl, d['thi']['op'], bsig(d['thi']), d['thi']['dir'], ' endIncl' if d['upIncl'] else '')
    return '%s|%s=%s' % (tbl, 'dlo' if side == 'lo' else 'dhi', d['dlo'] if side == 'lo' else d['dhi'])


def pick(labels, side, pref):
    for p in pref:
        if (side + p) in labels:
            return p
    return None


def to_desc(s, problems):
    """merged scan record -> abstract descriptor (or None)"""
    where = '%s cluster=%r stmt %d scan %d (%s)' % (s['endpoint'], s['cluster'], s['stmt'], s['scan'], s['table'])
    if s.get('unknown'):
        problems.append('%s: predicates on a time column that the extractor does not understand: %s' % (where, s['unknown'][:2]))
        return None
    if s.get('extra'):
        problems.append('%s: %s' % (where, s['extra'][:2]))
        return None
    d = dict(ref='', kind=s['kind'], wrule=s['wrule'], agg15=s['table'] == 'metrics_15s', shift=1 if (s.get('lookback_ns', 0) + s.get('offset_ns', 0)) % 10**9 else 0, sig=s['signal'], metric=bool(s['metric']), upIncl=bool(s['up_incl']))
    swap = {1: 2, 2: 1, 0: 0}
    if s['ts_lo'] is None:
        d['tlo'] = {'op': 'none', 'w': 'none', 'sub': False}
    else:
        p = pick(s['ts_lo']['labels'], 'from:', [x for x in TS_PREF if 'ceil' not in x])
        if p is None:
            problems.append('%s: lower timestamp bound %s is no recognised function of the request (%s)' % (where, s['ts_lo']['texts'][:2], s['ts_lo']['labels']))
            return None
        sub, p = p.endswith('~sub'), p.replace('~sub', '')
        w = p.split(':')[0]
        d['tlo'] = {'op': s['ts_lo']['op'], 'w': 'sec' if w == 'ms' else w, 'sub': sub}
    if s['ts_hi'] is None:
        d['thi'] = {'op': 'none', 'w': 'none', 'dir': 'floor', 'sub': False}
    else:
        p = pick(s['ts_hi']['labels'], 'to:', TS_PREF)
        if p is None:
            problems.append('%s: upper timestamp bound %s is no recognised function of the request (%s)' % (where, s['ts_hi']['texts'][:2], s['ts_hi']['labels']))
            return None
        sub, p = p.endswith('~sub'), p.replace('~sub', '')
        f = p.split(':')
        d['thi'] = {'op': s['ts_hi']['op'], 'w': 'sec' if f[0] == 'ms' else f[0], 'dir': f[1] if len(f) > 1 else 'floor', 'sub': sub}
    for fld, key, pref in (('dlo', 'd_lo', DLO_PREF), ('dhi', 'd_hi', DHI_PREF)):
        if s[key] is None:
            d[fld] = 'none'
            continue
        if s[key]['op'] not in ('ge', 'le'):
            problems.append('%s: date bound with operator %s' % (where, s[key]['op']))
            return None
        p = pick(s[key]['labels'], '', pref)
        if p is None:
            problems.append('%s: date bound %s is no recognised function of the request (%s)' % (where, s[key]['texts'][:2], s[key]['labels']))
            return None
        d[fld] = p
    d['ph'] = dict(NO_PH)
    if s.get('phase_cls'):
        f = s['phase_cls'].split('|')
        if len(f) != 4 or f[1] not in ('ge', 'gt', 'none') or f[3] not in ('eval', 'start', 'other'):
            problems.append('%s: step filter classification %r not understood' % (where, s['phase_cls']))
            return None
        d['ph'] = {'on': True, 'eq0': f[0] == 'true', 'op': f[1], 'c': int(f[2]), 'anchor': f[3]}
    elif s.get('phase') and not (s.get('table') == 'metrics_15s' and all('timestamp_ns' in t for t in s['phase'])):
        # (the downsample planner's filter on metrics_15s is another mechanism: PromDown.tla, extra check X08)
        problems.append('%s: step filter %s without classification' % (where, s['phase'][:1]))
        return None
    if s['has_type']:
        d['tyf'] = 'set'
        d['tys'] = set(int(x) for x in (s['type'] or []))
    else:
        d['tyf'], d['tys'] = 'none', set()
    if d['sig'] == 2:      # logs and metrics are symmetric: normalise to "the requested signal is 1"
        d['sig'] = 1
        d['tys'] = set(swap.get(x, x) for x in d['tys'])
    return d


def merge_scans(extracts, problems):
    """intersect the classifications of every scan over the zones"""
    merged = {}
    for ex in extracts:
        for s in ex['scans']:
            k = (s['endpoint'], s['cluster'], s['stmt'], s['scan'])
            m = merged.get(k)
            if m is None:
                merged[k] = json.loads(json.dumps(s))
                continue
            if m['table'] != s['table']:
                problems.append('%s: scan reads %s under one zone and %s under another' % (k, m['table'], s['table']))
                continue
            if 'local' in (m['wrule'], s['wrule']):      # a UTC process cannot tell the writer's "local" rule from "utc"
                m['wrule'] = 'local'
            for b in ('ts_lo', 'ts_hi', 'd_lo', 'd_hi'):
                if (m[b] is None) != (s[b] is None):
                    m.setdefault('extra', []).append('%s present under one zone only' % b)
                elif m[b] is not None:
                    if m[b]['op'] != s[b]['op']:
                        m.setdefault('extra', []).append('%s operator differs between zones' % b)
                    m[b]['labels'] = [x for x in m[b]['labels'] if x in s[b]['labels']]
            if m.get('phase_cls', '') != s.get('phase_cls', ''):
                m.setdefault('extra', []).append('step filter differs between zones')
            if m['has_type'] != s['has_type'] or (m['type'] or []) != (s['type'] or []):
                m.setdefault('extra', []).append('type filter differs between zones')
            m['unknown'] = (m.get('unknown') or []) + (s.get('unknown') or [])
            m['windows'] += s['windows']
    return merged


def run_driver(binp, zone, args, timeout):
    env = dict(os.environ)
    env['TZ'] = zone
    return subprocess.Popen([binp] + args, env=env, stdout=subprocess.PIPE, stderr=subprocess.STDOUT, text=True)


def wait_all(procs, what, timeout):
    outs = {}
    t0 = time.time()
    for zone, (p, outp) in procs.items():
        try:
            log, _ = p.communicate(timeout=max(5, timeout - (time.time() - t0)))
        except subprocess.TimeoutExpired:
            p.kill()
            raise vlib.Infra('c13 driver (%s, TZ=%s) timed out' % (what, zone))
        if p.returncode != 0 or not os.path.exists(outp):
            raise vlib.Infra('c13 driver (%s, TZ=%s) failed rc=%s:\n%s' % (what, zone, p.returncode, (log or '')[-3000:]))
        try:
            outs[zone] = json.load(open(outp))
        except ValueError as e:
            raise vlib.Infra('c13 driver (%s, TZ=%s): unparsable output: %s' % (what, zone, e))
    return outs


def run(tier):
    sd = vlib.scratch('c13')
    try:
        return run_in(tier, sd)
    finally:
        if not os.environ.get('VERIF_KEEP'):
            shutil.rmtree(sd, ignore_errors=True)


def run_in(tier, sd):
    t_start = time.time()
    rng = random.Random(vlib.seed())
    conc, conc_params = concretiser(random.Random(vlib.seed() * 7919 + 13))
    seed_arg = ['-seed', str(vlib.seed() % (2**31))]
    binp = vlib.go_build('cmd/c13', 'c13')
    if tier == 'quick':
        zones = ['UTC', rng.choice(['America/New_York', 'Europe/Moscow'])]
    else:
        zones = ['UTC', 'America/New_York', 'Europe/Moscow']
    assumptions = [
        'the ClickHouse server runs in UTC (date columns filled by materialized views with toDate(); chsql evaluates date functions in UTC)',
        'rows of the store are planted with the writer\'s date rule (time_series / profiles: UTC day; tempo tags: UTC day or day in the '
        'writer\'s zone, whichever the real writer is observed to store in a process whose zone is not UTC); '
        'the rule is bound to the real writer by pushing records around a UTC midnight through the real routes in every driver process',
        'LogQL start/end are parsed as float64 by the controller: only multiples of 256 ns are representable, windows use multiples of 1024 ns',
        'quanta of the model (second = 3 ticks: two interior sub-second positions, 15 s = 6 ticks, range bucket = 9 ticks) are abstract stand-ins; the concrete oracle of the '
        'driver uses the real quanta. A tick at position 1 / 2 of its second is replayed with a fractional part drawn by the seed (ns for LogQL, ms for Prometheus / '
        'Pyroscope), a tick in the second half of its 15 s quantum with whole seconds past the 15 s boundary',
        'window end convention per API: LogQL [start, end), Prometheus / Tempo / Pyroscope [start, end] (end inclusive); PromQL windows include the range / 5 min lookback before start '
        'and are shifted back by the offset of the selector: the window of a Prometheus select is [hints.Start, hints.End] as the engine asks for it',
        'timestamp-bound misses are judged on rows STRICTLY inside the window (whether the end instants belong to it is the API convention) and only against explicit '
        'timestamp / type predicates',
        'sparse range queries (a range-vector function evaluated with step > range): the statement may skip the gaps between the range windows [t - offset - range, t - offset] of the '
        'evaluation instants t (both edges belong to the window: the vendored engine reads t - range <= ts <= t), nothing inside them (Window.tla PhaseMiss). The evaluation instants of '
        'query_range are floor15(start) + k * step <= ceil15(end) (the controller\'s alignment, the widening a metric query is allowed); only range windows whose end also lies inside '
        'the requested window and rows strictly inside the requested window are judged; a step filter that is looser than needed is no leak',
        'sub-second precision per API as the reader parses it: LogQL ns; Prometheus instant `time` as a number with decimals and as RFC 3339 with a fraction; Prometheus '
        'query_range start / end, series, labels and Tempo whole seconds (query_range evaluates on a whole-second grid; series / labels / Tempo parse integers only); there the '
        'sub-second part of a select window comes from PromQL offsets / ranges with a millisecond part; Pyroscope ms',
        'scans inside blocks with JOIN / ARRAY JOIN: the interpreter reports rows admitted by PREWHERE only; for those a leak needs the literal bounds of the statement to admit the row AND the response to show it',
        'tail (/loki/api/v1/tail) is not driven: its window is [now-5min, now) chosen by the reader itself over a websocket; it uses the same planner chain as query_range (log query)',
    ]
    # ---- 1. extraction under every zone (real endpoints)
    procs = {}
    for z in zones:
        outp = os.path.join(sd, 'extract_%s.json' % z.replace('/', '_'))
        procs[z] = (run_driver(binp, z, ['-mode', 'extract', '-tier', tier, '-clusters', ',c1', '-out', outp] + seed_arg, 600), outp)
    extracts = wait_all(procs, 'extract', 300 if tier == 'quick' else 800)
    problems = []
    for z, ex in extracts.items():
        for e in (ex.get('errors') or []):
            problems.append('TZ=%s: %s' % (z, e))
        for o in ex['writer_obs']:
            if not o['matches']:
                problems.append('TZ=%s: the real writer stored day %d for a %s row at %d; Window.tla\'s writer rule "%s" says otherwise' % (
                    z, o['stored_day'], o['table'], o['ts_ns'], o['rule']))
        if not ex['writer_obs']:
            problems.append('TZ=%s: no writer observations' % z)
    if problems:
        raise vlib.Infra('extraction problems (%d), first: %s' % (len(problems), ' || '.join(problems[:5])))
    # the date rule of the tempo tag tables as observed on the real writer (processes outside UTC can tell)
    tempo_rule = 'local' if any(o['rule'] == 'local' for ex in extracts.values() for o in ex['writer_obs'] if o['table'] == 'tempo_traces_attrs_gin') else 'utc'
    merged = merge_scans(list(extracts.values()), problems)
    descs, index_of, scan_desc, nowindow = [], {}, {}, 0
    for k, s in sorted(merged.items()):
        if s['no_window']:
            nowindow += 1
            continue
        d = to_desc(s, problems)
        if d is None:
            continue
        sig = desc_sig(d)
        if sig not in index_of:
            d['id'] = len(descs) + 1
            index_of[sig] = d['id']
            descs.append(d)
        scan_desc[k] = index_of[sig]
    if problems:
        raise vlib.Infra('descriptor extraction incomplete (%d), first: %s' % (len(problems), ' || '.join(problems[:5])))
    if len(descs) < 10:
        raise vlib.Infra('only %d descriptors extracted: vacuous' % len(descs))
    n_real = len(descs)
    for r in ref_descs():
        r['id'] = len(descs) + 1
        descs.append(r)
    by_id = {d['id']: d for d in descs}
    users = {}      # descriptor id -> [(endpoint, cluster, scan record)]
    for k, did in scan_desc.items():
        users.setdefault(did, []).append(merged[k])
    # ---- 2. TLC decides leak / miss for every descriptor
    # day 1 = ticks 96..191; New York's midnight is at tick 116 (05:00 UTC), Moscow's at tick 180 (21:00 UTC)
    if tier == 'quick':
        ticks_from = '(94..98) \\cup (115..117) \\cup (179..181) \\cup (190..193)'
        lens, every = '(0..4) \\cup (20..22) \\cup (94..98)', 11
    else:
        ticks_from, lens, every = '96..191', '(0..30) \\cup (80..112)', 7
    mod = '---- MODULE MC_WindowGen ----\nEXTENDS MC_Window\nMDescSeq == <<\n  ' + ',\n  '.join(vlib.tla_value(d) for d in descs) + '\n>>\n'
    mod += 'MTicks == 0..287\nMZones == {-20, 0, 12}\nMTypes == {0, 1, 2}\nMWinLens == %s\nMFrom == %s\n====\n' % (lens, ticks_from)
    modp, cfgp = os.path.join(sd, 'MC_WindowGen.tla'), os.path.join(sd, 'MC_WindowGen.cfg')
    open(modp, 'w').write(mod)
    open(cfgp, 'w').write((CFG % {'every': every}).replace('MaxTick = 287', 'MaxTick = 287\n  FromTicks <- MFrom'))
    res = vlib.tlc(SPECDIR, 'MC_WindowGen', 'MC_WindowGen.cfg', timeout=500 if tier == 'quick' else 2400, heap='6g', copy_extra=[modp, cfgp])
    try:
        out = res['out']
        if res['violated'] or not res.get('finished') or 'Model checking completed. No error has been found' not in out:
            raise vlib.Infra('TLC on MC_Window: spec-level invariant failed or run incomplete (%s):\n%s' % (res['violated'], out[-3000:]))
        wits = []
        for line in out.splitlines():
            if line.startswith('"{'):
                try:
                    wits.append(json.loads(json.loads(line)))
                except ValueError as e:
                    raise vlib.Infra('cannot parse a witness printed by TLC: %s: %s' % (e, line[:200]))
        states, generated, tlc_wall = res.get('distinct', 0), res.get('generated', 0), res['wall']
    finally:
        vlib.tlc_cleanup(res)
    cand = {}   # (did, kind) -> [witness]
    for w in wits:
        cand.setdefault((w['d'], w['kind']), []).append(w)
    for d in descs:
        if d['ref'] == 'clean' and ((d['id'], 'leak') in cand or (d['id'], 'miss') in cand):
            raise vlib.Infra('reference descriptor %s flagged by TLC' % desc_sig(d))
        if d['ref'].startswith('bad:') and (d['id'], d['ref'][4:]) not in cand:
            raise vlib.Infra('known-bad reference descriptor %s not flagged by TLC (%s): the model is vacuous' % (desc_sig(d), d['ref']))
    real_cands = sorted(k for k in cand if k[0] <= n_real)
    # ---- 3. replay the witnesses against the real endpoints
    jobs = {z: [] for z in ZONE_OF.values()}    # a witness is replayed under the reader zone it names, whatever zones the extraction used
    seen_jobs = set()
    per_key = 2 if tier == 'quick' else 4
    max_eps = 6 if tier == 'quick' else 16
    for (did, kind) in real_cands:
        ws = sorted(cand[(did, kind)], key=lambda w: (w['tzr'], w['tzw'], w['to'] - w['from'], w['from']))
        # one endpoint per endpoint family (and cluster mode), deterministically
        fam = {}
        for s in sorted(users.get(did, []), key=lambda s: (s['endpoint'], s['cluster'])):
            fam.setdefault(('.'.join(s['endpoint'].split('.')[:2]), s['cluster']), s)
        eps = [fam[k] for k in sorted(fam)]
        byzone = {}
        for w in ws:
            byzone.setdefault((w['tzr'], w['tzw']), []).append(w)
        for (tzr, tzw), lst in sorted(byzone.items()):
            z = ZONE_OF[tzr]
            for w in lst[:per_key]:
                for s in eps[:max_eps]:
                    # the model's window is the DATA window; the API parameters lie lookback + offset later
                    lookback, offset = s.get('lookback_ns', 0), s.get('offset_ns', 0)
                    start = conc(w['from']) + lookback + offset
                    end = conc(w['to']) + offset
                    if s.get('instant'):
                        start = end - 3600 * 10**9
                    j = (z, s['endpoint'], s['cluster'], start, end, ZONE_OF[tzw], conc(w['ts']))
                    if j in seen_jobs:
                        continue
                    seen_jobs.add(j)
                    jobs[z].append({'id': 'd%d-%s-%d' % (did, kind, len(jobs[z])), 'endpoint': s['endpoint'], 'cluster': s['cluster'], 'start_ns': start,
                                    'end_ns': end, 'writer_tz': ZONE_OF[tzw] if by_id[did]['wrule'] == 'local' else '', 'extra_ts': [conc(w['ts'])],
                                    'desc': did, 'kind': kind, 'witness': w})
    procs = {}
    for z in sorted(jobs):
        if not jobs[z]:
            continue
        inp = os.path.join(sd, 'jobs_%s.json' % z.replace('/', '_'))
        outp = os.path.join(sd, 'probe_%s.json' % z.replace('/', '_'))
        json.dump(jobs[z], open(inp, 'w'))
        procs[z] = (run_driver(binp, z, ['-mode', 'probe', '-tempo-rule', tempo_rule, '-in', inp, '-out', outp] + seed_arg, 600), outp)
    probes = wait_all(procs, 'probe', 300 if tier == 'quick' else 800)
    findings, n_probe, probe_errors = [], 0, []
    for z, ex in extracts.items():
        for f in (ex.get('findings') or []):
            f['stage'] = 'standard boundary rows'
            findings.append(f)
        n_probe += ex['probes']
    for z, pr in probes.items():
        probe_errors += ['TZ=%s: %s' % (z, e) for e in (pr.get('errors') or [])]
        for r in (pr.get('results') or []):
            n_probe += 1
            for f in (r.get('findings') or []):
                f['stage'] = 'TLC witness %s' % json.dumps(r['job'].get('witness') or {}, sort_keys=True)
                findings.append(f)
    if probe_errors:
        raise vlib.Infra('witness replay problems (%d), first: %s' % (len(probe_errors), ' || '.join(probe_errors[:4])))
    # ---- 4. verdicts: group the real-code observations by descriptor
    by_stmt, by_table = {}, {}
    for k, did in scan_desc.items():
        by_stmt.setdefault((k[0], k[1], k[2], merged[k]['table']), set()).add(did)
        by_table.setdefault((k[0], k[1], merged[k]['table']), set()).add(did)
    groups, gaps = {}, []

    def dids_of(f):
        return by_stmt.get((f['endpoint'], f['cluster'], f['stmt'], f['table'])) or by_table.get((f['endpoint'], f['cluster'], f['table'])) or set()

    def bounded(did, side):
        d = by_id[did]
        fld = {'lo': ('dlo', 'tlo'), 'hi': ('dhi', 'thi')}.get(side)
        return bool(fld) and (d[fld[0]] != 'none' or d[fld[1]]['op'] != 'none')

    # one row let through by several index scans of one statement (fingerprint sub-select without upper date bound, outer
    # select with one): the scan that HAS a bound on that side and still admits the row is the one to blame
    per_row = {}
    for f in findings:
        if f['kind'] == 'leak' and f['why'] == 'outside-window':
            k = (f['endpoint'], f['cluster'], f['tz'], f['writer_tz'], f['win']['start_ns'], f['win']['end_ns'], f['stmt'], f['entity']['marker'], f['side'])
            per_row.setdefault(k, []).append(f)
    dropped = set()
    for k, fs in per_row.items():
        if any(any(bounded(d, k[-1]) for d in dids_of(f)) for f in fs):
            for f in fs:
                if not any(bounded(d, k[-1]) for d in dids_of(f)):
                    dropped.add(id(f))
    for f in findings:
        if id(f) in dropped:
            continue
        dids = dids_of(f)
        flagged = sorted(d for d in dids if (d, f['kind']) in cand)
        if not flagged:
            gaps.append('%s on %s (%s, TZ=%s): %s; descriptors %s' % (f['kind'], f['endpoint'], f['table'], f['tz'], f['detail'][:200],
                                                                    [desc_sig(by_id[d]) for d in sorted(dids)]))
            continue
        # a statement may read the table twice (fingerprint sub-select and outer select): blame the scan that has a bound
        # on the side in question (it is the tighter one and still let the row through / still rejected it)
        flagged.sort(key=lambda x: (0 if bounded(x, f.get('side')) else 1, desc_sig(by_id[x])))
        did = flagged[0]
        key = (f['kind'], f['why'], cause_sig(by_id[did], f))
        g = groups.setdefault(key, {'n': 0, 'endpoints': set(), 'zones': set(), 'roles': set(), 'example': None, 'visible': 0, 'dids': set()})
        g['dids'].add(did)
        g['n'] += 1
        g['endpoints'].add(f['endpoint'] + ('@' + f['cluster'] if f['cluster'] else ''))
        g['zones'].add('reader %s / writer %s' % (f['tz'], f['writer_tz']))
        g['roles'].add(f['entity']['role'])
        g['visible'] += 1 if f['visible_in_response'] else 0
        if g['example'] is None or (f['visible_in_response'] and not g['example']['visible_in_response']):
            g['example'] = f
            g['example_did'] = did
    if gaps:
        raise vlib.Infra('the real endpoints leak / miss where TLC found the extracted descriptor safe (%d), first: %s' % (len(gaps), ' || '.join(gaps[:3])))
    viols = []
    confirmed = set()
    for (kind, why, cause), g in sorted(groups.items()):
        for did in g['dids']:
            confirmed.add((did, kind))
        did = g['example_did']
        d, ex = by_id[did], g['example']
        sig = '%s|%s|%s' % (kind, why, cause)
        shapes = sorted(desc_sig(by_id[x]) for x in g['dids'])
        replay = vlib.save_replay('C13', re.sub(r'[^A-Za-z0-9]+', '_', sig)[:110], {
            'kind': 'C13 %s observed on the real endpoint' % kind, 'cause': cause, 'descriptors': shapes, 'observations': g['n'], 'endpoints': sorted(g['endpoints']),
            'zones': sorted(g['zones']), 'example': ex, 'tlc_witnesses': cand.get((did, kind), [])[:5],
            'how': 'TZ=<example.tz> .bin/c13 -mode probe -in jobs.json -out out.json with jobs.json = [{"endpoint": example.endpoint, "cluster": '
                   'example.cluster, "start_ns": example.win.start_ns, "end_ns": example.win.end_ns, "writer_tz": example.writer_tz, '
                   '"extra_ts": [example.entity.ts_ns]}]: plants boundary rows, calls the real route, reports rows admitted per scan and the response'})
        msg = ('%s (%s), cause %s: %d observations on %d endpoint/cluster pairs %s under %s; scan shapes %s; boundary rows %s; e.g. %s TZ=%s window [%d, %d]: %s '
               '(row %s at %d, visible in the response: %s, evidence: %s); SQL: %.600s') % (
            kind, why, cause, g['n'], len(g['endpoints']), sorted(g['endpoints'])[:10], sorted(g['zones']), shapes[:4], sorted(g['roles']), ex['endpoint'], ex['tz'],
            ex['win']['start_ns'], ex['win']['end_ns'], ex['detail'], ex['entity']['role'], ex['entity']['ts_ns'], ex['visible_in_response'], ex['evidence'],
            re.sub(r'\s+', ' ', ex['sql']))
        viols.append({'property': 'C13', 'signature': sig, 'msg': msg, 'replay': replay})
    refuted = [k for k in real_cands if k not in confirmed]
    endpoints = sorted(set(k[0] for k in merged))
    n_stmts = sum(ex['statements'] for ex in extracts.values())
    stmt_errors = sorted(set(e for ex in extracts.values() for e in (ex.get('stmt_errors') or [])))
    sample_desc = descs[0]
    coverage = {
        'states': states, 'transitions': generated, 'traces_validated_against_impl': n_probe,
        'samples': [{'descriptor': desc_sig(sample_desc), 'used_by': sorted(set(s['endpoint'] for s in users.get(sample_desc['id'], [])))[:5],
                     'sql': (users.get(sample_desc['id']) or [{}])[0].get('sql', '')[:400]},
                    {'tlc_witness': wits[0] if wits else None}],
        'zones': zones, 'endpoints': len(endpoints), 'endpoint_names': endpoints, 'cluster_modes': 2, 'statements_parsed': n_stmts,
        'base_table_scans': len(merged), 'scans_of_apis_without_window': nowindow, 'distinct_descriptors': n_real, 'reference_descriptors': len(descs) - n_real,
        'descriptors': {desc_sig(d): sorted(set(s['endpoint'] for s in users.get(d['id'], [])))[:6] for d in descs[:n_real]},
        'tlc_wall_s': round(tlc_wall, 1), 'tlc_witnesses': len(wits), 'tlc_candidates': len(real_cands), 'candidates_confirmed_on_real_code': len(confirmed),
        'candidates_refuted_or_unconfirmed': [('%s: %s' % (k[1], desc_sig(by_id[k[0]]))) for k in refuted],
        'witness_replays': sum(len(v) for v in jobs.values()),
        'real_code_observations': len(findings), 'writer_rule_observations': sum(len(ex['writer_obs']) for ex in extracts.values()),
        'tempo_tag_date_rule_observed': tempo_rule, 'sub_second_concretisation': conc_params,
        'sub_second_windows_replayed': sum(1 for v in jobs.values() for j in v if j['start_ns'] % 10**9 or j['end_ns'] % 10**9),
        'observations_by_kind': {k: sum(1 for f in findings if (f['kind'] + '|' + f['why']) == k) for k in sorted(set(f['kind'] + '|' + f['why'] for f in findings))},
        'statements_rejected_by_the_interpreter_for_other_reasons': stmt_errors[:6],
        'requests_answered_non_2xx_after_running_sql': sum(len(ex.get('non2xx') or []) for ex in extracts.values()),
        'wall_s': round(time.time() - t_start, 1),
    }
    return {'level': 'model_checking', 'coverage': coverage, 'violations': viols, 'assumptions': assumptions}

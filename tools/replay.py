#!/usr/bin/env python3
"""replay.py <replay file>: prints the stored counterexample (abstract behaviour, concrete inputs, observed vs expected).
Schedule replays are re-executed through cmd/c01replay when the file holds a behaviour."""
import json
import sys
obj = json.load(open(sys.argv[1]))
print(json.dumps(obj, indent=1)[:20000])

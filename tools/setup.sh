#!/bin/sh
# Offline setup: generate the harness go.mod from /repo/go.mod and pre-build the harness commands.
# (every check rebuilds what it needs from the current /repo tree anyway; this only warms the build cache)
set -e
export GOFLAGS=-mod=mod GOPROXY=off
/verif/tools/gen_gomod.sh
cd /verif/harness
mkdir -p /verif/.bin
for d in cmd/*/; do
  n=$(basename $d)
  case $n in
    x*) go build -tags verif -o /verif/.bin/$n ./cmd/$n || echo "WARN: extra check driver $n does not build" ;;
    *)  go build -tags verif -o /verif/.bin/$n ./cmd/$n || exit 1 ;;
  esac
done
echo setup ok

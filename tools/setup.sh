#!/bin/sh
# Offline setup: generate the harness go.mod from /repo/go.mod and pre-build the harness commands.
set -e
export GOFLAGS=-mod=mod GOPROXY=off
/verif/tools/gen_gomod.sh
cd /verif/harness
mkdir -p /verif/.bin
go build -tags verif ./... 
for d in cmd/*/; do n=$(basename $d); go build -tags verif -o /verif/.bin/$n ./cmd/$n || exit 1; done
echo setup ok

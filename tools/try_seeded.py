#!/usr/bin/env python3
"""try_seeded.py <dir with patch.diff, demo/, meta.json> <property id> [check ids...]
Confirms a seeded change in a scratch worktree (demo passes without / fails with the patch, tree builds, pinned suite passes),
then runs the given checks (default: the property's own) against the patched worktree from a private copy of /verif, and
stores the change under /verif/seeded/<id>/ with what was run and what each check reported."""
import json
import os
import re
import shutil
import subprocess
import sys

src = sys.argv[1].rstrip('/')
pid = sys.argv[2]
checks = sys.argv[3:] or [pid]
name = '%s_%s' % (pid, os.path.basename(src))
wt = '/tmp/seedwt_' + name
vcopy = '/tmp/seedv_' + name
env = dict(os.environ, GOFLAGS='-mod=mod', GOPROXY='off')
env.pop('GOTOOLCHAIN', None)


def sh(cmd, cwd=None, timeout=3600, e=None):
    r = subprocess.run(cmd, shell=True, cwd=cwd, env=e or env, capture_output=True, text=True, timeout=timeout)
    return r.returncode, (r.stdout + r.stderr)


def cleanup():
    sh('git -C /repo worktree remove --force %s' % wt)
    shutil.rmtree(wt, ignore_errors=True)
    shutil.rmtree(vcopy, ignore_errors=True)


cleanup()
rc, out = sh('git -C /repo worktree add --detach %s' % wt)
assert rc == 0, out
report = {'source': src, 'property': pid}
try:
    readme = open(os.path.join(src, 'demo', 'README.txt')).read()
    m = re.search(r'go test [^\n]*', readme)
    demo_cmd = None
    copied = []
    if m:
        demo_cmd = 'GOFLAGS=-mod=mod GOPROXY=off ' + m.group(0).strip()
        pk = re.search(r'\./([A-Za-z0-9_/]+?)/?(?:\s|$)', m.group(0))
        pkgdir = pk.group(1) if pk else ''
        for f in os.listdir(os.path.join(src, 'demo')):
            if f.endswith('.go'):
                shutil.copy(os.path.join(src, 'demo', f), os.path.join(wt, pkgdir, f))
                copied.append(os.path.join(pkgdir, f))
    report['demo_cmd'] = demo_cmd
    if demo_cmd:
        rc0, o0 = sh(demo_cmd, cwd=wt)
        report['demo_without_patch'] = {'rc': rc0, 'tail': o0[-600:]}
    rc, out = sh('git apply %s' % os.path.join(src, 'patch.diff'), cwd=wt)
    report['patch_applies'] = rc == 0
    if rc != 0:
        report['apply_error'] = out[-500:]
        raise SystemExit
    rc, out = sh('go build ./... 2>&1 | grep -v "writer/http\\|unmarshal/legacy" | grep -v "^#" | head -20', cwd=wt)
    report['build_errors'] = out.strip()[:800]
    if demo_cmd:
        rc1, o1 = sh(demo_cmd, cwd=wt)
        report['demo_with_patch'] = {'rc': rc1, 'tail': o1[-900:]}
    for f in copied:
        os.remove(os.path.join(wt, f))
    e2 = dict(env, VERIF_REPO=wt)
    rc, out = sh('sh /verif/tools/baseline_off.sh', e=e2)
    report['pinned_suite_with_patch'] = {'rc': rc, 'tail': out[-300:]}
    # private copy of /verif (without .git, replays, evidence history)
    sh('mkdir -p %s && cd /verif && tar --exclude=.git --exclude=replays --exclude=.bin -cf - . | tar -xf - -C %s' % (vcopy, vcopy))
    e3 = dict(env, VERIF_HOME=vcopy, VERIF_REPO=wt, VERIF_SEED=os.environ.get('VERIF_SEED', '1'))
    report['checks'] = {}
    for c in checks:
        rc, out = sh('python3 %s/tools/check.py %s quick' % (vcopy, c), e=e3, timeout=3000)
        sigs = re.findall(r'signature: (.*)', out)
        report['checks'][c] = {'rc': rc, 'violation_lines': re.findall(r'^VIOLATION.*', out, flags=re.M)[:5], 'signatures': sigs[:8], 'tail': out[-500:] if rc not in (0, 1) else ''}
finally:
    cleanup()
confirmed = report.get('demo_without_patch', {}).get('rc') == 0 and report.get('demo_with_patch', {}).get('rc', 0) != 0 and \
    report.get('pinned_suite_with_patch', {}).get('rc') == 0 and not report.get('build_errors')
report['confirmed'] = bool(confirmed)
report['detected_by'] = [c for c, r in report.get('checks', {}).items() if r['rc'] == 1]
print(json.dumps(report, indent=1))
if confirmed:
    dst = os.path.join('/verif/seeded', name)
    shutil.rmtree(dst, ignore_errors=True)
    os.makedirs(dst)
    shutil.copy(os.path.join(src, 'patch.diff'), dst)
    shutil.copytree(os.path.join(src, 'demo'), os.path.join(dst, 'demo'))
    meta = {}
    try:
        meta = json.load(open(os.path.join(src, 'meta.json')))
    except Exception:
        pass
    meta['confirmation'] = report
    json.dump(meta, open(os.path.join(dst, 'meta.json'), 'w'), indent=1)

#!/usr/bin/env python3
"""register_findings.py <property id> <check output file> [--note TEXT]
Adds every VIOLATION of a check run (signature + message) to known_findings.json as an OPEN finding. Used only after a violation has
been shown to be a genuine defect of /repo (failing input in the replay file) that is recorded rather than repaired."""
import json
import re
import sys

pid, path = sys.argv[1], sys.argv[2]
note = sys.argv[4] if len(sys.argv) > 4 and sys.argv[3] == '--note' else ''
txt = open(path).read()
items = re.findall(r'^VIOLATION property=(\S+) replay=(\S*)\n  signature: (.*)\n  (.*)$', txt, flags=re.M)
k = json.load(open('/verif/known_findings.json'))
have = {(f['property'], f['signature']) for f in k['findings']}
n = 0
for prop, replay, sig, msg in items:
    if prop != pid or (prop, sig) in have:
        continue
    k['findings'].append({'property': prop, 'status': 'open', 'signature': sig, 'what': msg.strip()[:400] + ((' — ' + note) if note else ''),
                          'replay_example': replay})
    have.add((prop, sig))
    n += 1
json.dump(k, open('/verif/known_findings.json', 'w'), indent=1)
print(pid, 'registered', n, 'findings')

"""Shared machinery for /verif/tools/check.py: TLC invocation, behaviour extraction, Go driver builds,
evidence writing, known findings, exit protocol."""
import glob
import atexit
import json
import os
import re
import shutil
import subprocess
import sys
import tempfile
import time

sys.path.insert(0, os.path.dirname(__file__))
import tlaparse  # noqa: E402

VERIF = os.environ.get('VERIF_HOME', '/verif')
REPO = os.environ.get('VERIF_REPO', '/repo')
SPEC = os.path.join(VERIF, 'spec')
HARNESS = os.path.join(VERIF, 'harness')
BIN = os.path.join(VERIF, '.bin')
EVID = os.path.join(VERIF, 'evidence')
REPLAYS = os.path.join(VERIF, 'replays')
TLAJAR = '/opt/veriftools/tla/tla2tools.jar:/opt/veriftools/tla/CommunityModules-deps.jar'


class Infra(Exception):
    """Infrastructure failure: exit 2, never a violation."""


def goenv():
    e = dict(os.environ)
    e['GOFLAGS'] = '-mod=mod'
    e['GOPROXY'] = 'off'
    e.pop('GOSUMDB', None)
    e.pop('GOTOOLCHAIN', None)
    e.setdefault('GOCACHE', '/root/.cache/go-build')
    return e


def gen_gomod():
    r = subprocess.run([os.path.join(VERIF, 'tools', 'gen_gomod.sh')], capture_output=True, text=True)
    if r.returncode != 0:
        raise Infra('gen_gomod failed: ' + r.stderr)


def go_build(pkg, name, tags='verif'):
    """Build harness command pkg (relative to harness) into .bin/name from the CURRENT /repo tree."""
    gen_gomod()
    os.makedirs(BIN, exist_ok=True)
    # a private output per checker process: two checks running at the same time may build the same driver
    out = os.path.join(BIN, '%s.%d' % (name, os.getpid()))
    atexit.register(lambda p=out: os.path.exists(p) and os.remove(p))
    cmd = ['go', 'build', '-tags', tags, '-o', out, './' + pkg]
    r = subprocess.run(cmd, cwd=HARNESS, env=goenv(), capture_output=True, text=True)
    if r.returncode != 0:
        raise Infra('go build %s failed:\n%s' % (pkg, (r.stdout + r.stderr)[-4000:]))
    return out


def go_test_build(pkg, name, tags='verif'):
    gen_gomod()
    os.makedirs(BIN, exist_ok=True)
    out = os.path.join(BIN, '%s.%d' % (name, os.getpid()))
    atexit.register(lambda p=out: os.path.exists(p) and os.remove(p))
    cmd = ['go', 'test', '-c', '-tags', tags, '-o', out, './' + pkg]
    r = subprocess.run(cmd, cwd=HARNESS, env=goenv(), capture_output=True, text=True)
    if r.returncode != 0:
        raise Infra('go test -c %s failed:\n%s' % (pkg, (r.stdout + r.stderr)[-4000:]))
    return out


def scratch(prefix):
    base = os.environ.get('VERIF_SCRATCH', '/var/tmp')
    os.makedirs(base, exist_ok=True)
    return tempfile.mkdtemp(prefix='verif_' + prefix + '_', dir=base)


_TLC_STATS = re.compile(r'(\d+) states generated, (\d+) distinct states found, (\d+) states left on queue')


def tlc(specdir, module, cfg, workers=None, timeout=900, simulate=None, depth=None, seed=None,
        coverage=False, extra=None, heap=None, deadlock=None, copy_extra=None):
    """Run TLC in a scratch copy of specdir. Returns dict(ok, out, states, distinct, generated, violated, scratch).
    simulate: dict(num=..., file=True) -> behaviours written under scratch/beh_*"""
    sd = scratch('tlc')
    try:
        for f in os.listdir(specdir):
            if f.endswith('.tla') or f.endswith('.cfg') or f.endswith('.json') or f.endswith('.ndjson'):
                shutil.copy(os.path.join(specdir, f), sd)
        for f in (copy_extra or []):
            shutil.copy(f, sd)
        jopts = '-Xss512m'
        env = dict(os.environ)
        env['JAVA_TOOL_OPTIONS'] = jopts
        cmd = ['java', '-XX:+UseParallelGC']
        if heap:
            cmd.append('-Xmx' + heap)
        cmd += ['-cp', TLAJAR, 'tlc2.TLC']
        w = workers or (os.cpu_count() or 4)
        cmd += ['-workers', str(w), '-metadir', os.path.join(sd, 'md'), '-config', cfg]
        if simulate:
            s = 'num=%d' % simulate['num']
            if simulate.get('file'):
                os.makedirs(os.path.join(sd, 'beh'), exist_ok=True)
                s = 'file=%s,' % os.path.join(sd, 'beh', 'b') + s
            cmd += ['-simulate', s]
            if depth:
                cmd += ['-depth', str(depth)]
            if seed is not None:
                cmd += ['-seed', str(seed)]
        if coverage:
            cmd += ['-coverage', '1']
        if deadlock is False:
            pass
        cmd += (extra or [])
        cmd.append(module)
        t0 = time.time()
        proc = subprocess.Popen(cmd, cwd=sd, env=env, stdout=subprocess.PIPE, stderr=subprocess.STDOUT, text=True, start_new_session=True)
        try:
            so, _ = proc.communicate(timeout=timeout)
        except subprocess.TimeoutExpired:
            import signal
            try:
                os.killpg(proc.pid, signal.SIGKILL)  # only this TLC (other checks may be running TLC too)
            except ProcessLookupError:
                pass
            proc.communicate()
            raise Infra('TLC timeout after %ds on %s/%s' % (timeout, module, cfg))

        class _R:
            pass
        r = _R()
        r.returncode, r.stdout, r.stderr = proc.returncode, so, ''
        out = r.stdout + r.stderr
        res = {'out': out, 'rc': r.returncode, 'wall': time.time() - t0, 'scratch': sd}
        m = None
        for m in _TLC_STATS.finditer(out):
            pass
        if m:
            res['generated'], res['distinct'], res['queue'] = int(m.group(1)), int(m.group(2)), int(m.group(3))
        m2 = re.search(r'The number of states generated: (\d+)', out)
        if m2:
            res['generated'] = int(m2.group(1))
            res.setdefault('distinct', int(m2.group(1)))
        res['violated'] = re.findall(r'Error: (?:Invariant|Action property|Temporal properties?) ?([A-Za-z0-9_]*) ?(?:is|were) violated', out)
        if 'is violated' in out or 'was violated' in out or 'were violated' in out:
            res['violated'] = res['violated'] or ['?']
        res['finished'] = ('Model checking completed' in out) or ('Finished in' in out)
        if 'java.lang.OutOfMemoryError' in out or 'StackOverflowError' in out:
            raise Infra('TLC JVM error on %s/%s:\n%s' % (module, cfg, out[-2000:]))
        if ('Error:' in out or 'error' in out.lower() and 'Parsing' not in out) and not res['violated'] and r.returncode not in (0,):
            # parse / semantic / evaluation errors
            if 'violated' not in out:
                raise Infra('TLC error on %s/%s:\n%s' % (module, cfg, out[-3000:]))
        return res
    except Exception:
        shutil.rmtree(sd, ignore_errors=True)
        raise


def tlc_cleanup(res):
    shutil.rmtree(res.get('scratch', ''), ignore_errors=True)


def coverage_zero_actions(out):
    """Parse -coverage output: return names of top-level actions with 0 distinct states."""
    zeros = []
    for m in re.finditer(r'^<([A-Za-z0-9_]+) line .*?>: (\d+):(\d+)', out, flags=re.M):
        if int(m.group(3)) == 0:
            zeros.append(m.group(1))
    return sorted(set(zeros))


def behaviours(res, limit=None):
    files = sorted(glob.glob(os.path.join(res['scratch'], 'beh', 'b_*')))
    if limit:
        files = files[:limit]
    out = []
    for f in files:
        try:
            out.append(tlaparse.behaviour_flat(f))
        except Exception as e:  # noqa
            raise Infra('cannot parse behaviour file %s: %s' % (f, e))
    return out


def seed():
    try:
        return int(os.environ.get('VERIF_SEED', '1'))
    except ValueError:
        return 1


def load_known():
    p = os.path.join(VERIF, 'known_findings.json')
    if not os.path.exists(p):
        return []
    return json.load(open(p)).get('findings', [])


def write_evidence(pid, tier, level, coverage, wall, violations, assumptions=None):
    os.makedirs(EVID, exist_ok=True)
    ev = {'property_id': pid, 'tier': tier, 'seed': seed(), 'level': level, 'coverage': coverage,
          'assumptions': assumptions or [], 'wall_s': round(wall, 2), 'violations': violations}
    with open(os.path.join(EVID, pid + '.json'), 'w') as f:
        json.dump(ev, f, indent=1, default=str)
    return ev


def save_replay(pid, name, obj):
    d = os.path.join(REPLAYS, pid)
    os.makedirs(d, exist_ok=True)
    p = os.path.join(d, name + '.json')
    with open(p, 'w') as f:
        json.dump(obj, f, indent=1, default=str)
    return p


def run_cmd(cmd, timeout=1800, cwd=None, env=None, stdin=None):
    try:
        r = subprocess.run(cmd, cwd=cwd, env=env, capture_output=True, text=True, timeout=timeout, input=stdin)
    except subprocess.TimeoutExpired:
        raise Infra('timeout: ' + ' '.join(cmd[:4]))
    return r


def validate_trace(specdir, module, cfg_text, trace_path, timeout=1200, extra_files=None, _diag=False):
    """Run TLC trace validation (module must define Accept and HighWaterPrint constraints; cfg_text must contain the
    line 'CONSTRAINT Accept' and a '%(diag)s' placeholder). Returns (accepted, detail, stats)."""
    sd = scratch('trace')
    try:
        cfgname = module.replace('.tla', '') + '.cfg'
        cfgp = os.path.join(sd, cfgname)
        open(cfgp, 'w').write(cfg_text % {'diag': 'CONSTRAINT HighWaterPrint\n' if _diag else ''})
        tp = os.path.join(sd, 'trace.ndjson')
        shutil.copy(trace_path, tp)
        res = tlc(specdir, module, cfgname, workers=1, timeout=timeout, copy_extra=[cfgp, tp] + list(extra_files or []))
        try:
            out = res['out']
            stats = {'states': res.get('distinct', 0), 'generated': res.get('generated', 0), 'wall_s': round(res['wall'], 1)}
            m = re.search(r'Invariant ([A-Za-z0-9_]+) is violated', out)
            if m:
                # find the trace line at which it happened: last state's l
                ls = re.findall(r'/\\ l = (\d+)', out)
                return False, {'kind': 'invariant', 'invariant': m.group(1), 'line': int(ls[-1]) - 1 if ls else 0}, stats
            m = re.search(r'Action property ([A-Za-z0-9_]+) is violated', out)
            if m:
                return False, {'kind': 'invariant', 'invariant': m.group(1), 'line': 0}, stats
            if 'TRACE-ACCEPTED' in out:
                return True, {}, stats
            if 'Model checking completed. No error has been found' in out:
                if not _diag:
                    return validate_trace(specdir, module, cfg_text, trace_path, timeout, extra_files, _diag=True)
                hw = [int(x) for x in re.findall(r'<<"HW", (\d+)>>', out)]
                ln = max(hw) if hw else 1
                lines = open(trace_path).read().splitlines()
                return False, {'kind': 'rejected', 'line': ln, 'event': lines[ln - 1] if ln <= len(lines) else '<end>'}, stats
            raise Infra('unexpected TLC output in trace validation:\n' + out[-3000:])
        finally:
            tlc_cleanup(res)
    finally:
        shutil.rmtree(sd, ignore_errors=True)


def tla_value(v):
    """Python -> TLA+ value text."""
    if isinstance(v, bool):
        return 'TRUE' if v else 'FALSE'
    if isinstance(v, int):
        return str(v)
    if isinstance(v, str):
        return '"' + v.replace('\\', '\\\\').replace('"', '\\"') + '"'
    if isinstance(v, (list, tuple)):
        return '<<' + ', '.join(tla_value(x) for x in v) + '>>'
    if isinstance(v, set):
        return '{' + ', '.join(tla_value(x) for x in sorted(v, key=str)) + '}'
    if isinstance(v, dict):
        return '[' + ', '.join('%s |-> %s' % (k, tla_value(x)) for k, x in v.items()) + ']'
    raise ValueError('cannot render %r' % (v,))

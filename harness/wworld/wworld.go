// Package wworld builds the real writer insert services over the fake ClickHouse client and wires the
// verif hooks of InsertServiceV2 to per-worker event channels and scheduler gates.
package wworld

import (
	"fmt"
	"io"
	"os"
	"reflect"
	"sync"
	"sync/atomic"
	"time"
	"unsafe"

	"github.com/metrico/cloki-config/config"
	"github.com/metrico/qryn/writer/model"
	"github.com/metrico/qryn/writer/service"
	"github.com/metrico/qryn/writer/utils/logger"
	"github.com/metrico/qryn/writer/utils/promise"
	"verif/harness/fakech"
)

var poolsOnce sync.Once

// InitPools creates the global column pools once.
func InitPools() {
	poolsOnce.Do(func() {
		service.CreateColPools(0)
		if os.Getenv("C05_DEBUG") == "" {
			logger.Logger.SetOutput(io.Discard)
		}
	})
}

// Worker is one registered InsertServiceV2 (a sync worker of a round-robin service).
type Worker struct {
	Svc   string // logical service name ("ts", "spl", "spans", "tags", "prof")
	K     int    // worker index (1-based)
	Ptr   *service.InsertServiceV2
	World *fakech.World

	Gated       bool
	Arrived     chan struct{}           // IterStart reached (gated mode)
	Release     chan struct{}           // driver lets the iteration proceed
	Events      chan service.VerifEvent // Append/Swap/Release/ConnFail
	BIArr       chan struct{}           // OnBeforeInsert reached
	BIRel       chan struct{}
	DoArr       chan *fakech.Block // Do reached (block decoded)
	DoRel       chan error         // outcome
	Quit        chan struct{}
	AtGate      bool
	ConnOutcome chan error // scripted outcome of the next connect (nil channel/empty = success)
	Block       *fakech.Block
	sink        Sink
}

var registry sync.Map // *service.InsertServiceV2 -> *Worker

// Listener receives every hook event of registered workers (after per-worker routing); used by the
// trace recorder. It must not block.
var hookInstalled sync.Once

// Sink, if non-nil, receives all events of un-gated workers (trace recording).
type Sink func(w *Worker, e service.VerifEvent)

func install() {
	hookInstalled.Do(func() {
		service.VerifTrace = func(e service.VerifEvent) {
			v, ok := registry.Load(e.Svc)
			if !ok {
				return
			}
			w := v.(*Worker)
			if w.sink != nil {
				w.sink(w, e)
				return
			}
			if e.Ev == service.VerifEvIterStart {
				if !w.Gated {
					return
				}
				select {
				case <-w.Quit:
					return
				default:
				}
				select {
				case w.Arrived <- struct{}{}:
				case <-w.Quit:
					return
				}
				select {
				case <-w.Release:
				case <-w.Quit:
				}
				return
			}
			select {
			case w.Events <- e:
			default:
				panic("wworld: event channel overflow")
			}
		}
	})
}

// SyncWorkers returns the InsertServiceV2 workers behind the sync half of a multimodal service.
func SyncWorkers(svc service.IInsertServiceV2) []*service.InsertServiceV2 {
	mm, ok := svc.(*service.InsertServiceV2Multimodal)
	if !ok {
		panic(fmt.Sprintf("wworld: unexpected service type %T", svc))
	}
	rr := mm.SyncService
	f := reflect.ValueOf(rr).Elem().FieldByName("services")
	p := unsafe.Pointer(f.UnsafeAddr())
	return *(*[]*service.InsertServiceV2)(p)
}

// AsyncWorkers returns the workers of the async half.
func AsyncWorkers(svc service.IInsertServiceV2) []*service.InsertServiceV2 {
	mm := svc.(*service.InsertServiceV2Multimodal)
	rr := mm.AsyncService
	f := reflect.ValueOf(rr).Elem().FieldByName("services")
	p := unsafe.Pointer(f.UnsafeAddr())
	return *(*[]*service.InsertServiceV2)(p)
}

// Node returns a database node description good enough for the insert services.
func Node(name string) *model.DataDatabasesMap {
	return &model.DataDatabasesMap{ClokiBaseDataBase: config.ClokiBaseDataBase{
		Node: name, Name: "qryn", Host: "fake", WriteTimeout: 30,
	}}
}

// Register creates Worker records for the sync workers of svc. If gated, the workers stop at the
// IterStart / OnBeforeInsert / Do gates until the driver releases them.
func Register(name string, svc service.IInsertServiceV2, world *fakech.World, gated bool, sink Sink) []*Worker {
	install()
	ws := SyncWorkers(svc)
	res := make([]*Worker, len(ws))
	for i, p := range ws {
		w := &Worker{Svc: name, K: i + 1, Ptr: p, World: world, Gated: gated,
			Arrived: make(chan struct{}), Release: make(chan struct{}),
			Events: make(chan service.VerifEvent, 4096),
			BIArr:  make(chan struct{}), BIRel: make(chan struct{}),
			DoArr: make(chan *fakech.Block), DoRel: make(chan error),
			Quit: make(chan struct{}), sink: sink}
		registry.Store(p, w)
		res[i] = w
	}
	return res
}

func Unregister(ws []*Worker) {
	for _, w := range ws {
		registry.Delete(w.Ptr)
	}
}

// WaitEvent waits for the next hook event of the worker.
func (w *Worker) WaitEvent(d time.Duration) (service.VerifEvent, bool) {
	select {
	case e := <-w.Events:
		return e, true
	case <-time.After(d):
		return service.VerifEvent{}, false
	}
}

// Waiter watches a promise.
type Waiter struct {
	done int32 // 0 pending, 1 ok, 2 err
	Err  error
	ch   chan struct{}
}

func Watch(p *promise.Promise[uint32]) *Waiter {
	w := &Waiter{ch: make(chan struct{})}
	go func() {
		_, err := p.Get()
		w.Err = err
		if err == nil {
			atomic.StoreInt32(&w.done, 1)
		} else {
			atomic.StoreInt32(&w.done, 2)
		}
		close(w.ch)
	}()
	return w
}

// State returns "pending", "ok" or "err" without blocking.
func (w *Waiter) State() string {
	switch atomic.LoadInt32(&w.done) {
	case 1:
		return "ok"
	case 2:
		return "err"
	}
	return "pending"
}

// Wait waits up to d for completion and returns the state.
func (w *Waiter) Wait(d time.Duration) string {
	select {
	case <-w.ch:
	case <-time.After(d):
	}
	return w.State()
}

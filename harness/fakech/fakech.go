// Package fakech is a scripted, gated stand-in for the writer's ClickHouse insert client
// (ch_wrapper.IChClient).  Every Do() call is decoded column by column BEFORE the outcome script is
// consulted, recorded, optionally blocked on a gate, and answered with the scripted error.
package fakech

import (
	"context"
	"errors"
	"fmt"
	"reflect"
	"sync"
	"sync/atomic"

	ch "github.com/ClickHouse/ch-go"
	"github.com/ClickHouse/ch-go/proto"
	"github.com/ClickHouse/clickhouse-go/v2/lib/driver"
	"github.com/metrico/qryn/writer/ch_wrapper"
)

// Block is one decoded INSERT.
type Block struct {
	Seq     int64 // global sequence number at Do entry
	SeqRet  int64 // global sequence number at Do return
	ConnID  int
	Body    string
	Cols    []string
	NRows   []int   // per-column Rows()
	Rows    [][]any // decoded row-major, only when rectangular; nil otherwise
	Err     error   // outcome returned to the caller
	Decoded bool
}

// Outcome decides what a Do call returns. It may block (gate). It receives the decoded block.
type Outcome func(b *Block) error

// World is shared by all connections created from one factory.
type World struct {
	mu       sync.Mutex
	Blocks   []*Block
	nextConn int
	// Seq is the global event sequence; share it with other tracers so that all events are totally ordered.
	Seq *int64
	// OnConnect decides the outcome of a factory call (nil error = connection established). May block.
	OnConnect func(connID int) error
	// OnDo decides the outcome of an INSERT. May block. nil => success.
	OnDo Outcome
	// OnPing decides the outcome of Ping. nil => success
	OnPing func(connID int) error
	// OnEvent, if set, receives (kind, connID, block) for kinds "connect_ok","connect_fail","do_call","do_ret","close"
	OnEvent func(kind string, connID int, b *Block, seq int64)
	// Ragged counts the INSERT blocks whose columns had different lengths (rejected like the native protocol does)
	Ragged int64
}

func NewWorld() *World {
	var s int64
	return &World{Seq: &s}
}

func (w *World) next() int64 { return atomic.AddInt64(w.Seq, 1) }

// Factory returns the ch_wrapper.IChClientFactory to hand to model.InsertServiceOpts.Session.
func (w *World) Factory() ch_wrapper.IChClientFactory {
	return func() (ch_wrapper.IChClient, error) {
		w.mu.Lock()
		w.nextConn++
		id := w.nextConn
		oc := w.OnConnect
		w.mu.Unlock()
		var err error
		if oc != nil {
			err = oc(id)
		}
		seq := w.next()
		if err != nil {
			if w.OnEvent != nil {
				w.OnEvent("connect_fail", id, nil, seq)
			}
			return nil, err
		}
		if w.OnEvent != nil {
			w.OnEvent("connect_ok", id, nil, seq)
		}
		return &Client{w: w, id: id}, nil
	}
}

// Snapshot returns a copy of the recorded blocks.
func (w *World) Snapshot() []*Block {
	w.mu.Lock()
	defer w.mu.Unlock()
	return append([]*Block{}, w.Blocks...)
}

type Client struct {
	w      *World
	id     int
	closed int32
}

var ErrNotImpl = errors.New("fakech: not implemented in insert client")

func (c *Client) Ping(ctx context.Context) error {
	if c.w.OnPing != nil {
		return c.w.OnPing(c.id)
	}
	return nil
}

func (c *Client) Do(ctx context.Context, q ch.Query) error {
	b := &Block{ConnID: c.id, Body: q.Body}
	Decode(q.Input, b)
	b.Seq = c.w.next()
	if c.w.OnEvent != nil {
		c.w.OnEvent("do_call", c.id, b, b.Seq)
	}
	var err error
	if atomic.LoadInt32(&c.closed) != 0 {
		err = errors.New("fakech: use of closed connection")
	} else if !b.rectangular() {
		// what ClickHouse does with a ragged block: the native protocol rejects it
		err = fmt.Errorf("fakech: ragged block, rows per column %v", b.NRows)
		atomic.AddInt64(&c.w.Ragged, 1)
	} else if c.w.OnDo != nil {
		err = c.w.OnDo(b)
	}
	if err == nil && ctx.Err() != nil {
		err = ctx.Err()
	}
	b.Err = err
	c.w.mu.Lock()
	c.w.Blocks = append(c.w.Blocks, b)
	c.w.mu.Unlock()
	b.SeqRet = c.w.next()
	if c.w.OnEvent != nil {
		c.w.OnEvent("do_ret", c.id, b, b.SeqRet)
	}
	return err
}

func (b *Block) rectangular() bool {
	for _, n := range b.NRows {
		if n != b.NRows[0] {
			return false
		}
	}
	return true
}

// Rectangular reports whether all columns have the same number of rows.
func (b *Block) Rectangular() bool { return b.rectangular() }

// Decode fills Cols/NRows/Rows from a proto.Input using the Row(i) accessor every ch-go column has.
func Decode(in proto.Input, b *Block) {
	b.Cols = make([]string, len(in))
	b.NRows = make([]int, len(in))
	for i, c := range in {
		b.Cols[i] = c.Name
		b.NRows[i] = c.Data.Rows()
	}
	b.Decoded = true
	if !b.rectangular() || len(in) == 0 {
		return
	}
	n := b.NRows[0]
	b.Rows = make([][]any, n)
	for r := 0; r < n; r++ {
		b.Rows[r] = make([]any, len(in))
	}
	for ci, c := range in {
		v := reflect.ValueOf(c.Data)
		m := v.MethodByName("Row")
		if !m.IsValid() {
			b.Decoded = false
			continue
		}
		for r := 0; r < n; r++ {
			out := m.Call([]reflect.Value{reflect.ValueOf(r)})
			val := out[0].Interface()
			// copy byte slices: the column buffers are reused by the writer
			if bs, ok := val.([]byte); ok {
				val = append([]byte{}, bs...)
			}
			b.Rows[r][ci] = val
		}
	}
}

func (c *Client) Close() error {
	atomic.StoreInt32(&c.closed, 1)
	if c.w.OnEvent != nil {
		c.w.OnEvent("close", c.id, nil, c.w.next())
	}
	return nil
}

func (c *Client) Exec(ctx context.Context, query string, args ...any) error { return ErrNotImpl }
func (c *Client) Scan(ctx context.Context, req string, args []any, dest ...interface{}) error {
	return ErrNotImpl
}
func (c *Client) DropIfEmpty(ctx context.Context, name string) error         { return ErrNotImpl }
func (c *Client) TableExists(ctx context.Context, name string) (bool, error) { return false, ErrNotImpl }
func (c *Client) GetDBExec(env map[string]string) func(ctx context.Context, query string, args ...[]interface{}) error {
	return func(ctx context.Context, query string, args ...[]interface{}) error { return ErrNotImpl }
}
func (c *Client) GetVersion(ctx context.Context, k uint64) (uint64, error) { return 0, ErrNotImpl }
func (c *Client) GetSetting(ctx context.Context, tp string, name string) (string, error) {
	return "", ErrNotImpl
}
func (c *Client) PutSetting(ctx context.Context, tp string, name string, value string) error {
	return ErrNotImpl
}
func (c *Client) GetFirst(req string, first ...interface{}) error { return ErrNotImpl }
func (c *Client) GetList(req string) ([]string, error)            { return nil, ErrNotImpl }
func (c *Client) Query(ctx context.Context, query string, args ...interface{}) (driver.Rows, error) {
	return nil, ErrNotImpl
}
func (c *Client) QueryRow(ctx context.Context, query string, args ...interface{}) driver.Row {
	return nil
}

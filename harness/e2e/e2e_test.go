package e2e

import (
	"fmt"
	"net/url"
	"testing"
)

func TestLogsRoundTrip(t *testing.T) {
	w, err := New(Options{})
	if err != nil {
		t.Fatal(err)
	}
	defer w.Close()
	body := `{"streams":[{"stream":{"app":"a1","env":"prod"},"values":[["1700000000000000001","hello x"],["1700000001000000000","world"]]},{"stream":{"app":"a2"},"values":[["1700000002000000000","other x"]]}]}`
	code, resp := w.Push("POST", "/loki/api/v1/push", "application/json", []byte(body), nil)
	t.Log("push", code, resp, w.StoreErr)
	if code != 204 {
		t.Fatal("push failed")
	}
	for tbl, n := range w.Store.Counts {
		t.Log(tbl, n)
	}
	q := url.Values{}
	q.Set("query", `{app="a1"} |= "x"`)
	q.Set("start", "1699999990000000000")
	q.Set("end", "1700000010000000000")
	q.Set("limit", "100")
	code, resp = w.Get("/loki/api/v1/query_range?" + q.Encode())
	t.Log("query", code, resp)
	for _, e := range w.Bridge.Drain() {
		t.Log(e.Err, e.Rows, e.SQL)
	}
	fmt.Println(w.Bridge.Unsupported)
	q.Set("query", `sum by (app) (count_over_time({app=~"a.*"}[5s]))`)
	q.Set("step", "5")
	code, resp = w.Get("/loki/api/v1/query_range?" + q.Encode())
	t.Log("metric query", code, resp)
	for _, e := range w.Bridge.Drain() {
		t.Log(e.Err, e.Rows, e.SQL)
	}
}

// Package e2e wires the REAL writer HTTP routes (production service registry over the fake ClickHouse client),
// the store (chsql database with the real DDL and materialized views) and the REAL reader HTTP routes (over
// fakesql answered by chsql) into one in-process world.
package e2e

import (
	"bytes"
	"fmt"
	"io"
	"net/http"
	"net/http/httptest"
	"runtime"
	"sync"
	"time"

	"github.com/gorilla/mux"
	clconfig "github.com/metrico/cloki-config"
	"github.com/metrico/cloki-config/config"
	rconfig "github.com/metrico/qryn/reader/config"
	rrouter "github.com/metrico/qryn/reader/router"
	rlogger "github.com/metrico/qryn/reader/utils/logger"
	"github.com/metrico/qryn/writer/ch_wrapper"
	wconfig "github.com/metrico/qryn/writer/config"
	controllerv1 "github.com/metrico/qryn/writer/controller"
	"github.com/metrico/qryn/writer/model"
	"github.com/metrico/qryn/writer/plugin"
	"github.com/metrico/qryn/writer/service"
	"github.com/metrico/qryn/writer/service/impl"
	"verif/harness/chbridge"
	"verif/harness/fakech"
	"verif/harness/fakesql"
	"verif/harness/store"
	"verif/harness/wworld"
)

type Options struct {
	Cluster    string // reader: cluster name ("" = single node)
	IntervalMs float64
	Workers    int
	Attempts   int
	MaxQueue   int64
	// OnDo decides the outcome of an INSERT before it is applied to the store (nil = success)
	OnDo func(b *fakech.Block) error
	// NoReader: only the ingest side
	NoReader bool
}

type World struct {
	Opts     Options
	Store    *store.Store
	CH       *fakech.World
	Writer   *mux.Router
	Reader   *mux.Router
	Bridge   *chbridge.Bridge
	SQL      *fakesql.DB
	mu       sync.Mutex
	StoreErr []string // problems applying a block to the store (infrastructure)
	Cfg      *clconfig.ClokiConfig
}

var dbCounter int
var dbMu sync.Mutex

// New builds a world. Only one world may be active per process at a time (the writer uses package globals).
func New(o Options) (*World, error) {
	if o.IntervalMs == 0 {
		o.IntervalMs = 2
	}
	if o.Workers == 0 {
		o.Workers = 1
	}
	if o.Attempts == 0 {
		o.Attempts = 1
	}
	stopRegistry() // a previous world of this process that was not closed
	wworld.InitPools()
	rlogger.Logger.SetOutput(io.Discard)
	st, err := store.New()
	if err != nil {
		return nil, err
	}
	w := &World{Opts: o, Store: st, CH: fakech.NewWorld()}
	w.CH.OnDo = func(b *fakech.Block) error {
		if o.OnDo != nil {
			if err := o.OnDo(b); err != nil {
				return err
			}
		}
		w.mu.Lock()
		defer w.mu.Unlock()
		if err := st.ApplyBlock(b); err != nil {
			w.StoreErr = append(w.StoreErr, err.Error())
			return err
		}
		return nil
	}
	cfg := config.ClokiBaseSettingServer{}
	cfg.SYSTEM_SETTINGS.DBTimer = o.IntervalMs / 1000
	cfg.SYSTEM_SETTINGS.DBBulk = o.MaxQueue
	cfg.SYSTEM_SETTINGS.ChannelsSample = o.Workers
	cfg.SYSTEM_SETTINGS.ChannelsTimeSeries = o.Workers
	cfg.SYSTEM_SETTINGS.RetryAttempts = o.Attempts
	cfg.SYSTEM_SETTINGS.RetryTimeoutS = 0
	cfg.HTTP_SETTINGS.InputBufferMB = 200
	cfg.FingerPrintType = 1                         // FINGERPRINT_CityHash, the default
	cfg.SYSTEM_SETTINGS.MetricsMaxSamples = 5000000 // the default; 0 makes every PromQL evaluation fail
	cc := &clconfig.ClokiConfig{Setting: &cfg}
	w.Cfg = cc
	wconfig.Cloki = cc
	rconfig.Cloki = cc

	node := wworld.Node("n1")
	node.WriteTimeout = 600
	p := &plugin.QrynWriterPlugin{ServicesObject: plugin.ServicesObject{
		DatabaseNodeMap: []model.DataDatabasesMap{*node},
		Dbv3Map:         []ch_wrapper.IChClientFactory{w.CH.Factory()},
	}}
	plugin.TsSvcs = make(service.InsertSvcMap)
	plugin.SplSvcs = make(service.InsertSvcMap)
	plugin.MtrSvcs = make(service.InsertSvcMap)
	plugin.TempoSamplesSvcs = make(service.InsertSvcMap)
	plugin.TempoTagsSvcs = make(service.InsertSvcMap)
	plugin.ProfileInsertSvcs = make(service.InsertSvcMap)
	plugin.MainNode = ""
	p.CreateStaticServiceRegistry(cfg, &impl.DevInsertServiceFactory{})
	controllerv1.Registry = plugin.ServiceRegistry
	controllerv1.FPCache = plugin.GoCache
	w.Writer = mux.NewRouter()
	p.RegisterRoutes(cfg,
		controllerv1.NewMiddlewareConfig(controllerv1.WithExtraMiddlewareDefault...),
		controllerv1.NewMiddlewareConfig(controllerv1.WithExtraMiddlewareTempo...), w.Writer)

	if !o.NoReader {
		w.Bridge = chbridge.New(st.DB)
		w.Bridge.Tables = []string{"time_series", "samples_v3", "time_series_gin", "metrics_15s", "tempo_traces", "tempo_traces_attrs_gin", "tempo_traces_kv", "settings", "profiles", "profiles_series", "profiles_series_gin", "profiles_series_keys"}
		dbMu.Lock()
		dbCounter++
		name := fmt.Sprintf("e2e-%d", dbCounter)
		dbMu.Unlock()
		w.SQL = fakesql.New(name, w.Bridge.Handler())
		reg := w.SQL.Registry(o.Cluster)
		w.Reader = mux.NewRouter()
		rrouter.RouteQueryRangeApis(w.Reader, reg)
		rrouter.RouteSelectLabels(w.Reader, reg)
		rrouter.RouteSelectPrometheusLabels(w.Reader, reg)
		rrouter.RoutePrometheusQueryRange(w.Reader, reg, false)
		rrouter.RouteTempo(w.Reader, reg)
		rrouter.RouteMiscApis(w.Reader)
		rrouter.RouteProf(w.Reader, reg)
	}
	return w, nil
}

// Close stops the insert services.
// stopRegistry stops every insert service of the package-level registry of writer/plugin and waits until the worker loops
// have returned (see the comment below: one registry per process in the product, many worlds per process here).
func stopRegistry() {
	for _, m := range []service.InsertSvcMap{plugin.TsSvcs, plugin.SplSvcs, plugin.MtrSvcs, plugin.TempoSamplesSvcs, plugin.TempoTagsSvcs, plugin.ProfileInsertSvcs} {
		for _, s := range m {
			if s != nil {
				s.Stop()
			}
		}
	}
	// A worker of the previous world that is still inside an iteration would call TsSvcs[node].PlanFlush() on the half-built
	// service of the NEXT world (nil dereference in the harness, not in the product). Wait until every loop has returned.
	deadline := time.Now().Add(5 * time.Second)
	buf := make([]byte, 4<<20)
	for time.Now().Before(deadline) {
		n := runtime.Stack(buf, true)
		if !bytes.Contains(buf[:n], []byte("service.(*InsertServiceV2).Run(")) {
			return
		}
		time.Sleep(2 * time.Millisecond)
	}
}

func (w *World) Close() {
	stopRegistry()
	if c, ok := plugin.GoCache.(interface{ Stop() }); ok {
		c.Stop()
	}
}

// Push sends a request to the writer router and returns status and body.
func (w *World) Push(method, path, contentType string, body []byte, hdr map[string]string) (int, string) {
	req := httptest.NewRequest(method, path, bytes.NewReader(body))
	if contentType != "" {
		req.Header.Set("Content-Type", contentType)
	}
	for k, v := range hdr {
		req.Header.Set(k, v)
	}
	rw := httptest.NewRecorder()
	w.Writer.ServeHTTP(rw, req)
	return rw.Code, rw.Body.String()
}

// Get sends a GET to the reader router.
func (w *World) Get(pathAndQuery string) (int, string) {
	req := httptest.NewRequest("GET", pathAndQuery, nil)
	rw := httptest.NewRecorder()
	w.Reader.ServeHTTP(rw, req)
	return rw.Code, rw.Body.String()
}

// Do sends an arbitrary request to the reader router.
func (w *World) Do(req *http.Request) (int, string) {
	rw := httptest.NewRecorder()
	w.Reader.ServeHTTP(rw, req)
	return rw.Code, rw.Body.String()
}

// Settle waits until the insert services had time to flush (interval based).
func (w *World) Settle() { time.Sleep(time.Duration(4*w.Opts.IntervalMs+5) * time.Millisecond) }

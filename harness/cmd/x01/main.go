// x01: the live tail of logs (extra check X01, spec/query/Tail.tla).
//
//	x01 run -cases cases.json -out out.json -par N -seed S
//	    every scenario (a TLC-generated schedule: request kind, lines stored between the ticks of the service goroutine
//	    with abstract timestamps, database fault at a tick, how the client leaves) is executed in a CHILD process
//	    against the REAL reader router (e2e world: real writer routes -> fake ClickHouse -> store -> chsql -> real
//	    reader routes) served by an httptest.Server, with a real gorilla websocket client. The child records one
//	    totally ordered event trace (Start, Store, Version, Query, Frame, ClientClose, ClientDrop, ConnEOF,
//	    HandlerDone, NoEOF, Census) that tools/props/x01.py validates against Trace_Tail.tla. The database is chsql
//	    behind ONE lock (a push is stored atomically; a statement is answered atomically); the bounds of every tail
//	    statement are read from its SQL text; database faults are injected around the chsql handler.
//	x01 child   (internal) scenario JSON on stdin, result JSON after the marker line on stdout
package main

import (
	"bytes"
	"context"
	"database/sql/driver"
	"encoding/json"
	"flag"
	"fmt"
	"io"
	"math/rand"
	"net"
	"net/http"
	"net/http/httptest"
	"net/url"
	"os"
	"os/exec"
	"regexp"
	"runtime"
	"sort"
	"strconv"
	"strings"
	"sync"
	"sync/atomic"
	"time"

	"github.com/gorilla/websocket"
	"verif/harness/e2e"
	"verif/harness/fakesql"
)

// ------------------------------------------------------------------------------------------------ scenario

type Line struct {
	ID     int `json:"id"`
	Ts     int `json:"ts"`     // abstract timestamp (Tail.tla): 0 = older than the 5 min look-back, t>=1 see realTs
	Stream int `json:"stream"` // 1 | 2
	Adj    int `json:"adj"`    // != 0: concrete timestamp = newest timestamp delivered so far + Adj ns (boundary probe)
}

type Step struct {
	Op    string `json:"op"` // store | await | close | drop | reset | wait_eof | sleep
	Lines []Line `json:"lines,omitempty"`
	N     int    `json:"n,omitempty"`  // await: until N data queries of the tail were answered
	Ms    int    `json:"ms,omitempty"` // sleep
}

type Scenario struct {
	ID      string `json:"id"`
	Req     string `json:"req"`           // ok | empty | noparse | noupgrade
	Query   string `json:"query"`         // "" = stream selector of this scenario; else a LogQL pipeline appended to it
	Fault   string `json:"fault"`         // none | version | query | row | scan
	FaultAt int    `json:"fault_at"`      // 1-based index of the data query that gets the fault
	Cut     int    `json:"cut"`           // row/scan: number of rows handed over before the failure
	Pre     []Line `json:"pre,omitempty"` // lines stored before the request is sent
	Steps   []Step `json:"steps"`
	GraceMs int    `json:"grace_ms"` // how long the census waits for the goroutines of the request to end
	Seed    int64  `json:"seed"`
	Meta    any    `json:"meta,omitempty"`
}

type Event struct {
	Ev    string   `json:"ev"`
	At    int64    `json:"at"`              // ns since the scenario start (monotonic clock)
	Req   string   `json:"req,omitempty"`   // Start
	Lo    int64    `json:"lo,omitempty"`    // Start: bounds on the service's initial `from`
	Hi    int64    `json:"hi,omitempty"`    //
	ID    int      `json:"id,omitempty"`    // Store
	Ts    int64    `json:"ts,omitempty"`    // Store: concrete timestamp (unix ns)
	From  int64    `json:"from,omitempty"`  // Query
	To    int64    `json:"to,omitempty"`    // Query
	Now   int64    `json:"now,omitempty"`   // Query: wall clock of the database when it answered (unix ns)
	IDs   []int    `json:"ids"`             // Query: rows matched in answer order; Frame: lines in the frame (document order)
	Fault string   `json:"fault,omitempty"` // Query/Version: none | query | row | scan | version | ctx
	Cut   int      `json:"cut,omitempty"`   // Query: rows handed over before the failure
	Kind  string   `json:"kind,omitempty"`  // Frame: ok | empty | errtail | notjson | shape | garbled
	Text  string   `json:"text,omitempty"`  // Frame (bad ones) / Refused
	Code  int      `json:"code,omitempty"`  // Refused: HTTP status
	Alive []string `json:"alive"`           // Census
	N     int      `json:"n,omitempty"`     // Flood: number of further bad frames not recorded one by one
	SQL   string   `json:"sql,omitempty"`
}

type Result struct {
	ID       string   `json:"id"`
	Events   []Event  `json:"events"`
	Infra    []string `json:"infra,omitempty"`
	Unsup    []string `json:"unsup,omitempty"`
	StoreErr []string `json:"store_err,omitempty"`
	Census   []string `json:"census_stacks,omitempty"`
	CensusMs int64    `json:"census_ms"` // time from the client's departure until no goroutine of the request was left (-1: never)
	SQLs     []string `json:"sqls,omitempty"`
	Frames   int      `json:"frames"`
}

// ------------------------------------------------------------------------------------------------ child

type rec struct {
	mu     sync.Mutex
	t0     time.Time
	events []Event
	nq     int // data queries answered
	cond   *sync.Cond
	infra  []string
}

func (r *rec) add(e Event) {
	r.mu.Lock()
	e.At = int64(time.Since(r.t0))
	r.events = append(r.events, e)
	r.mu.Unlock()
}

// addStart records the Start event BEFORE the request is sent and returns a function that completes its upper bound
func (r *rec) addStart(req string) func() {
	lo := time.Now().Add(-5 * time.Minute).UnixNano()
	r.mu.Lock()
	i := len(r.events)
	r.events = append(r.events, Event{Ev: "Start", At: int64(time.Since(r.t0)), Req: req, Lo: lo})
	r.mu.Unlock()
	return func() {
		hi := time.Now().Add(-5 * time.Minute).UnixNano()
		r.mu.Lock()
		r.events[i].Hi = hi
		r.mu.Unlock()
	}
}

func (r *rec) bad(msg string) {
	r.mu.Lock()
	r.infra = append(r.infra, msg)
	r.mu.Unlock()
}

var reGo = regexp.MustCompile(`(?m)^goroutine (\d+) \[([^\]]+)\]:\n((?:.+\n)+)`)

type gor struct{ id, state, stack string }

func goroutines() []gor {
	buf := make([]byte, 8<<20)
	n := runtime.Stack(buf, true)
	var res []gor
	for _, m := range reGo.FindAllStringSubmatch(string(buf[:n])+"\n", -1) {
		res = append(res, gor{m[1], m[2], m[3]})
	}
	return res
}

var permanent = regexp.MustCompile(`InsertServiceV2|numbercache\.NewCache|watchdog\.|StartPushStat|dbVersion\.throttle|prometheus/.*\.(run|Run)\b|ActiveQueryTracker`)
var frameArgs = regexp.MustCompile(`\((0x[0-9a-f]+\??|\.\.\.|[{}, ?])*\)?$`)

// role names the goroutines a tail request starts (innermost frame of the repository's reader code on the stack)
func role(stack string) string {
	for _, l := range strings.Split(stack, "\n") {
		if !strings.HasPrefix(l, "github.com/metrico/qryn/reader/") {
			continue
		}
		f := frameArgs.ReplaceAllString(strings.TrimPrefix(l, "github.com/metrico/qryn/reader/"), "")
		switch {
		case strings.Contains(f, "QueryRangeService).Tail.func"):
			return "service"
		case strings.Contains(f, "QueryRangeController).Tail.func1.1"):
			return "drainer"
		case strings.Contains(f, "QueryRangeController).Tail.func"):
			return "reader"
		case strings.Contains(f, "QueryRangeController).Tail"):
			return "handler"
		case strings.Contains(f, "ClickhouseGetterPlanner).Scan"):
			return "scan"
		}
		return "other:" + f
	}
	return ""
}

func census() ([]string, []string) {
	var alive, stacks []string
	for _, g := range goroutines() {
		if permanent.MatchString(g.stack) {
			continue
		}
		if r := role(g.stack); r != "" {
			alive = append(alive, r)
			stacks = append(stacks, r+" ["+g.state+"]\n"+g.stack)
		}
	}
	sort.Strings(alive)
	return alive, stacks
}

var reFrom = regexp.MustCompile(`samples\.timestamp_ns\)?\s*>=\s*\(?(-?\d+)`)
var reTo = regexp.MustCompile(`samples\.timestamp_ns\)?\s*<\s*\(?(-?\d+)`)
var reLine = regexp.MustCompile(`^L(\d+)$`)

const ancient = 301 * time.Second

func child() int {
	raw, err := io.ReadAll(os.Stdin)
	if err != nil {
		return 2
	}
	var sc Scenario
	if err := json.Unmarshal(raw, &sc); err != nil {
		fmt.Fprintln(os.Stderr, "scenario:", err)
		return 2
	}
	if sc.GraceMs == 0 {
		sc.GraceMs = 6000
	}
	w, err := e2e.New(e2e.Options{IntervalMs: 2, Attempts: 1})
	if err != nil {
		fmt.Fprintln(os.Stderr, "e2e:", err)
		return 2
	}
	r := &rec{t0: time.Now()}
	r.cond = sync.NewCond(&r.mu)
	res := Result{ID: sc.ID, CensusMs: -1}
	tag := "x" + sc.ID
	label := func(s int) string { return fmt.Sprintf("s%d", s) }

	// newest timestamp the database handed to the tail so far (boundary probes are placed relative to it)
	var newestDelivered int64
	var ndMu sync.Mutex
	tsOf := map[int]int64{}
	streamOf := map[int]int{}
	noteAnswered := func(ids []int) {
		ndMu.Lock()
		for _, id := range ids {
			if tsOf[id] > newestDelivered {
				newestDelivered = tsOf[id]
			}
		}
		ndMu.Unlock()
	}

	// ---- the database: one lock makes "a push is stored" and "a query is answered" atomic events
	var dbmu sync.Mutex
	inner := w.SQL.Handler
	var sqls []string
	w.SQL.Handler = func(ctx context.Context, q string, args []driver.NamedValue) (*fakesql.Answer, error) {
		dbmu.Lock()
		defer dbmu.Unlock()
		if fakesql.VersionAnswers(q, nil, nil) != nil {
			if strings.Contains(q, "type='update'") {
				if sc.Fault == "version" {
					r.add(Event{Ev: "Version", Fault: "version"})
					return nil, fmt.Errorf("code: 241, DB::Exception: Memory limit (total) exceeded")
				}
				r.add(Event{Ev: "Version", Fault: "none"})
			}
			return inner(ctx, q, args)
		}
		a, err := inner(ctx, q, args)
		mf, mt := reFrom.FindStringSubmatch(q), reTo.FindStringSubmatch(q)
		if mf == nil || mt == nil || !strings.Contains(q, tag) {
			r.bad("unexpected statement: " + q)
			return a, err
		}
		sqls = append(sqls, q)
		if err != nil || a == nil {
			r.bad(fmt.Sprintf("chsql cannot answer the tail statement: %v :: %s", err, q))
			return a, err
		}
		from, _ := strconv.ParseInt(mf[1], 10, 64)
		to, _ := strconv.ParseInt(mt[1], 10, 64)
		ev := Event{Ev: "Query", From: from, To: to, Now: time.Now().UnixNano(), Fault: "none", IDs: []int{}}
		strCol := -1
		for i, c := range a.Cols {
			if c == "string" {
				strCol = i
			}
		}
		if strCol < 0 {
			r.bad(fmt.Sprintf("no string column in %v", a.Cols))
			return a, err
		}
		for _, row := range a.Rows {
			s, _ := row[strCol].(string)
			if m := reLine.FindStringSubmatch(s); m != nil {
				id, _ := strconv.Atoi(m[1])
				ev.IDs = append(ev.IDs, id)
			} else {
				r.bad("row with an unknown line: " + s)
			}
		}
		r.mu.Lock()
		r.nq++
		n := r.nq
		r.mu.Unlock()
		if sc.FaultAt != n || sc.Fault == "version" || sc.Fault == "none" {
			noteAnswered(ev.IDs)
		}
		var ferr error
		if sc.FaultAt == n {
			switch sc.Fault {
			case "query":
				ev.Fault = "query"
				ferr = fmt.Errorf("code: 241, DB::Exception: Memory limit (total) exceeded")
			case "row":
				cut := sc.Cut
				if cut > len(a.Rows) {
					cut = len(a.Rows)
				}
				ev.Fault, ev.Cut = "row", cut
				a.ErrAt = cut
				a.Err = fmt.Errorf("code: 210, DB::NetException: connection reset by peer")
			case "scan":
				cut := sc.Cut
				if cut >= len(a.Rows) {
					cut = len(a.Rows) - 1
				}
				if cut >= 0 {
					ev.Fault, ev.Cut = "scan", cut
					rowc := append([]driver.Value{}, a.Rows[cut]...)
					rowc[0] = "not-a-fingerprint" // a value the row scanner cannot decode
					a.Rows[cut] = rowc
				}
			}
		}
		if ctx.Err() != nil {
			ev.Fault = "ctx"
		}
		r.add(ev)
		r.cond.Broadcast()
		if ferr != nil {
			return nil, ferr
		}
		return a, nil
	}

	// ---- the server: the real reader router; the wrapper records when the handler returned
	srv := httptest.NewServer(http.HandlerFunc(func(rw http.ResponseWriter, rq *http.Request) {
		defer func() {
			if p := recover(); p != nil {
				r.add(Event{Ev: "HandlerPanic", Text: fmt.Sprint(p)})
				panic(p)
			}
			r.add(Event{Ev: "HandlerDone"})
		}()
		w.Reader.ServeHTTP(rw, rq)
	}))
	defer srv.Close()

	sel := fmt.Sprintf(`{x01="%s"}`, tag)
	q := sel + sc.Query
	switch sc.Req {
	case "empty":
		q = ""
	case "noparse":
		q = `{x01="` + tag
	}
	u := "ws" + strings.TrimPrefix(srv.URL, "http") + "/loki/api/v1/tail?query=" + url.QueryEscape(q)

	// concrete timestamps
	var start time.Time
	realTs := func(l Line) int64 {
		if l.Adj != 0 {
			ndMu.Lock()
			nd := newestDelivered
			ndMu.Unlock()
			if nd != 0 {
				return nd + int64(l.Adj)
			}
		}
		if l.Ts <= 0 {
			return start.Add(-ancient).UnixNano()
		}
		return start.Add(time.Duration(l.Ts-2)*time.Second + 500*time.Millisecond).UnixNano()
	}
	store := func(ls []Line) {
		by := map[int][]Line{}
		for _, l := range ls {
			by[l.Stream] = append(by[l.Stream], l)
		}
		dbmu.Lock()
		defer dbmu.Unlock()
		var streams []string
		var evs []Event
		for s, g := range by {
			var vals []string
			for _, l := range g {
				ts := realTs(l)
				ndMu.Lock()
				tsOf[l.ID], streamOf[l.ID] = ts, s
				ndMu.Unlock()
				vals = append(vals, fmt.Sprintf(`["%d","L%d"]`, ts, l.ID))
				evs = append(evs, Event{Ev: "Store", ID: l.ID, Ts: ts})
			}
			streams = append(streams, fmt.Sprintf(`{"stream":{"x01":"%s","s":"%s"},"values":[%s]}`, tag, label(s), strings.Join(vals, ",")))
		}
		body := `{"streams":[` + strings.Join(streams, ",") + `]}`
		if c, b := w.Push("POST", "/loki/api/v1/push", "application/json", []byte(body), nil); c != 204 {
			r.bad(fmt.Sprintf("push: %d %s", c, b))
		}
		// the push is acknowledged: both the series row and the sample rows must be in the store now
		sort.Slice(evs, func(i, j int) bool { return evs[i].ID < evs[j].ID })
		for _, e := range evs {
			r.add(e)
		}
	}

	// ---- the request
	start = time.Now()
	r.t0 = start
	if len(sc.Pre) > 0 {
		store(sc.Pre)
	}
	var con *websocket.Conn
	var frames int64
	eof := make(chan struct{})
	badFrame := make(chan struct{}) // closed at the first message that is not a well-formed frame
	var rdMu sync.Mutex             // orders "a message was read" against "the client dropped the connection"
	droppedFlag := false
	gone := time.Time{}
	switch sc.Req {
	case "noupgrade":
		done := r.addStart(sc.Req)
		resp, err := http.Get("http" + strings.TrimPrefix(u, "ws"))
		done()
		if err != nil {
			r.bad("GET: " + err.Error())
		} else {
			b, _ := io.ReadAll(resp.Body)
			resp.Body.Close()
			r.add(Event{Ev: "Refused", Code: resp.StatusCode, Text: clip(string(b), 200)})
		}
		close(eof)
		gone = time.Now()
	default:
		done := r.addStart(sc.Req)
		c, resp, err := websocket.DefaultDialer.Dial(u, nil)
		done()
		if err != nil {
			code, body := 0, ""
			if resp != nil {
				code = resp.StatusCode
				b, _ := io.ReadAll(resp.Body)
				body = string(b)
			}
			r.add(Event{Ev: "Refused", Code: code, Text: clip(err.Error()+" :: "+body, 200)})
			if sc.Req == "ok" {
				r.bad("cannot open the tail: " + err.Error())
			}
			close(eof)
			gone = time.Now()
		} else {
			con = c
			if sc.Req != "ok" {
				// the spec refuses these requests; the upgrade is recorded as what it is
				r.add(Event{Ev: "Upgraded"})
			}
			go func() {
				defer close(eof)
				badSeen := 0
				flood := 0
				for {
					mt, msg, err := con.ReadMessage()
					if err != nil {
						if flood > 0 {
							r.add(Event{Ev: "Flood", N: flood})
						}
						r.add(Event{Ev: "ConnEOF", Text: clip(err.Error(), 120)})
						return
					}
					atomic.AddInt64(&frames, 1)
					rdMu.Lock()
					if droppedFlag { // read while the connection was being dropped: lost with the connection
						rdMu.Unlock()
						continue
					}
					if badSeen >= 3 { // a handler spinning on the closed channel floods the client: from here on count, do not record
						flood++
						rdMu.Unlock()
						continue
					}
					ndMu.Lock()
					ev := classify(mt, msg, tag, tsOf, streamOf, label)
					ndMu.Unlock()
					if ev.Kind != "ok" {
						badSeen++
						if badSeen == 1 {
							close(badFrame)
						}
					}
					r.add(ev)
					rdMu.Unlock()
				}
			}()
		}
	}

	// once the connection ended or carried a malformed message the run has shown what it can show: no more waiting
	over := func() bool {
		select {
		case <-eof:
			return true
		case <-badFrame:
			return true
		default:
			return false
		}
	}
	await := func(n int, limit time.Duration) bool {
		dl := time.Now().Add(limit)
		for {
			r.mu.Lock()
			ok := r.nq >= n
			r.mu.Unlock()
			if ok {
				return true
			}
			if time.Now().After(dl) || over() {
				return false
			}
			time.Sleep(5 * time.Millisecond)
		}
	}
	nap := func(d time.Duration) {
		dl := time.Now().Add(d)
		for time.Now().Before(dl) && !(over() && con != nil) {
			time.Sleep(10 * time.Millisecond)
		}
	}
	for _, st := range sc.Steps {
		switch st.Op {
		case "store":
			store(st.Lines)
		case "await":
			if con == nil {
				continue
			}
			if !await(st.N, 4*time.Second) {
				// the tail stopped asking (the service goroutine ended, e.g. after a fault): not an error of the driver
				r.add(Event{Ev: "AwaitTimeout", N: st.N})
			}
		case "sleep":
			nap(time.Duration(st.Ms) * time.Millisecond)
		case "wait_eof":
			// the spec says the server ends the connection by itself (e.g. after a database error): give it time
			select {
			case <-eof:
			case <-badFrame: // the connection is alive and carries garbage: nothing to wait for
			case <-time.After(time.Duration(st.Ms) * time.Millisecond):
				r.add(Event{Ev: "NoEOF"})
			}
		case "close":
			if con != nil && gone.IsZero() {
				r.add(Event{Ev: "ClientClose"})
				con.WriteControl(websocket.CloseMessage, websocket.FormatCloseMessage(websocket.CloseNormalClosure, ""), time.Now().Add(2*time.Second))
				gone = time.Now()
			}
		case "drop", "reset":
			if con != nil && gone.IsZero() {
				rdMu.Lock()
				droppedFlag = true
				r.add(Event{Ev: "ClientDrop"})
				rdMu.Unlock()
				if tc, ok := con.UnderlyingConn().(*net.TCPConn); ok && st.Op == "reset" {
					tc.SetLinger(0)
				}
				con.UnderlyingConn().Close()
				gone = time.Now()
			}
		}
	}
	if con != nil && gone.IsZero() {
		r.add(Event{Ev: "ClientClose"})
		con.WriteControl(websocket.CloseMessage, websocket.FormatCloseMessage(websocket.CloseNormalClosure, ""), time.Now().Add(2*time.Second))
		gone = time.Now()
	}
	// ---- after the client is gone: every goroutine of the request must end within the grace period
	dl := gone.Add(time.Duration(sc.GraceMs) * time.Millisecond)
	var alive, stacks []string
	for {
		alive, stacks = census()
		if len(alive) == 0 {
			select {
			case <-eof:
				res.CensusMs = time.Since(gone).Milliseconds()
			default:
			}
			if res.CensusMs >= 0 {
				break
			}
		}
		if time.Now().After(dl) {
			break
		}
		time.Sleep(50 * time.Millisecond)
	}
	select {
	case <-eof:
	default:
		alive = append(alive, "connection")
	}
	if alive == nil {
		alive = []string{}
	}
	r.add(Event{Ev: "Census", Alive: alive})
	if con != nil {
		con.Close()
	}
	r.mu.Lock()
	res.Events = append([]Event{}, r.events...)
	res.Infra = r.infra
	r.mu.Unlock()
	res.Census = stacks
	res.Unsup = w.Bridge.Unsupported
	res.StoreErr = w.StoreErr
	res.Frames = int(atomic.LoadInt64(&frames))
	if len(sqls) > 0 {
		res.SQLs = sqls[:1]
	}
	b, _ := json.Marshal(res)
	fmt.Fprintf(os.Stdout, "\n@@X01@@%s\n", b)
	return 0
}

func clip(s string, n int) string {
	if len(s) > n {
		return s[:n] + "..."
	}
	return s
}

// classify judges one websocket message on its own: exactly one JSON document {"streams":[{"stream":{..},"values":[[ts,line],..]},..]}
// whose entries are lines of this scenario with their stored timestamp and stream labels.
func classify(mt int, msg []byte, tag string, tsOf map[int]int64, streamOf map[int]int, label func(int) string) Event {
	ev := Event{Ev: "Frame", Kind: "ok", IDs: []int{}}
	fail := func(k string) Event {
		ev.Kind, ev.Text = k, clip(string(msg), 120)
		return ev
	}
	if len(msg) == 0 {
		return fail("empty")
	}
	if string(msg) == "]}}" {
		return fail("errtail")
	}
	if mt != websocket.TextMessage {
		return fail("notjson")
	}
	dec := json.NewDecoder(bytes.NewReader(msg))
	dec.UseNumber()
	var doc any
	if err := dec.Decode(&doc); err != nil {
		return fail("notjson")
	}
	if _, err := dec.Token(); err != io.EOF {
		return fail("notjson")
	}
	top, ok := doc.(map[string]any)
	if !ok || len(top) != 1 {
		return fail("shape")
	}
	ss, ok := top["streams"].([]any)
	if !ok {
		return fail("shape")
	}
	for _, s := range ss {
		so, ok := s.(map[string]any)
		if !ok || len(so) != 2 {
			return fail("shape")
		}
		lbl, ok1 := so["stream"].(map[string]any)
		vals, ok2 := so["values"].([]any)
		if !ok1 || !ok2 || len(vals) == 0 {
			return fail("shape")
		}
		for _, v := range vals {
			p, ok := v.([]any)
			if !ok || len(p) != 2 {
				return fail("shape")
			}
			tss, ok1 := p[0].(string)
			line, ok2 := p[1].(string)
			if !ok1 || !ok2 {
				return fail("shape")
			}
			m := reLine.FindStringSubmatch(line)
			if m == nil {
				return fail("garbled")
			}
			id, _ := strconv.Atoi(m[1])
			ts, known := tsOf[id]
			if !known || strconv.FormatInt(ts, 10) != tss {
				return fail("garbled")
			}
			if len(lbl) != 2 || lbl["x01"] != tag || lbl["s"] != label(streamOf[id]) {
				return fail("garbled")
			}
			ev.IDs = append(ev.IDs, id)
		}
	}
	return ev
}

// ------------------------------------------------------------------------------------------------ parent

func runOne(sc Scenario, timeout time.Duration) (res *Result, errText string) {
	b, _ := json.Marshal(sc)
	ctx, cancel := context.WithTimeout(context.Background(), timeout)
	defer cancel()
	c := exec.CommandContext(ctx, os.Args[0], "child")
	c.Stdin = bytes.NewReader(b)
	var so, se bytes.Buffer
	c.Stdout, c.Stderr = &so, &se
	err := c.Run()
	out := so.String()
	i := strings.LastIndex(out, "@@X01@@")
	if i < 0 {
		tail := se.String()
		if len(tail) > 3000 {
			tail = tail[:1500] + "\n...\n" + tail[len(tail)-1500:]
		}
		return nil, fmt.Sprintf("child of scenario %s ended without a result (%v):\n%s", sc.ID, err, tail)
	}
	line := out[i+len("@@X01@@"):]
	if j := strings.Index(line, "\n"); j >= 0 {
		line = line[:j]
	}
	var r Result
	if e := json.Unmarshal([]byte(line), &r); e != nil {
		return nil, "unparsable child result: " + e.Error()
	}
	return &r, ""
}

func run(casesPath, outPath string, par int, seed int64) int {
	raw, err := os.ReadFile(casesPath)
	if err != nil {
		fmt.Fprintln(os.Stderr, err)
		return 2
	}
	var cases []Scenario
	if err := json.Unmarshal(raw, &cases); err != nil {
		fmt.Fprintln(os.Stderr, err)
		return 2
	}
	rnd := rand.New(rand.NewSource(seed))
	for i := range cases {
		cases[i].Seed = rnd.Int63()
	}
	type out struct {
		Scenario Scenario `json:"scenario"`
		Result   *Result  `json:"result"`
		Crash    string   `json:"crash,omitempty"`
	}
	outs := make([]out, len(cases))
	sem := make(chan struct{}, par)
	var wg sync.WaitGroup
	for i := range cases {
		wg.Add(1)
		sem <- struct{}{}
		go func(i int) {
			defer wg.Done()
			defer func() { <-sem }()
			r, e := runOne(cases[i], 60*time.Second)
			outs[i] = out{Scenario: cases[i], Result: r, Crash: e}
		}(i)
	}
	wg.Wait()
	b, _ := json.Marshal(map[string]any{"runs": outs})
	if err := os.WriteFile(outPath, b, 0644); err != nil {
		fmt.Fprintln(os.Stderr, err)
		return 2
	}
	return 0
}

func main() {
	if len(os.Args) < 2 {
		os.Exit(2)
	}
	switch os.Args[1] {
	case "child":
		os.Exit(child())
	case "run":
		fs := flag.NewFlagSet("run", flag.ExitOnError)
		cases := fs.String("cases", "", "")
		out := fs.String("out", "", "")
		par := fs.Int("par", 8, "")
		seed := fs.Int64("seed", 1, "")
		fs.Parse(os.Args[2:])
		os.Exit(run(*cases, *out, *par, *seed))
	}
	os.Exit(2)
}

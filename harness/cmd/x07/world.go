package main

import (
	"encoding/hex"
	"encoding/json"
	"fmt"
	"math/rand"
	"net/http/httptest"
	"net/url"
	"os"
	"sort"
	"strconv"
	"strings"
	"time"

	commonv1 "go.opentelemetry.io/proto/otlp/common/v1"
	resourcev1 "go.opentelemetry.io/proto/otlp/resource/v1"
	tracev1 "go.opentelemetry.io/proto/otlp/trace/v1"
	"google.golang.org/protobuf/proto"
	"verif/harness/e2e"
)

type world struct {
	W *e2e.World
}

func newWorld(v2 bool) (*world, error) {
	// X07_CLUSTER=<name>: the reader believes it talks to a cluster (the statements name the *_dist tables)
	w, err := e2e.New(e2e.Options{IntervalMs: 1, Cluster: os.Getenv("X07_CLUSTER")})
	if err != nil {
		return nil, err
	}
	if v2 {
		if err := setTempoV2(w); err != nil {
			return nil, err
		}
	}
	return &world{W: w}, nil
}

func (x *world) close() { x.W.Close() }

func (x *world) reset() error {
	for _, t := range []string{"tempo_traces", "tempo_traces_attrs_gin", "tempo_traces_kv"} {
		if err := x.W.Store.DB.Truncate(t); err != nil {
			return err
		}
	}
	x.W.Bridge.Drain()
	x.W.Bridge.Unsupported = nil
	x.W.SQL.Drain()
	x.W.StoreErr = nil
	return nil
}

func (x *world) count(table string) (int, error) {
	res, err := x.W.Store.DB.Query("SELECT count() FROM " + table)
	if err != nil {
		return 0, err
	}
	if len(res.Rows) != 1 || len(res.Rows[0]) != 1 {
		return 0, fmt.Errorf("count(%s): unexpected shape", table)
	}
	return strconv.Atoi(fmt.Sprint(res.Rows[0][0]))
}

// ---- pushes

type spanPlan struct {
	Trace    int      `json:"trace"`
	Span     int      `json:"span"`
	Via      string   `json:"via"`
	TraceID  string   `json:"trace_id"`
	SpanID   string   `json:"span_id"`
	ParentID string   `json:"parent_id,omitempty"`
	Service  string   `json:"service"`
	Name     string   `json:"name"`
	StartNs  int64    `json:"start_ns"`
	DurNs    int64    `json:"duration_ns"`
	Keys     []string `json:"tag_keys"`
	Vals     []string `json:"tag_values"`
}

func str(s string) *commonv1.AnyValue {
	return &commonv1.AnyValue{Value: &commonv1.AnyValue_StringValue{StringValue: s}}
}

// push stores the database through the real writer routes, one request per trace and protocol
func (x *world) push(res *Result, k *conc, db [][]Span) ([]spanPlan, error) {
	var plans []spanPlan
	wantTraces, wantGin := 0, 0
	for ti, tr := range db {
		var zspans []map[string]any
		td := &tracev1.TracesData{}
		for si := range tr {
			s := &tr[si]
			p := spanPlan{Trace: ti + 1, Span: si + 1, Via: k.Proto[ti], TraceID: k.traceHex(ti + 1), SpanID: hex.EncodeToString(k.spanID(ti+1, si+1)),
				Service: k.Svc[s.Svc], Name: k.Nm[s.Nm], StartNs: k.startNs(ti+1, si+1), DurNs: k.durNs(ti+1, si+1)}
			if par := k.parentID(ti+1, si+1); par != nil {
				p.ParentID = hex.EncodeToString(par)
			}
			p.Keys, p.Vals = k.spanTags(s)
			plans = append(plans, p)
			wantTraces++
			wantGin += 3 + len(p.Keys)
			if k.Proto[ti] == "otlp" {
				rs := &tracev1.ResourceSpans{Resource: &resourcev1.Resource{Attributes: []*commonv1.KeyValue{{Key: "service.name", Value: str(p.Service)}}},
					ScopeSpans: []*tracev1.ScopeSpans{{}}}
				sp := &tracev1.Span{TraceId: k.traceID(ti + 1), SpanId: k.spanID(ti+1, si+1), ParentSpanId: k.parentID(ti+1, si+1), Name: p.Name,
					StartTimeUnixNano: uint64(p.StartNs), EndTimeUnixNano: uint64(p.StartNs + p.DurNs)}
				for i := range p.Keys {
					kv := &commonv1.KeyValue{Key: p.Keys[i], Value: str(p.Vals[i])}
					if i == 0 && k.ResTag {
						rs.Resource.Attributes = append(rs.Resource.Attributes, kv) // a process-level attribute
					} else {
						sp.Attributes = append(sp.Attributes, kv)
					}
				}
				rs.ScopeSpans[0].Spans = []*tracev1.Span{sp}
				td.ResourceSpans = append(td.ResourceSpans, rs)
			} else {
				tid := p.TraceID
				if k.Ids64 {
					tid = tid[16:] // a 64-bit Zipkin id: the writer pads it on the left
				}
				tags := map[string]string{}
				for i := range p.Keys {
					tags[p.Keys[i]] = p.Vals[i]
				}
				z := map[string]any{"traceId": tid, "id": p.SpanID, "name": p.Name, "timestamp": p.StartNs / 1000, "duration": p.DurNs / 1000,
					"localEndpoint": map[string]any{"serviceName": p.Service}, "tags": tags}
				if p.ParentID != "" {
					z["parentId"] = p.ParentID
				}
				zspans = append(zspans, z)
			}
		}
		switch k.Proto[ti] {
		case "otlp":
			raw, err := proto.Marshal(td)
			if err != nil {
				return plans, err
			}
			code, body := x.W.Push("POST", "/v1/traces", "application/x-protobuf", raw, nil)
			res.Pushes["otlp_protobuf"]++
			if code/100 != 2 {
				return plans, fmt.Errorf("otlp push refused: %d %s", code, clip(body, 300))
			}
		default:
			raw, _ := json.Marshal(zspans)
			path := "/tempo/spans"
			if k.Proto[ti] == "zipkin2" {
				path = "/api/v2/spans"
			}
			code, body := x.W.Push("POST", path, "application/json", raw, nil)
			res.Pushes["zipkin_json"+path]++
			if code/100 != 2 {
				return plans, fmt.Errorf("zipkin push refused: %d %s", code, clip(body, 300))
			}
		}
	}
	// every span has its tempo_traces row (the INSERTs are awaited by the routes; stragglers get 5 s).  Index rows other than
	// 3 + tags per span are behaviour of the real writer: the requests are asked all the same and speak for themselves.
	deadline := time.Now().Add(5 * time.Second)
	grace := time.Second
	if res.Classes["db_with_an_unexpected_number_of_index_rows"] > 3 {
		grace = 10 * time.Millisecond
	}
	var t0 time.Time
	for {
		nt, err := x.count("tempo_traces")
		if err != nil {
			return plans, err
		}
		ng, err := x.count("tempo_traces_attrs_gin")
		if err != nil {
			return plans, err
		}
		nk, err := x.count("tempo_traces_kv")
		if err != nil {
			return plans, err
		}
		if nt == wantTraces && ng == wantGin && nk == wantGin {
			break
		}
		if nt > wantTraces || time.Now().After(deadline) {
			return plans, fmt.Errorf("tempo_traces has %d rows (pushed %d spans), tempo_traces_attrs_gin %d, tempo_traces_kv %d (expected %d) (store errors: %v)",
				nt, wantTraces, ng, nk, wantGin, x.W.StoreErr)
		}
		if nt == wantTraces {
			if t0.IsZero() {
				t0 = time.Now()
			}
			if time.Since(t0) > grace {
				res.Classes["db_with_an_unexpected_number_of_index_rows"]++
				break
			}
		}
		time.Sleep(time.Millisecond)
	}
	if len(x.W.StoreErr) > 0 {
		return plans, fmt.Errorf("store errors: %v", x.W.StoreErr)
	}
	return plans, nil
}

// ---- requests

type sent struct {
	Method string            `json:"method"`
	Path   string            `json:"path"`
	Params url.Values        `json:"params,omitempty"`
	Header map[string]string `json:"header,omitempty"`
	Form   string            `json:"form,omitempty"`
}

func prefix(r *rand.Rand) string {
	if r.Intn(3) == 0 {
		return "/tempo"
	}
	return ""
}

func (x *world) send(r *rand.Rand, k *conc, rq *Req) (sent, int, string) {
	st := sent{Method: "GET", Params: url.Values{}, Header: map[string]string{}}
	switch rq.Ep {
	case "search":
		st.Path = prefix(r) + "/api/search"
		st.Params.Set("start", strconv.FormatInt(k.bound(rq.From), 10))
		st.Params.Set("end", strconv.FormatInt(k.bound(rq.To+1), 10))
		if len(rq.Tags) > 0 {
			st.Params.Set("tags", k.renderTags(r, rq.Tags))
		}
		if rq.Min > 0 {
			st.Params.Set("minDuration", renderDur(r, rq.Min))
		}
		if rq.Max > 0 {
			st.Params.Set("maxDuration", renderDur(r, rq.Max))
		}
		switch {
		case rq.Lim > 0:
			st.Params.Set("limit", strconv.Itoa(rq.Lim))
		case r.Intn(3) != 0: // no limit in the case: one larger than the database (the default, 10, is larger too)
			st.Params.Set("limit", []string{"20", "1000"}[r.Intn(2)])
		}
	case "tags":
		st.Path = prefix(r) + "/api/search/tags"
	case "values":
		name := k.tagKey(rq.Name)
		st.Path = prefix(r) + "/api/search/tag/" + url.PathEscape(name) + "/values"
	case "echo":
		st.Path = prefix(r) + "/api/echo"
	case "byid":
		id := k.traceHex(rq.Tgt)
		switch rq.Form {
		case "upper":
			id = strings.ToUpper(id)
		case "short":
			id = strings.TrimLeft(id, "0")
		case "nothex":
			id = []string{"zz" + id[2:], id[:31] + "g", "trace-1", id[:15] + "-" + id[16:]}[r.Intn(4)]
		case "long":
			id = id + id[:8] // 40 digits
		}
		st.Form = rq.Form
		st.Path = []string{"/api/traces/" + id, "/api/traces/" + id + "/json", "/tempo/api/traces/" + id}[r.Intn(3)]
		if rq.Acc == "proto" {
			st.Header["Accept"] = "application/protobuf"
		} else if r.Intn(2) == 0 {
			st.Header["Accept"] = "application/json"
		}
	}
	target := st.Path
	if len(st.Params) > 0 {
		target += "?" + st.Params.Encode()
	}
	hr := httptest.NewRequest("GET", target, nil)
	for h, v := range st.Header {
		hr.Header.Set(h, v)
	}
	code, body := x.W.Do(hr)
	return st, code, body
}

func statusClass(code int) string {
	switch {
	case code == 200:
		return "ok"
	case code == 404:
		return "notfound"
	}
	return "refused"
}

func numStr(raw json.RawMessage) string {
	s := strings.TrimSpace(string(raw))
	return strings.Trim(s, `"`)
}

// observe: the answer in comparable form; kind != "" when the body is not what the API promises
func (k *conc) observe(rq *Req, code int, body string) (Canon, string, bool) {
	out := Canon{St: statusClass(code), Rows: []string{}, Items: []string{}, Spans: []string{}}
	ordered := true
	if out.St != "ok" {
		return out, "", ordered
	}
	switch rq.Ep {
	case "echo":
		out.Items = append(out.Items, body)
	case "tags", "values":
		var doc map[string]json.RawMessage
		if err := json.Unmarshal([]byte(body), &doc); err != nil {
			return out, "malformed", ordered
		}
		field := "tagNames"
		if rq.Ep == "values" {
			field = "tagValues"
		}
		raw, ok := doc[field]
		if !ok {
			return out, "malformed", ordered
		}
		var items []string
		if err := json.Unmarshal(raw, &items); err != nil {
			return out, "malformed", ordered
		}
		out.Items = append(out.Items, items...)
		ordered = sort.StringsAreSorted(items)
	case "search":
		var doc struct {
			Traces []struct {
				TraceID string          `json:"traceID"`
				Svc     string          `json:"rootServiceName"`
				Name    string          `json:"rootTraceName"`
				Start   json.RawMessage `json:"startTimeUnixNano"`
				Dur     json.RawMessage `json:"durationMs"`
			} `json:"traces"`
		}
		if err := json.Unmarshal([]byte(body), &doc); err != nil {
			return out, "malformed", ordered
		}
		var last string
		for i, t := range doc.Traces {
			id := strings.ToLower(t.TraceID)
			for len(id) < 32 {
				id = "0" + id
			}
			svc, name := t.Svc, t.Name
			for ti := range k.db {
				if k.traceHex(ti+1) == id {
					svc, name = k.rootFields(ti+1, svc, name)
				}
			}
			start := numStr(t.Start)
			if i > 0 && (len(start) < len(last) || len(start) == len(last) && start > last) {
				ordered = false // not newest first
			}
			last = start
			out.Rows = append(out.Rows, fmt.Sprintf("%s|%s|%s|%s|%s", id, svc, name, start, numStr(t.Dur)))
		}
	case "byid":
		if rq.Acc == "proto" {
			td := &tracev1.TracesData{}
			if err := proto.Unmarshal([]byte(body), td); err != nil {
				return out, "malformed", ordered
			}
			for _, rs := range td.ResourceSpans {
				svc := ""
				if rs.Resource != nil {
					for _, a := range rs.Resource.Attributes {
						if a.Key == "service.name" {
							svc = a.Value.GetStringValue()
						}
					}
				}
				for _, ss := range rs.ScopeSpans {
					for _, sp := range ss.Spans {
						out.Spans = append(out.Spans, hex.EncodeToString(sp.TraceId)+"|"+hex.EncodeToString(sp.SpanId)+"|"+svc)
					}
				}
			}
		} else {
			var doc struct {
				ResourceSpans []struct {
					ILS []struct {
						Spans []struct {
							TraceID string `json:"traceId"`
							SpanID  string `json:"spanId"`
							Svc     string `json:"serviceName"`
						} `json:"spans"`
					} `json:"instrumentationLibrarySpans"`
				} `json:"resourceSpans"`
			}
			if err := json.Unmarshal([]byte(body), &doc); err != nil {
				return out, "malformed", ordered
			}
			for _, rs := range doc.ResourceSpans {
				for _, ils := range rs.ILS {
					for _, sp := range ils.Spans {
						out.Spans = append(out.Spans, strings.ToLower(sp.TraceID)+"|"+strings.ToLower(sp.SpanID)+"|"+sp.Svc)
					}
				}
			}
		}
	}
	sort.Strings(out.Rows)
	sort.Strings(out.Items)
	sort.Strings(out.Spans)
	return out, "", ordered
}

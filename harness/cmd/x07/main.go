// Command x07 binds spec/query/TempoSearch.tla (X07: the CONTENT of the Tempo v1 read API: /api/search with tags= /
// minDuration / maxDuration / limit / start / end, /api/search/tags, /api/search/tag/{tag}/values, /api/echo and which
// spans /api/traces/{id}[/json] returns) to the real code.
//
//	x07 run -cases <ndjson> -out <json> -seed <n>
//	    every line is one TLC-generated case (MC_TempoSearch!CaseRec): an abstract database of traces, one request, the
//	    definition's answer, the answer of the mechanism as coded, the quirks that fire.  The cases of one database are
//	    adjacent; all cases of a file have the same `v2` flag (tempo_v2 announced in the settings table or not).  Per
//	    database: the traces are concretised (hostile service / span / tag names and values, real nanosecond times, trace
//	    ids that differ in one byte, optionally 64-bit ids and span ids shared between traces), pushed through the REAL
//	    writer routes of e2e.World (Zipkin JSON on /tempo/spans and /api/v2/spans, OTLP protobuf on /v1/traces; the real
//	    materialized views derive the tempo_traces, tempo_traces_attrs_gin and tempo_traces_kv rows), then every request of
//	    the database is sent to the REAL reader routes and the answer compared as a bag with the definition.
//	x07 big -out <json> -seed <n>
//	    a trace of more than 2000 spans by id (the LIMIT of the statement), plus side observations (default limit, ids
//	    longer than 64 digits, the default window)
//	x07 probe
//	    prints what the routes answer for a hand-written database (exploration)
package main

import (
	"bufio"
	"encoding/json"
	"flag"
	"fmt"
	"hash/fnv"
	"io"
	"math/rand"
	"os"
	"strings"

	"verif/harness/e2e"
)

type Tag struct {
	K string `json:"k"`
	V string `json:"v"`
}

type Req struct {
	Ep   string `json:"ep"`
	Tags []Tag  `json:"tags"`
	Min  int    `json:"min"`
	Max  int    `json:"max"`
	Lim  int    `json:"lim"`
	From int    `json:"from"`
	To   int    `json:"to"`
	Name string `json:"name"`
	Tgt  int    `json:"tgt"`
	Form string `json:"form"`
	Acc  string `json:"acc"`
}

type Entry struct {
	Tr int `json:"tr"`
	Rs int `json:"rs"`
	Ss int `json:"ss"`
	Dm int `json:"dm"`
}

type Ref struct {
	T int `json:"t"`
	S int `json:"s"`
}

type Ans struct {
	St    string   `json:"st"`
	Rows  []Entry  `json:"rows"`
	Items []string `json:"items"`
	Spans []Ref    `json:"spans"`
}

type Span struct {
	Par  int               `json:"par"`
	Svc  string            `json:"svc"`
	Nm   string            `json:"nm"`
	Tk   int               `json:"tk"`
	Du   int               `json:"du"`
	Tg   int               `json:"tg"`
	Tags map[string]string `json:"tags"`
}

type Case struct {
	Cfg      string   `json:"cfg"`
	Db       [][]Span `json:"db"`
	Req      Req      `json:"req"`
	V2       bool     `json:"v2"`
	Scoped   []string `json:"scoped"`
	Def      Ans      `json:"def"`
	Coded    Ans      `json:"coded"`
	Fired    []string `json:"fired"`
	Mut      []Ans    `json:"mut"`
	Mutfired []string `json:"mutfired"`
}

// Canon: an answer in comparable form (bags as sorted lists)
type Canon struct {
	St    string   `json:"status"` // ok | notfound | refused
	Rows  []string `json:"traces"` // search: traceid|service|name|startTimeUnixNano|durationMs
	Items []string `json:"items"`  // tags / values / echo
	Spans []string `json:"spans"`  // by id: traceid|spanid|service
}

func (c Canon) key() string {
	b, _ := json.Marshal(c)
	return string(b)
}

type Mismatch struct {
	Signature string   `json:"signature"`
	Msg       string   `json:"msg"`
	Abstract  *Case    `json:"abstract"`
	Concrete  any      `json:"concrete_database"`
	Request   any      `json:"request"`
	Expected  Canon    `json:"expected"`
	Predicted Canon    `json:"as_coded"`
	Observed  Canon    `json:"observed"`
	Status    int      `json:"status"`
	Raw       string   `json:"raw"`
	SQL       []string `json:"sql,omitempty"`
	score     int
}

type Result struct {
	Cases              int            `json:"cases"`
	Databases          int            `json:"databases"`
	Nontrivial         int            `json:"distinct_nontrivial"`
	EqualDef           int            `json:"answers_equal_definition"`
	Pushes             map[string]int `json:"pushes"`
	Requests           map[string]int `json:"requests"`
	Classes            map[string]int `json:"classes"`
	FiredCases         map[string]int `json:"fired_cases"`
	FiredObserved      map[string]int `json:"fired_observed"`
	FiredSilent        map[string]int `json:"fired_silent"`
	MismatchCounts     map[string]int `json:"mismatch_counts"`
	Mismatches         []Mismatch     `json:"mismatches"`
	Infra              []string       `json:"infra"`
	Sample             any            `json:"sample"`
	Aux                map[string]any `json:"aux,omitempty"`
	seenPerSig         map[string]int
	distinctNontrivial map[string]bool
}

func newResult() *Result {
	return &Result{Pushes: map[string]int{}, Requests: map[string]int{}, Classes: map[string]int{}, FiredCases: map[string]int{},
		FiredObserved: map[string]int{}, FiredSilent: map[string]int{}, MismatchCounts: map[string]int{}, seenPerSig: map[string]int{},
		distinctNontrivial: map[string]bool{}, Aux: map[string]any{}}
}

func (r *Result) infra(f string, a ...any) {
	if len(r.Infra) < 20 {
		r.Infra = append(r.Infra, fmt.Sprintf(f, a...))
	}
}

func (r *Result) auxCount(k string) {
	n, _ := r.Aux[k].(int)
	r.Aux[k] = n + 1
}

func hash64(s string) int64 {
	h := fnv.New64a()
	h.Write([]byte(s))
	return int64(h.Sum64() >> 1)
}

// the settings table announces the "tempo_v2" schema update (dbVersion.GetVersionInfo reads it once per 10 s and database)
func setTempoV2(w *e2e.World) error {
	w.Bridge.Versions["tempo_v2"] = "1"
	return nil
}

func main() {
	if len(os.Args) < 2 {
		fmt.Fprintln(os.Stderr, "usage: x07 run|big|probe ...")
		os.Exit(2)
	}
	switch os.Args[1] {
	case "probe":
		probe()
	case "run":
		fs := flag.NewFlagSet("run", flag.ExitOnError)
		cases := fs.String("cases", "", "ndjson of cases")
		out := fs.String("out", "", "result json")
		seed := fs.Int64("seed", 1, "seed")
		fs.Parse(os.Args[2:])
		os.Exit(runCases(*cases, *out, *seed))
	case "big":
		fs := flag.NewFlagSet("big", flag.ExitOnError)
		out := fs.String("out", "", "result json")
		seed := fs.Int64("seed", 1, "seed")
		fs.Parse(os.Args[2:])
		os.Exit(runBig(*out, *seed))
	default:
		os.Exit(2)
	}
}

func writeResult(path string, res *Result) int {
	res.Nontrivial = len(res.distinctNontrivial)
	b, err := json.Marshal(res)
	if err != nil {
		fmt.Fprintln(os.Stderr, "marshal:", err)
		return 3
	}
	if err := os.WriteFile(path, b, 0o644); err != nil {
		fmt.Fprintln(os.Stderr, err)
		return 3
	}
	return 0
}

func runCases(casesPath, outPath string, seed int64) int {
	f, err := os.Open(casesPath)
	if err != nil {
		fmt.Fprintln(os.Stderr, err)
		return 3
	}
	defer f.Close()
	// the reader prints every SQL text on stdout
	devnull, _ := os.OpenFile(os.DevNull, os.O_WRONLY, 0)
	os.Stdout = devnull
	res := newResult()
	var x *world
	defer func() {
		if x != nil {
			x.close()
		}
	}()
	rd := bufio.NewReaderSize(f, 1<<20)
	var group []*Case
	var groupKey string
	v2 := false
	flush := func() {
		if len(group) > 0 {
			if x == nil {
				v2 = group[0].V2
				if x, err = newWorld(v2); err != nil {
					res.infra("world: %v", err)
					return
				}
			}
			x.runDatabase(res, group, seed)
		}
		group = nil
	}
	for {
		line, err := rd.ReadString('\n')
		if strings.TrimSpace(line) != "" {
			c := &Case{}
			if e := json.Unmarshal([]byte(line), c); e != nil {
				res.infra("cannot parse case: %v: %.200s", e, line)
			} else {
				if x != nil && c.V2 != v2 {
					res.infra("cases with and without tempo_v2 in one file")
				}
				dbk, _ := json.Marshal(c.Db)
				k := c.Cfg + "|" + string(dbk)
				if k != groupKey {
					flush()
					groupKey = k
				}
				group = append(group, c)
			}
		}
		if err == io.EOF {
			break
		}
		if err != nil {
			res.infra("read: %v", err)
			break
		}
	}
	flush()
	return writeResult(outPath, res)
}

// ---- shared helpers

func contains(l []string, s string) bool {
	for _, x := range l {
		if x == s {
			return true
		}
	}
	return false
}

func rng(seed int64, salt string) *rand.Rand {
	return rand.New(rand.NewSource(seed*1000003 + hash64(salt)))
}

func clip(s string, n int) string {
	if len(s) <= n {
		return s
	}
	return s[:n] + fmt.Sprintf("...(%d bytes)", len(s))
}

package main

import (
	"encoding/hex"
	"fmt"
	"math/rand"
	"regexp"
	"sort"
	"strconv"
	"strings"
)

// Concretisation of the abstract atoms of a database.
//   service atoms s1, s2 / span name atoms n1, n2 / tag key atoms a, b (z: a key nobody carries) / value atoms x, y
//   (y is a decoy of x: another case, an extension, a prefix): seeded choices from hostile pools
//   ticks 0..4 -> real seconds around a window [S, S+120] on a random day; a unit is 0.5 ms; a per-database jitter
//   below 0.4 ms (whole microseconds when a Zipkin body carries the spans)
//   trace ids differ in their last byte only; optionally 64-bit ids (upper half zero); optionally the same span ids in
//   every trace

var svcPools = [][2]string{{"svc-a", "svc-b"}, {"my service", "my  service"}, {"Ünï-svc", "ünï-svc"}, {`s'q"x`, `s'q`}, {`a/b`, `a\b`},
	{"checkout", "Checkout"}, {"front end;--", "front end"}, {"日本", "日本語"}}
var nmPools = [][2]string{{"GET /api/x", "GET /api/y"}, {"op name", "op  name"}, {`n"q'`, `n"q`}, {"ÜN", "ün"}, {"SELECT 1", "SELECT 1;--"},
	{"a=b", "a!=b"}, {"HTTP GET", "http get"}, {"x%_", "x%"}}

type keyTriple struct{ a, b, z string }

var keyPools = map[string][]keyTriple{
	"plain":   {{"http.method", "http.status_code", "http.url"}, {"k", "k2", "k3"}, {"component", "error", "db.statement"}},
	"case":    {{"Key", "key", "KEY"}, {"http.Method", "http.method", "HTTP.METHOD"}},
	"quoted":  {{"my key", "my", "key"}, {`q"k`, `q'k`, `qk`}, {"a=b", "a!", "a~"}, {"tab\tkey", "tab", "tabkey"}},
	"unicode": {{"clé", "ключ", "鍵"}, {"emoji😀", "emoji", "😀"}},
	"sqlcols": {{"key", "val", "date"}, {"trace_id", "span_id", "oid"}, {"timestamp_ns", "duration", "payload"}},
	"prefixy": {{"spanx.kind", "span", "resourcex"}, {"span_kind", "resource", "span"}},
}
var keyClasses = []string{"plain", "case", "quoted", "unicode", "sqlcols", "prefixy"}
var scopePrefixes = []string{"span.", "resource.", "."}
var scopedBases = [][2]string{{"kind", "type"}, {"cluster", "region"}, {"hidden", "h2"}}

var valPools = map[string][][2]string{
	"plain":     {{"v1", "v1x"}, {"GET", "get"}, {"200", "2000"}, {"client", "CLIENT"}},
	"space":     {{"two words", "two"}, {" lead", " lead "}, {"a  b", "a b"}},
	"quotes":    {{`q"uo'te`, `q"uo'te"`}, {`'`, `''`}, {`"`, `""`}},
	"backslash": {{`b\sl`, `b\\sl`}, {`\`, `\n`}},
	"unicode":   {{"vé日本", "vé日本ü😀"}, {"Ωmega", "ωmega"}},
	"ops":       {{"a=b", "a!=b"}, {"x~y", "x=~y"}, {"!", "!!"}},
	"regex":     {{`.*`, `.+`}, {`a.b*c(d)[e]|f`, `aXb`}, {`(`, `()`}},
	"sqlish":    {{`'); DROP TABLE x;--`, `'); DROP TABLE x;--%_`}, {`%`, `%_`}},
	"ctrl":      {{"line1\nline2", "line1"}, {"tab\there", "tab here"}},
	"empty":     {{"", " "}},
	"long":      {{strings.Repeat("L", 300), strings.Repeat("L", 299)}},
}
var valClasses = []string{"plain", "plain", "space", "quotes", "backslash", "unicode", "ops", "regex", "sqlish", "ctrl", "empty", "long"}

type conc struct {
	SvcClass  int               `json:"-"`
	KeyClass  string            `json:"key_class"`
	ValClass  string            `json:"value_class"`
	Svc       map[string]string `json:"services"`
	Nm        map[string]string `json:"span_names"`
	Key       map[string]string `json:"tag_keys"`
	Val       map[string]string `json:"tag_values"`
	Scoped    map[string]bool   `json:"scoped_keys"`
	S         int64             `json:"window_base_s"`
	Jitter    int64             `json:"jitter_ns"`
	Ids64     bool              `json:"ids64"`
	Collide   bool              `json:"same_span_ids_in_every_trace"`
	ResTag    bool              `json:"otlp_first_tag_in_resource"`
	Proto     []string          `json:"protocol_of_trace"`
	IdPrefix  string            `json:"trace_id_prefix"`
	SpanPref  string            `json:"span_id_prefix"`
	idPrefix  []byte
	spanPref  []byte
	db        [][]Span
	rootless  map[int]bool
	pairsOfTr map[int]map[string]bool
}

var tickOffset = []int64{-30, 3, 55, 117, 150}

func concretise(r *rand.Rand, c *Case) *conc {
	k := &conc{Svc: map[string]string{}, Nm: map[string]string{}, Key: map[string]string{}, Val: map[string]string{}, Scoped: map[string]bool{}, db: c.Db}
	sp := svcPools[r.Intn(len(svcPools))]
	if r.Intn(2) == 0 {
		sp[0], sp[1] = sp[1], sp[0]
	}
	k.Svc["s1"], k.Svc["s2"] = sp[0], sp[1]
	np := nmPools[r.Intn(len(nmPools))]
	if r.Intn(2) == 0 {
		np[0], np[1] = np[1], np[0]
	}
	k.Nm["n1"], k.Nm["n2"] = np[0], np[1]
	k.KeyClass = keyClasses[r.Intn(len(keyClasses))]
	kp := keyPools[k.KeyClass][r.Intn(len(keyPools[k.KeyClass]))]
	k.Key["a"], k.Key["b"], k.Key["z"] = kp.a, kp.b, kp.z
	if r.Intn(2) == 0 {
		k.Key["a"], k.Key["b"] = kp.b, kp.a
	}
	// the keys whose name begins with a scope prefix (the values endpoint strips it)
	sb := scopedBases[r.Intn(len(scopedBases))]
	for i, a := range c.Scoped {
		k.Scoped[a] = true
		k.Key[a] = scopePrefixes[r.Intn(len(scopePrefixes))] + sb[i%2]
	}
	k.ValClass = valClasses[r.Intn(len(valClasses))]
	vp := valPools[k.ValClass][r.Intn(len(valPools[k.ValClass]))]
	k.Val["x"], k.Val["y"] = vp[0], vp[1]
	if r.Intn(3) == 0 && vp[1] != "" && k.ValClass != "empty" {
		k.Val["x"], k.Val["y"] = vp[1], vp[0]
	}
	// a window on a random day between 2023-01-01 and 2026-06-01, well inside the UTC day
	day := int64(19358 + r.Intn(1240))
	k.S = day*86400 + int64(3600+r.Intn(20*3600))
	k.Proto = make([]string, len(c.Db))
	mode := r.Intn(4) // 0: all Zipkin, 1: all OTLP, 2, 3: per trace
	allOtlp := len(c.Db) > 0
	for i := range c.Db {
		switch {
		case mode == 0:
			k.Proto[i] = []string{"zipkin", "zipkin2"}[r.Intn(2)]
		case mode == 1:
			k.Proto[i] = "otlp"
		default:
			k.Proto[i] = []string{"zipkin", "zipkin2", "otlp", "otlp"}[r.Intn(4)]
		}
		if k.Proto[i] != "otlp" {
			allOtlp = false
		}
	}
	if allOtlp {
		k.Jitter = int64(r.Intn(400000))
	} else {
		k.Jitter = int64(r.Intn(400)) * 1000 // Zipkin: microseconds
	}
	k.Ids64 = r.Intn(3) == 0
	k.Collide = r.Intn(3) == 0
	k.ResTag = r.Intn(2) == 0
	k.idPrefix = make([]byte, 16)
	r.Read(k.idPrefix)
	k.idPrefix[0] = 0
	k.idPrefix[1] = 0x10 | k.idPrefix[1]&0x7f
	if k.Ids64 {
		for i := 0; i < 8; i++ {
			k.idPrefix[i] = 0
		}
		k.idPrefix[8] = 0x10 | k.idPrefix[8]&0x7f
	}
	k.spanPref = make([]byte, 8)
	r.Read(k.spanPref)
	k.spanPref[0] |= 0x10
	k.IdPrefix, k.SpanPref = hex.EncodeToString(k.idPrefix), hex.EncodeToString(k.spanPref)
	k.rootless = map[int]bool{}
	k.pairsOfTr = map[int]map[string]bool{}
	for ti, tr := range c.Db {
		root := false
		k.pairsOfTr[ti+1] = map[string]bool{"<root span not yet received>|": true}
		for _, s := range tr {
			if s.Par == 0 {
				root = true
			}
			k.pairsOfTr[ti+1][k.Svc[s.Svc]+"|"+k.Nm[s.Nm]] = true
		}
		k.rootless[ti+1] = !root
	}
	return k
}

func (k *conc) traceID(ti int) []byte {
	b := append([]byte{}, k.idPrefix...)
	if ti == 0 {
		b[15] = 0xEE // an id nobody stored
	} else {
		b[15] = byte(0xA0 + ti)
	}
	return b
}

func (k *conc) traceHex(ti int) string { return hex.EncodeToString(k.traceID(ti)) }

func (k *conc) spanID(ti, si int) []byte {
	b := append([]byte{}, k.spanPref...)
	if k.Collide {
		b[7] = byte(si)
	} else {
		b[7] = byte(0x10*ti + si)
	}
	return b
}

// the id of a parent that was never stored
func (k *conc) orphanParent() []byte {
	b := append([]byte{}, k.spanPref...)
	b[7] = 0xFD
	return b
}

func (k *conc) parentID(ti, si int) []byte {
	s := k.db[ti-1][si-1]
	switch {
	case s.Par == 0:
		return nil
	case s.Par == 9:
		return k.orphanParent()
	default:
		return k.spanID(ti, s.Par) // may name a span the trace does not have
	}
}

func (k *conc) startNs(ti, si int) int64 {
	s := k.db[ti-1][si-1]
	return (k.S+tickOffset[s.Tk])*1e9 + int64(3*(ti-1)+(si-1))*500000 + k.Jitter
}

func (k *conc) durNs(ti, si int) int64 { return int64(k.db[ti-1][si-1].Du) * 500000 }

// window of a request in seconds: tick t lies in [bound(t), bound(t+1))
func (k *conc) bound(t int) int64 { return k.S + int64(t-1)*40 }

// the tags of a span in a seeded order: concrete keys and values
func (k *conc) spanTags(s *Span) (keys, vals []string) {
	var atoms []string
	for a, v := range s.Tags {
		if v != "#" {
			atoms = append(atoms, a)
		}
	}
	sort.Strings(atoms)
	for _, a := range atoms {
		keys = append(keys, k.Key[a])
		vals = append(vals, k.Val[s.Tags[a]])
	}
	return
}

var bareRe = regexp.MustCompile(`^[^ !=~"\s\x00-\x1f\\]+$`)

// one side of a tag of the tags= parameter: bare where the grammar of reader/tempo/tags.go allows it, else a quoted string
func logfmtWord(r *rand.Rand, s string) string {
	if bareRe.MatchString(s) && r.Intn(4) != 0 {
		return s
	}
	return strconv.Quote(s)
}

func (k *conc) tagKey(a string) string {
	switch a {
	case "svc":
		return "service.name"
	case "nm":
		return "name"
	}
	return k.Key[a]
}

func (k *conc) tagVal(a, v string) string {
	switch a {
	case "svc":
		return k.Svc[v]
	case "nm":
		return k.Nm[v]
	}
	return k.Val[v]
}

func (k *conc) renderTags(r *rand.Rand, tags []Tag) string {
	var parts []string
	for _, t := range tags {
		parts = append(parts, logfmtWord(r, k.tagKey(t.K))+"="+logfmtWord(r, k.tagVal(t.K, t.V)))
	}
	return strings.Join(parts, " ")
}

// a Go duration for n units of 0.5 ms
func renderDur(r *rand.Rand, units int) string {
	ns := int64(units) * 500000
	switch r.Intn(4) {
	case 0:
		return fmt.Sprintf("%dns", ns)
	case 1:
		return fmt.Sprintf("%dus", ns/1000)
	case 2:
		return strconv.FormatFloat(float64(ns)/1e6, 'f', -1, 64) + "ms"
	}
	return strconv.FormatFloat(float64(ns)/1e9, 'f', -1, 64) + "s"
}

// ---- answers of the specification in comparable form

// the root fields of a trace without root span are not compared: any span's fields, or Tempo's placeholder, are accepted
func (k *conc) rootFields(ti int, svc, name string) (string, string) {
	if k.rootless[ti] && k.pairsOfTr[ti][svc+"|"+name] {
		return "*", "*"
	}
	return svc, name
}

func (k *conc) rowOf(e Entry) (string, error) {
	if e.Tr < 1 || e.Tr > len(k.db) || e.Ss < 1 || e.Ss > len(k.db[e.Tr-1]) || e.Rs > len(k.db[e.Tr-1]) {
		return "", fmt.Errorf("entry %+v names a span the database does not have", e)
	}
	svc, name := "*", "*"
	if e.Rs > 0 {
		s := k.db[e.Tr-1][e.Rs-1]
		svc, name = k.rootFields(e.Tr, k.Svc[s.Svc], k.Nm[s.Nm])
	} else if !k.rootless[e.Tr] {
		return "", fmt.Errorf("entry %+v: no root named for a trace that has one", e)
	}
	// the duration of the whole trace from the concrete times
	lo, hi := int64(1<<62), int64(0)
	ticks := map[int]bool{}
	for si, s := range k.db[e.Tr-1] {
		st := k.startNs(e.Tr, si+1)
		if st < lo {
			lo = st
		}
		if st+k.durNs(e.Tr, si+1) > hi {
			hi = st + k.durNs(e.Tr, si+1)
		}
		ticks[s.Tk] = true
	}
	dm := int64(e.Dm)
	if e.Dm < 0 {
		if len(ticks) < 2 {
			return "", fmt.Errorf("entry %+v: no duration given for a trace within one tick", e)
		}
		dm = (hi - lo) / 1000000
	}
	return fmt.Sprintf("%s|%s|%s|%d|%d", k.traceHex(e.Tr), svc, name, k.startNs(e.Tr, e.Ss), dm), nil
}

func (k *conc) spanOf(p Ref) string {
	s := k.db[p.T-1][p.S-1]
	return k.traceHex(p.T) + "|" + hex.EncodeToString(k.spanID(p.T, p.S)) + "|" + k.Svc[s.Svc]
}

// derivedKeys: the keys the writer adds by itself to the tags of a span of the given protocol
func derivedKeys(proto string) []string {
	if proto == "otlp" {
		return []string{"remoteService.name"}
	}
	return []string{"local_endpoint_service_name"}
}

func (k *conc) canon(c *Case, a Ans) (Canon, error) {
	out := Canon{St: a.St, Rows: []string{}, Items: []string{}, Spans: []string{}}
	for _, e := range a.Rows {
		row, err := k.rowOf(e)
		if err != nil {
			return out, err
		}
		out.Rows = append(out.Rows, row)
	}
	switch c.Req.Ep {
	case "tags":
		seen := map[string]bool{}
		for _, it := range a.Items {
			seen[k.tagKey(it)] = true
		}
		if len(a.Items) > 0 {
			for ti := range k.db {
				for _, d := range derivedKeys(k.Proto[ti]) {
					seen[d] = true
				}
			}
		}
		for it := range seen {
			out.Items = append(out.Items, it)
		}
	case "values":
		for _, it := range a.Items {
			out.Items = append(out.Items, k.tagVal(c.Req.Name, it))
		}
	default:
		out.Items = append(out.Items, a.Items...)
	}
	for _, p := range a.Spans {
		out.Spans = append(out.Spans, k.spanOf(p))
	}
	sort.Strings(out.Rows)
	sort.Strings(out.Items)
	sort.Strings(out.Spans)
	return out, nil
}

package main

import (
	"fmt"
	"net/url"
	"os"

	"verif/harness/e2e"
)

// probe: what the routes answer for a hand-written database (exploration; not part of the check)
func probe() {
	w, err := e2e.New(e2e.Options{IntervalMs: 1})
	if err != nil {
		panic(err)
	}
	defer w.Close()
	if os.Getenv("X07_V2") != "" {
		if err := setTempoV2(w); err != nil {
			panic(err)
		}
	}
	t0 := int64(1699963200) // 2023-11-14T12:00:00Z
	ns := func(s int64, ms float64) int64 { return s*1e9 + int64(ms*1e6) }
	body := fmt.Sprintf(`[
{"traceId":"000000000000000000000000000000a1","id":"00000000000000a1","name":"root-a","timestamp":%d,"duration":5000,"localEndpoint":{"serviceName":"svcA"},"tags":{"k":"v","span.kind":"client"}},
{"traceId":"000000000000000000000000000000a1","id":"00000000000000a2","parentId":"00000000000000a1","name":"child-a","timestamp":%d,"duration":2000,"localEndpoint":{"serviceName":"svcB"},"tags":{"k2":"v2"}},
{"traceId":"00000000000000a2","id":"00000000000000b1","name":"root-b","timestamp":%d,"duration":100000,"localEndpoint":{"serviceName":"svcA"},"tags":{"k":"v","k2":"v2"}}
]`, ns(t0, 0)/1000, ns(t0, 1)/1000, ns(t0+10, 0)/1000)
	code, resp := w.Push("POST", "/tempo/spans", "application/json", []byte(body), nil)
	fmt.Fprintln(os.Stderr, "push", code, resp, w.StoreErr)
	for _, q := range []string{"SELECT hex(trace_id), hex(span_id), hex(parent_id), name, timestamp_ns, duration_ns, service_name, payload_type FROM tempo_traces",
		"SELECT date, key, val, hex(trace_id), hex(span_id), timestamp_ns, duration FROM tempo_traces_attrs_gin", "SELECT date, key, val_id, val FROM tempo_traces_kv", "SELECT * FROM settings"} {
		res, err := w.Store.DB.Query(q)
		fmt.Fprintln(os.Stderr, q, "\n  ", res, err)
	}
	w.Bridge.Drain()
	get := func(path string, q url.Values, hdr ...string) {
		code, resp := w.Get(path + "?" + q.Encode())
		fmt.Fprintln(os.Stderr, "GET", path, q, "->", code, resp)
		for _, e := range w.Bridge.Drain() {
			fmt.Fprintln(os.Stderr, "   SQL:", e.Err, e.SQL)
		}
	}
	win := func(kv ...string) url.Values {
		q := url.Values{"start": {fmt.Sprint(t0 - 60)}, "end": {fmt.Sprint(t0 + 60)}}
		for i := 0; i+1 < len(kv); i += 2 {
			q.Set(kv[i], kv[i+1])
		}
		return q
	}
	get("/api/echo", url.Values{})
	get("/api/search", win())
	get("/api/search", win("tags", "k=v"))
	get("/api/search", win("tags", "k=v k2=v2"))
	get("/api/search", win("tags", `service.name=svcB`))
	get("/api/search", win("tags", `name="child-a"`))
	get("/api/search", win("minDuration", "5ms"))
	get("/api/search", win("maxDuration", "5ms"))
	get("/api/search", win("maxDuration", "5ms", "tags", "k=v"))
	get("/api/search", win("limit", "1"))
	get("/api/search", win("limit", "1", "tags", "k=v"))
	get("/api/search", win("limit", "0"))
	get("/api/search", win("tags", "k=v=z"))
	get("/api/search", win("tags", "k"))
	get("/api/search", url.Values{})
	get("/api/search/tags", url.Values{})
	get("/api/search/tag/k/values", url.Values{})
	get("/api/search/tag/span.kind/values", url.Values{})
	get("/api/search/tag/service.name/values", url.Values{})
	get("/api/search/tag/nope/values", url.Values{})
	get("/api/traces/000000000000000000000000000000a1", url.Values{})
	get("/api/traces/000000000000000000000000000000A1/json", url.Values{})
	get("/api/traces/a1", url.Values{})
	get("/api/traces/00000000000000a2", url.Values{})
	get("/api/traces/000000000000000000000000000000a2", url.Values{})
	get("/api/traces/000000000000000000000000000000ff", url.Values{})
	get("/api/traces/zz", url.Values{})
	get("/api/traces/abc", url.Values{})
	get("/api/traces/000000000000000000000000000000a1000000000000000000000000000000a1000000000000000000000000000000a1", url.Values{})
}

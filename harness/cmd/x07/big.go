package main

import (
	"encoding/hex"
	"encoding/json"
	"fmt"
	"net/http/httptest"
	"os"
	"strings"
	"time"
)

// runBig: a trace with more spans than the LIMIT 2000 of the trace-by-id statement, and side observations that are not part
// of the verdict (aux): the default limit of /api/search, an id of more than 64 digits, a search without start / end.
func runBig(outPath string, seed int64) int {
	devnull, _ := os.OpenFile(os.DevNull, os.O_WRONLY, 0)
	os.Stdout = devnull
	res := newResult()
	x, err := newWorld(false)
	if err != nil {
		fmt.Fprintln(os.Stderr, "world:", err)
		return 3
	}
	defer x.close()
	r := rng(seed, "big")
	get := func(target string, accept string) (int, string) {
		hr := httptest.NewRequest("GET", target, nil)
		if accept != "" {
			hr.Header.Set("Accept", accept)
		}
		return x.W.Do(hr)
	}
	pushZipkin := func(spans []map[string]any) error {
		raw, _ := json.Marshal(spans)
		code, body := x.W.Push("POST", "/tempo/spans", "application/json", raw, nil)
		res.Pushes["zipkin_json/tempo/spans"]++
		if code/100 != 2 {
			return fmt.Errorf("zipkin push refused: %d %s", code, clip(body, 300))
		}
		return nil
	}
	waitRows := func(n int) error {
		deadline := time.Now().Add(20 * time.Second)
		for {
			c, err := x.count("tempo_traces")
			if err != nil {
				return err
			}
			if c == n {
				return nil
			}
			if c > n || time.Now().After(deadline) {
				return fmt.Errorf("tempo_traces has %d rows, pushed %d", c, n)
			}
			time.Sleep(2 * time.Millisecond)
		}
	}
	base := int64(1700000000+r.Intn(20000000)) / 86400 * 86400
	base += 36000
	// ---- 1. one trace of 2000 + n spans, and a second small trace
	n := 2000 + 1 + r.Intn(60)
	id := make([]byte, 16)
	r.Read(id)
	id[0] |= 0x10
	hexID := hex.EncodeToString(id)
	for off := 0; off < n; off += 500 {
		var spans []map[string]any
		for i := off; i < n && i < off+500; i++ {
			z := map[string]any{"traceId": hexID, "id": fmt.Sprintf("%016x", 0x1000000+i), "name": fmt.Sprintf("op-%d", i%7),
				"timestamp": base*1000000 + int64(i)*10, "duration": 1000, "localEndpoint": map[string]any{"serviceName": "big-svc"}, "tags": map[string]string{"i": fmt.Sprint(i % 3)}}
			if i > 0 {
				z["parentId"] = fmt.Sprintf("%016x", 0x1000000)
			}
			spans = append(spans, z)
		}
		if err := pushZipkin(spans); err != nil {
			res.infra("%v", err)
			return writeResult(outPath, res)
		}
	}
	other := hex.EncodeToString(append(append([]byte{}, id[:15]...), id[15]^1))
	if err := pushZipkin([]map[string]any{{"traceId": other, "id": fmt.Sprintf("%016x", 0x1000000), "name": "other", "timestamp": base * 1000000, "duration": 1000,
		"localEndpoint": map[string]any{"serviceName": "big-svc"}}}); err != nil {
		res.infra("%v", err)
		return writeResult(outPath, res)
	}
	if err := waitRows(n + 1); err != nil {
		res.infra("%v", err)
		return writeResult(outPath, res)
	}
	x.W.Bridge.Drain()
	res.Databases++
	for _, acc := range []string{"json", "proto"} {
		res.Cases++
		res.Classes["big_byid_"+acc]++
		rq := &Req{Ep: "byid", Tgt: 1, Form: "lower", Acc: acc}
		accept := ""
		if acc == "proto" {
			accept = "application/protobuf"
		}
		code, body := get("/api/traces/"+hexID, accept)
		res.Requests["byid/big"]++
		k := &conc{}
		obs, kind, _ := k.observe(rq, code, body)
		seen := map[string]int{}
		foreign := 0
		for _, s := range obs.Spans {
			seen[s]++
			if !strings.HasPrefix(s, hexID+"|") {
				foreign++
			}
		}
		st := sent{Method: "GET", Path: "/api/traces/" + hexID, Header: map[string]string{"Accept": accept}}
		mm := Mismatch{Abstract: &Case{Cfg: "big", Req: *rq}, Concrete: map[string]any{"spans_of_the_trace": n, "trace_id": hexID, "other_trace": other}, Request: st,
			Expected: Canon{St: "ok", Spans: []string{fmt.Sprintf("%d spans of %s", n, hexID)}}, Observed: Canon{St: obs.St, Spans: []string{fmt.Sprintf("%d spans, %d distinct, %d of another id", len(obs.Spans), len(seen), foreign)}},
			Status: code, Raw: clip(body, 300)}
		switch {
		case kind == "" && obs.St == "ok" && len(obs.Spans) == n && len(seen) == n && foreign == 0:
			res.EqualDef++
			res.FiredSilent["byid_cap"]++
		case kind == "" && obs.St == "ok" && len(obs.Spans) == 2000 && len(seen) == 2000 && foreign == 0:
			res.FiredObserved["byid_cap"]++
			mm.Signature = "as-coded|byid_cap|byid"
			mm.Msg = fmt.Sprintf("GET /api/traces/{id} (%s) of a trace of %d spans answers 2000 spans and says nothing: the statement ends in LIMIT 2000", acc, n)
			mm.SQL = x.sqlOfLastRequest()
		default:
			mm.Signature = "unexplained|byid|big"
			mm.Msg = fmt.Sprintf("GET /api/traces/{id} (%s) of a trace of %d spans: neither all spans nor the first 2000", acc, n)
			mm.SQL = x.sqlOfLastRequest()
		}
		res.FiredCases["byid_cap"]++
		if mm.Signature != "" {
			res.MismatchCounts[mm.Signature]++
			if res.seenPerSig[mm.Signature] < 1 {
				res.seenPerSig[mm.Signature]++
				res.Mismatches = append(res.Mismatches, mm)
			}
		}
		res.distinctNontrivial["big|"+acc] = true
		x.W.Bridge.Drain()
	}
	// ---- 2. side observations (not part of the verdict)
	// an id of 70 hex digits: hex.Decode writes past its 32-byte buffer
	code, _ := get("/api/traces/"+hexID+hexID+hexID[:6], "")
	res.Aux["byid_70_digit_id_status"] = code
	// tags= that the grammar of reader/tempo/tags.go refuses: Search drops the error of request.String() and sends the empty text
	x.W.Bridge.Drain()
	code, body := get(fmt.Sprintf("/api/search?tags=k&start=%d&end=%d", base-60, base+60), "")
	var stmts []string
	for _, e := range x.W.Bridge.Drain() {
		stmts = append(stmts, clip(e.SQL, 80))
	}
	res.Aux["search_with_unparsable_tags"] = map[string]any{"status": code, "body": clip(body, 160), "statements_sent_to_the_database": stmts}
	if err := x.reset(); err == nil {
		// 12 single-span traces in the last hour; no limit, no start / end
		now := time.Now().Unix()
		var spans []map[string]any
		for i := 0; i < 12; i++ {
			spans = append(spans, map[string]any{"traceId": fmt.Sprintf("%032x", 0xabc000+i), "id": fmt.Sprintf("%016x", 0x77+i), "name": "recent",
				"timestamp": (now-3000+int64(i))*1000000 + 1, "duration": 1000, "localEndpoint": map[string]any{"serviceName": "recent-svc"}})
		}
		spans = append(spans, map[string]any{"traceId": fmt.Sprintf("%032x", 0xabcfff), "id": fmt.Sprintf("%016x", 0x99), "name": "old",
			"timestamp": (now - 7*3600) * 1000000, "duration": 1000, "localEndpoint": map[string]any{"serviceName": "recent-svc"}})
		if err := pushZipkin(spans); err == nil && waitRows(13) == nil {
			code, body := get("/api/search", "")
			var doc struct {
				Traces []struct {
					Name string `json:"rootTraceName"`
				} `json:"traces"`
			}
			json.Unmarshal([]byte(body), &doc)
			old := 0
			for _, t := range doc.Traces {
				if t.Name == "old" {
					old++
				}
			}
			res.Aux["search_without_parameters_over_12_recent_traces_and_one_7h_old"] = map[string]any{"status": code, "entries": len(doc.Traces), "of_those_the_old_one": old,
				"note": "qryn: limit defaults to 10 (Tempo: 20), the window to the last 6 hours"}
		}
	}
	return writeResult(outPath, res)
}

package main

import (
	"encoding/json"
	"fmt"
	"strings"
)

func sigOf(q string, rq *Req) string { return "as-coded|" + q + "|" + rq.Ep }

func bagDiff(exp, obs []string) (missing, extra int) {
	m := map[string]int{}
	for _, s := range exp {
		m[s]++
	}
	for _, s := range obs {
		m[s]--
	}
	for _, n := range m {
		if n > 0 {
			missing += n
		}
		if n < 0 {
			extra -= n
		}
	}
	return
}

func idsOf(rows []string) []string {
	var out []string
	for _, r := range rows {
		out = append(out, strings.SplitN(r, "|", 2)[0])
	}
	return out
}

func distinct(l []string) []string {
	seen := map[string]bool{}
	var out []string
	for _, s := range l {
		if !seen[s] {
			seen[s] = true
			out = append(out, s)
		}
	}
	return out
}

// diffKind: how the observed answer differs from the expected one (structural, for the signature of unexplained answers)
func diffKind(exp, obs Canon) string {
	if obs.St != exp.St {
		return "status-" + obs.St + "-for-" + exp.St
	}
	var k []string
	for _, pair := range [][2][]string{{exp.Rows, obs.Rows}, {exp.Items, obs.Items}, {exp.Spans, obs.Spans}} {
		if strings.Join(pair[0], "\x00") == strings.Join(pair[1], "\x00") {
			continue
		}
		e, o := pair[0], pair[1]
		if len(exp.Rows) > 0 || len(obs.Rows) > 0 {
			// search: first by trace id, then by multiplicity, then by fields
			mi, ex := bagDiff(distinct(idsOf(e)), distinct(idsOf(o)))
			switch {
			case mi > 0 || ex > 0:
				if mi > 0 {
					k = append(k, "missing")
				}
				if ex > 0 {
					k = append(k, "extra")
				}
			case len(e) != len(o):
				k = append(k, "duplicates")
			default:
				k = append(k, "fields")
			}
			continue
		}
		mi, ex := bagDiff(distinct(e), distinct(o))
		if mi > 0 {
			k = append(k, "missing")
		}
		if ex > 0 {
			k = append(k, "extra")
		}
		if mi == 0 && ex == 0 {
			k = append(k, "duplicates")
		}
	}
	if len(k) == 0 {
		k = append(k, "other")
	}
	return strings.Join(k, "+")
}

func (x *world) sqlOfLastRequest() []string {
	var out []string
	for _, e := range x.W.Bridge.Drain() {
		s := clip(e.SQL, 2500)
		if e.Err != nil {
			s = "ERROR " + e.Err.Error() + " :: " + s
		}
		out = append(out, s)
	}
	return out
}

func (x *world) runDatabase(res *Result, group []*Case, seed int64) {
	c0 := group[0]
	dbk, _ := json.Marshal(c0.Db)
	r := rng(seed, c0.Cfg+string(dbk))
	k := concretise(r, c0)
	res.Databases++
	if err := x.reset(); err != nil {
		res.infra("reset: %v", err)
		res.Cases += len(group)
		return
	}
	plans, err := x.push(res, k, c0.Db)
	concrete := map[string]any{"concretisation": k, "spans_pushed": plans}
	if err != nil {
		res.infra("push of %s: %v", string(dbk), err)
		res.Cases += len(group)
		return
	}
	// classes of the database
	res.Classes[fmt.Sprintf("db_of_%d_traces", len(c0.Db))]++
	res.Classes["keys_"+k.KeyClass]++
	res.Classes["values_"+k.ValClass]++
	if k.Ids64 {
		res.Classes["db_with_64_bit_trace_ids"]++
	}
	if k.Collide && len(c0.Db) > 1 {
		res.Classes["db_with_the_same_span_ids_in_every_trace"]++
	}
	if c0.V2 {
		res.Classes["db_with_tempo_v2_announced"]++
	}
	protos := map[string]bool{}
	for ti, tr := range c0.Db {
		res.Classes[fmt.Sprintf("trace_of_%d_spans", len(tr))]++
		res.Classes["trace_via_"+k.Proto[ti]]++
		protos[k.Proto[ti]] = true
		roots, ticks, svcs := 0, map[int]bool{}, map[string]bool{}
		in, out := false, false
		for si, s := range tr {
			if s.Par == 0 {
				roots++
				if si > 0 {
					res.Classes["trace_whose_root_is_not_its_first_span"]++
				}
			}
			ticks[s.Tk] = true
			svcs[s.Svc] = true
			if s.Tk >= 1 && s.Tk <= 3 {
				in = true
			} else {
				out = true
			}
			n := 0
			for _, v := range s.Tags {
				if v != "#" {
					n++
				}
			}
			res.Classes[fmt.Sprintf("span_with_%d_tags", n)]++
		}
		if roots == 0 {
			res.Classes["trace_without_root_span"]++
		}
		if roots > 1 {
			res.Classes["trace_with_two_roots"]++
		}
		if len(ticks) > 1 {
			res.Classes["trace_over_several_ticks"]++
		}
		if len(svcs) > 1 {
			res.Classes["trace_over_two_services"]++
		}
		if in && out {
			res.Classes["trace_on_both_sides_of_a_window_end"]++
		}
		if out && !in {
			res.Classes["trace_outside_the_window"]++
		}
	}
	if len(protos) > 1 {
		res.Classes["db_pushed_over_two_protocols"]++
	}
	x.W.Bridge.Drain()
	for _, c := range group {
		res.Cases++
		x.runCase(res, r.Int63(), k, concrete, c)
	}
	if len(x.W.Bridge.Unsupported) > 0 {
		res.infra("chsql cannot run: %.400s", x.W.Bridge.Unsupported[0])
		x.W.Bridge.Unsupported = nil
	}
}

func (x *world) runCase(res *Result, sub int64, k *conc, concrete any, c *Case) {
	rq := &c.Req
	r := rng(sub, "case")
	exp, err := k.canon(c, c.Def)
	if err != nil {
		res.infra("definition's answer: %v", err)
		return
	}
	coded, err := k.canon(c, c.Coded)
	if err != nil {
		res.infra("as-coded answer: %v", err)
		return
	}
	st, code, body := x.send(r, k, rq)
	obs, kind, ordered := k.observe(rq, code, body)
	res.Requests[rq.Ep+strings.TrimSuffix(strings.SplitN(st.Path, "/api/", 2)[0], "/")]++
	// classes of the request
	res.Classes["ep_"+rq.Ep]++
	switch rq.Ep {
	case "search":
		res.Classes[fmt.Sprintf("search_with_%d_tags", len(rq.Tags))]++
		for _, t := range rq.Tags {
			switch t.K {
			case "svc", "nm":
				res.Classes["search_pseudo_tag_"+t.K]++
			case "z":
				res.Classes["search_tag_nobody_carries"]++
			}
		}
		if strings.Contains(st.Params.Get("tags"), `"`) {
			res.Classes["search_tags_quoted"]++
		}
		if rq.Min > 0 {
			res.Classes["search_with_minDuration"]++
		}
		if rq.Max > 0 {
			res.Classes["search_with_maxDuration"]++
		}
		res.Classes[fmt.Sprintf("search_limit_%d", rq.Lim)]++
		res.Classes[fmt.Sprintf("search_window_%d_%d", rq.From, rq.To)]++
		if !ordered {
			res.auxCount("search_answers_not_newest_first")
		}
		for _, row := range obs.Rows {
			if id := strings.SplitN(row, "|", 2)[0]; id != "" && strings.Contains(body, strings.ToUpper(id)) && strings.ToUpper(id) != id {
				res.auxCount("search_entries_with_upper_case_trace_id")
				break
			}
		}
	case "byid":
		res.Classes["byid_form_"+rq.Form]++
		res.Classes["byid_accept_"+rq.Acc]++
		if rq.Tgt == 0 {
			res.Classes["byid_unknown_id"]++
		}
		if exp.St == "refused" && code != 400 {
			res.auxCount(fmt.Sprintf("byid_malformed_id_answered_%d_not_400", code))
		}
	case "values":
		res.Classes["values_of_"+rq.Name]++
		if k.Scoped[rq.Name] {
			res.Classes["values_of_a_key_with_scope_prefix"]++
		}
		if !ordered {
			res.auxCount("values_not_sorted")
		}
	}
	if len(exp.Rows) > 1 || len(exp.Items) > 1 || len(exp.Spans) > 1 {
		res.Classes["expected_answer_with_several_items"]++
	}
	if len(exp.Rows)+len(exp.Items)+len(exp.Spans) > 0 || len(c.Fired) > 0 {
		res.distinctNontrivial[exp.key()+"|"+st.Path+"|"+st.Params.Encode()] = true
	}
	predicted := map[string]bool{}
	for _, q := range c.Fired {
		predicted[q] = true
	}
	for _, q := range c.Mutfired {
		predicted[q] = true
	}
	for q := range predicted {
		res.FiredCases[q]++
	}
	if len(predicted) > 0 {
		res.Classes["cases_where_a_quirk_fires"]++
	}
	if res.Sample == nil && len(exp.Rows) > 0 && len(rq.Tags) > 0 {
		res.Sample = map[string]any{"abstract": c, "concrete_database": concrete, "request": st, "status": code, "answer": clip(body, 600), "expected": exp}
	}
	if kind == "" && obs.key() == exp.key() {
		res.EqualDef++
		for q := range predicted {
			res.FiredSilent[q]++
		}
		if len(predicted) > 0 && res.Aux["sample_of_a_case_in_which_a_quirk_fires_in_the_model_and_the_answer_is_the_definition_s"] == nil {
			res.Aux["sample_of_a_case_in_which_a_quirk_fires_in_the_model_and_the_answer_is_the_definition_s"] = map[string]any{"abstract": c, "concrete_database": concrete, "request": st, "expected": exp, "as_coded": coded}
		}
		x.W.Bridge.Drain()
		return
	}
	// two examples per signature are kept: the simplest ones (few quirks firing together, a definition that expects something,
	// a small database, few request parameters)
	score := len(predicted) * 1000
	if len(exp.Rows)+len(exp.Spans)+len(exp.Items) == 0 {
		score += 500
	}
	for _, tr := range c.Db {
		score += 20 * len(tr)
		for si, s := range tr {
			if s.Tk != 2 {
				score += 15
			}
			if (si == 0) != (s.Par == 0) {
				score += 30 // not the plain tree: root first, then its children
			}
		}
	}
	score += 10*len(st.Params) + len(st.Params.Get("tags"))
	report := func(sig, msg string, pred Canon) {
		res.MismatchCounts[sig]++
		mm := Mismatch{Signature: sig, Msg: msg, Abstract: c, Concrete: concrete, Request: st, Expected: exp,
			Predicted: pred, Observed: obs, Status: code, Raw: clip(body, 1500), score: score}
		if res.seenPerSig[sig] >= 2 {
			worst := -1
			for i := range res.Mismatches {
				if res.Mismatches[i].Signature == sig && (worst < 0 || res.Mismatches[i].score > res.Mismatches[worst].score) {
					worst = i
				}
			}
			if worst >= 0 && res.Mismatches[worst].score > score {
				mm.SQL = x.sqlOfLastRequest()
				res.Mismatches[worst] = mm
			}
			return
		}
		res.seenPerSig[sig]++
		mm.SQL = x.sqlOfLastRequest()
		res.Mismatches = append(res.Mismatches, mm)
	}
	try := func(a []Ans, fired []string) bool {
		if len(a) == 0 {
			return false
		}
		p, err := k.canon(c, a[0])
		if err != nil || kind != "" || p.key() != obs.key() || len(fired) == 0 {
			return false
		}
		for _, q := range fired {
			res.FiredObserved[q]++
			report(sigOf(q, rq), fmt.Sprintf("GET %s answers as the mechanism with the quirk %q predicts, not what the definition says (%s)", st.Path, q, diffKind(exp, obs)), p)
		}
		return true
	}
	switch {
	case try([]Ans{c.Coded}, c.Fired):
	case try(c.Mut, c.Mutfired):
	default:
		dk := diffKind(exp, obs)
		if kind != "" {
			dk = kind
		}
		report("unexplained|"+rq.Ep+"|"+dk, fmt.Sprintf("GET %s: the answer is neither the definition's nor the as-coded mechanism's (%s)", st.Path, dk), coded)
	}
	x.W.Bridge.Drain()
}

// c15 binds JsonStream.tla to the REAL streaming JSON writers of the reader.
//
//	c15 run -cases cases.ndjson -out out.json -seed S -full N [-tail N]
//
// cases.ndjson: one JSON object per line, exported by TLC from MC_JsonStream.tla (the input batch sequence, the
// spec's token string, its verdicts and the expected grouping). Every case is concretised (fingerprints, hostile
// labels/lines, floats, timestamps) and fed to the real writer:
//
//	streams/matrix/vector/tail : QueryRangeService.QueryRange / QueryInstant / Tail; the batches are delivered by a
//	                             plugins.LogQLTranspilerPlugin (the product's planner extension point), so the batch
//	                             boundaries, EOF and error markers are exactly those of the case
//	labels/tags/trace          : QueryLabelsService.Labels/Values/Series, TempoController.Tags/Values/Search/Trace
//	                             over the real TempoService, rows scripted in fakesql
//
// plus -full N seeded full-stack cases (rows scripted in fakesql, the real ClickhouseGetterPlanner.Scan/ScanMatrix
// batching in 100s and the real matrix post-processors) and the Prometheus controller writers.
// The response is parsed strictly with encoding/json and compared with the rows; the token string of the real
// response is compared with the spec's.
package main

import (
	"bufio"
	"encoding/json"
	"flag"
	"fmt"
	"os"
	"runtime"
	"runtime/pprof"
	"sort"
	"sync"
	"time"

	clconfig "github.com/metrico/cloki-config"
	"github.com/metrico/qryn/reader/config"
)

type SpecCase struct {
	N      int             `json:"n"`
	W      string          `json:"w"`
	In     [][]int         `json:"in"`
	Pc     string          `json:"pc"`
	Ben    bool            `json:"ben"`
	Hz     bool            `json:"hz"`
	Wf     bool            `json:"wf"`
	Cf     bool            `json:"cf"`
	Toks   []int           `json:"toks"`
	Groups json.RawMessage `json:"groups"`
}

func (c *SpecCase) specOK() bool { return c.Wf && c.Cf }

// Failure: the real code's response contradicts the property.
type Failure struct {
	Signature string `json:"signature"`
	Endpoint  string `json:"endpoint"`
	Msg       string `json:"msg"`
	Case      any    `json:"case,omitempty"`
	Input     any    `json:"input,omitempty"`
	Expected  any    `json:"expected,omitempty"`
	Body      string `json:"body"`
	Predicted bool   `json:"predicted_by_spec"`
}

type Result struct {
	Stats         map[string]int    `json:"stats"`
	BySignature   map[string]int    `json:"by_signature"`
	Failures      []Failure         `json:"failures"`       // first few per signature
	Conformance   []map[string]any  `json:"conformance"`    // real token string differs from the spec's although the property holds
	NotReproduced []map[string]any  `json:"not_reproduced"` // spec says the property fails, the real response is fine
	DriverErrors  []string          `json:"driver_errors"`
	Samples       []map[string]any  `json:"samples"`
	Notes         map[string]string `json:"notes"`
	mu            sync.Mutex
	perSig        map[string]int
}

var result = &Result{Stats: map[string]int{}, BySignature: map[string]int{}, perSig: map[string]int{}, Notes: map[string]string{}}

func stat(k string, n int) {
	result.mu.Lock()
	result.Stats[k] += n
	result.mu.Unlock()
}

func fail(f Failure) {
	result.mu.Lock()
	defer result.mu.Unlock()
	result.BySignature[f.Signature]++
	if result.perSig[f.Signature] < 3 {
		result.perSig[f.Signature]++
		f.Body = clip(f.Body, 3000)
		result.Failures = append(result.Failures, f)
	}
}

func conformance(m map[string]any) {
	result.mu.Lock()
	if len(result.Conformance) < 20 {
		result.Conformance = append(result.Conformance, m)
	}
	result.Stats["conformance_mismatch"]++
	result.mu.Unlock()
}

func notReproduced(m map[string]any) {
	result.mu.Lock()
	if len(result.NotReproduced) < 20 {
		result.NotReproduced = append(result.NotReproduced, m)
	}
	result.Stats["spec_failure_not_reproduced"]++
	result.mu.Unlock()
}

func driverError(s string) {
	result.mu.Lock()
	if len(result.DriverErrors) < 20 {
		result.DriverErrors = append(result.DriverErrors, s)
	}
	result.Stats["driver_errors"]++
	result.mu.Unlock()
}

func sample(m map[string]any) {
	result.mu.Lock()
	if len(result.Samples) < 12 {
		result.Samples = append(result.Samples, m)
	}
	result.mu.Unlock()
}

func main() {
	if len(os.Args) < 2 || os.Args[1] != "run" {
		fmt.Fprintln(os.Stderr, "usage: c15 run -cases f -out f -seed n -full n")
		os.Exit(2)
	}
	fs := flag.NewFlagSet("run", flag.ExitOnError)
	casesF := fs.String("cases", "", "ndjson of spec cases")
	outF := fs.String("out", "", "result json")
	seed := fs.Int64("seed", 1, "seed")
	full := fs.Int("full", 200, "number of seeded full-stack cases per endpoint family")
	tailMax := fs.Int("tail", 400, "max number of tail cases (each waits for the 1 s ticker)")
	par := fs.Int("par", runtime.NumCPU(), "workers")
	prof := fs.String("cpuprofile", "", "write a CPU profile")
	fs.Parse(os.Args[2:])
	if *prof != "" {
		pf, _ := os.Create(*prof)
		pprof.StartCPUProfile(pf)
		defer pprof.StopCPUProfile()
	}

	// silence the chatty fmt.Printf/println debugging of the reader
	devnull, _ := os.OpenFile(os.DevNull, os.O_WRONLY, 0)
	os.Stdout = devnull
	config.Cloki = &clconfig.ClokiConfig{}
	silenceLogger()
	registerPlugin()

	var cases []*SpecCase
	if *casesF != "" {
		f, err := os.Open(*casesF)
		if err != nil {
			fmt.Fprintln(os.Stderr, err)
			os.Exit(2)
		}
		sc := bufio.NewScanner(f)
		sc.Buffer(make([]byte, 1<<20), 1<<24)
		for sc.Scan() {
			c := &SpecCase{}
			if err := json.Unmarshal(sc.Bytes(), c); err != nil {
				fmt.Fprintln(os.Stderr, "bad case line:", err)
				os.Exit(2)
			}
			cases = append(cases, c)
		}
		f.Close()
	}
	t0 := time.Now()
	runSpecCases(cases, *seed, *par, *tailMax)
	result.Stats["wall_ms_spec_cases"] = int(time.Since(t0).Milliseconds())
	t1 := time.Now()
	runFullStack(*seed, *full, *par)
	runLists(cases, *seed, *full, *par)
	runProm(*seed, *full)
	result.Stats["wall_ms_fullstack_lists_prom"] = int(time.Since(t1).Milliseconds())

	sort.Slice(result.Failures, func(i, j int) bool { return result.Failures[i].Signature < result.Failures[j].Signature })
	b, _ := json.MarshalIndent(result, "", " ")
	if err := os.WriteFile(*outF, b, 0o644); err != nil {
		fmt.Fprintln(os.Stderr, err)
		os.Exit(2)
	}
	if result.Stats["driver_errors"] > 0 {
		os.Exit(3)
	}
}

package main

import (
	"bytes"
	"encoding/base64"
	"fmt"
	"math"
	"math/rand"
	"strconv"

	common "go.opentelemetry.io/proto/otlp/common/v1"
)

// Span attributes of the trace-by-id document. JSONSpanAttribute renders every scalar AnyValue kind as a string
// ("stringValue"); "numeric values are rendered without loss" is demanded as: the text parses back to the stored
// value -- bool, int64 (every one of the 2^64), float64 (bit-identical; NaN as NaN), bytes (standard base64).
type traceAttr struct {
	key  string
	kind string // string | bool | int | double | bytes
	s    string
	b    bool
	i    int64
	f    float64
	raw  []byte
}

var intPool = []int64{0, 1, -1, 42, 1<<24 + 1, 1<<31 - 1, -(1 << 31), 1 << 32, 1<<53 - 1, 1<<53 + 1, -(1<<53 + 1), math.MaxInt64, math.MinInt64,
	1700000000123456789, 999999999999999999, -1000000000000000001}

func traceAttrs(r *rand.Rand, class string) []traceAttr {
	kinds := []string{"string", "bool", "int", "double", "bytes"}
	n := 1 + r.Intn(5)
	out := make([]traceAttr, n)
	for x := range out {
		a := traceAttr{key: "a" + strconv.Itoa(x), kind: kinds[r.Intn(len(kinds))]}
		if x < 2 { // every span carries a double and an int: the numeric kinds are the ones with a rendering choice
			a.kind = []string{"double", "int"}[x]
		}
		if r.Intn(3) == 0 {
			a.key = pickValid(r, class) + strconv.Itoa(x)
			if len(a.key) > 200 {
				a.key = "k" + strconv.Itoa(x)
			}
		}
		switch a.kind {
		case "string":
			a.s = pickValid(r, class)
		case "bool":
			a.b = r.Intn(2) == 0
		case "int":
			a.i = intPool[r.Intn(len(intPool))]
			if r.Intn(4) == 0 {
				a.i = int64(r.Uint64())
			}
		case "double":
			a.f = pickFloat(r, true)
			if r.Intn(3) == 0 && !math.IsNaN(a.f) {
				a.f = -a.f
			}
		case "bytes":
			a.raw = make([]byte, r.Intn(40))
			r.Read(a.raw)
			if r.Intn(3) == 0 {
				a.raw = []byte(pick(r, class))
				if len(a.raw) > 300 {
					a.raw = a.raw[:300]
				}
			}
		}
		out[x] = a
	}
	return out
}

func (a traceAttr) value() *common.AnyValue {
	switch a.kind {
	case "bool":
		return &common.AnyValue{Value: &common.AnyValue_BoolValue{BoolValue: a.b}}
	case "int":
		return &common.AnyValue{Value: &common.AnyValue_IntValue{IntValue: a.i}}
	case "double":
		return &common.AnyValue{Value: &common.AnyValue_DoubleValue{DoubleValue: a.f}}
	case "bytes":
		return &common.AnyValue{Value: &common.AnyValue_BytesValue{BytesValue: a.raw}}
	}
	return &common.AnyValue{Value: &common.AnyValue_StringValue{StringValue: a.s}}
}

// does the text the response carries denote the stored value?
func (a traceAttr) rendered(txt string) bool {
	switch a.kind {
	case "bool":
		v, err := strconv.ParseBool(txt)
		return err == nil && v == a.b && (txt == "true" || txt == "false")
	case "int":
		v, err := strconv.ParseInt(txt, 10, 64)
		return err == nil && v == a.i
	case "double":
		return floatTextIs(txt, a.f)
	case "bytes":
		v, err := base64.StdEncoding.DecodeString(txt)
		return err == nil && bytes.Equal(v, a.raw)
	}
	return txt == a.s
}

func (a traceAttr) describe() string {
	switch a.kind {
	case "bool":
		return strconv.FormatBool(a.b)
	case "int":
		return strconv.FormatInt(a.i, 10)
	case "double":
		return strconv.FormatFloat(a.f, 'g', -1, 64) + fmt.Sprintf(" (bits %016x)", math.Float64bits(a.f))
	case "bytes":
		return fmt.Sprintf("%d bytes %x", len(a.raw), clip(string(a.raw), 40))
	}
	return fmt.Sprintf("%q", clip(a.s, 120))
}

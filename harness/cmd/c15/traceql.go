package main

import (
	"context"
	"fmt"
	"math/rand"
	"strconv"
	"time"

	"github.com/metrico/qryn/reader/model"
)

// The TraceQL branch of TempoController.Search is the one list writer that ranges over a channel of BATCHES
// (chan []model.TraceInfo) with a nested loop and a single comma counter (JsonStream.tla: writer "traceql",
// Cut = the next batch, BatchListIter = one trace). The batch sequence of a case -- empty batches included, in
// front of, between and behind non-empty ones -- is delivered exactly through the model.ITempoService seam of the
// controller: the real TempoService with SearchTraceQL replaced by a producer of the scripted batches.
type batchedTempo struct {
	model.ITempoService
	batches [][]model.TraceInfo
	called  int
}

func (b *batchedTempo) SearchTraceQL(ctx context.Context, q string, limit int, from time.Time, to time.Time) (chan []model.TraceInfo, error) {
	b.called++
	batches := b.batches
	ch := make(chan []model.TraceInfo)
	go func() {
		defer close(ch)
		for _, x := range batches {
			select {
			case ch <- x:
			case <-time.After(20 * time.Second):
				return
			}
		}
	}()
	return ch, nil
}

// finite, awkward durations (json.Marshal refuses NaN/Inf and the handler ignores that error: outside the domain)
func pickDuration(r *rand.Rand) float64 {
	for {
		f := pickFloat(r, false)
		if f >= 0 {
			return f
		}
	}
}

// collapseItems replaces every value that starts at nesting depth `depth` of a well-formed token string by one `v`.
func collapseItems(tok string, depth int) string {
	out := make([]byte, 0, len(tok))
	d := 0
	for i := 0; i < len(tok); i++ {
		c := tok[i]
		switch c {
		case '{', '[':
			if d == depth {
				out = append(out, 'v')
			} else if d < depth {
				out = append(out, c)
			}
			d++
		case '}', ']':
			d--
			if d < depth {
				out = append(out, c)
			}
		default:
			if d <= depth {
				out = append(out, c)
			}
		}
	}
	return string(out)
}

// one TraceQL search case: sizes[b] traces in batch b
func (le *listEnv) runTraceQL(r *rand.Rand, sizes []int, specToks string) {
	const endpoint = "tempo-search-traceql"
	class := classOf(r)
	type span struct {
		id         string
		start, dur int64
	}
	var all []model.TraceInfo
	batches := make([][]model.TraceInfo, len(sizes))
	empties, nonEmpties := 0, 0
	for b, sz := range sizes {
		batches[b] = []model.TraceInfo{}
		if sz == 0 {
			empties++
			if r.Intn(2) == 0 {
				batches[b] = nil // ComplexRequestProcessor sends a nil slice when nothing matched
			}
		} else {
			nonEmpties++
		}
		for k := 0; k < sz; k++ {
			n := len(all)
			t := model.TraceInfo{
				TraceID:           fmt.Sprintf("%032x", uint64(n+1)*0x9e3779b97f4a7c15),
				RootServiceName:   pick(r, class),
				RootTraceName:     pick(r, class),
				StartTimeUnixNano: strconv.FormatInt(1700000000000000000+r.Int63n(1e12), 10),
				DurationMs:        pickDuration(r),
			}
			ns := r.Intn(3)
			t.SpanSet.Spans = make([]model.SpanInfo, ns)
			for x := range t.SpanSet.Spans {
				t.SpanSet.Spans[x] = model.SpanInfo{SpanID: fmt.Sprintf("%016x", r.Uint64()), StartTimeUnixNano: strconv.FormatInt(1700000000000000000+r.Int63n(1e12), 10),
					DurationNanos: strconv.FormatInt(r.Int63n(1e10), 10), Attributes: []model.SpanAttr{}}
			}
			t.SpanSet.Matched = ns
			t.SpanSets = []model.SpanSet{t.SpanSet}
			all = append(all, t)
			batches[b] = append(batches[b], t)
		}
	}
	le.tq.batches = batches
	before := le.tq.called
	body := le.get("/api/search?q=" + "%7B%7D" + "&limit=1000&start=1700000000&end=1700000600")
	if le.tq.called != before+1 {
		driverError(fmt.Sprintf("TraceQL search did not reach SearchTraceQL (status %d): %s", le.lastCode, clip(body, 300)))
		return
	}
	stat("list_"+endpoint, 1)
	kind, msg := "", ""
	doc, err := strictParse([]byte(body))
	if err != nil {
		kind, msg = "invalid-json", err.Error()
	} else {
		kind, msg = func() (string, string) {
			o, ok := asObj(doc)
			if !ok {
				return "shape", "not an object"
			}
			if le.lastCode != 200 {
				return "shape", fmt.Sprintf("status %d", le.lastCode)
			}
			arr, ok := o["traces"].([]any)
			if !ok || len(o) != 1 {
				return "shape", "not {traces: [...]}"
			}
			if len(arr) != len(all) {
				return "rows", fmt.Sprintf("%d traces for %d delivered in batches %v", len(arr), len(all), sizes)
			}
			for i, x := range arr {
				t, ok := asObj(x)
				if !ok {
					return "shape", "trace is not an object"
				}
				w := all[i]
				if t["traceID"] != w.TraceID {
					return "rows", fmt.Sprintf("trace %d is %v, want %s (batches %v)", i, t["traceID"], w.TraceID, sizes)
				}
				if t["rootServiceName"] != decoded(w.RootServiceName) || t["rootTraceName"] != decoded(w.RootTraceName) {
					return "string|" + worstClass(classify(w.RootServiceName), classify(w.RootTraceName)), fmt.Sprintf("trace %d came back as %v", i, clip(fmt.Sprint(t), 300))
				}
				if t["startTimeUnixNano"] != w.StartTimeUnixNano {
					return "timestamp", fmt.Sprintf("trace %d: startTimeUnixNano %v, want %s", i, t["startTimeUnixNano"], w.StartTimeUnixNano)
				}
				if !floatTextIs(fmt.Sprint(t["durationMs"]), w.DurationMs) {
					return "number", fmt.Sprintf("trace %d: durationMs %v, want %s", i, t["durationMs"], strconv.FormatFloat(w.DurationMs, 'g', -1, 64))
				}
				ss, _ := asObj(t["spanSet"])
				spans, _ := ss["spans"].([]any)
				if ss == nil || len(spans) != len(w.SpanSet.Spans) || fmt.Sprint(ss["matched"]) != strconv.Itoa(w.SpanSet.Matched) {
					return "shape", fmt.Sprintf("trace %d: spanSet %v, want %d spans", i, t["spanSet"], len(w.SpanSet.Spans))
				}
				for k, sx := range spans {
					so, _ := asObj(sx)
					ws := w.SpanSet.Spans[k]
					if so == nil || so["spanID"] != ws.SpanID || so["startTimeUnixNano"] != ws.StartTimeUnixNano || so["durationNanos"] != ws.DurationNanos {
						return "rows", fmt.Sprintf("trace %d span %d came back as %v", i, k, sx)
					}
				}
			}
			return "", ""
		}()
	}
	if kind == "" {
		stat("list_ok", 1)
		stat("traceql_ok", 1)
		if empties > 0 && nonEmpties > 0 {
			stat("traceql_emptybatch_mixed_ok", 1)
		}
		if len(all) >= 2 {
			stat("nontrivial_ok", 1)
		}
		if specToks != "" {
			real, lerr := lexTokens([]byte(body))
			if real = collapseItems(real, 2); lerr != nil || real != specToks {
				conformance(map[string]any{"writer": endpoint, "batches": sizes, "spec_tokens": specToks, "real_tokens": real, "body": clip(body, 1000)})
			}
		}
		return
	}
	sig := endpoint + "|"
	if len(kind) > 7 && kind[:7] == "string|" {
		sig += kind[7:] + "|string"
	} else {
		sig += class + "|" + kind
	}
	fail(Failure{Signature: sig, Endpoint: endpoint, Msg: msg, Body: body,
		Input: map[string]any{"batch_sizes": sizes, "traces": len(all), "string_class": class}})
}

package main

import (
	"context"
	"database/sql/driver"
	"fmt"
	"math"
	"math/rand"
	"strconv"
	"sync"
	"time"
	"unicode/utf8"

	"verif/harness/fakesql"
)

type driverNamedValue = driver.NamedValue

func utf8Valid(s string) bool { return utf8.ValidString(s) }

// Full-stack cases: rows scripted in fakesql -> real ClickhouseGetterPlanner.Scan / ScanMatrix (batches of 100, EOF
// marker appended) -> real post-processors -> real writer.

type fsSeries struct {
	Fp     uint64            `json:"fp"`
	Labels map[string]string `json:"labels"`
	N      int               `json:"rows"`
}

type fsCase struct {
	Kind    string     `json:"kind"` // streams | matrix | vector
	Class   string     `json:"string_class"`
	Series  []fsSeries `json:"series"` // in row order: consecutive runs
	rows    [][]driver.Value
	groups  []expGroup
	k       *concrete
	FromNs  int64 `json:"from_ns"`
	ToNs    int64 `json:"to_ns"`
	StepMs  int64 `json:"step_ms"`
	HasFp0  bool  `json:"has_fp0"`
	Fp0Head bool  `json:"fp0_first"`
}

func genFullStack(r *rand.Rand, kind string, n int, forceFp0 int) *fsCase {
	c := &fsCase{Kind: kind, Class: classOf(r)}
	k := &concrete{class: c.Class, rows: map[int]*rowC{}}
	c.k = k
	nser := 1 + r.Intn(4)
	if r.Intn(10) == 0 {
		nser = 0
	}
	// fingerprints: distinct; fp 0 is placed deliberately (forceFp0: 1 = first series, 2 = a later series)
	fps := []uint64{}
	seen := map[uint64]bool{0: true}
	for len(fps) < nser {
		f := r.Uint64()
		if r.Intn(5) == 0 {
			f = []uint64{1, math.MaxUint64, 1 << 63, 2}[r.Intn(4)]
		}
		if !seen[f] {
			seen[f] = true
			fps = append(fps, f)
		}
	}
	if forceFp0 == 1 && nser > 0 {
		fps[0] = 0
	}
	if forceFp0 == 2 && nser > 1 {
		fps[1+r.Intn(nser-1)] = 0
	}
	id := 0
	switch kind {
	case "streams":
		base := []int64{1700000000123456789, 0, 1600000000000000001}[r.Intn(3)]
		for si, fp := range fps {
			lb := labelsOf(r, c.Class, r.Intn(4))
			lb["s"] = strconv.Itoa(si) // series are distinguishable
			// rows per series: around the 100-row batches of the getter
			nrows := []int{1, 2, 3, 99, 100, 101, 199, 200, 250, 7}[r.Intn(10)]
			if n > 0 && si == 0 && r.Intn(3) == 0 {
				nrows = 100*(1+r.Intn(2)) - 0 // EOF marker alone in the last batch when the total is a multiple of 100
			}
			c.Series = append(c.Series, fsSeries{Fp: fp, Labels: lb, N: nrows})
			g := expGroup{Fp: si}
			for x := 0; x < nrows; x++ {
				id++
				row := &rowC{ID: id, Fp: fp, AbsFp: si, Ts: base + int64(id), Line: pick(r, c.Class)}
				if x > 3 && x < nrows-3 && nrows > 50 {
					row.Line = "l" + strconv.Itoa(id) // keep the big ones cheap
				}
				k.rows[id] = row
				c.rows = append(c.rows, []driver.Value{fp, copyMap(lb), row.Line, row.Ts})
				g.Ids = append(g.Ids, id)
			}
			if nrows > 0 {
				c.groups = append(c.groups, g)
			}
		}
	case "matrix", "vector":
		// identity set-up for the resampling FixPeriodPlanner: range == step, from aligned, every series has one
		// non-zero point at every step of [from, to]
		stepS := []int64{5, 1, 15}[r.Intn(3)]
		npts := []int{1, 2, 3, 7, 99, 100, 101, 130}[r.Intn(8)]
		if kind == "vector" {
			stepS, npts = 5, 61 // QueryInstant: [time-300s, time]
		}
		c.StepMs = stepS * 1000
		c.FromNs = (1700000000 / stepS) * stepS * 1000000000
		if kind == "vector" {
			c.FromNs = 1700000000 * 1000000000
		}
		c.ToNs = c.FromNs + int64(npts-1)*stepS*1000000000
		for si, fp := range fps {
			lb := labelsOf(r, c.Class, r.Intn(4))
			lb["s"] = strconv.Itoa(si)
			c.Series = append(c.Series, fsSeries{Fp: fp, Labels: lb, N: npts})
			g := expGroup{Fp: si}
			for x := 0; x < npts; x++ {
				id++
				v := pickFloat(r, false)
				if r.Intn(20) == 0 {
					v = []float64{math.NaN(), math.Inf(1), math.Inf(-1)}[r.Intn(3)]
				}
				row := &rowC{ID: id, Fp: fp, AbsFp: si, Ts: c.FromNs + int64(x)*stepS*1000000000, Value: v,
					ValS: strconv.FormatFloat(v, 'g', -1, 64)}
				k.rows[id] = row
				c.rows = append(c.rows, []driver.Value{fp, copyMap(lb), v, row.Ts})
				g.Ids = append(g.Ids, id)
			}
			if kind == "vector" {
				g.Ids = g.Ids[len(g.Ids)-1:] // the last point
			}
			c.groups = append(c.groups, g)
		}
	}
	for si, s := range c.Series {
		if s.Fp == 0 && s.N > 0 {
			c.HasFp0 = true
			if si == 0 {
				c.Fp0Head = true
			}
		}
	}
	return c
}

func copyMap(m map[string]string) map[string]string {
	o := map[string]string{}
	for k, v := range m {
		o[k] = v
	}
	return o
}

func (c *fsCase) check(body string) (string, string) {
	// the labels of series si are looked up through concrete.labels[g.Fp]: make that table
	lbls := make([]map[string]string, len(c.Series))
	for i, s := range c.Series {
		lbls[i] = s.Labels
	}
	return checkSeriesDoc(c.Kind, body, c.groups, c.k.rows, lbls)
}

func runFullStackCase(e *env, c *fsCase) {
	cols := []string{"fingerprint", "labels", "string", "timestamp_ns"}
	if c.Kind != "streams" {
		cols[2] = "value"
	}
	e.handler.Store(fakesql.Handler(func(ctx context.Context, q string, args []driver.NamedValue) (*fakesql.Answer, error) {
		return &fakesql.Answer{Cols: cols, Rows: c.rows, ErrAt: -1}, nil
	}))
	ctx, cancel := context.WithCancel(context.Background())
	defer cancel()
	var body string
	var ok bool
	switch c.Kind {
	case "streams":
		ch, err := e.qr.QueryRange(ctx, `{a="b"}`, 1700000000000000000, 1700000600000000000, 1000, 100000, true)
		if err != nil {
			driverError("full-stack QueryRange: " + err.Error())
			return
		}
		body, ok = collect(ch, 30*time.Second)
	case "matrix":
		q := fmt.Sprintf(`rate({a="b"}[%ds])`, c.StepMs/1000)
		ch, err := e.qr.QueryRange(ctx, q, c.FromNs, c.ToNs, c.StepMs, 0, true)
		if err != nil {
			driverError("full-stack matrix QueryRange: " + err.Error())
			return
		}
		body, ok = collect(ch, 30*time.Second)
	case "vector":
		q := fmt.Sprintf(`rate({a="b"}[%ds])`, c.StepMs/1000)
		ch, err := e.qr.QueryInstant(ctx, q, c.ToNs, c.StepMs, 0)
		if err != nil {
			driverError("full-stack QueryInstant: " + err.Error())
			return
		}
		body, ok = collect(ch, 30*time.Second)
	}
	if !ok {
		driverError("full-stack " + c.Kind + ": the writer did not finish")
		return
	}
	stat("fullstack_"+c.Kind, 1)
	kind, msg := c.check(body)
	if kind == "" {
		stat("fullstack_ok", 1)
		if len(c.groups) >= 2 {
			stat("nontrivial_ok", 1)
		}
		return
	}
	cls := "general|" + c.Class
	if c.Fp0Head {
		cls = "fp0-first"
	} else if c.HasFp0 {
		cls = "fp0-later"
	}
	// streams: the same writer as in the spec cases, same signature. matrix and vector (instant) queries share the
	// post-processing pipeline in front of the writer.
	ep := "streams"
	if c.Kind != "streams" {
		ep = "metric-query-fullstack"
	}
	rows := []*rowC{}
	for id := 1; id <= 6; id++ {
		if rw, ok := c.k.rows[id]; ok {
			cp := *rw
			cp.Line = clip(cp.Line, 200)
			rows = append(rows, &cp)
		}
	}
	fail(Failure{Signature: ep + "|" + cls + "|" + kind, Endpoint: c.Kind + " query, rows scripted in the database (full stack)", Msg: msg,
		Input: map[string]any{"case": c, "first_rows": rows}, Body: body})
}

func runFullStack(seed int64, n int, par int) {
	r := rand.New(rand.NewSource(seed ^ 0x5eed))
	var cases []*fsCase
	for i := 0; i < n; i++ {
		force := 0
		if i%25 == 0 {
			force = 1
		} else if i%25 == 1 {
			force = 2
		}
		cases = append(cases, genFullStack(r, "streams", i, force))
		cases = append(cases, genFullStack(r, "matrix", i, force))
		if i%3 == 0 {
			cases = append(cases, genFullStack(r, "vector", i, force))
		}
	}
	ch := make(chan *fsCase, 64)
	var wg sync.WaitGroup
	for i := 0; i < par; i++ {
		wg.Add(1)
		go func() {
			defer wg.Done()
			e := newEnv()
			for c := range ch {
				runFullStackCase(e, c)
			}
		}()
	}
	for _, c := range cases {
		ch <- c
	}
	close(ch)
	wg.Wait()
}

package main

import (
	"bytes"
	"encoding/json"
	"fmt"
	"io"
	"math/big"
	"sort"
	"strconv"
	"strings"
)

// lexTokens reduces a response body to the token alphabet of JsonStream.tla:
// { } [ ] ,  k (a string followed by a colon)  v (any other scalar). It does not require the body to be well formed.
func lexTokens(b []byte) (string, error) {
	var out []byte
	i := 0
	for i < len(b) {
		c := b[i]
		switch {
		case c == ' ' || c == '\t' || c == '\n' || c == '\r':
			i++
		case c == '{' || c == '}' || c == '[' || c == ']' || c == ',':
			out = append(out, c)
			i++
		case c == ':':
			if len(out) == 0 || out[len(out)-1] != 'v' {
				return string(out), fmt.Errorf("colon after a non-scalar at offset %d", i)
			}
			out[len(out)-1] = 'k'
			i++
		case c == '"':
			j := i + 1
			for j < len(b) && b[j] != '"' {
				if b[j] == '\\' {
					j++
				}
				j++
			}
			if j >= len(b) {
				return string(out), fmt.Errorf("unterminated string at offset %d", i)
			}
			out = append(out, 'v')
			i = j + 1
		default:
			j := i
			for j < len(b) && !strings.ContainsRune(" \t\r\n{}[],:\"", rune(b[j])) {
				j++
			}
			out = append(out, 'v')
			i = j
		}
	}
	return string(out), nil
}

var tokChar = []byte{'?', '{', '}', '[', ']', ',', 'k', 'v'}

func specTokens(codes []int) string {
	o := make([]byte, len(codes))
	for i, c := range codes {
		o[i] = tokChar[c]
	}
	return string(o)
}

// canonVector sorts the top-level objects of the "result" array of a token string (map iteration order is free).
func canonVector(t string) string {
	const hdr = "{kv,k{kv,k["
	if !strings.HasPrefix(t, hdr) || !strings.HasSuffix(t, "]}}") {
		return t
	}
	body := t[len(hdr) : len(t)-3]
	var objs []string
	depth, start := 0, 0
	for i := 0; i < len(body); i++ {
		switch body[i] {
		case '{', '[':
			depth++
		case '}', ']':
			depth--
		case ',':
			if depth == 0 {
				objs = append(objs, body[start:i])
				start = i + 1
			}
		}
	}
	if start < len(body) {
		objs = append(objs, body[start:])
	}
	sort.Strings(objs)
	return hdr + strings.Join(objs, ",") + "]}}"
}

// strictParse: exactly one JSON value, nothing but white space after it; numbers kept as text.
func strictParse(b []byte) (any, error) {
	dec := json.NewDecoder(bytes.NewReader(b))
	dec.UseNumber()
	var v any
	if err := dec.Decode(&v); err != nil {
		return nil, err
	}
	if _, err := dec.Token(); err != io.EOF {
		return nil, fmt.Errorf("trailing data after the document")
	}
	return v, nil
}

// rawObjects re-reads the body token by token to find duplicate keys (which Decode silently merges).
func duplicateKey(b []byte) string {
	dec := json.NewDecoder(bytes.NewReader(b))
	type frame struct {
		obj  bool
		keys map[string]bool
		key  bool // next string token is a key
	}
	var st []*frame
	for {
		t, err := dec.Token()
		if err != nil {
			return ""
		}
		top := func() *frame {
			if len(st) == 0 {
				return nil
			}
			return st[len(st)-1]
		}
		switch x := t.(type) {
		case json.Delim:
			switch x {
			case '{':
				if f := top(); f != nil && f.obj {
					f.key = true
				}
				st = append(st, &frame{obj: true, keys: map[string]bool{}, key: true})
			case '[':
				if f := top(); f != nil && f.obj {
					f.key = true
				}
				st = append(st, &frame{})
			default:
				st = st[:len(st)-1]
			}
		case string:
			if f := top(); f != nil && f.obj {
				if f.key {
					if f.keys[x] {
						return x
					}
					f.keys[x] = true
					f.key = false
				} else {
					f.key = true
				}
			}
		default:
			if f := top(); f != nil && f.obj {
				f.key = true
			}
		}
	}
}

type seriesGot struct {
	Labels map[string]string
	Vals   [][2]string // raw: (timestamp text or string, value/line string)
}

func asObj(v any) (map[string]any, bool) { m, ok := v.(map[string]any); return m, ok }

func keysOf(m map[string]any) string {
	var k []string
	for x := range m {
		k = append(k, x)
	}
	sort.Strings(k)
	return strings.Join(k, ",")
}

func labelsFrom(v any) (map[string]string, error) {
	m, ok := asObj(v)
	if !ok {
		return nil, fmt.Errorf("label set is not an object")
	}
	o := map[string]string{}
	for k, x := range m {
		s, ok := x.(string)
		if !ok {
			return nil, fmt.Errorf("label value is not a string")
		}
		o[k] = s
	}
	return o, nil
}

// dataResult checks {"status":"success","data":{"resultType":rt,"result":[...]}} and returns the result array.
func dataResult(doc any, rt string) ([]any, error) {
	top, ok := asObj(doc)
	if !ok {
		return nil, fmt.Errorf("document is not an object")
	}
	if keysOf(top) != "data,status" || top["status"] != "success" {
		return nil, fmt.Errorf("top level is {%s} status=%v", keysOf(top), top["status"])
	}
	data, ok := asObj(top["data"])
	if !ok || keysOf(data) != "result,resultType" || data["resultType"] != rt {
		return nil, fmt.Errorf("data is not {resultType:%q,result}", rt)
	}
	res, ok := data["result"].([]any)
	if !ok {
		return nil, fmt.Errorf("data.result is not an array")
	}
	return res, nil
}

// seriesOf reads the elements of a streams/matrix result: {<lblKey>:{...},"values":[[t,v],...]}
func seriesOf(res []any, lblKey string, tsIsString bool) ([]seriesGot, error) {
	var out []seriesGot
	for n, el := range res {
		o, ok := asObj(el)
		if !ok {
			return nil, fmt.Errorf("result[%d] is not an object", n)
		}
		if keysOf(o) != lblKey+",values" {
			return nil, fmt.Errorf("result[%d] has keys {%s}", n, keysOf(o))
		}
		lbl, err := labelsFrom(o[lblKey])
		if err != nil {
			return nil, fmt.Errorf("result[%d].%s: %v", n, lblKey, err)
		}
		vals, ok := o["values"].([]any)
		if !ok {
			return nil, fmt.Errorf("result[%d].values is not an array", n)
		}
		g := seriesGot{Labels: lbl}
		for m, pv := range vals {
			p, ok := pv.([]any)
			if !ok || len(p) != 2 {
				return nil, fmt.Errorf("result[%d].values[%d] is not a pair", n, m)
			}
			var ts string
			if tsIsString {
				s, ok := p[0].(string)
				if !ok {
					return nil, fmt.Errorf("result[%d].values[%d][0] is not a string", n, m)
				}
				ts = s
			} else {
				num, ok := p[0].(json.Number)
				if !ok {
					return nil, fmt.Errorf("result[%d].values[%d][0] is not a number", n, m)
				}
				ts = num.String()
			}
			v, ok := p[1].(string)
			if !ok {
				return nil, fmt.Errorf("result[%d].values[%d][1] is not a string", n, m)
			}
			g.Vals = append(g.Vals, [2]string{ts, v})
		}
		out = append(out, g)
	}
	return out, nil
}

// the decimal text `s` denotes exactly ns nanoseconds in seconds
func secondsTextIsNs(s string, ns int64) bool {
	r, ok := new(big.Rat).SetString(s)
	if !ok {
		return false
	}
	want := new(big.Rat).SetFrac(big.NewInt(ns), big.NewInt(1000000000))
	return r.Cmp(want) == 0
}

func floatTextIs(s string, v float64) bool {
	f, err := strconv.ParseFloat(s, 64)
	if err != nil {
		return false
	}
	return sameFloat(f, v)
}

func sameLabels(a, b map[string]string) bool {
	if len(a) != len(b) {
		return false
	}
	for k, v := range a {
		if w, ok := b[k]; !ok || w != v {
			return false
		}
	}
	return true
}

func clip(s string, n int) string {
	if len(s) <= n {
		return s
	}
	return s[:n/2] + fmt.Sprintf(" ...[%d bytes]... ", len(s)-n) + s[len(s)-n/2:]
}

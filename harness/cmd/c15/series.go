package main

import (
	"context"
	"encoding/json"
	"errors"
	"fmt"
	"io"
	"math"
	"math/rand"
	"strconv"
	"strings"
	"sync"
	"sync/atomic"
	"time"

	"github.com/metrico/qryn/reader/logql/logql_parser"
	"github.com/metrico/qryn/reader/logql/logql_transpiler_v2/shared"
	"github.com/metrico/qryn/reader/model"
	"github.com/metrico/qryn/reader/plugins"
	"github.com/metrico/qryn/reader/service"
	"github.com/metrico/qryn/reader/utils/logger"
	"verif/harness/fakesql"
)

func silenceLogger() { logger.Logger.SetOutput(io.Discard) }

// ---------------------------------------------------------------------------------------------------------------
// the planner plugin: a query {c15case="<n>"} is answered by the scripted batches of case n
// ---------------------------------------------------------------------------------------------------------------
type scripted struct {
	matrix  bool
	batches [][]shared.LogEntry
	done    chan struct{}
	calls   int32
}

func (s *scripted) IsMatrix() bool { return s.matrix }
func (s *scripted) Process(ctx *shared.PlannerContext, in chan []shared.LogEntry) (chan []shared.LogEntry, error) {
	ch := make(chan []shared.LogEntry)
	first := atomic.AddInt32(&s.calls, 1) == 1
	go func() {
		defer close(ch)
		if !first { // Tail asks again every second: nothing new
			return
		}
		for _, b := range s.batches {
			select {
			case ch <- b:
			case <-s.done:
				return
			}
		}
	}()
	return ch, nil
}

var scripts sync.Map // int -> *scripted

type plug struct{}

func (plug) Plan(script *logql_parser.LogQLScript) (shared.RequestProcessorChain, error) {
	if script.StrSelector == nil || len(script.StrSelector.StrSelCmds) != 1 ||
		script.StrSelector.StrSelCmds[0].Label.Name != "c15case" {
		return nil, plugins.ErrPluginNotApplicable
	}
	v, err := script.StrSelector.StrSelCmds[0].Val.Unquote()
	if err != nil {
		return nil, err
	}
	n, err := strconv.Atoi(v)
	if err != nil {
		return nil, err
	}
	s, ok := scripts.Load(n)
	if !ok {
		return nil, fmt.Errorf("c15: no script %d", n)
	}
	return shared.RequestProcessorChain{s.(*scripted)}, nil
}

func registerPlugin() { plugins.RegisterLogQLPlannerPlugin("c15", plug{}) }

// ---------------------------------------------------------------------------------------------------------------
// a reader environment per worker: fakesql database + the real services
// ---------------------------------------------------------------------------------------------------------------
type env struct {
	db      *fakesql.DB
	qr      *service.QueryRangeService
	handler atomic.Value // fakesql.Handler for the data queries
}

var envSeq int32

func newEnv() *env {
	e := &env{}
	name := fmt.Sprintf("c15-%d", atomic.AddInt32(&envSeq, 1))
	e.db = fakesql.New(name, func(ctx context.Context, q string, args []driverNamedValue) (*fakesql.Answer, error) {
		if a := fakesql.VersionAnswers(q, []string{"time_series", "samples_v3"}, map[string]string{"v3": "0", "v5": "0"}); a != nil {
			return a, nil
		}
		if h, ok := e.handler.Load().(fakesql.Handler); ok && h != nil {
			return h(ctx, q, args)
		}
		return nil, nil
	})
	e.qr = service.NewQueryRangeService(&model.ServiceData{Session: e.db.Registry("")})
	return e
}

// collect concatenates the chunks of a response channel
func collect(ch chan model.QueryRangeOutput, timeout time.Duration) (string, bool) {
	var b strings.Builder
	t := time.NewTimer(timeout)
	defer t.Stop()
	for {
		select {
		case o, ok := <-ch:
			if !ok {
				return b.String(), true
			}
			b.WriteString(o.Str)
		case <-t.C:
			return b.String(), false
		}
	}
}

// ---------------------------------------------------------------------------------------------------------------
// concretisation of a spec case
// ---------------------------------------------------------------------------------------------------------------
type rowC struct {
	ID    int     `json:"id"`
	Fp    uint64  `json:"fp,string"`
	AbsFp int     `json:"abs_fp"`
	Ts    int64   `json:"ts"`
	Line  string  `json:"line,omitempty"`
	Value float64 `json:"-"`
	ValS  string  `json:"value,omitempty"`
}

type concrete struct {
	class   string
	fps     [3]uint64
	labels  [3]map[string]string
	rows    map[int]*rowC
	batches [][]shared.LogEntry
}

var errScripted = errors.New("c15: scripted mid-stream failure")

func concretise(c *SpecCase, r *rand.Rand) *concrete {
	k := &concrete{class: classOf(r), rows: map[int]*rowC{}}
	k.fps[0] = 0 // THE fingerprint 0
	for {
		k.fps[1], k.fps[2] = r.Uint64(), r.Uint64()
		switch r.Intn(4) {
		case 0:
			k.fps[1] = math.MaxUint64
		case 1:
			k.fps[2] = 1
		}
		if k.fps[1] != 0 && k.fps[2] != 0 && k.fps[1] != k.fps[2] {
			break
		}
	}
	for fp := 0; fp < 3; fp++ {
		k.labels[fp] = labelsOf(r, k.class, fp) // JsonStream.MapToks: the series fp carries fp labels
	}
	var base int64
	switch c.W {
	case "streams", "tail":
		base = []int64{0, 1700000000123456789, math.MaxInt64 - 64, -5, 1, 999999999, 1000000000}[r.Intn(7)]
	case "matrix":
		base = []int64{0, 1700000000000000000, 1700000000123000000, 1600000000001000000, 4102444800000000000}[r.Intn(5)]
	case "vector":
		base = []int64{0, 1700000000000000000, 1600000000000000000}[r.Intn(3)]
	}
	step := int64(1)
	if c.W == "matrix" {
		step = []int64{1000000, 15000000000, 1000000000, 7000000}[r.Intn(4)] // the matrix timestamps are multiples of 1 ms
	}
	voff := r.Intn(len(floatPool))
	id := 0
	for _, b := range c.In {
		batch := []shared.LogEntry{}
		for _, code := range b {
			id++
			switch {
			case code == 8:
				batch = append(batch, shared.LogEntry{Err: io.EOF})
			case code == 9:
				batch = append(batch, shared.LogEntry{Err: errScripted})
			default:
				afp, ats := code%10, code/10
				row := &rowC{ID: id, AbsFp: afp, Fp: k.fps[afp]}
				switch c.W {
				case "streams", "tail":
					row.Ts = base + int64(id)
					row.Line = pick(r, k.class)
				case "matrix":
					row.Ts = base + int64(id)*step
					row.Value = floatPool[(voff+id)%len(floatPool)]
					if r.Intn(8) == 0 {
						row.Value = pickFloat(r, true)
					}
				case "vector":
					row.Ts = base + int64(ats)*1000000000 // whole seconds: the vector writer prints seconds
					row.Value = floatPool[(voff+id)%len(floatPool)]
				}
				if c.W == "matrix" || c.W == "vector" {
					row.ValS = strconv.FormatFloat(row.Value, 'g', -1, 64)
				}
				k.rows[id] = row
				lbl := map[string]string{}
				for a, v := range k.labels[afp] {
					lbl[a] = v
				}
				batch = append(batch, shared.LogEntry{TimestampNS: row.Ts, Fingerprint: row.Fp, Labels: lbl,
					Message: row.Line, Value: row.Value})
			}
		}
		k.batches = append(k.batches, batch)
	}
	return k
}

func firstRowFp0(c *SpecCase) bool {
	for _, b := range c.In {
		for _, code := range b {
			if code < 8 || code >= 10 {
				return code%10 == 0
			}
		}
	}
	return false
}

// ---------------------------------------------------------------------------------------------------------------
// run one spec case against the real writer and judge the response
// ---------------------------------------------------------------------------------------------------------------
func runSeriesCase(e *env, c *SpecCase, seed int64) {
	r := rand.New(rand.NewSource(seed*1000003 + int64(c.N)))
	k := concretise(c, r)
	s := &scripted{matrix: c.W == "matrix" || c.W == "vector", batches: k.batches, done: make(chan struct{})}
	scripts.Store(c.N, s)
	defer scripts.Delete(c.N)
	defer close(s.done)
	q := fmt.Sprintf(`{c15case="%d"}`, c.N)
	ctx, cancel := context.WithCancel(context.Background())
	defer cancel()
	var body string
	var complete bool
	switch c.W {
	case "streams", "matrix":
		ch, err := e.qr.QueryRange(ctx, q, 1700000000000000000, 1700000600000000000, 1000, 100, r.Intn(2) == 0)
		if err != nil {
			driverError("QueryRange: " + err.Error())
			return
		}
		body, complete = collect(ch, 20*time.Second)
	case "vector":
		ch, err := e.qr.QueryInstant(ctx, q, 1700000600000000000, 1000, 100)
		if err != nil {
			driverError("QueryInstant: " + err.Error())
			return
		}
		body, complete = collect(ch, 60*time.Second)
	case "tail":
		w, err := e.qr.Tail(ctx, q)
		if err != nil {
			driverError("Tail: " + err.Error())
			return
		}
		select {
		case o, ok := <-w.GetRes():
			// a closed channel without a frame is how Tail ends a tick that hit an error entry (no message is sent)
			complete = true
			if ok {
				body = o.Str
			}
		case <-time.After(60 * time.Second):
		}
		w.Close()
		go func() {
			for range w.GetRes() {
			}
		}()
	}
	if !complete {
		driverError(fmt.Sprintf("case %d (%s %v): the writer did not finish", c.N, c.W, c.In))
		return
	}
	stat("cases_"+c.W, 1)
	judgeSeries(c, k, body)
}

type expGroup struct {
	Fp  int   `json:"fp"`
	Ids []int `json:"ids"`
}

func expectedGroups(c *SpecCase) []expGroup {
	var raw [][]json.RawMessage
	var out []expGroup
	if err := json.Unmarshal(c.Groups, &raw); err != nil {
		driverError("bad groups in case: " + err.Error())
		return nil
	}
	for _, g := range raw {
		var eg expGroup
		json.Unmarshal(g[0], &eg.Fp)
		if c.W == "vector" {
			var id int
			json.Unmarshal(g[1], &id)
			eg.Ids = []int{id}
		} else {
			json.Unmarshal(g[1], &eg.Ids)
		}
		out = append(out, eg)
	}
	return out
}

// checkSeriesDoc: the property on one response. groups[].Fp indexes lbls. Returns (kind, message) of the first
// discrepancy, kind == "" if none.
func checkSeriesDoc(w string, body string, groups []expGroup, rows map[int]*rowC, lbls []map[string]string) (string, string) {
	doc, err := strictParse([]byte(body))
	if err != nil {
		return "invalid-json", err.Error()
	}
	if dk := duplicateKey([]byte(body)); dk != "" {
		return "invalid-json", "duplicate key " + strconv.Quote(dk)
	}
	var res []any
	if w == "tail" {
		top, ok := asObj(doc)
		if !ok || keysOf(top) != "streams" {
			return "shape", "tail message is not {streams:[...]}"
		}
		res, ok = top["streams"].([]any)
		if !ok {
			return "shape", "streams is not an array"
		}
	} else {
		res, err = dataResult(doc, w)
		if err != nil {
			return "shape", err.Error()
		}
	}
	if w == "vector" {
		return checkVector(res, groups, rows, lbls)
	}
	lblKey := "stream"
	if w == "matrix" {
		lblKey = "metric"
	}
	got, err := seriesOf(res, lblKey, w != "matrix")
	if err != nil {
		return "shape", err.Error()
	}
	if len(got) < len(groups) {
		return "rows-missing", fmt.Sprintf("%d result objects for %d runs of equal fingerprint", len(got), len(groups))
	}
	if len(got) != len(groups) {
		return "grouping", fmt.Sprintf("%d result objects for %d runs of equal fingerprint", len(got), len(groups))
	}
	for n, g := range groups {
		if !sameLabels(got[n].Labels, decodedMap(lbls[g.Fp])) {
			return "labels", fmt.Sprintf("result[%d] carries labels %q, the rows carry %q", n, got[n].Labels, lbls[g.Fp])
		}
		if len(got[n].Vals) != len(g.Ids) {
			return "rows", fmt.Sprintf("result[%d] has %d values for %d rows", n, len(got[n].Vals), len(g.Ids))
		}
		for m, id := range g.Ids {
			row := rows[id]
			ts, v := got[n].Vals[m][0], got[n].Vals[m][1]
			if w == "matrix" {
				if !secondsTextIsNs(ts, row.Ts) {
					return "timestamp-loss", fmt.Sprintf("timestamp %d ns rendered as %s", row.Ts, ts)
				}
				if !floatTextIs(v, row.Value) {
					return "value-loss", fmt.Sprintf("value %s rendered as %q", row.ValS, v)
				}
			} else {
				if ts != strconv.FormatInt(row.Ts, 10) {
					return "timestamp-loss", fmt.Sprintf("timestamp %d rendered as %q", row.Ts, ts)
				}
				if v != decoded(row.Line) {
					return "string", fmt.Sprintf("line %q came back as %q", clip(row.Line, 200), clip(v, 200))
				}
			}
		}
	}
	return "", ""
}

func checkVector(res []any, groups []expGroup, rows map[int]*rowC, lbls []map[string]string) (string, string) {
	if len(res) < len(groups) {
		return "rows-missing", fmt.Sprintf("%d result objects for %d series", len(res), len(groups))
	}
	if len(res) != len(groups) {
		return "grouping", fmt.Sprintf("%d result objects for %d series", len(res), len(groups))
	}
	used := map[int]bool{}
	for n, el := range res {
		o, ok := asObj(el)
		if !ok || keysOf(o) != "metric,value" {
			return "shape", fmt.Sprintf("result[%d] is not {metric,value}", n)
		}
		lbl, err := labelsFrom(o["metric"])
		if err != nil {
			return "shape", err.Error()
		}
		p, ok := o["value"].([]any)
		if !ok || len(p) != 2 {
			return "shape", fmt.Sprintf("result[%d].value is not a pair", n)
		}
		num, ok1 := p[0].(json.Number)
		v, ok2 := p[1].(string)
		if !ok1 || !ok2 {
			return "shape", fmt.Sprintf("result[%d].value is not [number, string]", n)
		}
		found := false
		for gi, g := range groups {
			if used[gi] || !sameLabels(lbl, decodedMap(lbls[g.Fp])) {
				continue
			}
			used[gi], found = true, true
			row := rows[g.Ids[0]]
			if !secondsTextIsNs(num.String(), row.Ts) {
				return "timestamp-loss", fmt.Sprintf("timestamp %d ns rendered as %s", row.Ts, num.String())
			}
			if !floatTextIs(v, row.Value) {
				return "value-loss", fmt.Sprintf("the last value of series %d is %s (row %d), rendered %q", g.Fp, row.ValS, row.ID, v)
			}
			break
		}
		if !found {
			return "grouping", fmt.Sprintf("result[%d] carries labels %q of no (remaining) series", n, lbl)
		}
	}
	return "", ""
}

func inputOf(c *SpecCase, k *concrete) map[string]any {
	rows := []*rowC{}
	for id := 1; id <= 64; id++ {
		if rw, ok := k.rows[id]; ok {
			cp := *rw
			cp.Line = clip(cp.Line, 300)
			rows = append(rows, &cp)
		}
	}
	lb := []map[string]string{}
	for _, m := range k.labels {
		o := map[string]string{}
		for a, b := range m {
			o[clip(a, 200)] = clip(b, 200)
		}
		lb = append(lb, o)
	}
	return map[string]any{"batches (0..2 row of that series, 8 EOF marker, 9 error marker; vector: 10*ts+series)": c.In,
		"fingerprints": []string{strconv.FormatUint(k.fps[0], 10), strconv.FormatUint(k.fps[1], 10), strconv.FormatUint(k.fps[2], 10)},
		"labels":       lb, "rows": rows, "string_class": k.class}
}

func judgeSeries(c *SpecCase, k *concrete, body string) {
	real, lexErr := lexTokens([]byte(body))
	spec := specTokens(c.Toks)
	if c.W == "vector" {
		real, spec = canonVector(real), canonVector(spec)
	}
	tokSame := lexErr == nil && real == spec
	if !c.Ben {
		// outside the property's domain (error marker, EOF marker in the middle of a batch): conformance only
		stat("nonbenign_cases", 1)
		if !tokSame {
			conformance(map[string]any{"writer": c.W, "input": c.In, "spec_tokens": spec, "real_tokens": real, "body": clip(body, 1500), "benign": false})
		}
		return
	}
	groups := expectedGroups(c)
	kind, msg := checkSeriesDoc(c.W, body, groups, k.rows, k.labels[:])
	if kind == "" {
		stat("property_ok", 1)
		if !c.specOK() {
			notReproduced(map[string]any{"writer": c.W, "input": c.In, "spec_tokens": spec, "real_tokens": real, "body": clip(body, 1500)})
			return
		}
		if !tokSame {
			conformance(map[string]any{"writer": c.W, "input": c.In, "spec_tokens": spec, "real_tokens": real, "body": clip(body, 1500), "benign": true})
		}
		if len(groups) >= 2 {
			stat("nontrivial_ok", 1)
		}
		if c.N%997 == 0 {
			sample(map[string]any{"writer": c.W, "input": c.In, "expected_groups": groups, "real_tokens": real, "body": clip(body, 600)})
		}
		return
	}
	cls := "general|" + k.class
	if firstRowFp0(c) {
		cls = "fp0-first"
	}
	if !utf8Valid(body) {
		stat("bodies_with_raw_invalid_utf8", 1)
	}
	fail(Failure{Signature: c.W + "|" + cls + "|" + kind, Endpoint: c.W, Msg: msg, Input: inputOf(c, k), Expected: groups,
		Body: body, Predicted: !c.specOK(),
		Case: map[string]any{"spec_tokens": spec, "real_tokens": real, "tokens_equal": tokSame, "spec_says_well_formed": c.Wf, "spec_says_conform": c.Cf}})
}

func runSpecCases(cases []*SpecCase, seed int64, par int, tailMax int) {
	var series, tails []*SpecCase
	for _, c := range cases {
		switch c.W {
		case "streams", "matrix", "vector":
			series = append(series, c)
		case "tail":
			tails = append(tails, c)
		}
	}
	ch := make(chan *SpecCase, 256)
	var wg sync.WaitGroup
	for i := 0; i < par; i++ {
		wg.Add(1)
		go func() {
			defer wg.Done()
			e := newEnv()
			for c := range ch {
				runSeriesCase(e, c, seed)
			}
		}()
	}
	for _, c := range series {
		ch <- c
	}
	close(ch)
	// Tail: every case waits for the first tick of a 1 s ticker: run them all at once
	if len(tails) > tailMax {
		r := rand.New(rand.NewSource(seed))
		r.Shuffle(len(tails), func(i, j int) { tails[i], tails[j] = tails[j], tails[i] })
		tails = tails[:tailMax]
	}
	e := newEnv()
	var wg2 sync.WaitGroup
	for _, c := range tails {
		wg2.Add(1)
		go func(c *SpecCase) {
			defer wg2.Done()
			runSeriesCase(e, c, seed)
		}(c)
	}
	wg.Wait()
	wg2.Wait()
}

package main

import (
	"math"
	"math/rand"
	"strconv"
	"strings"
	"unicode/utf8"
)

// Hostile pools. A case draws all its strings from ONE class (plus plain ones) so that a failure can be attributed
// to a class of content: the class is part of the violation signature.
var stringClasses = []string{"plain", "quote-backslash", "control", "invalid-utf8", "u2028", "nonprintable-unicode", "long", "json-lookalike"}

var stringPool = map[string][]string{
	"plain":                {"", "a", "plain text", "job", "é", "日本語", "\U0001F600 smile", " leading", "trailing ", "0", "null", "true"},
	"quote-backslash":      {`"`, `\`, `\"`, `"quoted"`, `back\slash`, `\\`, `a"b\c"`, `\u0041`, "'single'", `\n (literal backslash n)`, `end\`},
	"control":              {"\x00", "\x01\x02", "\n", "\r\n", "\t", "\b\f", "\x1f", "\x7f", "a\x00b", "line1\nline2", "\x1b[31mred\x1b[0m", "\a\v"},
	"invalid-utf8":         {"\xff", "\xc3\x28", "\xed\xa0\x80", "a\xffb\xfe", "\xf0\x28\x8c\x28", "\xc0\xaf", "ok\x80", "\xe2\x82"},
	"u2028":                {"\u2028", "\u2029", "a\u2028b", "\u2028\u2029\u2028"},
	"nonprintable-unicode": {"\u00ad", "\ufeff", "\ufffd", "\U000E0001", "\u200b", "\u0085", "\U0010FFFF", "\ufffe"},
	"long":                 {strings.Repeat("x", 70000), strings.Repeat("long line ", 3000), strings.Repeat("y", 4097)},
	"json-lookalike":       {`{"a":1}`, `]}}`, `],[`, `","`, `":"`, `[1,2]`, `}`, `{`, `<script>&amp;</script>`, `,`, `:`},
}

func classOf(r *rand.Rand) string { return stringClasses[r.Intn(len(stringClasses))] }

func pick(r *rand.Rand, class string) string {
	if class != "plain" && r.Intn(4) == 0 {
		class = "plain"
	}
	p := stringPool[class]
	s := p[r.Intn(len(p))]
	if class == "long" && r.Intn(12) != 0 {
		s = s[:1+r.Intn(300)] // keep most of them short: speed
	}
	if r.Intn(3) == 0 && len(s) < 1000 {
		q := stringPool["plain"]
		s = q[r.Intn(len(q))] + s + q[r.Intn(len(q))]
	}
	return s
}

// pickValid: like pick but never invalid UTF-8 (PromQL text, protobuf strings).
func pickValid(r *rand.Rand, class string) string {
	for {
		s := pick(r, class)
		if utf8.ValidString(s) {
			return s
		}
		class = "control"
	}
}

// labels builds a label map with n entries; names are made distinct (also after the U+FFFD replacement a JSON
// decoder applies to invalid bytes) by a numeric suffix.
func labelsOf(r *rand.Rand, class string, n int) map[string]string {
	m := map[string]string{}
	for i := 0; i < n; i++ {
		name := "l" + strconv.Itoa(i)
		if r.Intn(2) == 0 {
			name = pick(r, class)
			if len(name) > 200 {
				name = name[:200]
			}
			name += strconv.Itoa(i)
		}
		m[name] = pick(r, class)
	}
	return m
}

// what encoding/json yields when it decodes a string that was written with its invalid bytes left as they are
// (or escaped by an encoder that substitutes U+FFFD): every invalid byte becomes U+FFFD.
func decoded(s string) string {
	if utf8.ValidString(s) {
		return s
	}
	var b strings.Builder
	for i := 0; i < len(s); {
		c, size := utf8.DecodeRuneInString(s[i:])
		if c == utf8.RuneError && size == 1 {
			b.WriteString("\ufffd")
			i++
			continue
		}
		b.WriteString(s[i : i+size])
		i += size
	}
	return b.String()
}

func decodedMap(m map[string]string) map[string]string {
	o := map[string]string{}
	for k, v := range m {
		o[decoded(k)] = decoded(v)
	}
	return o
}

var floatPool = []float64{
	1, -1, 42, 100, 1e6, 0.1, 0.5, 0.30000000000000004, 1.0 / 3.0,
	float64(1<<53 - 1), float64(1 << 53), float64(1<<53) + 2, -float64(1<<53 - 1),
	1e300, -1e300, 5e-324, 2.2250738585072014e-308, math.MaxFloat64, 1e21, 1e-7, 123456789.12345679,
	1e15 + 0.3, 1234.5678, 0.000001, 0.0000001234, 3, 1e22, 7e-10,
}

// special values that the zero-eating matrix pipeline would drop or that need a different comparison
var floatSpecial = []float64{0, math.Copysign(0, -1), math.NaN(), math.Inf(1), math.Inf(-1)}

func pickFloat(r *rand.Rand, special bool) float64 {
	if special && r.Intn(5) == 0 {
		return floatSpecial[r.Intn(len(floatSpecial))]
	}
	if r.Intn(6) == 0 {
		return math.Float64frombits(r.Uint64()&^(0x7ff<<52) | uint64(r.Intn(2046)+1)<<52) // a random finite normal
	}
	return floatPool[r.Intn(len(floatPool))]
}

func sameFloat(a, b float64) bool {
	if math.IsNaN(a) || math.IsNaN(b) {
		return math.IsNaN(a) && math.IsNaN(b)
	}
	return math.Float64bits(a) == math.Float64bits(b)
}

func worstClass(classes ...string) string {
	order := map[string]int{"plain": 0, "long": 1, "json-lookalike": 2, "quote-backslash": 3, "u2028": 4, "nonprintable-unicode": 5, "control": 6, "invalid-utf8": 7}
	w := "plain"
	for _, c := range classes {
		if order[c] > order[w] {
			w = c
		}
	}
	return w
}

// classify a concrete string (for endpoints where the offending element is known)
func classify(s string) string {
	if !utf8.ValidString(s) {
		return "invalid-utf8"
	}
	for _, c := range s {
		if c < 0x20 || c == 0x7f {
			return "control"
		}
	}
	for _, c := range s {
		if c == 0x2028 || c == 0x2029 {
			return "u2028"
		}
	}
	for _, c := range s {
		if c > 0x7f && !strconv.IsPrint(c) {
			return "nonprintable-unicode"
		}
	}
	if strings.ContainsAny(s, `"\`) {
		return "quote-backslash"
	}
	if len(s) > 4000 {
		return "long"
	}
	return "plain"
}

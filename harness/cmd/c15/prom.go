package main

import (
	"encoding/json"
	"fmt"
	"math"
	"math/rand"
	"net/http/httptest"
	"net/url"
	"strconv"
	"strings"
	"time"

	"github.com/gorilla/mux"
	controllerv1 "github.com/metrico/qryn/reader/controller"
	"github.com/metrico/qryn/reader/model"
	"github.com/metrico/qryn/reader/service"
	"github.com/prometheus/prometheus/promql"
	api_v1 "github.com/prometheus/prometheus/web/api/v1"
)

// The Prometheus controller writers (writeResponse / writeMatrix / writeVector / writeScalar) are driven through the
// real PromQueryRangeController with PromQL expressions that need no storage: numeric literals, vector(x),
// label_replace(vector(x), "l", "<hostile>", "", "") joined with `or`.

type promSeries struct {
	Labels map[string]string
	Value  float64
}

func promLit(v float64) string {
	s := strconv.FormatFloat(math.Abs(v), 'g', -1, 64)
	if math.Signbit(v) {
		return "-" + s
	}
	return s
}

func runProm(seed int64, n int) {
	e := newEnv()
	eng := promql.NewEngine(promql.EngineOpts{MaxSamples: 50000000, Timeout: 30 * time.Second})
	ctrl := &controllerv1.PromQueryRangeController{
		Api:     &api_v1.API{QueryEngine: eng},
		Storage: &service.CLokiQueriable{ServiceData: model.ServiceData{Session: e.db.Registry("")}},
	}
	router := mux.NewRouter()
	router.HandleFunc("/api/v1/query_range", ctrl.QueryRange)
	router.HandleFunc("/api/v1/query", ctrl.QueryInstant)
	get := func(path string) string {
		rec := httptest.NewRecorder()
		router.ServeHTTP(rec, httptest.NewRequest("GET", path, nil))
		return rec.Body.String()
	}
	r := rand.New(rand.NewSource(seed ^ 0x9703))
	floats := append([]float64{}, floatPool...)
	for i := 0; i < n; i++ {
		floats = append(floats, pickFloat(r, false))
	}
	// ---- scalar (instant): {"resultType":"scalar","result":[t,"v"]}
	for _, v := range floats {
		body := get("/api/v1/query?time=1700000000&query=" + url.QueryEscape(promLit(v)))
		stat("prom_scalar", 1)
		kind, msg := func() (string, string) {
			doc, err := strictParse([]byte(body))
			if err != nil {
				return "invalid-json", err.Error()
			}
			top, _ := asObj(doc)
			data, _ := asObj(top["data"])
			if top == nil || data == nil || top["status"] != "success" || data["resultType"] != "scalar" {
				return "shape", "not a scalar success document"
			}
			p, ok := data["result"].([]any)
			if !ok || len(p) != 2 {
				return "shape", "scalar result is not a pair"
			}
			if !secondsTextIsNs(fmt.Sprint(p[0]), 1700000000*1000000000) {
				return "timestamp-loss", fmt.Sprintf("time 1700000000 rendered as %v", p[0])
			}
			s, ok := p[1].(string)
			if !ok {
				return "shape", "scalar value is not a string"
			}
			if !floatTextIs(s, v) {
				return "value-loss", fmt.Sprintf("scalar %s rendered as %q", promLit(v), s)
			}
			return "", ""
		}()
		if kind == "" {
			stat("prom_ok", 1)
		} else {
			fail(Failure{Signature: "prom-scalar|" + kind, Endpoint: "prometheus instant query, scalar result (writeScalar)", Msg: msg,
				Input: map[string]any{"query": promLit(v)}, Body: body})
		}
	}
	// ---- vector (instant) and matrix (range)
	for i := 0; i < n+len(floatPool); i++ {
		class := classOf(r)
		nser := 1 + r.Intn(3)
		var ser []promSeries
		var parts []string
		for s := 0; s < nser; s++ {
			v := floats[r.Intn(len(floats))]
			lv := pickValid(r, class)
			if strings.ContainsAny(lv, "$\ufffd") { // `$` expands in label_replace; the PromQL lexer rejects U+FFFD in the query text
				lv = "x"
			}
			if len(lv) > 500 {
				lv = lv[:500]
			}
			ps := promSeries{Labels: map[string]string{"idx": strconv.Itoa(s)}, Value: v}
			expr := fmt.Sprintf(`label_replace(vector(%s), "idx", "%d", "", "")`, promLit(v), s)
			if lv != "" {
				ps.Labels["h"] = lv
				expr = fmt.Sprintf(`label_replace(%s, "h", %s, "", "")`, expr, strconv.Quote(lv))
			}
			ser = append(ser, ps)
			parts = append(parts, expr)
		}
		q := strings.Join(parts, " or ")
		for _, mode := range []string{"vector", "matrix"} {
			var body string
			steps := 1
			var times []int64 // expected point times in ms (matrix)
			if mode == "vector" {
				body = get("/api/v1/query?time=1700000000&query=" + url.QueryEscape(q))
			} else {
				// the controller widens [start, end] to multiples of 15 s; the step may be fractional (sub-second timestamps)
				stepTxt := []string{"15", "15", "0.5", "1.5", "7.25", "0.25", "0.001", "3"}[r.Intn(8)]
				stepMs := map[string]int64{"15": 15000, "0.5": 500, "1.5": 1500, "7.25": 7250, "0.25": 250, "0.001": 1, "3": 3000}[stepTxt]
				startS := int64(1700000010 + r.Intn(40))
				spanS := int64(r.Intn(46))
				if stepMs == 1 {
					spanS = 0 // at most 15 s of 1 ms points (11,000-point limit)
					startS = startS / 15 * 15
					if r.Intn(2) == 0 {
						startS += 1 + int64(r.Intn(9))
						spanS = 0
					}
				}
				endS := startS + spanS
				a := startS / 15 * 15 * 1000
				b := (endS + 14) / 15 * 15 * 1000
				if (b-a)/stepMs+1 > 11000 {
					stepTxt, stepMs = "0.5", 500
				}
				for t := a; t <= b; t += stepMs {
					times = append(times, t)
				}
				steps = len(times)
				body = get(fmt.Sprintf("/api/v1/query_range?start=%d&end=%d&step=%s&query=%s", startS, endS, stepTxt, url.QueryEscape(q)))
			}
			stat("prom_"+mode, 1)
			kind, msg := checkProm(mode, body, ser, steps, times)
			if kind == "query-rejected" { // the generated PromQL text was refused: nothing was rendered, nothing to judge
				stat("prom_query_rejected", 1)
				continue
			}
			if kind == "" {
				stat("prom_ok", 1)
				if nser >= 2 {
					stat("nontrivial_ok", 1)
				}
				continue
			}
			fail(Failure{Signature: "prom-" + mode + "|" + class + "|" + kind, Endpoint: "prometheus " + mode + " (writeResponse)", Msg: msg,
				Input: map[string]any{"query": clip(q, 1500), "string_class": class}, Body: body})
		}
	}
}

func checkProm(mode, body string, ser []promSeries, steps int, times []int64) (string, string) {
	doc, err := strictParse([]byte(body))
	if err != nil {
		return "invalid-json", err.Error()
	}
	if top, ok := asObj(doc); ok && top["status"] == "error" {
		return "query-rejected", fmt.Sprint(top["error"])
	}
	res, err := dataResult(doc, mode)
	if err != nil {
		return "shape", err.Error()
	}
	if len(res) != len(ser) {
		return "grouping", fmt.Sprintf("%d result objects for %d series", len(res), len(ser))
	}
	used := map[int]bool{}
	for n, el := range res {
		o, ok := asObj(el)
		if !ok {
			return "shape", "result element is not an object"
		}
		lbl, err := labelsFrom(o["metric"])
		if err != nil {
			return "shape", err.Error()
		}
		var pairs []any
		if mode == "vector" {
			p, ok := o["value"].([]any)
			if !ok {
				return "shape", "value is not an array"
			}
			pairs = []any{p}
		} else {
			p, ok := o["values"].([]any)
			if !ok {
				return "shape", "values is not an array"
			}
			pairs = p
		}
		found := false
		for si, s := range ser {
			if used[si] || !sameLabels(lbl, s.Labels) {
				continue
			}
			used[si], found = true, true
			if len(pairs) < 1 || (mode == "matrix" && len(pairs) < steps) {
				return "rows", fmt.Sprintf("result[%d] has %d points, at least %d expected", n, len(pairs), steps)
			}
			if mode == "matrix" && len(pairs) != len(times) {
				return "rows", fmt.Sprintf("result[%d] has %d points, %d expected", n, len(pairs), len(times))
			}
			for pi, pv := range pairs {
				p, ok := pv.([]any)
				if !ok || len(p) != 2 {
					return "shape", "point is not a pair"
				}
				tn, ok := p[0].(json.Number)
				if !ok {
					return "shape", "point time is not a number"
				}
				if mode == "matrix" && !secondsTextIsNs(tn.String(), times[pi]*1000000) {
					return "timestamp-loss", fmt.Sprintf("point %d of result[%d]: time %d ms rendered as %s", pi, n, times[pi], tn.String())
				}
				if mode == "vector" && !secondsTextIsNs(tn.String(), 1700000000*1000000000) {
					return "timestamp-loss", fmt.Sprintf("time 1700000000 rendered as %s", tn.String())
				}
				v, ok := p[1].(string)
				if !ok {
					return "shape", "point value is not a string"
				}
				if !floatTextIs(v, s.Value) {
					return "value-loss", fmt.Sprintf("value %s rendered as %q", promLit(s.Value), v)
				}
			}
			break
		}
		if !found {
			return "labels", fmt.Sprintf("result[%d] carries labels %q of no (remaining) series", n, lbl)
		}
	}
	return "", ""
}

package main

import (
	"context"
	"database/sql/driver"
	"encoding/hex"
	"encoding/json"
	"fmt"
	"math/rand"
	"net/http"
	"net/http/httptest"
	"net/url"
	"reflect"
	"strconv"
	"strings"
	"sync"
	"time"

	"github.com/gorilla/mux"
	controllerv1 "github.com/metrico/qryn/reader/controller"
	"github.com/metrico/qryn/reader/model"
	"github.com/metrico/qryn/reader/service"
	common "go.opentelemetry.io/proto/otlp/common/v1"
	v1 "go.opentelemetry.io/proto/otlp/trace/v1"
	"google.golang.org/protobuf/proto"
	"verif/harness/fakesql"
)

// The list writers: `i != 0 -> ","` machines over database rows.
//   loki-labels / loki-label-values : QueryLabelsService.Labels / Values -> GenericLabelReq
//   loki-series                     : QueryLabelsService.Series (the stored label documents are passed through)
//   tempo-tags / tempo-tag-values   : TempoController.Tags / Values over the real TempoService
//   tempo-search                    : TempoController.Search (tags search branch)
//   tempo-trace                     : TempoController.Trace (json branch), OTLP protobuf payloads whose spans carry
//                                     attributes of every scalar AnyValue kind (traceattr.go) and full-range times
//   tempo-search-traceql            : TempoController.Search (TraceQL branch): a channel of BATCHES, see traceql.go

type listEnv struct {
	scanFault bool
	lastCode  int
	e         *env
	labels    *service.QueryLabelsService
	router    *mux.Router
	tq        *batchedTempo
}

func newListEnv() *listEnv {
	e := newEnv()
	le := &listEnv{e: e}
	sd := model.ServiceData{Session: e.db.Registry("")}
	le.labels = service.NewQueryLabelsService(&sd)
	// the real TempoService; only SearchTraceQL (the producer of the batches of the TraceQL branch of Search) is scripted
	le.tq = &batchedTempo{ITempoService: service.NewTempoService(sd)}
	tc := &controllerv1.TempoController{Service: le.tq}
	le.router = mux.NewRouter()
	le.router.HandleFunc("/api/search/tags", tc.Tags)
	le.router.HandleFunc("/api/search/tag/{tag}/values", tc.Values)
	le.router.HandleFunc("/api/search", tc.Search)
	le.router.HandleFunc("/api/traces/{traceId}", tc.Trace)
	return le
}

func (le *listEnv) script(cols []string, rows [][]driver.Value, errAt int) {
	le.e.handler.Store(fakesql.Handler(func(ctx context.Context, q string, args []driver.NamedValue) (*fakesql.Answer, error) {
		if le.scanFault && errAt >= 0 && errAt < len(rows) {
			// the other way a row source fails: the row arrives but cannot be scanned (NULL in every column)
			rows2 := append([][]driver.Value{}, rows...)
			rows2[errAt] = make([]driver.Value, len(cols))
			return &fakesql.Answer{Cols: cols, Rows: rows2, ErrAt: -1}, nil
		}
		return &fakesql.Answer{Cols: cols, Rows: rows, ErrAt: errAt}, nil
	}))
}

func collectStr(ch chan string) (string, bool) {
	var b strings.Builder
	t := time.NewTimer(20 * time.Second)
	defer t.Stop()
	for {
		select {
		case s, ok := <-ch:
			if !ok {
				return b.String(), true
			}
			b.WriteString(s)
		case <-t.C:
			return b.String(), false
		}
	}
}

func (le *listEnv) get(path string) string {
	rec := httptest.NewRecorder()
	req := httptest.NewRequest("GET", path, nil)
	le.router.ServeHTTP(rec, req)
	le.lastCode = rec.Code
	return rec.Body.String()
}

// one list case: n items, the row source fails at errAt (-1: never)
func (le *listEnv) runList(endpoint string, r *rand.Rand, n int, errAt int, specToks string, scanFault bool) {
	le.scanFault = scanFault
	class := classOf(r)
	want := n
	if errAt >= 0 && errAt < n {
		want = errAt
	}
	var body string
	var check func(doc any) (string, string)
	ctx := context.Background()
	strs := make([]string, n)
	for i := range strs {
		strs[i] = pick(r, class)
	}
	strRows := func() [][]driver.Value {
		rows := make([][]driver.Value, n)
		for i, s := range strs {
			rows[i] = []driver.Value{s}
		}
		return rows
	}
	stringList := func(path ...string) func(doc any) (string, string) {
		return func(doc any) (string, string) {
			cur := doc
			for _, p := range path {
				o, ok := asObj(cur)
				if !ok {
					return "shape", "no object at " + p
				}
				cur = o[p]
			}
			arr, ok := cur.([]any)
			if !ok {
				return "shape", fmt.Sprintf("%v is not an array", path)
			}
			if len(arr) != want {
				return "rows", fmt.Sprintf("%d items for %d rows", len(arr), want)
			}
			for i, x := range arr {
				s, ok := x.(string)
				if !ok {
					return "shape", fmt.Sprintf("item %d is not a string", i)
				}
				if s != decoded(strs[i]) {
					return "string|" + classify(strs[i]), fmt.Sprintf("item %d: %q came back as %q", i, clip(strs[i], 200), clip(s, 200))
				}
			}
			return "", ""
		}
	}
	var inputDesc any = map[string]any{"rows": clipAll(strs), "row_source_fails_at": errAt, "row_unscannable": scanFault, "string_class": class}
	switch endpoint {
	case "loki-labels":
		le.script([]string{"key"}, strRows(), errAt)
		ch, err := le.labels.Labels(ctx, 1700000000000, 1700000600000, 1)
		if err != nil {
			driverError("Labels: " + err.Error())
			return
		}
		body, _ = collectStr(ch)
		check = stringList("data")
	case "loki-label-values":
		le.script([]string{"val"}, strRows(), errAt)
		ch, err := le.labels.Values(ctx, "job", nil, 1700000000000, 1700000600000, 1)
		if err != nil {
			driverError("Values: " + err.Error())
			return
		}
		body, _ = collectStr(ch)
		check = stringList("data")
	case "loki-series":
		maps := make([]map[string]string, n)
		rows := make([][]driver.Value, n)
		for i := range maps {
			maps[i] = labelsOf(r, class, 1+r.Intn(3))
			// the stored document: what the writer side produced for these labels (a JSON object)
			b, _ := json.Marshal(decodedMap(maps[i]))
			rows[i] = []driver.Value{string(b)}
		}
		inputDesc = map[string]any{"label_documents": n, "row_source_fails_at": errAt, "row_unscannable": scanFault, "string_class": class}
		le.script([]string{"labels"}, rows, errAt)
		ch, err := le.labels.Series(ctx, []string{`{a="b"}`}, 1700000000000, 1700000600000, 1)
		if err != nil {
			driverError("Series: " + err.Error())
			return
		}
		body, _ = collectStr(ch)
		check = func(doc any) (string, string) {
			o, ok := asObj(doc)
			if !ok || o["status"] != "success" {
				return "shape", "not {status:success,...}"
			}
			arr, ok := o["data"].([]any)
			if !ok {
				return "shape", "data is not an array"
			}
			if len(arr) != want {
				return "rows", fmt.Sprintf("%d items for %d rows", len(arr), want)
			}
			for i, x := range arr {
				lb, err := labelsFrom(x)
				if err != nil || !sameLabels(lb, decodedMap(maps[i])) {
					return "labels", fmt.Sprintf("item %d: %q came back as %v", i, maps[i], x)
				}
			}
			return "", ""
		}
	case "tempo-tags":
		le.script([]string{"key"}, strRows(), errAt)
		body = le.get("/api/search/tags")
		check = stringList("tagNames")
	case "tempo-tag-values":
		le.script([]string{"val"}, strRows(), errAt)
		body = le.get("/api/search/tag/" + url.PathEscape("http.method") + "/values")
		check = stringList("tagValues")
	case "tempo-search":
		rows := make([][]driver.Value, n)
		type tr struct {
			id, svc, name string
			start, dur    int64
		}
		trs := make([]tr, n)
		for i := range rows {
			trs[i] = tr{hex.EncodeToString([]byte(fmt.Sprintf("%016d", i))), pick(r, class), pick(r, class), 1700000000000000000 + int64(i), int64(r.Intn(100000))}
			rows[i] = []driver.Value{trs[i].id, trs[i].svc, trs[i].name, trs[i].start, trs[i].dur}
		}
		inputDesc = map[string]any{"traces": n, "row_source_fails_at": errAt, "row_unscannable": scanFault, "string_class": class}
		le.script([]string{"trace_id", "root_service_name", "root_trace_name", "start_time_unix_nano", "duration_ms"}, rows, errAt)
		body = le.get("/api/search?limit=20&start=1700000000&end=1700000600")
		check = func(doc any) (string, string) {
			o, ok := asObj(doc)
			if !ok {
				return "shape", "not an object"
			}
			arr, ok := o["traces"].([]any)
			if !ok {
				return "shape", "traces is not an array"
			}
			if len(arr) != want {
				return "rows", fmt.Sprintf("%d items for %d rows", len(arr), want)
			}
			for i, x := range arr {
				t, ok := asObj(x)
				if !ok {
					return "shape", "trace is not an object"
				}
				if t["traceID"] != trs[i].id || t["rootServiceName"] != decoded(trs[i].svc) || t["rootTraceName"] != decoded(trs[i].name) ||
					fmt.Sprint(t["startTimeUnixNano"]) != fmt.Sprint(trs[i].start) || fmt.Sprint(t["durationMs"]) != fmt.Sprint(trs[i].dur) {
					return "string|" + worstClass(classify(trs[i].svc), classify(trs[i].name)), fmt.Sprintf("trace %d came back as %v", i, t)
				}
			}
			return "", ""
		}
	case "tempo-trace":
		traceID := []byte("0123456789abcdef")
		rows := make([][]driver.Value, n)
		names := make([]string, n)
		attrs := make([][]traceAttr, n)
		times := make([][2]uint64, n)
		for i := range rows {
			names[i] = pickValid(r, class)
			// attributes of every scalar AnyValue kind (string, bool, int, double, bytes) with awkward values
			attrs[i] = traceAttrs(r, class)
			kvs := []*common.KeyValue{{Key: "service.name", Value: &common.AnyValue{Value: &common.AnyValue_StringValue{StringValue: "svc"}}}}
			for _, a := range attrs[i] {
				kvs = append(kvs, &common.KeyValue{Key: a.key, Value: a.value()})
			}
			times[i] = [2]uint64{uint64(1700000000000000000 + r.Int63n(1e15)), 0}
			times[i][1] = times[i][0] + uint64(r.Int63n(1e12))
			if r.Intn(8) == 0 {
				times[i][1] = 1<<64 - 1 - uint64(r.Intn(3)) // beyond 2^53 and 2^63: only exact as an integer text
			}
			sp := &v1.Span{TraceId: traceID, SpanId: []byte(fmt.Sprintf("%08d", i)), Name: names[i],
				StartTimeUnixNano: times[i][0], EndTimeUnixNano: times[i][1], Attributes: kvs}
			pb, err := proto.Marshal(sp)
			if err != nil {
				driverError("proto.Marshal: " + err.Error())
				return
			}
			rows[i] = []driver.Value{string(traceID), string(sp.SpanId), "", int64(sp.StartTimeUnixNano), int64(1000), int64(2), string(pb)}
		}
		inputDesc = map[string]any{"spans": clipAll(names), "row_source_fails_at": errAt, "row_unscannable": scanFault, "string_class": class}
		le.script([]string{"trace_id", "span_id", "parent_id", "timestamp_ns", "duration_ns", "payload_type", "payload"}, rows, errAt)
		body = le.get("/api/traces/" + hex.EncodeToString(traceID))
		code := le.lastCode
		check = func(doc any) (string, string) {
			o, ok := asObj(doc)
			if !ok {
				return "shape", "not an object"
			}
			if want == 0 {
				// no span: Tempo's answer is 404 "trace not found" (e56f58e), one error document and nothing of the trace document
				if _, has := o["resourceSpans"]; code != 404 || has || o["status"] != "error" || o["error"] != "trace not found" {
					return "shape", fmt.Sprintf("no span: status %d, not the one 404 error document", code)
				}
				return "", ""
			}
			if code != 200 {
				return "shape", fmt.Sprintf("status %d for %d spans", code, want)
			}
			rs, ok := o["resourceSpans"].([]any)
			if !ok || len(rs) != 1 {
				return "shape", "resourceSpans is not a one-element array"
			}
			r0, _ := asObj(rs[0])
			ils, ok := r0["instrumentationLibrarySpans"].([]any)
			if !ok || len(ils) != 1 {
				return "shape", "instrumentationLibrarySpans is not a one-element array"
			}
			i0, _ := asObj(ils[0])
			spans, ok := i0["spans"].([]any)
			if !ok {
				return "shape", "spans is not an array"
			}
			if len(spans) != want {
				return "rows", fmt.Sprintf("%d spans for %d rows", len(spans), want)
			}
			okAttr := map[string]int{}
			defer func() {
				for k_, v_ := range okAttr {
					stat("trace_attr_"+k_+"_ok", v_)
				}
			}()
			for i, x := range spans {
				s, _ := asObj(x)
				if s == nil || s["name"] != names[i] {
					return "string|" + classify(names[i]), fmt.Sprintf("span %d name %q came back as %v", i, names[i], s["name"])
				}
				if fmt.Sprint(s["startTimeUnixNano"]) != strconv.FormatUint(times[i][0], 10) || fmt.Sprint(s["endTimeUnixNano"]) != strconv.FormatUint(times[i][1], 10) {
					return "timestamp", fmt.Sprintf("span %d: start/end %v/%v, stored %d/%d", i, s["startTimeUnixNano"], s["endTimeUnixNano"], times[i][0], times[i][1])
				}
				got, ok := s["attributes"].([]any)
				if !ok || len(got) != len(attrs[i])+1 {
					return "shape", fmt.Sprintf("span %d: attributes %v for %d stored attributes", i, s["attributes"], len(attrs[i])+1)
				}
				// the attributes travel through a map keyed by name (parseOTLP): their order is free, the keys are distinct
				byKey := map[string]any{}
				for _, g := range got {
					ao, _ := asObj(g)
					if k_, isStr := ao["key"].(string); isStr {
						byKey[k_] = g
					}
				}
				if len(byKey) != len(got) {
					return "shape", fmt.Sprintf("span %d: attributes without a key or with the same key: %v", i, got)
				}
				for k, a := range attrs[i] {
					ao, _ := asObj(byKey[a.key])
					vo, _ := asObj(ao["value"])
					txt, isStr := vo["stringValue"].(string)
					if ao == nil || vo == nil || !isStr {
						return "shape", fmt.Sprintf("span %d attribute %d (%q) came back as %v in %v", i, k, a.key, byKey[a.key], got)
					}
					if !a.rendered(txt) {
						return "attr-" + a.kind, fmt.Sprintf("span %d: %s attribute %s stored as %s, response carries %q", i, a.kind, a.key, a.describe(), clip(txt, 200))
					}
					okAttr[a.kind]++
				}
			}
			return "", ""
		}
	}
	stat("list_"+endpoint, 1)
	kind, msg := "", ""
	doc, err := strictParse([]byte(body))
	if err != nil {
		kind, msg = "invalid-json", err.Error()
	} else {
		kind, msg = check(doc)
	}
	if kind == "" {
		stat("list_ok", 1)
		if want >= 2 {
			stat("nontrivial_ok", 1)
		}
		if specToks != "" {
			real, lerr := lexTokens([]byte(body))
			if lerr != nil || real != specToks {
				conformance(map[string]any{"writer": endpoint, "rows": n, "err_at": errAt, "spec_tokens": specToks, "real_tokens": real, "body": clip(body, 1000)})
			}
		}
		return
	}
	sig := endpoint + "|"
	if strings.HasPrefix(kind, "string|") {
		sig += strings.TrimPrefix(kind, "string|") + "|string"
	} else {
		// which content class is to blame: the worst one among the strings of the case
		cl := "plain"
		for _, s := range strs {
			cl = worstClass(cl, classify(s))
		}
		if endpoint == "loki-series" || endpoint == "tempo-search" || endpoint == "tempo-trace" {
			cl = class
		}
		sig += cl + "|" + kind
	}
	fail(Failure{Signature: sig, Endpoint: endpoint, Msg: msg, Input: inputDesc, Body: body})
}

func clipAll(ss []string) []string {
	o := make([]string, len(ss))
	for i, s := range ss {
		o[i] = fmt.Sprintf("%q", clip(s, 120))
	}
	if len(o) > 12 {
		o = append(o[:12], fmt.Sprintf("... %d more", len(ss)-12))
	}
	return o
}

var listEndpoints = map[string][]string{
	"labels": {"loki-labels", "loki-label-values", "loki-series"},
	"tags":   {"tempo-tags", "tempo-tag-values", "tempo-search"},
	"trace":  {"tempo-trace"},
}

// string items: the real token string can be compared with the spec's
var stringItems = map[string]bool{"loki-labels": true, "loki-label-values": true, "tempo-tags": true, "tempo-tag-values": true}

type listJob struct {
	sizes    []int // tempo-search-traceql: traces per channel batch
	endpoint string
	n, errAt int
	scan     bool
	toks     string
	seed     int64
}

func runLists(cases []*SpecCase, seed int64, full int, par int) {
	var jobs []listJob
	seen := map[string]bool{}
	for _, c := range cases {
		if c.W == "traceql" {
			// the batch structure IS the case: every batching TLC enumerated, delivered as it is
			sizes := make([]int, len(c.In))
			for b := range c.In {
				sizes[b] = len(c.In[b])
			}
			stat("traceql_spec_cases", 1)
			jobs = append(jobs, listJob{endpoint: "tempo-search-traceql", sizes: sizes, toks: specTokens(c.Toks), seed: seed*7919 + int64(c.N)})
			continue
		}
		eps, ok := listEndpoints[c.W]
		if !ok {
			continue
		}
		// the batch structure does not exist for row-driven endpoints: flatten
		n, errAt := 0, -1
		for _, b := range c.In {
			for _, code := range b {
				if code == 9 {
					errAt = n
				} else {
					n++
				}
			}
		}
		key := fmt.Sprintf("%s/%d/%d", c.W, n, errAt)
		if seen[key] {
			continue
		}
		seen[key] = true
		for _, ep := range eps {
			t := ""
			if stringItems[ep] {
				t = specTokens(c.Toks)
			}
			jobs = append(jobs, listJob{endpoint: ep, n: n, errAt: errAt, toks: t, seed: seed*7919 + int64(c.N)})
			if errAt >= 0 {
				jobs = append(jobs, listJob{endpoint: ep, n: n, errAt: errAt, toks: t, seed: seed*7919 + int64(c.N), scan: true})
			}
		}
	}
	// seeded hostile sample with more rows
	r := rand.New(rand.NewSource(seed ^ 0x11575))
	for i := 0; i < full; i++ {
		for _, eps := range listEndpoints {
			for _, ep := range eps {
				n := []int{0, 1, 2, 3, 5, 17, 150}[r.Intn(7)]
				errAt := -1
				if r.Intn(6) == 0 && n > 0 {
					errAt = r.Intn(n)
				}
				jobs = append(jobs, listJob{endpoint: ep, n: n, errAt: errAt, seed: r.Int63(), scan: errAt >= 0 && r.Intn(2) == 0})
			}
		}
	}
	// seeded batchings with more batches and bigger batches, empty ones at every position
	for i := 0; i < full; i++ {
		sizes := make([]int, 1+r.Intn(7))
		for b := range sizes {
			sizes[b] = []int{0, 0, 0, 1, 1, 2, 3, 20}[r.Intn(8)]
		}
		jobs = append(jobs, listJob{endpoint: "tempo-search-traceql", sizes: sizes, seed: r.Int63()})
	}
	ch := make(chan listJob, 64)
	var wg sync.WaitGroup
	for i := 0; i < par; i++ {
		wg.Add(1)
		go func() {
			defer wg.Done()
			le := newListEnv()
			for j := range ch {
				if j.endpoint == "tempo-search-traceql" {
					le.runTraceQL(rand.New(rand.NewSource(j.seed)), j.sizes, j.toks)
					continue
				}
				le.runList(j.endpoint, rand.New(rand.NewSource(j.seed)), j.n, j.errAt, j.toks, j.scan)
			}
		}()
	}
	for _, j := range jobs {
		ch <- j
	}
	close(ch)
	wg.Wait()
}

var _ = reflect.DeepEqual
var _ http.Handler

package main

// Black-box binding: the REAL binary (package main of the repository, built from the current tree) is started the way
// an operator would - QRYN_LOGIN / QRYN_PASSWORD, MODE=reader - with a TCP listener owned by this driver in place of
// ClickHouse.  main.go's boolEnv reads the literal environment variable "key", so key=1 skips the schema
// initialisation that would need a native-protocol server.  The reader's database registry answers Ping without
// touching the database during its first 30 s, so until then EVERY connection accepted by the listener was caused by
// a request: unauthenticated requests must cause none.  The run ends (and the process is killed) before that.

import (
	"encoding/json"
	"flag"
	"fmt"
	"io"
	"net"
	"net/http"
	"os"
	"os/exec"
	"strings"
	"sync/atomic"
	"time"
)

func nowS() float64 { return float64(time.Now().UnixNano()) / 1e9 }

func cmdBlackbox(args []string) {
	fs := flag.NewFlagSet("blackbox", flag.ExitOnError)
	repo := fs.String("repo", "/repo", "")
	bin := fs.String("bin", "", "")
	casesP := fs.String("cases", "", "")
	out := fs.String("out", "", "")
	tracep := fs.String("trace", "", "")
	logp := fs.String("log", "", "")
	seed := fs.Int64("seed", 1, "")
	budget := fs.Float64("budget", 24, "seconds after process start during which requests are sent (< 30)")
	standalone := fs.Bool("standalone", false, "start the stand-alone reader (reader.Init(cfg, nil): own router, own middlewares, own listener) instead of the binary")
	corsOv := fs.String("cors", "", "stand-alone only: on / off overrides the CORS setting of the cases' configuration")
	pair := fs.Int("pair", -1, "stand-alone only: index into standalonePairs, credentials with leading / trailing / inner blanks")
	fs.Parse(args)
	bindName := "black-box"
	if *standalone {
		bindName = "standalone"
	}
	if *pair >= 0 {
		forcedPair = &standalonePairs[*pair%len(standalonePairs)]
	}
	t0 := nowS()
	if *budget > 27 {
		*budget = 27
	}
	ro, _, _ := tables(*repo)
	rc := map[string]RouteCase{}
	for _, r := range ro.Worlds["rdr"] {
		rc[r.ID] = r
	}
	all := readCases(*casesP)
	var cases []*Case
	var cfg *CaseCfg
	skippedCfg := 0
	for _, cs := range all {
		if !strings.HasPrefix(cs.Route, "rdr:") {
			continue
		}
		if *standalone && rc[cs.Route].Group != "reader" {
			// reader.performV1APIRouting registers the reader route tables only; gorilla/mux runs middlewares for matched routes
			continue
		}
		if cfg == nil {
			c := cs.Cfg
			cfg = &c
		}
		if fmt.Sprint(cs.Cfg) != fmt.Sprint(*cfg) {
			skippedCfg++
			continue
		}
		cases = append(cases, cs)
	}
	if len(cases) == 0 {
		fail("no cases for the rdr world")
	}
	if *standalone && *corsOv != "" {
		cfg.Cors = *corsOv == "on"
	}
	cz := Concretizer{*seed}
	user, pass := cz.str(cfg.Cred, cfg.Cred.U), cz.str(cfg.Cred, cfg.Cred.P)

	// the stand-in for ClickHouse: accepts, counts, hangs up
	ch, err := net.Listen("tcp", "127.0.0.1:0")
	if err != nil {
		fail(err.Error())
	}
	var accepts int64
	go func() {
		for {
			c, err := ch.Accept()
			if err != nil {
				return
			}
			atomic.AddInt64(&accepts, 1)
			c.Close()
		}
	}()
	hl, err := net.Listen("tcp", "127.0.0.1:0")
	if err != nil {
		fail(err.Error())
	}
	port := hl.Addr().(*net.TCPAddr).Port
	hl.Close()

	cmd := exec.Command(*bin)
	if *standalone {
		self, err := os.Executable()
		if err != nil {
			fail(err.Error())
		}
		cmd = exec.Command(self, "serve-standalone", "-user", user, "-pass", pass, "-cors", fmt.Sprint(cfg.Cors),
			"-port", fmt.Sprint(port), "-chport", fmt.Sprint(ch.Addr().(*net.TCPAddr).Port))
	}
	cmd.Env = []string{"PATH=" + os.Getenv("PATH"), "HOME=" + os.TempDir(),
		"QRYN_LOGIN=" + user, "QRYN_PASSWORD=" + pass, "MODE=reader", "key=1",
		"CLICKHOUSE_SERVER=127.0.0.1", fmt.Sprintf("CLICKHOUSE_PORT=%d", ch.Addr().(*net.TCPAddr).Port),
		fmt.Sprintf("PORT=%d", port), "HOST=127.0.0.1"}
	if cfg.Cors {
		cmd.Env = append(cmd.Env, "CORS_ALLOW_ORIGIN=*")
	}
	cmd.Dir = os.TempDir()
	var logf io.Writer = io.Discard
	if *logp != "" {
		f, err := os.Create(*logp)
		if err != nil {
			fail(err.Error())
		}
		defer f.Close()
		logf = f
	}
	cmd.Stdout, cmd.Stderr = logf, logf
	if err := cmd.Start(); err != nil {
		fail("cannot start the binary: " + err.Error())
	}
	started := nowS()
	exited := make(chan error, 1)
	go func() { exited <- cmd.Wait() }()
	kill := func() {
		cmd.Process.Kill()
		select {
		case <-exited:
		case <-time.After(3 * time.Second):
		}
	}
	defer kill()
	die := func(msg string) {
		kill()
		tail := ""
		if *logp != "" {
			b, _ := os.ReadFile(*logp)
			tail = trunc2(string(b), 1500)
		}
		fail(msg + "\n--- log tail ---\n" + tail)
	}
	addr := fmt.Sprintf("127.0.0.1:%d", port)
	up := false
	for nowS()-started < 12 {
		select {
		case err := <-exited:
			die(fmt.Sprintf("the binary exited during start-up: %v", err))
		default:
		}
		c, err := net.DialTimeout("tcp", addr, 200*time.Millisecond)
		if err == nil {
			c.Close()
			up = true
			break
		}
		time.Sleep(50 * time.Millisecond)
	}
	if !up {
		die("the binary did not open its HTTP port within 12 s")
	}
	startup := nowS() - started
	acceptsAtStart := atomic.LoadInt64(&accepts)

	client := &http.Client{Timeout: 3 * time.Second,
		Transport:     &http.Transport{DisableCompression: true, MaxIdleConnsPerHost: 4},
		CheckRedirect: func(req *http.Request, via []*http.Request) error { return http.ErrUseLastResponse }}
	res := newResult("real binary (go build of package main), MODE=reader, real HTTP; TCP listener in place of ClickHouse counts connections")
	if *standalone {
		res = newResult("stand-alone reader: reader.Init(cfg, nil) in a child process (own router, applyMiddlewares, own listener), real HTTP; TCP listener in place of ClickHouse counts connections")
	}
	var tw *jsonLines
	if *tracep != "" {
		tw = newJSONLines(*tracep)
		defer tw.Close()
	}
	carries := func(cs *Case) bool { return cs.Cls == "right" || cs.Cls == "rightThenJunk" }
	skipped := 0
	send := func(cs *Case, unauth bool) {
		if nowS()-started > *budget {
			skipped++
			return
		}
		r, ok := rc[cs.Route]
		if !ok {
			die("case for unknown route " + cs.Route)
		}
		has, auth := cz.authorization(cs)
		if has && strings.TrimSpace(auth) == "Basic" && cs.Hdr.Kind == "basic" {
			// optional whitespace around a field value is not part of it (RFC 9110): "Basic " arrives as "Basic",
			// a one-token header; the case is logged and judged as what the server receives
			c2 := *cs
			c2.Hdr = Hdr{Kind: "noSpace", Enc: "clean", Payload: []string{}}
			c2.Cls = "noSpace"
			c2.Exp = nil
			cs = &c2
		}
		target := "http://" + addr + r.Path
		if r.Group == "reader" && (cs.Method == "GET" || cs.Method == "POST") {
			target += queryString
		}
		req, err := http.NewRequest(cs.Method, target, strings.NewReader(""))
		if err != nil {
			die("cannot build request: " + err.Error())
		}
		setHeaders(req, cs, has, auth)
		before := atomic.LoadInt64(&accepts)
		resp, err := client.Do(req)
		o := Obs{Hr: "unknown"}
		if err != nil {
			select {
			case e := <-exited:
				die(fmt.Sprintf("the binary died (%v) at %s %s", e, cs.Method, r.Path))
			default:
			}
			if unauth {
				die(fmt.Sprintf("transport error on an unauthenticated request %s %s: %v", cs.Method, r.Path, err))
			}
			o.Status = 0
			o.Body = "transport: " + err.Error()
		} else {
			b, _ := io.ReadAll(io.LimitReader(resp.Body, 256))
			io.Copy(io.Discard, resp.Body)
			resp.Body.Close()
			o.Status = resp.StatusCode
			o.Marks = marksOf(resp.Header)
			o.Body = string(b)
			if resp.Header.Get("Content-Encoding") == "gzip" {
				o.Body = "<gzip>"
			}
		}
		o.Be = atomic.LoadInt64(&accepts) > before
		ex := func() *Example {
			o2 := o
			o2.Body = trunc(o.Body, 120)
			return &Example{Case: cs, Obs: o2, User: user, Pass: pass, Auth: auth, HasAuth: has, Path: r.Path, Binding: bindName, Expected: cs.Exp}
		}
		res.account(cs, r.Group, o, ex, false)
		if tw != nil {
			e := event(cs, r.Group, o)
			tw.Encode(e)
		}
	}
	for _, cs := range cases {
		if !carries(cs) {
			send(cs, true)
		}
	}
	time.Sleep(150 * time.Millisecond)
	res.AcceptsUnauth = int(atomic.LoadInt64(&accepts) - acceptsAtStart)
	unauthEnd := nowS() - started
	for _, cs := range cases {
		if carries(cs) {
			send(cs, false)
		}
	}
	time.Sleep(100 * time.Millisecond)
	res.Accepts = int(atomic.LoadInt64(&accepts))
	res.Cases = res.Requests
	if res.AcceptsUnauth > 0 && len(res.Findings) == 0 {
		// a connection that could not be attributed to one request (asynchronous): still a breach of "before any
		// database interaction", reported against the phase
		res.Findings["database-connection-during-unauthenticated-phase|*"] = &Finding{Kind: "database-connection-during-unauthenticated-phase", Cls: "*",
			Count: res.AcceptsUnauth, Methods: map[string]int{}, Groups: map[string]int{}}
	}
	if unauthEnd > 29 {
		die("the unauthenticated phase ran past the watchdog's first database ping; connection counts are not attributable")
	}
	res.Notes = append(res.Notes, fmt.Sprintf("start-up %.1fs, unauthenticated phase ended %.1fs after start, %d cases skipped for time, %d cases of other configurations skipped, login %q password %q cors %v",
		startup, unauthEnd, skipped, skippedCfg, user, pass, cfg.Cors))
	res.WallS = nowS() - t0
	kill()
	writeJSON(*out, res)
}

func trunc2(s string, n int) string {
	if len(s) > n {
		return s[len(s)-n:]
	}
	return s
}

type jsonLines struct {
	f   *os.File
	enc *json.Encoder
}

func newJSONLines(path string) *jsonLines {
	f, err := os.Create(path)
	if err != nil {
		fail(err.Error())
	}
	return &jsonLines{f, json.NewEncoder(f)}
}
func (j *jsonLines) Encode(v any) { j.enc.Encode(v) }
func (j *jsonLines) Close()       { j.f.Close() }

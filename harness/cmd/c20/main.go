// c20 binds Auth.tla (spec/http) to the real router of qryn.
//
//	c20 routes   -repo R -out routes.json
//	    the middleware chain (order of app.Use in main.go) and the walked route tables of three worlds:
//	    std (mode all), view (mode all + stand-ins for the method-less routes view.Init registers when the UI is
//	    embedded), rdr (mode reader: what the real binary serves without a native ClickHouse)
//	c20 run      -repo R -cases cases.ndjson -out result.json -trace trace.ndjson -seed S
//	    in process: every TLC case is sent through router.ServeHTTP of a router assembled in main()'s order with the
//	    REAL middlewares and route tables over recording back-ends
//	c20 blackbox -repo R -bin qryn -cases cases.ndjson -out bb.json -trace bbtrace.ndjson -seed S
//	    the real binary over real HTTP, a TCP listener in place of ClickHouse counts the connections
package main

import (
	"context"
	"encoding/base64"
	"encoding/json"
	"errors"
	"flag"
	"fmt"
	"io"
	"net/http"
	"net/http/httptest"
	"os"
	"regexp"
	"sort"
	"strings"

	"github.com/gorilla/mux"
	clconfig "github.com/metrico/cloki-config"
	"github.com/metrico/cloki-config/config"
	rconfig "github.com/metrico/qryn/reader/config"
	rmodel "github.com/metrico/qryn/reader/model"
	rrouter "github.com/metrico/qryn/reader/router"
	rlogger "github.com/metrico/qryn/reader/utils/logger"
	"github.com/metrico/qryn/reader/utils/middleware"
	"github.com/metrico/qryn/shared/commonroutes"
	"github.com/metrico/qryn/view"
	wconfig "github.com/metrico/qryn/writer/config"
	controllerv1 "github.com/metrico/qryn/writer/controller"
	"github.com/metrico/qryn/writer/plugin"
	"github.com/metrico/qryn/writer/service"
	wlogger "github.com/metrico/qryn/writer/utils/logger"
)

var AllMethods = []string{"GET", "POST", "PUT", "DELETE", "PATCH", "HEAD", "OPTIONS", "BREW"}

// ---------------------------------------------------------------------------------------------------------------
// recording back-ends

var obsHandler, obsBackend int

type recDB struct{}

func (recDB) GetDB(ctx context.Context) (*rmodel.DataDatabasesMap, error) {
	obsBackend++
	return nil, errors.New("verif: recording registry, no database")
}
func (recDB) Run()  {}
func (recDB) Stop() {}
func (recDB) Ping() error {
	obsBackend++
	return errors.New("verif: recording registry, no database")
}

type recSvc struct{}

func (recSvc) get() (service.IInsertServiceV2, error) {
	obsBackend++
	return nil, errors.New("verif: recording registry, no insert service")
}
func (r recSvc) GetTimeSeriesService(id string) (service.IInsertServiceV2, error)    { return r.get() }
func (r recSvc) GetSamplesService(id string) (service.IInsertServiceV2, error)       { return r.get() }
func (r recSvc) GetMetricsService(id string) (service.IInsertServiceV2, error)       { return r.get() }
func (r recSvc) GetSpansService(id string) (service.IInsertServiceV2, error)         { return r.get() }
func (r recSvc) GetSpansSeriesService(id string) (service.IInsertServiceV2, error)   { return r.get() }
func (r recSvc) GetProfileInsertService(id string) (service.IInsertServiceV2, error) { return r.get() }
func (recSvc) Run()                                                                  {}
func (recSvc) Stop()                                                                 {}

// ---------------------------------------------------------------------------------------------------------------
// assembling the router the way main() does

type World struct {
	User, Pass string
	Cors       bool
	Mode       string // all | reader
	View       bool   // add stand-ins for view.Init's routes when the UI is not embedded
}

const (
	condAuth   = `cfg.Setting.AUTH_SETTINGS.BASIC.Username!=""&&cfg.Setting.AUTH_SETTINGS.BASIC.Password!=""`
	condCors   = `cfg.Setting.HTTP_SETTINGS.Cors.Enable`
	condWriter = `cfg.Setting.SYSTEM_SETTINGS.Mode=="all"||cfg.Setting.SYSTEM_SETTINGS.Mode=="writer"||cfg.Setting.SYSTEM_SETTINGS.Mode==""`
	condReader = `cfg.Setting.SYSTEM_SETTINGS.Mode=="all"||cfg.Setting.SYSTEM_SETTINGS.Mode=="reader"||cfg.Setting.SYSTEM_SETTINGS.Mode==""`
)

var mwName = map[string]string{
	"middleware.BasicAuthMiddleware":      "auth",
	"middleware.AcceptEncodingMiddleware": "gzip",
	"middleware.CorsMiddleware":           "cors",
	"middleware.LoggingMiddleware":        "log",
}

func chainOf(items []WItem) []string {
	var res []string
	for _, it := range items {
		if it.Kind == "use" {
			n, ok := mwName[it.Name]
			if !ok {
				drift("main() installs a middleware the driver does not know: %s", it.Name)
			}
			res = append(res, n)
		}
	}
	return res
}

type RouteEntry struct {
	Group   string   `json:"group"`
	Tmpl    string   `json:"tmpl"`
	Methods []string `json:"methods"` // nil: any method
	Prefix  bool     `json:"prefix,omitempty"`
	re      *regexp.Regexp
	route   *mux.Route
}

type Assembled struct {
	App     *mux.Router
	Entries []*RouteEntry
	Cfg     *clconfig.ClokiConfig
}

var readerTables = map[string]func(app *mux.Router, reg rmodel.IDBRegistry, cfg *clconfig.ClokiConfig){
	"RouteQueryRangeApis":         func(a *mux.Router, r rmodel.IDBRegistry, c *clconfig.ClokiConfig) { rrouter.RouteQueryRangeApis(a, r) },
	"RouteSelectLabels":           func(a *mux.Router, r rmodel.IDBRegistry, c *clconfig.ClokiConfig) { rrouter.RouteSelectLabels(a, r) },
	"RouteSelectPrometheusLabels": func(a *mux.Router, r rmodel.IDBRegistry, c *clconfig.ClokiConfig) { rrouter.RouteSelectPrometheusLabels(a, r) },
	"RoutePrometheusQueryRange": func(a *mux.Router, r rmodel.IDBRegistry, c *clconfig.ClokiConfig) {
		rrouter.RoutePrometheusQueryRange(a, r, c.Setting.SYSTEM_SETTINGS.QueryStats)
	},
	"RouteTempo":      func(a *mux.Router, r rmodel.IDBRegistry, c *clconfig.ClokiConfig) { rrouter.RouteTempo(a, r) },
	"RouteMiscApis":   func(a *mux.Router, r rmodel.IDBRegistry, c *clconfig.ClokiConfig) { rrouter.RouteMiscApis(a) },
	"RouteProf":       func(a *mux.Router, r rmodel.IDBRegistry, c *clconfig.ClokiConfig) { rrouter.RouteProf(a, r) },
	"PluggableRoutes": func(a *mux.Router, r rmodel.IDBRegistry, c *clconfig.ClokiConfig) { rrouter.PluggableRoutes(a, r) },
}

func assemble(w World, items []WItem, readerCalls []string) *Assembled {
	st := config.ClokiBaseSettingServer{}
	st.AUTH_SETTINGS.BASIC.Username = w.User
	st.AUTH_SETTINGS.BASIC.Password = w.Pass
	st.HTTP_SETTINGS.Cors.Enable = w.Cors
	st.HTTP_SETTINGS.Cors.Origin = "*"
	st.HTTP_SETTINGS.InputBufferMB = 200
	st.SYSTEM_SETTINGS.Mode = w.Mode
	st.SYSTEM_SETTINGS.RetryAttempts = 1
	st.FingerPrintType = 1
	st.ClokiReader.ViewPath = "/etc/qryn-view" // the default of cloki-config
	st.LOG_SETTINGS.Level = "error"
	cfg := &clconfig.ClokiConfig{Setting: &st}

	rlogger.Logger.SetOutput(io.Discard)
	wlogger.Logger.SetOutput(io.Discard)
	app := mux.NewRouter() // main(): app := mux.NewRouter()
	res := &Assembled{App: app, Cfg: cfg}
	seen := map[*mux.Route]bool{}
	collect := func(group string) {
		app.Walk(func(route *mux.Route, router *mux.Router, ancestors []*mux.Route) error {
			if seen[route] {
				return nil
			}
			seen[route] = true
			if route.GetHandler() == nil {
				return nil
			}
			tmpl, err := route.GetPathTemplate()
			if err != nil {
				drift("route without a path template in group %s", group)
			}
			e := &RouteEntry{Group: group, Tmpl: tmpl, route: route}
			if ms, err := route.GetMethods(); err == nil {
				e.Methods = ms
			}
			rs, err := route.GetPathRegexp()
			if err != nil {
				drift("route %s: no path regexp", tmpl)
			}
			e.re = regexp.MustCompile(rs)
			e.Prefix = !strings.HasSuffix(rs, "$")
			res.Entries = append(res.Entries, e)
			return nil
		})
	}
	modeWriter := w.Mode == "all" || w.Mode == "writer" || w.Mode == ""
	modeReader := w.Mode == "all" || w.Mode == "reader" || w.Mode == ""
	for _, it := range items {
		switch it.Kind + ":" + it.Name {
		case "use:middleware.BasicAuthMiddleware":
			if it.Cond != condAuth {
				drift("basic auth is installed under a condition the driver does not know: %q", it.Cond)
			}
			if cfg.Setting.AUTH_SETTINGS.BASIC.Username != "" && cfg.Setting.AUTH_SETTINGS.BASIC.Password != "" {
				app.Use(middleware.BasicAuthMiddleware(cfg.Setting.AUTH_SETTINGS.BASIC.Username, cfg.Setting.AUTH_SETTINGS.BASIC.Password))
			}
		case "use:middleware.AcceptEncodingMiddleware":
			if it.Cond != "" {
				drift("accept-encoding middleware under condition %q", it.Cond)
			}
			app.Use(middleware.AcceptEncodingMiddleware)
		case "use:middleware.CorsMiddleware":
			if it.Cond != condCors {
				drift("cors middleware under condition %q", it.Cond)
			}
			if cfg.Setting.HTTP_SETTINGS.Cors.Enable {
				app.Use(middleware.CorsMiddleware(cfg.Setting.HTTP_SETTINGS.Cors.Origin))
			}
		case "use:middleware.LoggingMiddleware":
			if it.Cond != "" {
				drift("logging middleware under condition %q", it.Cond)
			}
			tpl := it.Arg
			if tpl == "" {
				tpl = "[{{.status}}] {{.method}} {{.url}} - LAT:{{.latency}}"
			}
			app.Use(middleware.LoggingMiddleware(tpl))
		case "call:commonroutes.RegisterCommonRoutes":
			if it.Cond != "" {
				drift("common routes under condition %q", it.Cond)
			}
			commonroutes.RegisterCommonRoutes(app)
			collect("common")
		case "call:writer.Init":
			if it.Cond != condWriter {
				drift("writer.Init under condition %q", it.Cond)
			}
			if modeWriter {
				// writer.Init (writer/main_dev.go) without the ClickHouse connections: the same globals, the real
				// RegisterRoutes (-> performV1APIRouting -> writer/router/*.go) on the same router
				wconfig.Cloki = cfg
				controllerv1.Registry = recSvc{}
				controllerv1.FPCache = nil
				pro := controllerv1.NewMiddlewareConfig(controllerv1.WithExtraMiddlewareDefault...)
				tempo := controllerv1.NewMiddlewareConfig(controllerv1.WithExtraMiddlewareTempo...)
				(&plugin.QrynWriterPlugin{}).RegisterRoutes(*wconfig.Cloki.Setting, pro, tempo, app)
				collect("writer")
			}
		case "call:reader.Init":
			if it.Cond != condReader {
				drift("reader.Init under condition %q", it.Cond)
			}
			if modeReader {
				// reader.Init (reader/main.go) without dbRegistry.Init / watchdog.Init: the real route tables
				rconfig.Cloki = cfg
				for _, name := range readerCalls {
					fn, ok := readerTables[name]
					if !ok {
						drift("reader.performV1APIRouting calls apirouterv1.%s, which the driver does not know", name)
					}
					fn(app, recDB{}, cfg)
				}
				collect("reader")
			}
		case "call:view.Init":
			if it.Cond != condReader {
				drift("view.Init under condition %q", it.Cond)
			}
			if modeReader {
				view.Init(cfg, app) // the real one: registers nothing unless built with the embedded UI
				if w.View && !view.HaveStatic {
					viewStandIn(cfg, app)
				}
				collect("view")
			}
		case "call:httpStart":
		default:
			drift("main() wiring item the driver does not know: %s %s", it.Kind, it.Name)
		}
	}
	rlogger.Logger.SetOutput(io.Discard)
	wlogger.Logger.SetOutput(io.Discard)
	// observation only: note that the handler of the matched route was entered (innermost, inside every middleware)
	for _, e := range res.Entries {
		h := e.route.GetHandler()
		e.route.Handler(http.HandlerFunc(func(rw http.ResponseWriter, r *http.Request) {
			obsHandler++
			h.ServeHTTP(rw, r)
		}))
	}
	return res
}

// viewStandIn registers the route SHAPES of view.Init (view/main.go) with a stub handler: the UI bundle (view/dist) is
// not part of the tree, so the real function registers nothing here.  Same paths, no method restriction, same catch-all.
func viewStandIn(cfg *clconfig.ClokiConfig, m *mux.Router) {
	stub := func(w http.ResponseWriter, r *http.Request) { w.WriteHeader(200); w.Write([]byte("view")) }
	prefix := "/"
	if cfg.Setting.ClokiReader.ViewPath != "/etc/qryn-view" {
		prefix = cfg.Setting.ClokiReader.ViewPath
	}
	viewPath := strings.TrimSuffix(cfg.Setting.ClokiReader.ViewPath, "/")
	for _, path := range []string{viewPath + "/", viewPath + "/plugins", viewPath + "/users", viewPath + "/datasources", viewPath + "/datasources/{ds}"} {
		m.HandleFunc(path, stub)
	}
	m.PathPrefix(prefix).Handler(http.HandlerFunc(stub))
}

// ---------------------------------------------------------------------------------------------------------------
// route cases

type RouteCase struct {
	ID      string   `json:"id"`
	Group   string   `json:"group"` // none: nothing registered matches the path
	Path    string   `json:"path"`
	Methods []string `json:"methods"`
}

var varRe = regexp.MustCompile(`\{[^}]*\}`)

func concretePath(e *RouteEntry) string {
	p := varRe.ReplaceAllString(e.Tmpl, "v1")
	if e.Prefix {
		p = strings.TrimSuffix(p, "/") + "/assets/app.js"
	}
	return p
}

func methodsFor(a *Assembled, path string) (string, []string) {
	set := map[string]bool{}
	group := "none"
	for _, e := range a.Entries {
		var ok bool
		if e.Prefix {
			loc := e.re.FindStringIndex(path)
			ok = loc != nil && loc[0] == 0
		} else {
			ok = e.re.MatchString(path)
		}
		if !ok {
			continue
		}
		if group == "none" {
			group = e.Group
		}
		ms := e.Methods
		if ms == nil {
			ms = AllMethods
		}
		for _, m := range ms {
			set[m] = true
		}
	}
	var res []string
	for m := range set {
		res = append(res, m)
	}
	sort.Strings(res)
	return group, res
}

var strayPaths = []string{"/__verif_nope", "/ready/", "//ready", "/READY", "/api/v1/../../ready", "/%2e%2e/ready",
	"/loki/api/v1/push/extra", "/loki/api/v1", "/metrics/", "/config.json", "/api/v1/label//values"}

func routeCases(world string, a *Assembled, sample []string) []RouteCase {
	var res []RouteCase
	seen := map[string]bool{}
	add := func(path string) {
		if seen[path] {
			return
		}
		seen[path] = true
		g, ms := methodsFor(a, path)
		if ms == nil {
			ms = []string{}
		}
		res = append(res, RouteCase{ID: world + ":" + path, Group: g, Path: path, Methods: ms})
	}
	if sample == nil {
		for _, e := range a.Entries {
			add(concretePath(e))
		}
		for _, p := range strayPaths {
			add(p)
		}
	} else {
		for _, e := range a.Entries {
			if e.Group == "view" {
				add(concretePath(e))
			}
		}
		for _, p := range sample {
			add(p)
		}
	}
	return res
}

type RoutesOut struct {
	Wiring      []WItem                `json:"wiring"`
	ReaderCalls []string               `json:"reader_calls"`
	Chain       []string               `json:"chain"`
	Methods     []string               `json:"methods"`
	Worlds      map[string][]RouteCase `json:"worlds"`
	Entries     map[string]int         `json:"entries_per_group"`
	ViewEmbed   bool                   `json:"view_embedded"`
}

func worldOf(name, user, pass string, cors bool) World {
	switch name {
	case "std":
		return World{User: user, Pass: pass, Cors: cors, Mode: "all"}
	case "view":
		return World{User: user, Pass: pass, Cors: cors, Mode: "all", View: true}
	case "rdr":
		return World{User: user, Pass: pass, Cors: cors, Mode: "reader"}
	}
	fail("unknown world " + name)
	return World{}
}

var viewSample = []string{"/ready", "/loki/api/v1/push", "/api/v1/query", "/assets/app.js", "/__verif_nope"}

// defaultWiring: the wiring of main() as the driver knows it.  Used only for the black-box fallback when main.go can
// no longer be read (then nothing is assembled in process; the table merely says which paths to request).
var useDefaultWiring bool

func defaultWiring() ([]WItem, []string) {
	return []WItem{
			{Kind: "use", Name: "middleware.BasicAuthMiddleware", Cond: condAuth},
			{Kind: "use", Name: "middleware.AcceptEncodingMiddleware"},
			{Kind: "use", Name: "middleware.CorsMiddleware", Cond: condCors},
			{Kind: "use", Name: "middleware.LoggingMiddleware"},
			{Kind: "call", Name: "commonroutes.RegisterCommonRoutes"},
			{Kind: "call", Name: "writer.Init", Cond: condWriter},
			{Kind: "call", Name: "reader.Init", Cond: condReader},
			{Kind: "call", Name: "view.Init", Cond: condReader},
			{Kind: "call", Name: "httpStart"}},
		[]string{"RouteQueryRangeApis", "RouteSelectLabels", "RouteSelectPrometheusLabels", "RoutePrometheusQueryRange", "RouteTempo",
			"RouteMiscApis", "RouteProf", "PluggableRoutes"}
}

func tables(repo string) (*RoutesOut, []WItem, []string) {
	var items []WItem
	var calls []string
	if useDefaultWiring {
		items, calls = defaultWiring()
	} else {
		items = mainWiring(repo)
		calls = readerRouting(repo)
		writerRouting(repo)
	}
	out := &RoutesOut{Wiring: items, ReaderCalls: calls, Chain: chainOf(items), Methods: AllMethods, Worlds: map[string][]RouteCase{},
		Entries: map[string]int{}, ViewEmbed: view.HaveStatic}
	for _, wn := range []string{"std", "view", "rdr"} {
		a := assemble(worldOf(wn, "u", "p", true), items, calls)
		var sample []string
		if wn == "view" {
			sample = viewSample
		}
		out.Worlds[wn] = routeCases(wn, a, sample)
		if wn == "std" {
			for _, e := range a.Entries {
				out.Entries[e.Group]++
			}
		}
	}
	return out, items, calls
}

// ---------------------------------------------------------------------------------------------------------------
// cases from TLC and their concretisation

type Hdr struct {
	Kind    string   `json:"kind"`
	Enc     string   `json:"enc"`
	Payload []string `json:"payload"`
}
type Cred struct {
	U []string `json:"u"`
	P []string `json:"p"`
}
type CaseCfg struct {
	Cred Cred `json:"cred"`
	Cors bool `json:"cors"`
}
type Exp struct {
	Hr     bool     `json:"hr"`
	Be     bool     `json:"be"`
	Status int      `json:"status"`
	Marks  []string `json:"marks"`
}
type Case struct {
	Cfg    CaseCfg `json:"cfg"`
	Route  string  `json:"route"`
	Method string  `json:"method"`
	Hdr    Hdr     `json:"hdr"`
	Ae     string  `json:"ae"`
	Origin string  `json:"origin"`
	Cls    string  `json:"cls"`
	Reg    bool    `json:"reg"`
	Exp    []Exp   `json:"exp"`
}

// chunk pairs: equal length, distinct, colon-free -> {A, B, ":"} is a uniquely decodable code
var chunkPairs = [][2]string{
	{"qryn", "s3cr"}, {"x", "y"}, {"Ab", "aB"}, {"admin", "adm1n"}, {"us er", "p@ss "}, {"ü", "é"},
	{"%41", "%42"}, {"Basic", "basic"}, {"\"q\"", "'q'"}, {"a=", "=a"}, {"0", "O"}, {"pass\\", "pass/"},
}
var trailJunk = []string{"!", "*", "~~", "%", " x", "$=", "ä"}
var leadJunk = []string{"!", "*", "-", "~", "_", "%20"}
var otherSchemes = []string{"Bearer %s", "basic %s", "BASIC %s", "Digest %s", "Basic-%s x", "Negotiate %s", "Basi %s"}
var noSpaceForms = []string{"Basic", "Basic%s", "%s", "Basic:%s", "Basic\t%s", "Basic=%s"}

type Concretizer struct{ seed int64 }

func hashStr(s string) int64 {
	var h int64 = 1469598103934665603
	for _, c := range []byte(s) {
		h = (h ^ int64(c)) * 1099511628211
	}
	if h < 0 {
		h = -h
	}
	return h
}
func (c Concretizer) pick(n int, salt string) int { return int((hashStr(salt) + c.seed*7919) % int64(n)) }
// credentials with blanks at the edges / inside (equal length, distinct, colon-free), for bindings whose configuration is set
// directly (no environment variable or file parser between the driver and the middleware)
var standalonePairs = [][2]string{{" adm", "adm "}, {"adm ", " adm"}, {"a b", "b a"}, {"\tqx", "qx\t"}}
var forcedPair *[2]string

func (c Concretizer) chunks(cr Cred) [2]string {
	if forcedPair != nil {
		return *forcedPair
	}
	return chunkPairs[c.pick(len(chunkPairs), "cred|"+strings.Join(cr.U, "")+"|"+strings.Join(cr.P, ""))]
}
func (c Concretizer) str(cr Cred, s []string) string {
	ch := c.chunks(cr)
	var b strings.Builder
	for _, x := range s {
		switch x {
		case "a":
			b.WriteString(ch[0])
		case "b":
			b.WriteString(ch[1])
		case ":":
			b.WriteString(":")
		default:
			fail("unknown symbol " + x)
		}
	}
	return b.String()
}

// authorization returns (present, header value)
func (c Concretizer) authorization(cs *Case) (bool, string) {
	cr := cs.Cfg.Cred
	right := base64.StdEncoding.EncodeToString([]byte(c.str(cr, cr.U) + ":" + c.str(cr, cr.P)))
	salt := cs.Route + "|" + cs.Method + "|" + strings.Join(cs.Hdr.Payload, "") + cs.Ae + cs.Origin
	switch cs.Hdr.Kind {
	case "absent":
		return false, ""
	case "noSpace":
		f := noSpaceForms[c.pick(len(noSpaceForms), "ns|"+salt)]
		if strings.Contains(f, "%s") {
			return true, fmt.Sprintf(f, right)
		}
		return true, f
	case "otherScheme":
		return true, fmt.Sprintf(otherSchemes[c.pick(len(otherSchemes), "os|"+salt)], right)
	case "basic":
		enc := base64.StdEncoding.EncodeToString([]byte(c.str(cr, cs.Hdr.Payload)))
		switch cs.Hdr.Enc {
		case "clean":
			return true, "Basic " + enc
		case "trailingJunk":
			return true, "Basic " + enc + trailJunk[c.pick(len(trailJunk), "tj|"+salt)]
		case "leadingJunk":
			return true, "Basic " + leadJunk[c.pick(len(leadJunk), "lj|"+salt)] + enc
		}
	}
	fail("unknown header class " + cs.Hdr.Kind + "/" + cs.Hdr.Enc)
	return false, ""
}

func fail(msg string) {
	fmt.Fprintln(os.Stderr, "c20: "+msg)
	os.Exit(2)
}

func readCases(path string) []*Case {
	f, err := os.Open(path)
	if err != nil {
		fail(err.Error())
	}
	defer f.Close()
	dec := json.NewDecoder(f)
	var res []*Case
	for {
		var c Case
		if err := dec.Decode(&c); err == io.EOF {
			break
		} else if err != nil {
			fail("cases: " + err.Error())
		}
		res = append(res, &c)
	}
	return res
}

// ---------------------------------------------------------------------------------------------------------------
// judging an observation

type Obs struct {
	Status int      `json:"status"`
	Hr     string   `json:"hr"` // yes | no | unknown
	Be     bool     `json:"be"`
	Marks  []string `json:"marks"`
	Body   string   `json:"body,omitempty"`
	Panic  string   `json:"panic,omitempty"`
}

type Example struct {
	Case     *Case  `json:"case"`
	Obs      Obs    `json:"observed"`
	User     string `json:"user"`
	Pass     string `json:"pass"`
	Auth     string `json:"authorization"`
	HasAuth  bool   `json:"authorization_present"`
	Path     string `json:"path"`
	Binding  string `json:"binding"`
	Expected []Exp  `json:"expected_by_spec"`
}

type Finding struct {
	Kind    string          `json:"kind"`
	Cls     string          `json:"cls"`
	Count   int             `json:"count"`
	Methods map[string]int  `json:"methods"`
	Groups  map[string]int  `json:"groups"`
	Example *Example        `json:"example"`
	hdrs    map[string]bool // distinct abstract headers
	NHdrs   int             `json:"distinct_headers"`
}

var malformed = map[string]bool{"noSpace": true, "otherScheme": true, "malformedB64": true, "noColon": true}

func sameMarks(a, b []string) bool {
	if len(a) != len(b) {
		return false
	}
	x := append([]string{}, a...)
	y := append([]string{}, b...)
	sort.Strings(x)
	sort.Strings(y)
	for i := range x {
		if x[i] != y[i] {
			return false
		}
	}
	return true
}

// judge returns (violation kind or "", drift description or "")
func judge(cs *Case, o Obs, exact bool) (string, string) {
	carries := cs.Cls == "right" || cs.Cls == "rightThenJunk"
	reached := o.Hr == "yes" || o.Be
	if reached && !carries {
		if !cs.Reg && o.Hr == "yes" {
			// a handler ran although no registered route + method matches: also a breach, named separately
			return "access-without-credentials-unregistered", ""
		}
		return "access-without-credentials", ""
	}
	if cs.Reg && !carries {
		if o.Status != 401 && o.Status != 400 {
			return "not-rejected-with-401", ""
		}
		if o.Hr == "unknown" && o.Status == 400 && o.Body != "Invalid authorization header\n" {
			return "not-rejected-with-401", "" // black box: a 400 that is not the middleware's was produced behind it
		}
		if o.Status == 400 && !malformed[cs.Cls] {
			return "400-for-wellformed-header", ""
		}
	}
	if cs.Reg && cs.Cls == "right" {
		if o.Hr == "no" || (o.Hr == "unknown" && (o.Status == 401 || o.Body == "Invalid authorization header\n")) {
			return "right-credentials-rejected", ""
		}
	}
	if !cs.Reg && reached {
		return "", fmt.Sprintf("a handler / back-end was reached for %s %s, which the walked route table says is not registered", cs.Method, cs.Route)
	}
	if !exact {
		return "", ""
	}
	// exact agreement with the mechanism modelled in Auth.tla (any of the outcomes TLC lists for the case)
	for _, e := range cs.Exp {
		if !cs.Reg {
			if !e.Hr && o.Hr == "no" && !o.Be {
				return "", ""
			}
			continue
		}
		if e.Hr != (o.Hr == "yes") {
			continue
		}
		if e.Hr {
			if !e.Be && o.Be {
				continue
			}
			return "", "" // status, headers and back-end use of a handler are its own business
		}
		if e.Status == o.Status && e.Be == o.Be && sameMarks(e.Marks, o.Marks) {
			return "", ""
		}
	}
	return "", fmt.Sprintf("observed %+v is none of the outcomes of Auth.tla %+v", o, cs.Exp)
}

type Result struct {
	Binding        string              `json:"binding"`
	Requests       int                 `json:"requests"`
	Cases          int                 `json:"cases"`
	ByClass        map[string]int      `json:"by_class"`
	ByGroup        map[string]int      `json:"by_group"`
	ByWorld        map[string]int      `json:"by_world"`
	Routers        int                 `json:"routers_assembled"`
	HandlerRan     int                 `json:"handler_ran"`
	BackendTouched int                 `json:"backend_touched"`
	Rejected401    int                 `json:"rejected_401"`
	Rejected400    int                 `json:"rejected_400"`
	GrayAccepted   int                 `json:"right_then_junk_accepted"`
	GrayRejected   int                 `json:"right_then_junk_rejected"`
	Panics         int                 `json:"handler_panics_after_auth"`
	Findings       map[string]*Finding `json:"findings"`
	Drift          []string            `json:"drift"`
	DriftCount     int                 `json:"drift_count"`
	Samples        []*Example          `json:"samples"`
	Notes          []string            `json:"notes,omitempty"`
	Accepts        int                 `json:"clickhouse_accepts_total,omitempty"`
	AcceptsUnauth  int                 `json:"clickhouse_accepts_during_unauthenticated,omitempty"`
	WallS          float64             `json:"wall_s"`
}

func newResult(b string) *Result {
	return &Result{Binding: b, ByClass: map[string]int{}, ByGroup: map[string]int{}, ByWorld: map[string]int{}, Findings: map[string]*Finding{}}
}

func (r *Result) account(cs *Case, group string, o Obs, ex func() *Example, exact bool) {
	r.Requests++
	r.ByClass[cs.Cls]++
	r.ByGroup[group]++
	r.ByWorld[strings.SplitN(cs.Route, ":", 2)[0]]++
	if o.Hr == "yes" {
		r.HandlerRan++
	}
	if o.Be {
		r.BackendTouched++
	}
	if o.Hr != "yes" && o.Status == 401 {
		r.Rejected401++
	}
	if o.Hr != "yes" && o.Status == 400 {
		r.Rejected400++
	}
	if o.Panic != "" {
		r.Panics++
	}
	if cs.Cls == "rightThenJunk" && cs.Reg {
		if o.Hr == "yes" || (o.Hr == "unknown" && o.Status != 401 && o.Status != 400) {
			r.GrayAccepted++
		} else {
			r.GrayRejected++
		}
	}
	kind, dr := judge(cs, o, exact)
	if kind != "" {
		key := kind + "|" + cs.Cls
		f := r.Findings[key]
		if f == nil {
			f = &Finding{Kind: kind, Cls: cs.Cls, Methods: map[string]int{}, Groups: map[string]int{}, Example: ex(), hdrs: map[string]bool{}}
			r.Findings[key] = f
		}
		f.Count++
		f.Methods[cs.Method]++
		f.Groups[group]++
		f.hdrs[cs.Hdr.Kind+"/"+cs.Hdr.Enc+"/"+strings.Join(cs.Hdr.Payload, "")+"@"+strings.Join(cs.Cfg.Cred.U, "")+"/"+strings.Join(cs.Cfg.Cred.P, "")] = true
		f.NHdrs = len(f.hdrs)
	} else if dr != "" {
		r.DriftCount++
		if len(r.Drift) < 10 {
			b, _ := json.Marshal(ex())
			r.Drift = append(r.Drift, dr+" :: "+string(b))
		}
	}
	if len(r.Samples) < 6 && (r.Requests%977 == 1) {
		r.Samples = append(r.Samples, ex())
	}
}

type Event struct {
	Cfg    map[string]any `json:"cfg"`
	Route  string         `json:"route"`
	Group  string         `json:"group"`
	Method string         `json:"method"`
	Reg    bool           `json:"reg"`
	Hdr    Hdr            `json:"hdr"`
	Ae     string         `json:"ae"`
	Origin string         `json:"origin"`
	Status int            `json:"status"`
	Hr     string         `json:"hr"`
	Be     bool           `json:"be"`
	Marks  []string       `json:"marks"`
	Cls    string         `json:"cls"`
}

func event(cs *Case, group string, o Obs) Event {
	m := o.Marks
	if m == nil {
		m = []string{}
	}
	pl := cs.Hdr.Payload
	if pl == nil {
		pl = []string{}
	}
	return Event{Cfg: map[string]any{"u": cs.Cfg.Cred.U, "p": cs.Cfg.Cred.P, "cors": cs.Cfg.Cors}, Route: cs.Route, Group: group, Method: cs.Method,
		Reg: cs.Reg, Hdr: Hdr{cs.Hdr.Kind, cs.Hdr.Enc, pl}, Ae: cs.Ae, Origin: cs.Origin, Status: o.Status, Hr: o.Hr, Be: o.Be, Marks: m, Cls: cs.Cls}
}

func marksOf(h http.Header) []string {
	m := []string{}
	if h.Get("Access-Control-Allow-Origin") != "" {
		m = append(m, "cors")
	}
	if h.Get("WWW-Authenticate") != "" {
		m = append(m, "wwwauth")
	}
	return m
}

var queryString = "?query=%7Ba%3D%22b%22%7D&start=1700000000&end=1700000060&step=15&limit=5&match%5B%5D=%7Ba%3D%22b%22%7D&q=%7B%7D&tags=a%3Db"

func setHeaders(req *http.Request, cs *Case, has bool, auth string) {
	if has {
		req.Header["Authorization"] = []string{auth}
	}
	if cs.Ae == "gzip" {
		req.Header.Set("Accept-Encoding", "gzip")
	}
	if cs.Origin == "some" {
		req.Header.Set("Origin", "https://evil.example")
		if cs.Method == "OPTIONS" {
			req.Header.Set("Access-Control-Request-Method", "POST")
			req.Header.Set("Access-Control-Request-Headers", "authorization")
		}
	}
}

// ---------------------------------------------------------------------------------------------------------------

func cmdRoutes(args []string) {
	fs := flag.NewFlagSet("routes", flag.ExitOnError)
	repo := fs.String("repo", "/repo", "")
	out := fs.String("out", "", "")
	fs.Parse(args)
	ro, _, _ := tables(*repo)
	b, _ := json.MarshalIndent(ro, "", " ")
	if err := os.WriteFile(*out, b, 0o644); err != nil {
		fail(err.Error())
	}
}

func cmdRun(args []string) {
	fs := flag.NewFlagSet("run", flag.ExitOnError)
	repo := fs.String("repo", "/repo", "")
	casesP := fs.String("cases", "", "")
	out := fs.String("out", "", "")
	tracep := fs.String("trace", "", "")
	seed := fs.Int64("seed", 1, "")
	fs.Parse(args)
	t0 := nowS()
	ro, items, calls := tables(*repo)
	cases := readCases(*casesP)
	cz := Concretizer{*seed}
	res := newResult("in-process router assembled in main()'s order (read off main.go), real middlewares and route tables, recording back-ends")
	var tw *json.Encoder
	if *tracep != "" {
		tf, err := os.Create(*tracep)
		if err != nil {
			fail(err.Error())
		}
		defer tf.Close()
		tw = json.NewEncoder(tf)
	}
	rc := map[string]RouteCase{}
	for _, list := range ro.Worlds {
		for _, r := range list {
			rc[r.ID] = r
		}
	}
	type rkey struct {
		world, u, p string
		cors        bool
	}
	routers := map[rkey]*Assembled{}
	distinct := map[string]bool{}
	for _, cs := range cases {
		r, ok := rc[cs.Route]
		if !ok {
			fail("case for unknown route " + cs.Route)
		}
		world := strings.SplitN(cs.Route, ":", 2)[0]
		if world == "rdr" {
			continue // the black-box binding's world
		}
		// the route table of the spec constant must be the one walked now
		reg := false
		for _, m := range r.Methods {
			if m == cs.Method {
				reg = true
			}
		}
		if reg != cs.Reg {
			fail(fmt.Sprintf("case says registered=%v for %s %s but the walked table says %v", cs.Reg, cs.Method, cs.Route, reg))
		}
		user, pass := cz.str(cs.Cfg.Cred, cs.Cfg.Cred.U), cz.str(cs.Cfg.Cred, cs.Cfg.Cred.P)
		k := rkey{world, user, pass, cs.Cfg.Cors}
		a := routers[k]
		if a == nil {
			a = assemble(worldOf(world, user, pass, cs.Cfg.Cors), items, calls)
			routers[k] = a
			res.Routers++
		}
		// package-level state written by the Init functions is per process: point it at this world's configuration
		wconfig.Cloki, rconfig.Cloki = a.Cfg, a.Cfg
		has, auth := cz.authorization(cs)
		target := "http://qryn.test" + r.Path
		if r.Group == "reader" && (cs.Method == "GET" || cs.Method == "POST") {
			target += queryString
		}
		req, err := http.NewRequest(cs.Method, target, strings.NewReader(""))
		if err != nil {
			fail("cannot build request: " + err.Error())
		}
		setHeaders(req, cs, has, auth)
		obsHandler, obsBackend = 0, 0
		rw := httptest.NewRecorder()
		pmsg := ""
		func() {
			defer func() {
				if p := recover(); p != nil {
					pmsg = fmt.Sprint(p)
				}
			}()
			a.App.ServeHTTP(rw, req)
		}()
		o := Obs{Status: rw.Code, Hr: "no", Be: obsBackend > 0, Marks: marksOf(rw.Header()), Panic: pmsg}
		if obsHandler > 0 {
			o.Hr = "yes"
		}
		if pmsg != "" && o.Hr == "no" {
			fail("panic outside a handler: " + pmsg)
		}
		ex := func() *Example {
			o2 := o
			o2.Body = trunc(rw.Body.String(), 120)
			return &Example{Case: cs, Obs: o2, User: user, Pass: pass, Auth: auth, HasAuth: has, Path: r.Path, Binding: "in-process", Expected: cs.Exp}
		}
		res.account(cs, r.Group, o, ex, true)
		distinct[fmt.Sprintf("%s|%s|%s|%v|%s|%s|%v|%v", cs.Route, cs.Method, cs.Hdr.Kind+cs.Hdr.Enc+strings.Join(cs.Hdr.Payload, ""), cs.Cfg, cs.Ae, cs.Origin, 0, 0)] = true
		if tw != nil {
			tw.Encode(event(cs, r.Group, o))
		}
	}
	res.Cases = len(distinct)
	res.WallS = nowS() - t0
	writeJSON(*out, res)
}

func trunc(s string, n int) string {
	if len(s) > n {
		return s[:n] + "..."
	}
	return s
}

func writeJSON(path string, v any) {
	b, _ := json.MarshalIndent(v, "", " ")
	if err := os.WriteFile(path, b, 0o644); err != nil {
		fail(err.Error())
	}
}

func main() {
	if len(os.Args) < 2 {
		fail("usage: c20 routes|run|blackbox ...")
	}
	for i, a := range os.Args {
		if a == "-default-wiring" {
			useDefaultWiring = true
			os.Args = append(os.Args[:i], os.Args[i+1:]...)
			break
		}
	}
	switch os.Args[1] {
	case "routes":
		cmdRoutes(os.Args[2:])
	case "run":
		cmdRun(os.Args[2:])
	case "blackbox":
		cmdBlackbox(os.Args[2:])
	case "serve-standalone":
		cmdServeStandalone(os.Args[2:])
	default:
		fail("unknown command " + os.Args[1])
	}
}

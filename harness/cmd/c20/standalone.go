package main

// The stand-alone reader: reader.Init(cfg, nil) builds its own router, installs its own middleware chain
// (reader/main.go applyMiddlewares) and serves on its own listener.  The qryn binary never takes this path (main.go hands
// reader.Init its router), so it is a second wiring of the same middlewares and route tables that only a process of its own
// can exercise: Init can run once per process (http.Handle("/") and the ownHttpServer flag are process-wide).

import (
	"flag"

	clconfig "github.com/metrico/cloki-config"
	cconfig "github.com/metrico/cloki-config/config"
	"github.com/metrico/qryn/reader"
)

func cmdServeStandalone(args []string) {
	fs := flag.NewFlagSet("serve-standalone", flag.ExitOnError)
	user := fs.String("user", "", "")
	pass := fs.String("pass", "", "")
	cors := fs.String("cors", "false", "")
	port := fs.Int("port", 0, "")
	chport := fs.Int("chport", 1, "")
	fs.Parse(args)
	cfg := clconfig.New(clconfig.CLOKI_READER, nil, "", "")
	cfg.Setting.DATABASE_DATA = []cconfig.ClokiBaseDataBase{{Name: "cloki", Node: "n1", Host: "127.0.0.1", Port: uint32(*chport)}}
	cfg.Setting.HTTP_SETTINGS.Host = "127.0.0.1"
	cfg.Setting.HTTP_SETTINGS.Port = *port
	cfg.Setting.HTTP_SETTINGS.Cors.Enable = *cors == "true"
	cfg.Setting.HTTP_SETTINGS.Cors.Origin = "*"
	cfg.Setting.AUTH_SETTINGS.BASIC.Username = *user
	cfg.Setting.AUTH_SETTINGS.BASIC.Password = *pass
	cfg.Setting.LOG_SETTINGS.Stdout = true
	cfg.Setting.LOG_SETTINGS.Level = "error"
	reader.Init(cfg, nil) // blocks in http.Serve
}

package main

// The router of the real program is built inside func main() of package main, which cannot be imported.  The driver
// therefore REPLICATES that wiring - but it does not hard-code it: the ordered list of `app.Use(...)` and
// `<pkg>.<Fn>(..., app)` calls is read off /repo/main.go (go/ast), every item is dispatched to the real function it
// names (the middlewares and the route tables are the real ones), and an item, a condition or a use of `app` that the
// driver does not know stops the run with exit 2 (wiring drift; an infrastructure problem, never a violation).
// The same is done for reader.performV1APIRouting (reader/main.go), whose body needs a live database registry and the
// watchdog and is therefore replicated with a recording registry.

import (
	"bytes"
	"fmt"
	"go/ast"
	"go/parser"
	"go/printer"
	"go/token"
	"os"
	"path/filepath"
	"strconv"
	"strings"
)

type WItem struct {
	Kind string `json:"kind"` // use | call
	Name string `json:"name"` // middleware.BasicAuthMiddleware, reader.Init, ...
	Cond string `json:"cond"` // innermost enclosing if condition, whitespace removed
	Arg  string `json:"arg,omitempty"`
}

func drift(format string, a ...any) {
	fmt.Fprintf(os.Stderr, "DRIFT: "+format+"\n", a...)
	os.Exit(2)
}

func render(fset *token.FileSet, n ast.Node) string {
	var b bytes.Buffer
	printer.Fprint(&b, fset, n)
	return strings.Join(strings.Fields(b.String()), "")
}

func findFunc(f *ast.File, name string) *ast.FuncDecl {
	for _, d := range f.Decls {
		if fd, ok := d.(*ast.FuncDecl); ok && fd.Recv == nil && fd.Name.Name == name {
			return fd
		}
	}
	return nil
}

func mentions(n ast.Node, ident string) bool {
	found := false
	ast.Inspect(n, func(x ast.Node) bool {
		if id, ok := x.(*ast.Ident); ok && id.Name == ident {
			found = true
		}
		return !found
	})
	return found
}

// mainWiring extracts the ordered wiring items of func main() in <repo>/main.go.
func mainWiring(repo string) []WItem {
	fset := token.NewFileSet()
	f, err := parser.ParseFile(fset, filepath.Join(repo, "main.go"), nil, 0)
	if err != nil {
		drift("cannot parse main.go: %v", err)
	}
	fd := findFunc(f, "main")
	if fd == nil {
		drift("main.go has no func main")
	}
	var items []WItem
	created := false
	var stmts func(list []ast.Stmt, cond string)
	simple := func(s ast.Stmt, cond string) {
		if !mentions(s, "app") {
			return
		}
		if as, ok := s.(*ast.AssignStmt); ok && len(as.Lhs) == 1 && render(fset, as.Lhs[0]) == "app" {
			if created || render(fset, as.Rhs[0]) != "mux.NewRouter()" || cond != "" {
				drift("unexpected assignment to app: %s", render(fset, s))
			}
			created = true
			return
		}
		es, ok := s.(*ast.ExprStmt)
		if !ok {
			drift("main() uses app in a statement the driver does not understand: %s", render(fset, s))
		}
		call, ok := es.X.(*ast.CallExpr)
		if !ok {
			drift("main() uses app in a statement the driver does not understand: %s", render(fset, s))
		}
		fun := render(fset, call.Fun)
		if fun == "app.Use" {
			if len(call.Args) != 1 {
				drift("app.Use with %d arguments", len(call.Args))
			}
			it := WItem{Kind: "use", Cond: cond}
			if c2, ok := call.Args[0].(*ast.CallExpr); ok {
				it.Name = render(fset, c2.Fun)
				if len(c2.Args) == 1 {
					if bl, ok := c2.Args[0].(*ast.BasicLit); ok && bl.Kind == token.STRING {
						it.Arg, _ = strconv.Unquote(bl.Value)
					}
				}
			} else {
				it.Name = render(fset, call.Args[0])
			}
			items = append(items, it)
			return
		}
		if strings.HasPrefix(fun, "app.") {
			drift("main() calls %s: routes or settings applied to the router outside the known wiring", fun)
		}
		hasApp := false
		for _, a := range call.Args {
			if render(fset, a) == "app" {
				hasApp = true
			} else if mentions(a, "app") {
				drift("main() passes app inside an expression: %s", render(fset, s))
			}
		}
		if !hasApp {
			drift("main() uses app in a statement the driver does not understand: %s", render(fset, s))
		}
		items = append(items, WItem{Kind: "call", Name: fun, Cond: cond})
	}
	stmts = func(list []ast.Stmt, cond string) {
		for _, s := range list {
			switch x := s.(type) {
			case *ast.BlockStmt:
				stmts(x.List, cond)
			case *ast.IfStmt:
				if !mentions(x, "app") {
					continue
				}
				if x.Init != nil && mentions(x.Init, "app") || mentions(x.Cond, "app") || x.Else != nil && mentions(x.Else, "app") {
					drift("main() uses app in an if header / else branch: %s", render(fset, x.Cond))
				}
				c := render(fset, x.Cond)
				if cond != "" {
					c = cond + "&&" + c
				}
				stmts(x.Body.List, c)
			default:
				simple(s, cond)
			}
		}
	}
	stmts(fd.Body.List, "")
	if !created {
		drift("main() does not create app with mux.NewRouter()")
	}
	// httpStart must serve the router itself
	hs := findFunc(f, "httpStart")
	if hs == nil || !strings.Contains(render(fset, hs.Body), "http.Serve(listener,server)") {
		drift("httpStart does not serve the router directly")
	}
	return items
}

// readerRouting extracts the ordered route-table calls of reader.performV1APIRouting and checks that reader.Init reaches it.
func readerRouting(repo string) []string {
	fset := token.NewFileSet()
	f, err := parser.ParseFile(fset, filepath.Join(repo, "reader", "main.go"), nil, 0)
	if err != nil {
		drift("cannot parse reader/main.go: %v", err)
	}
	ini, cfgf, prf, amw := findFunc(f, "Init"), findFunc(f, "configureAsHTTPServer"), findFunc(f, "performV1APIRouting"), findFunc(f, "applyMiddlewares")
	if ini == nil || cfgf == nil || prf == nil || amw == nil {
		drift("reader/main.go: Init / configureAsHTTPServer / performV1APIRouting / applyMiddlewares not found")
	}
	if !strings.Contains(render(fset, ini.Body), "configureAsHTTPServer(app)") ||
		!strings.Contains(render(fset, cfgf.Body), "applyMiddlewares(acc)performV1APIRouting(acc)") {
		drift("reader.Init no longer reaches performV1APIRouting the known way")
	}
	if !strings.HasPrefix(render(fset, amw.Body), "{if!ownHttpServer{return}") {
		drift("reader.applyMiddlewares is no longer a no-op for an external router")
	}
	var names []string
	for _, s := range prf.Body.List {
		es, ok := s.(*ast.ExprStmt)
		if !ok {
			drift("reader.performV1APIRouting: unknown statement %s", render(fset, s))
		}
		call, ok := es.X.(*ast.CallExpr)
		if !ok {
			drift("reader.performV1APIRouting: unknown statement %s", render(fset, s))
		}
		fun := render(fset, call.Fun)
		switch {
		case fun == "dbRegistry.Init" || fun == "watchdog.Init":
			// database registry and watchdog: replaced by the recording registry
		case strings.HasPrefix(fun, "apirouterv1."):
			if len(call.Args) == 0 || render(fset, call.Args[0]) != "acc" {
				drift("reader.performV1APIRouting: %s is not given the router", fun)
			}
			names = append(names, strings.TrimPrefix(fun, "apirouterv1."))
		default:
			drift("reader.performV1APIRouting: unknown call %s", fun)
		}
	}
	return names
}

// writerRouting checks that writer.Init registers its routes through QrynWriterPlugin.RegisterRoutes on the given router.
func writerRouting(repo string) {
	fset := token.NewFileSet()
	f, err := parser.ParseFile(fset, filepath.Join(repo, "writer", "main_dev.go"), nil, 0)
	if err != nil {
		drift("cannot parse writer/main_dev.go: %v", err)
	}
	ini := findFunc(f, "Init")
	if ini == nil {
		drift("writer.Init not found")
	}
	body := render(fset, ini.Body)
	if !strings.Contains(body, "qrynPlugin.RegisterRoutes(*config.Cloki.Setting,proMiddlewareConfig,tempoMiddlewareConfig,router)") ||
		!strings.Contains(body, "controllerv1.Registry=plugin.ServiceRegistry") {
		drift("writer.Init no longer registers its routes the known way")
	}
	for _, s := range ini.Body.List {
		if es, ok := s.(*ast.ExprStmt); ok {
			if call, ok := es.X.(*ast.CallExpr); ok {
				fun := render(fset, call.Fun)
				if fun != "qrynPlugin.RegisterRoutes" && mentions(call, "router") {
					drift("writer.Init hands the router to %s", fun)
				}
			}
		}
	}
}

package main

import (
	"bytes"
	"encoding/json"
	"fmt"
	"math/rand"
	"regexp"
	"regexp/syntax"
	"sort"
	"strconv"
	"strings"
)

// ---------------------------------------------------------------------------------------------------------------
// Abstract case (as exported by MC_LogQL / MC_LogQLMetric) and its concretisation.
// Atoms are mapped to concrete strings from pools that contain the hostile characters the property names, with
// decoys, such that exactly the relations the specification assumes hold between the concrete strings (this is
// re-checked for every case: selfCheck).
// ---------------------------------------------------------------------------------------------------------------

type AEntry struct {
	S     map[string]string `json:"s"`
	T     int               `json:"t"`
	Feats []string          `json:"feats"`
	Ty    string            `json:"ty"`
	Fmt   string            `json:"fmt"`
	Fld   map[string]string `json:"fld"`
	Len   int               `json:"len"`
}

type AMatcher struct {
	Name string `json:"name"`
	Op   string `json:"op"`
	Val  string `json:"val"`
}

type ATree struct {
	T   string `json:"t"`
	Lbl string `json:"lbl"`
	Op  string `json:"op"`
	Num bool   `json:"num"`
	Val string `json:"val"`
	K   int    `json:"k"`
	L   *ATree `json:"l"`
	R   *ATree `json:"r"`
}

type AParam struct {
	Lbl  string `json:"lbl"`
	Path string `json:"path"`
}

type AStage struct {
	K      string   `json:"k"`
	Op     string   `json:"op"`
	Arg    string   `json:"arg"`
	Tree   *ATree   `json:"tree"`
	Params []AParam `json:"params"`
	Groups []string `json:"groups"`
	Names  []string `json:"names"`
	Name   string   `json:"name"`
	Val    string   `json:"val"`
	Lbl    string   `json:"lbl"`
}

type AQuery struct {
	M     []AMatcher      `json:"m"`
	P     []AStage        `json:"p"`
	From  int             `json:"from"`
	To    int             `json:"to"`
	Lim   int             `json:"lim"`
	Fwd   bool            `json:"fwd"`
	MqRaw json.RawMessage `json:"mq,omitempty"`
}

type ARes struct {
	ID   int               `json:"id"`
	Lbls map[string]string `json:"lbls"`
}

type ACase struct {
	Frag    string          `json:"frag"`
	Idx     int             `json:"idx"`
	Q       AQuery          `json:"q"`
	DB      []AEntry        `json:"db"`
	Exp     []ARes          `json:"exp"`
	Dev     bool            `json:"dev"`
	PlErr   bool            `json:"plerr"`
	Pl      json.RawMessage `json:"pl"`
	MExpRaw json.RawMessage `json:"mexp,omitempty"`
	MPlRaw  json.RawMessage `json:"mpl,omitempty"`
	OrdObs  bool            `json:"ordobs,omitempty"` // C08: the order of k-selection and its comparison is observable on this case
	NRows   int             `json:"nrows,omitempty"`  // C08: rows of the SQL result by LogQLPlan!PlanMetricRows (fragments B, S)
}

// ----------------------------------------------- pools ------------------------------------------------------

type tok struct {
	S     string
	Decoy string // a string that a wildcard / regex misreading of S would also accept ("" = none)
	Tag   string
}

// feature tokens: mutually non-substring, none contains a space; Decoy differs from S exactly where S has a character
// that is special for LIKE or for regular expressions.
var featurePool = []tok{
	{"pa%bq", "paXbq", "percent"},
	{"ra_bs", "raYbs", "underscore"},
	{"ta.bu", "taZbu", "dot"},
	{"qu'ote", "", "quote-mid"},
	{"endq'", "", "quote-end"},
	{"'startq", "", "quote-start"},
	{`dq"uote`, "", "dquote"},
	{`bk\slash`, "bkslash", "backslash-mid"},
	{`bs\%pc`, `bs\Wpc`, "backslash-percent"},
	{`bu\_sc`, `bu\Vsc`, "backslash-underscore"},
	{`tailbs\`, "", "backslash-end"},
	{"st*ar", "sttar", "star"},
	{"pl+us", "plllus", "plus"},
	{"qm?ark", "qark", "question"},
	{"(paren)", "", "paren"},
	{"[cls]", "c", "bracket"},
	{"^caret", "", "caret"},
	{"dollar$", "", "dollar"},
	{"pi|pe", "", "pipe"},
	{"{2}brace", "", "brace"},
	{"héllo", "", "multibyte"},
	{"日本語", "", "cjk"},
	{"plainword", "", "plain"},
	{"MiXeD", "mixed", "case"},
	{"%lead", "Klead", "percent-start"},
	{"trail%", "trailK", "percent-end"},
	{"_lead2", "Jlead2", "underscore-start"},
}

// label values (non-numeric): mutually non-substring.
var valuePool = []tok{
	{"v'1", "", "quote"},
	{`w"2`, "", "dquote"},
	{`x\3`, "x3", "backslash"},
	{"y%4", "yK4", "percent"},
	{"z_5", "zK5", "underscore"},
	{"k.6", "kK6", "dot"},
	{"m*7", "mm7", "star"},
	{"(g8)", "", "paren"},
	{"h+9", "hh9", "plus"},
	{"^j$", "", "anchor"},
	{"p|q", "", "pipe"},
	{"ünï", "", "multibyte"},
	{"日本", "", "cjk"},
	{"sp ace", "", "space"},
	{"Plain", "", "plain"},
	{"{c}", "", "brace"},
	{"tb\\", "", "backslash-end"},
}

// extension values (LogQLSem.ExtVals): a plain value with something in front of / behind it.  A label regex that matches
// the plain value must not match them (whole-value matching); an unanchored search, or anchors that bind to the first /
// last alternative only, do.
var extSuffixPool = []string{"-gateway", "x", "2", ".z", "$", "|q", " b", "é", ")", "\n"}
var extPrefixPool = []string{"my", "x-", "0", "^", "a|", "ü", "(", "_."}

// strings that are NOT numbers for toFloat64OrNull / strconv.ParseFloat but look like one
var nonNumPool = []string{"12abc", "1,5", "5%", "1 2", "v7", "--1", "1.2.3"}

// numeric strings: n0 < n1 < n2 < n3 as numbers (not always as strings)
var numPool = [][4]string{
	{"0", "5", "7.5", "12.5"},
	{"0", "1", "2", "3"},
	{"0", "0.25", "0.5", "100"},
	{"0", "9", "10", "11"},
	{"0", "2", "10", "20"},
	{"0", "1.5", "1.75", "16"},
}

var labelNamePool = [][2]string{{"app", "env"}, {"a", "b"}, {"job_1", "Lvl"}, {"x_y", "k8s_ns"}, {"_u", "v9"}, {"A", "a1"}}
var keyPool = [][3]string{{"fx", "obj", "num"}, {"k", "o", "n"}, {"key_1", "Sub", "val2"}, {"user", "ctx", "ms"}}

// Conc is the concretisation of one case.
type Conc struct {
	rng      *rand.Rand
	Val      map[string]string // value atom -> string
	ValTag   map[string]string
	Feat     map[string]tok
	Name     map[string]string // abstract label name -> concrete
	KX, KO   string            // JSON keys of x and of the object o
	KN       string
	Nums     [4]string
	FromNs   int64
	ToNs     int64
	UnitNs   int64 // one tick in ns for interior ticks
	Edge     [4]int64
	NumJSON  bool // numeric fields written as JSON numbers (else strings)
	Tags     []string
	regexFl  map[string]string
	valueRes [][2]string // (regex atom, pattern) of every value regex written into the query text
	scale    float64     // unwrap scale (dyadic)
	metric   bool
}

const baseSec = 1699963200 // 2023-11-14 12:00:00 UTC

func pick[T any](r *rand.Rand, s []T) T { return s[r.Intn(len(s))] }

func newConc(c *ACase, seed int64) *Conc {
	r := rand.New(rand.NewSource(seed*1000003 + int64(c.Idx)*7919 + int64(len(c.Frag))))
	k := &Conc{rng: r, Val: map[string]string{}, ValTag: map[string]string{}, Feat: map[string]tok{}, Name: map[string]string{}, regexFl: map[string]string{}}
	// values
	i1 := r.Intn(len(valuePool))
	v1 := valuePool[i1]
	var v2 tok
	if v1.Decoy != "" && r.Intn(2) == 0 {
		v2 = tok{S: v1.Decoy, Tag: "decoy-of-" + v1.Tag}
	} else {
		for {
			i2 := r.Intn(len(valuePool))
			if i2 != i1 {
				v2 = valuePool[i2]
				break
			}
		}
	}
	k.Val["v1"], k.ValTag["v1"] = v1.S, v1.Tag
	k.Val["v2"], k.ValTag["v2"] = v2.S, v2.Tag
	k.Val["w"] = pick(r, nonNumPool)
	k.Nums = pick(r, numPool)
	for i := 0; i < 4; i++ {
		k.Val["n"+strconv.Itoa(i)] = k.Nums[i]
	}
	k.Val[""] = ""
	// extension atoms: drawn from a generator of their own (the draws of the other atoms do not depend on them)
	xr := rand.New(rand.NewSource(seed*7368787 + int64(c.Idx)*104723 + 11))
	k.Val["v1s"] = v1.S + pick(xr, extSuffixPool)
	k.Val["pv2"] = pick(xr, extPrefixPool) + v2.S
	k.Val["pv1s"] = pick(xr, extPrefixPool) + v1.S + pick(xr, extSuffixPool)
	// features
	perm := r.Perm(len(featurePool))
	for i, f := range []string{"f1", "f2", "f3"} {
		k.Feat[f] = featurePool[perm[i]]
	}
	// names
	ln := pick(r, labelNamePool)
	k.Name["a"], k.Name["b"] = ln[0], ln[1]
	ks := pick(r, keyPool)
	k.KX, k.KO, k.KN = ks[0], ks[1], ks[2]
	k.Name["x"] = k.KX
	k.Name["o_x"] = k.KO + "_" + k.KX
	k.Name["n"] = k.KN
	k.Name["y"] = "py_" + k.KX
	k.Name["msg"] = "msg"
	k.NumJSON = r.Intn(2) == 0
	return k
}

func (k *Conc) val(atom string) string {
	if strings.HasPrefix(atom, "raw:") {
		b, _ := marshalNoHTML(k.val(atom[4:]))
		return b
	}
	v, ok := k.Val[atom]
	if !ok {
		panic("unknown value atom " + atom)
	}
	return v
}

func marshalNoHTML(v any) (string, error) {
	var b bytes.Buffer
	e := json.NewEncoder(&b)
	e.SetEscapeHTML(false)
	err := e.Encode(v)
	return strings.TrimRight(b.String(), "\n"), err
}

// quote renders a LogQL string literal (the parser unquotes "..." with encoding/json and `...` with its own rule).
func (k *Conc) quote(s string) string {
	if !strings.ContainsAny(s, "`\\") && k.rng.Intn(3) == 0 {
		return "`" + s + "`"
	}
	q, _ := marshalNoHTML(s)
	return q
}

// ------------------------------------------------ time -------------------------------------------------------

// setTimes fixes the window: from/to on whole seconds (the reader truncates start/end to seconds).
func (k *Conc) setTimes(q *AQuery, unitSec int64) {
	k.FromNs = baseSec * 1e9
	k.UnitNs = unitSec * 1e9
	k.ToNs = k.FromNs + int64(q.To-q.From)*k.UnitNs
	// edges: from-1 -> 1 ns or 1 s before; to -> exactly to, or 1 ns after
	k.Edge[0] = pick(k.rng, []int64{1, 1e9, 999999999})
	k.Edge[1] = pick(k.rng, []int64{0, 1})
	k.Edge[2] = k.rng.Int63n(900_000_000) + 1000 // jitter of interior ticks
}

// tickNs for log queries: sharp edges.
func (k *Conc) tickNs(q *AQuery, t int) int64 {
	switch {
	case t == q.From:
		return k.FromNs
	case t == q.From-1:
		return k.FromNs - k.Edge[0]
	case t < q.From-1:
		return k.FromNs - int64(q.From-t)*k.UnitNs
	case t == q.To-1:
		return k.ToNs - 1
	case t == q.To:
		return k.ToNs + k.Edge[1]
	case t > q.To:
		return k.ToNs + int64(t-q.To)*k.UnitNs
	}
	return k.FromNs + int64(t-q.From)*k.UnitNs + k.Edge[2]%k.UnitNs
}

// ------------------------------------------------ lines ------------------------------------------------------

func jsonSafe(s string) bool { return !strings.ContainsAny(s, "\"\\") }

func (k *Conc) lineOf(e *AEntry, id int) (string, error) {
	has := map[string]bool{}
	for _, f := range e.Feats {
		has[f] = true
	}
	var toks []string
	for _, f := range []string{"f1", "f2", "f3"} {
		t := k.Feat[f]
		if has[f] {
			toks = append(toks, t.S)
		} else if t.Decoy != "" && k.rng.Intn(2) == 0 {
			toks = append(toks, t.Decoy)
		}
	}
	k.rng.Shuffle(len(toks), func(i, j int) { toks[i], toks[j] = toks[j], toks[i] })
	idTok := fmt.Sprintf("#%d#", id)
	if e.Fmt == "json" {
		msg := strings.Join(append([]string{idTok}, toks...), " ")
		type kv struct {
			k string
			v any
		}
		var fields []kv
		fields = append(fields, kv{"msg", msg})
		if x := e.Fld["x"]; x != "" {
			fields = append(fields, kv{k.KX, k.val(x)})
		}
		if ox := e.Fld["ox"]; ox != "" {
			fields = append(fields, kv{k.KO, map[string]any{k.KX: k.val(ox)}})
		}
		if n := e.Fld["n"]; n != "" {
			if strings.HasPrefix(n, "n") && k.NumJSON {
				fields = append(fields, kv{k.KN, json.Number(k.val(n))})
			} else {
				fields = append(fields, kv{k.KN, k.val(n)})
			}
		}
		k.rng.Shuffle(len(fields), func(i, j int) { fields[i], fields[j] = fields[j], fields[i] })
		var b strings.Builder
		b.WriteString("{")
		for i, f := range fields {
			if i > 0 {
				b.WriteString(",")
			}
			ks, _ := marshalNoHTML(f.k)
			vs, err := marshalNoHTML(f.v)
			if err != nil {
				return "", err
			}
			b.WriteString(ks + ":" + vs)
		}
		b.WriteString("}")
		return b.String(), nil
	}
	parts := append([]string{idTok}, toks...)
	parts = append(parts, fmt.Sprintf("[%s:%s]", k.KX, k.val(e.Fld["x"])), fmt.Sprintf("[%s:%s]", k.KN, k.val(e.Fld["n"])))
	return strings.Join(parts, " "), nil
}

// ------------------------------------------------ regexes ----------------------------------------------------

// nonLiteral wraps a set of alternatives into a regex that regexp/syntax does NOT simplify to one literal and that
// matches exactly the strings containing one of the alternatives.
func (k *Conc) lineRegex(atom string) string {
	feats := map[string][]string{"L_f1": {"f1"}, "L_f2": {"f2"}, "R_f1": {"f1"}, "R_f2": {"f2"}, "R_f1f2": {"f1", "f2"}, "R_f2f3": {"f2", "f3"}}[atom]
	if feats == nil {
		panic("unknown line regex atom " + atom)
	}
	var alts []string
	for _, f := range feats {
		alts = append(alts, regexp.QuoteMeta(k.Feat[f].S))
	}
	if strings.HasPrefix(atom, "L_") {
		k.regexFl[atom] = "literal"
		return alts[0]
	}
	var re string
	if len(alts) > 1 {
		k.regexFl[atom] = "alternation"
		re = strings.Join(alts, "|")
	} else {
		switch k.rng.Intn(4) {
		case 0:
			k.regexFl[atom] = "alt-impossible"
			re = alts[0] + "|zz@@NOPE"
		case 1:
			k.regexFl[atom] = "dotstar"
			re = ".*" + alts[0] + ".*"
		case 2:
			k.regexFl[atom] = "group-plus"
			re = "(?:" + alts[0] + ")+"
		default:
			k.regexFl[atom] = "anchored-line"
			re = "^.*" + alts[0] + ".*$"
		}
	}
	if ex, err := syntax.Parse(re, syntax.PerlX); err != nil || ex.Op == syntax.OpLiteral {
		panic("line regex is a literal or invalid: " + re)
	}
	return re
}

func (k *Conc) valueRegex(atom string) string {
	switch atom {
	case "R_any":
		return pick(k.rng, []string{".*", "^.*$", "(?s).*"})
	case "R_some":
		return pick(k.rng, []string{".+", "^.+$"})
	}
	vals := map[string][]string{"R_v1": {"v1"}, "R_v2": {"v2"}, "R_v1v2": {"v1", "v2"}, "R_n": {"n1", "n3"}}[atom]
	if vals == nil {
		panic("unknown value regex atom " + atom)
	}
	var alts []string
	for _, v := range vals {
		alts = append(alts, regexp.QuoteMeta(k.val(v)))
	}
	body := strings.Join(alts, "|")
	if atom == "R_n" || k.metric {
		if atom == "R_n" || k.rng.Intn(2) == 0 {
			return "^(?:" + body + ")$"
		}
		return body
	}
	// every way of writing "exactly one of these values" under whole-value matching: bare, grouped, either order of the
	// alternatives, with anchors of the user's own on the whole pattern or on single alternatives
	var re, fl string
	if len(alts) > 1 {
		a1, a2 := alts[0], alts[1]
		if k.rng.Intn(3) == 0 {
			a1, a2 = a2, a1
			fl = "swapped-"
		}
		switch k.rng.Intn(6) {
		case 0:
			re, fl = "^(?:"+a1+"|"+a2+")$", fl+"anchored-group"
		case 1, 2:
			re, fl = a1+"|"+a2, fl+"bare-alternation"
		case 3:
			re, fl = "("+a1+"|"+a2+")", fl+"capture-group"
		case 4:
			re, fl = "^"+a1+"|"+a2+"$", fl+"outer-anchors-on-alternatives"
		default:
			re, fl = "^"+a1+"$|^"+a2+"$", fl+"anchored-alternatives"
		}
	} else {
		switch k.rng.Intn(6) {
		case 0:
			re, fl = "^(?:"+alts[0]+")$", "anchored-group"
		case 1, 2:
			re, fl = alts[0], "bare"
		case 3:
			re, fl = "^"+alts[0], "start-anchor-only"
		case 4:
			re, fl = alts[0]+"$", "end-anchor-only"
		default:
			re, fl = "(?:"+alts[0]+")", "group"
		}
	}
	k.regexFl["val:"+atom] = fl
	k.valueRes = append(k.valueRes, [2]string{atom, re})
	return re
}

// checkValueRegexes: every value regex written for this case, matched against the WHOLE value, accepts exactly the value
// atoms the specification says (ReVals) among all the value atoms of the case, extensions included.
func (k *Conc) checkValueRegexes() error {
	members := map[string][]string{"R_v1": {"v1"}, "R_v2": {"v2"}, "R_v1v2": {"v1", "v2"}}
	for _, ar := range k.valueRes {
		re, err := regexp.Compile("^(?:" + ar[1] + ")$")
		if err != nil {
			return fmt.Errorf("value regex %q: %v", ar[1], err)
		}
		for _, a := range []string{"v1", "v2", "w", "v1s", "pv2", "pv1s", "n0", "n1", "n2", "n3", ""} {
			want := false
			for _, m := range members[ar[0]] {
				want = want || m == a
			}
			if re.MatchString(k.Val[a]) != want {
				return fmt.Errorf("value regex %q (atom %s) on %q (atom %s): whole-value match is %v", ar[1], ar[0], k.Val[a], a, !want)
			}
		}
	}
	return nil
}

// ------------------------------------------------ query text -------------------------------------------------

func (k *Conc) treeText(t *ATree, top bool) string {
	if t.T == "leaf" {
		name := k.Name[t.Lbl]
		if t.Num {
			return fmt.Sprintf("%s %s %s", name, t.Op, k.Nums[t.K])
		}
		if t.Op == "=~" || t.Op == "!~" {
			return fmt.Sprintf("%s %s %s", name, t.Op, k.quote(k.valueRegex(t.Val)))
		}
		return fmt.Sprintf("%s %s %s", name, t.Op, k.quote(k.val(t.Val)))
	}
	l := k.treeText(t.L, false)
	r := k.treeText(t.R, false)
	if t.L.T != "leaf" {
		l = "(" + l + ")"
	}
	if t.R.T != "leaf" {
		r = "(" + r + ")"
	}
	s := l + " " + t.T + " " + r
	return s
}

func (k *Conc) pathText(p string) string {
	switch p {
	case "x":
		return k.KX
	case "n":
		return k.KN
	case "o.x":
		if k.rng.Intn(3) == 0 {
			return k.KO + `["` + k.KX + `"]`
		}
		return k.KO + "." + k.KX
	}
	panic("unknown path " + p)
}

func (k *Conc) selectorText(ms []AMatcher) string {
	var parts []string
	for _, m := range ms {
		var v string
		if m.Op == "=~" || m.Op == "!~" {
			v = k.valueRegex(m.Val)
		} else {
			v = k.val(m.Val)
		}
		parts = append(parts, k.Name[m.Name]+m.Op+k.quote(v))
	}
	return "{" + strings.Join(parts, ", ") + "}"
}

func (k *Conc) stageText(st *AStage) string {
	switch st.K {
	case "lf":
		if st.Op == "|~" || st.Op == "!~" {
			return st.Op + " " + k.quote(k.lineRegex(st.Arg))
		}
		return st.Op + " " + k.quote(k.Feat[st.Arg].S)
	case "lbl":
		return "| " + k.treeText(st.Tree, true)
	case "json":
		return "| json"
	case "jsonp":
		var ps []string
		for _, p := range st.Params {
			ps = append(ps, k.Name[p.Lbl]+"="+k.quote(k.pathText(p.Path)))
		}
		return "| json " + strings.Join(ps, ", ")
	case "regexp":
		var ps []string
		for _, g := range st.Groups {
			key := k.KX
			if g == "n" {
				key = k.KN
			}
			ps = append(ps, `\[`+key+`:(?P<`+k.Name[g]+`>[^\]]*)\]`)
		}
		return "| regexp " + k.quote(strings.Join(ps, ".*"))
	case "drop":
		var ns []string
		for _, n := range st.Names {
			ns = append(ns, k.Name[n])
		}
		sort.Strings(ns)
		return "| drop " + strings.Join(ns, ", ")
	case "dropv":
		return "| drop " + k.Name[st.Name] + "=" + k.quote(k.val(st.Val))
	case "unwrap":
		return "| unwrap " + k.Name[st.Lbl]
	}
	panic("unknown stage " + st.K)
}

func (k *Conc) logSelectorAndPipe(q *AQuery) string {
	s := k.selectorText(q.M)
	for i := range q.P {
		s += " " + k.stageText(&q.P[i])
	}
	return s
}

// concLabels maps an abstract label function to the concrete non-empty labels; "@msg" needs the entry.
func (k *Conc) concLabels(l map[string]string, msg string) map[string]string {
	out := map[string]string{}
	for n, v := range l {
		if v == "" {
			continue
		}
		cn, ok := k.Name[n]
		if !ok {
			panic("unknown label name " + n)
		}
		if v == "@msg" {
			out[cn] = msg
		} else {
			out[cn] = k.val(v)
		}
	}
	return out
}

package main

import (
	"bufio"
	"encoding/json"
	"fmt"
	"os"
	"path/filepath"
	"regexp"
	"sort"
	"strings"
	"time"
)

type Mismatch struct {
	Idx       int    `json:"idx"`
	Frag      string `json:"frag"`
	Signature string `json:"signature"`
	Msg       string `json:"msg"`
	Replay    string `json:"replay,omitempty"`
	Query     string `json:"query"`
	MatchesPl bool   `json:"matches_mechanism_model"`
}

type Result struct {
	Seed         int64            `json:"seed"`
	CasesRun     int              `json:"cases_run"`
	Distinct     int              `json:"distinct_cases"`
	NonTrivial   int              `json:"nontrivial_cases"` // expected answer non-empty AND something stored is not returned
	ByFrag       map[string]int   `json:"by_frag"`
	Agree        int              `json:"agree"`
	Mismatches   []Mismatch       `json:"mismatches"`
	DevConfirmed int              `json:"dev_cases_matching_mechanism_model"`
	DevRefuted   []int            `json:"dev_cases_where_code_meets_definition"`
	DevMasked    int              `json:"dev_cases_masked_by_like_escaping"`
	Infra        []string         `json:"infra"`
	PoolUse      map[string]int   `json:"pool_use"`
	StageUse     map[string]int   `json:"stage_use"`
	Samples      []map[string]any `json:"samples"`
	WallS        float64          `json:"wall_s"`
	Pushes       int              `json:"writer_pushes"`
	Queries      int              `json:"queries"`
}

type item struct {
	Labels string
	Ts     string
	Line   string
}

func labelsText(l map[string]string) string {
	ks := make([]string, 0, len(l))
	for k, v := range l {
		if v == "" {
			continue // LogQL: a label with the empty value is an absent label
		}
		ks = append(ks, k)
	}
	sort.Strings(ks)
	var b strings.Builder
	for _, k := range ks {
		fmt.Fprintf(&b, "%s=%q,", k, l[k])
	}
	return b.String()
}

func run(casesPath, outPath string, seed int64, replayDir string, maxReplays int) {
	t0 := time.Now()
	f, err := os.Open(casesPath)
	if err != nil {
		fatal("%v", err)
	}
	defer f.Close()
	w, err := NewWorld()
	if err != nil {
		fatal("world: %v", err)
	}
	res := &Result{Seed: seed, ByFrag: map[string]int{}, PoolUse: map[string]int{}, StageUse: map[string]int{}}
	seen := map[string]bool{}
	perSig := map[string]int{}
	sc := bufio.NewScanner(f)
	sc.Buffer(make([]byte, 1<<20), 1<<28)
	var preps []*prepared
	var sets []map[string]string
	for sc.Scan() {
		line := strings.TrimSpace(sc.Text())
		if line == "" {
			continue
		}
		c := &ACase{}
		if err := json.Unmarshal([]byte(line), c); err != nil {
			res.Infra = append(res.Infra, "unparsable case: "+err.Error())
			continue
		}
		key := fmt.Sprintf("%s/%d", c.Frag, c.Idx)
		if seen[key] {
			continue
		}
		seen[key] = true
		var p *prepared
		if len(c.Q.MqRaw) > 0 {
			p = prepareMetricCase(c, seed)
		} else {
			p = prepareLogCase(c, seed)
		}
		preps = append(preps, p)
		for _, e := range p.entries {
			sets = append(sets, e.Labels)
		}
	}
	// series rows as the real writer produces them, learnt in batches
	for i := 0; i < len(sets); i += 300 {
		j := i + 300
		if j > len(sets) {
			j = len(sets)
		}
		if err := w.learn(sets[i:j]); err != nil {
			res.Infra = append(res.Infra, "learning series through the writer: "+err.Error())
			break
		}
	}
	for _, p := range preps {
		c := p.c
		key := fmt.Sprintf("%s/%d", c.Frag, c.Idx)
		res.CasesRun++
		res.ByFrag[c.Frag]++
		var out *caseOutcome
		if p.out.infra != "" {
			out = p.out
		} else if len(c.Q.MqRaw) > 0 {
			out = runMetricCase(w, p)
		} else {
			out = runLogCase(w, p)
		}
		res.Queries++
		for _, t := range out.tags {
			res.PoolUse[t]++
		}
		for _, st := range c.Q.P {
			res.StageUse[st.K+st.Op]++
		}
		for _, m := range c.Q.M {
			res.StageUse["matcher"+m.Op]++
		}
		if out.nontrivial {
			res.NonTrivial++
		}
		if out.infra != "" {
			if len(res.Infra) < 50 {
				res.Infra = append(res.Infra, fmt.Sprintf("case %s: %s", key, out.infra))
			}
			continue
		}
		if len(res.Samples) < 2 && out.nontrivial && out.sig == "" {
			res.Samples = append(res.Samples, out.replay)
		}
		if out.sig == "" {
			res.Agree++
			if c.Dev && likeHostile(p.k, c) {
				// a second, concrete-level defect (LIKE escaping) hides the modelled one: not a refutation
				res.DevMasked++
			} else if c.Dev {
				res.DevRefuted = append(res.DevRefuted, c.Idx)
				if replayDir != "" && len(res.DevRefuted) <= 5 {
					writeReplay(replayDir, fmt.Sprintf("refuted_%s_%d", c.Frag, c.Idx), out.replay)
				}
			}
			continue
		}
		if c.Dev && out.matchesPl {
			res.DevConfirmed++
		}
		mm := Mismatch{Idx: c.Idx, Frag: c.Frag, Signature: out.sig, Msg: out.msg, Query: out.query, MatchesPl: out.matchesPl}
		perSig[out.sig]++
		if replayDir != "" && perSig[out.sig] <= maxReplays {
			mm.Replay = writeReplay(replayDir, fmt.Sprintf("%s_%d_%s", c.Frag, c.Idx, sanitize(out.sig)), out.replay)
		}
		if perSig[out.sig] <= 200 {
			res.Mismatches = append(res.Mismatches, mm)
		}
	}
	if err := sc.Err(); err != nil {
		res.Infra = append(res.Infra, "reading cases: "+err.Error())
	}
	res.Distinct = len(seen)
	res.WallS = time.Since(t0).Seconds()
	res.Pushes = w.Pushes
	if len(w.W.StoreErr) > 0 {
		res.Infra = append(res.Infra, "store errors: "+strings.Join(w.W.StoreErr, "; "))
	}
	raw, _ := json.MarshalIndent(res, "", " ")
	if err := os.WriteFile(outPath, raw, 0o644); err != nil {
		fatal("%v", err)
	}
}

var reSan = regexp.MustCompile(`[^A-Za-z0-9]+`)

func sanitize(s string) string {
	s = reSan.ReplaceAllString(s, "_")
	if len(s) > 80 {
		s = s[:80]
	}
	return s
}

func writeReplay(dir, name string, obj any) string {
	os.MkdirAll(dir, 0o755)
	p := filepath.Join(dir, name+".json")
	var b strings.Builder
	e := json.NewEncoder(&b)
	e.SetEscapeHTML(false)
	e.SetIndent("", " ")
	e.Encode(obj)
	os.WriteFile(p, []byte(b.String()), 0o644)
	return p
}

type caseOutcome struct {
	sig        string
	msg        string
	query      string
	infra      string
	matchesPl  bool
	nontrivial bool
	tags       []string
	replay     map[string]any
}

// selfCheck verifies that the concrete strings realise the abstract relations the specification assumes.
func selfCheck(k *Conc, c *ACase, lines []string) error {
	for i, e := range c.DB {
		has := map[string]bool{}
		for _, f := range e.Feats {
			has[f] = true
		}
		for _, f := range []string{"f1", "f2", "f3"} {
			if strings.Contains(lines[i], k.Feat[f].S) != has[f] {
				return fmt.Errorf("line %q contains(%q) != %v", lines[i], k.Feat[f].S, has[f])
			}
		}
	}
	// the extension atoms are distinct from every other value of the case
	all := map[string]string{}
	for _, a := range []string{"v1", "v2", "w", "n0", "n1", "n2", "n3", "v1s", "pv2", "pv1s"} {
		if b, dup := all[k.Val[a]]; dup {
			return fmt.Errorf("value atoms %s and %s have the same string %q", a, b, k.Val[a])
		}
		all[k.Val[a]] = a
	}
	vs := []string{k.Val["v1"], k.Val["v2"], k.Val["w"]}
	for i := range vs {
		for j := range vs {
			if i != j && strings.Contains(vs[i], vs[j]) {
				return fmt.Errorf("value %q contains value %q", vs[i], vs[j])
			}
		}
	}
	return nil
}

type prepared struct {
	c       *ACase
	k       *Conc
	lines   []string
	entries []CEntry
	req     CRequest
	out     *caseOutcome
	mq      *AMq
}

func prepareLogCase(c *ACase, seed int64) *prepared {
	out := &caseOutcome{}
	p := &prepared{c: c, out: out}
	var k *Conc
	var lines []string
	ok := false
	for attempt := int64(0); attempt < 20 && !ok; attempt++ {
		k = newConc(c, seed+attempt*104729)
		k.setTimes(&c.Q, 1)
		lines = lines[:0]
		ok = true
		for i := range c.DB {
			l, err := k.lineOf(&c.DB[i], i+1)
			if err != nil {
				out.infra = "line: " + err.Error()
				return p
			}
			lines = append(lines, l)
		}
		if err := selfCheck(k, c, lines); err != nil {
			ok = false
			out.infra = "concretiser self-check: " + err.Error()
		}
	}
	if !ok {
		return p
	}
	out.infra = ""
	var entries []CEntry
	for i, e := range c.DB {
		lbls := map[string]string{}
		for n, v := range e.S {
			if v != "" {
				lbls[k.Name[n]] = k.val(v)
			}
		}
		ty := 1
		if e.Ty == "metric" {
			ty = 2
		}
		entries = append(entries, CEntry{Labels: lbls, TsNs: k.tickNs(&c.Q, e.T), Line: lines[i], Type: ty, ID: i + 1, Value: 0})
	}
	p.k, p.lines, p.entries = k, lines, entries
	p.req = CRequest{Query: k.logSelectorAndPipe(&c.Q), StartNs: k.FromNs, EndNs: k.ToNs, Limit: c.Q.Lim, Forward: c.Q.Fwd}
	if err := k.checkValueRegexes(); err != nil {
		out.infra = "concretiser self-check: " + err.Error()
	}
	return p
}

var extAtoms = map[string]bool{"v1s": true, "pv2": true, "pv1s": true}

func runLogCase(w *World, p *prepared) *caseOutcome {
	out, c, k, lines, entries := p.out, p.c, p.k, p.lines, p.entries
	if err := w.Load(entries, time.Unix(baseSec, 0).UTC().Truncate(24*time.Hour)); err != nil {
		out.infra = "load: " + err.Error()
		return out
	}
	req := p.req
	out.query = req.Query
	obs := w.Run(req)
	out.tags = tagsOf(k, c)
	// expected
	exp := map[item]int{}
	expList := []item{}
	for _, r := range c.Exp {
		e := entries[r.ID-1]
		it := item{labelsText(k.concLabels(r.Lbls, msgOf(lines[r.ID-1], c.DB[r.ID-1].Fmt))), fmt.Sprint(e.TsNs), e.Line}
		exp[it]++
		expList = append(expList, it)
	}
	inWin := 0
	for _, e := range c.DB {
		if e.Ty == "log" && e.T >= c.Q.From && e.T < c.Q.To {
			inWin++
		}
	}
	out.nontrivial = len(c.Exp) > 0 && len(c.Exp) < len(c.DB)
	out.replay = map[string]any{"case": c, "logql": req.Query, "request": req, "entries": entries, "observed": obs,
		"expected": expList, "regex_flavours": k.regexFl, "concretisation": map[string]any{"values": k.Val, "features": k.Feat, "names": k.Name}}
	if len(obs.Unsup) > 0 {
		out.infra = "chsql does not support: " + strings.Join(obs.Unsup, " | ")
		return out
	}
	if obs.Code == 200 && len(obs.SQL) > 0 {
		if d := danglingQualifiers(obs.SQL[len(obs.SQL)-1]); len(d) > 0 {
			obs.Code = 500
			obs.SQLErr = append(obs.SQLErr, "static: unknown identifier "+d[0]+" (chsql only reports it when a row reaches the expression)")
			out.replay["static_analysis"] = d
		}
	}
	got := map[item]int{}
	orderBad := ""
	if obs.Code == 200 && obs.ParseErr == "" {
		if obs.ResultType != "streams" {
			out.sig, out.msg = "shape|resultType="+obs.ResultType, "log query answered with resultType "+obs.ResultType
		}
		for _, s := range obs.Streams {
			lt := labelsText(s.Labels)
			prev := ""
			for _, v := range s.Values {
				got[item{lt, v[0], v[1]}]++
				if prev != "" {
					if (c.Q.Fwd && len(prev) == len(v[0]) && prev > v[0]) || (!c.Q.Fwd && len(prev) == len(v[0]) && prev < v[0]) {
						orderBad = fmt.Sprintf("stream %s: %s then %s", lt, prev, v[0])
					}
				}
				prev = v[0]
			}
		}
	}
	out.replay["tables"] = w.Tables()
	if out.sig != "" {
		return out
	}
	why := devWhy(k, c)
	if obs.Code != 200 || obs.ParseErr != "" {
		out.matchesPl = c.Dev && c.PlErr
		if len(obs.SQLErr) > 0 {
			out.sig = why + "|error:sql-rejected"
			out.msg = fmt.Sprintf("the generated SQL is rejected: %s (query %s)", obs.SQLErr[0], req.Query)
		} else {
			out.sig = why + "|error:http-" + fmt.Sprint(obs.Code)
			out.msg = fmt.Sprintf("query %s fails: code %d body %.200s %s", req.Query, obs.Code, obs.Body, obs.ParseErr)
		}
		return out
	}
	missing, extra := 0, 0
	var firstMissing, firstExtra item
	for it, n := range exp {
		if got[it] < n {
			if missing == 0 {
				firstMissing = it
			}
			missing += n - got[it]
		}
	}
	for it, n := range got {
		if exp[it] < n {
			if extra == 0 {
				firstExtra = it
			}
			extra += n - exp[it]
		}
	}
	if missing == 0 && extra == 0 {
		if orderBad != "" && c.Q.Lim > 0 {
			out.sig = "order|" + map[bool]string{true: "forward", false: "backward"}[c.Q.Fwd]
			out.msg = "lines of one stream are not in the requested direction: " + orderBad
		}
		return out
	}
	// does the observation coincide with what the mechanism model predicts?
	if c.Dev {
		var pl []ARes
		json.Unmarshal(c.Pl, &pl)
		plm := map[item]int{}
		for _, r := range pl {
			e := entries[r.ID-1]
			plm[item{labelsText(k.concLabels(r.Lbls, msgOf(lines[r.ID-1], c.DB[r.ID-1].Fmt))), fmt.Sprint(e.TsNs), e.Line}]++
		}
		out.matchesPl = len(plm) == len(got)
		for it, n := range plm {
			if got[it] != n {
				out.matchesPl = false
			}
		}
	}
	// classify: lines (by timestamp+text) vs labels only
	type tl struct{ ts, line string }
	el, gl := map[tl]int{}, map[tl]int{}
	for it, n := range exp {
		el[tl{it.Ts, it.Line}] += n
	}
	for it, n := range got {
		gl[tl{it.Ts, it.Line}] += n
	}
	cls := "labels"
	ml, xl := 0, 0
	for x, n := range el {
		if gl[x] < n {
			ml++
		}
	}
	for x, n := range gl {
		if el[x] < n {
			xl++
		}
	}
	switch {
	case ml > 0 && xl > 0:
		cls = "wrong-lines"
	case ml > 0:
		cls = "missing-lines"
	case xl > 0:
		cls = "extra-lines"
	}
	if strings.HasPrefix(why, "unattributed:") {
		// describe WHICH entries are wrong instead of the query's constructs: stable across seeds and queries
		set := map[string]bool{}
		reID := regexp.MustCompile(`#(\d+)#`)
		classify := func(line, dir string) {
			m := reID.FindStringSubmatch(line)
			if m == nil {
				set[dir+":unknown-line"] = true
				return
			}
			var id int
			fmt.Sscan(m[1], &id)
			if id < 1 || id > len(c.DB) {
				set[dir+":unknown-line"] = true
				return
			}
			e := c.DB[id-1]
			pos := "inside"
			switch {
			case e.T < c.Q.From:
				pos = "before-start"
			case e.T == c.Q.From:
				pos = "at-start"
			case e.T >= c.Q.To:
				pos = "at-or-after-end"
			case e.T == c.Q.To-1:
				pos = "last-instant"
			}
			set[dir+":"+e.Ty+":"+pos] = true
		}
		for x, n := range el {
			if gl[x] < n {
				classify(x.line, "missing")
			}
		}
		for x, n := range gl {
			if el[x] < n {
				classify(x.line, "unexpected")
			}
		}
		var ks []string
		for s := range set {
			ks = append(ks, s)
		}
		sort.Strings(ks)
		why = "unattributed"
		if c.Q.Lim > 0 && c.Q.Lim < 1000 {
			why += "|limit"
		}
		if len(ks) > 0 {
			why += "|" + strings.Join(ks, ",")
		}
	}
	out.sig = why + "|" + cls
	out.msg = fmt.Sprintf("%s: expected %d lines, got %d (%d missing, %d unexpected)", req.Query, len(expList), total(got), missing, extra)
	if missing > 0 {
		out.msg += fmt.Sprintf("; e.g. missing {%s} %s %q", firstMissing.Labels, firstMissing.Ts, firstMissing.Line)
	}
	if extra > 0 {
		out.msg += fmt.Sprintf("; e.g. unexpected {%s} %s %q", firstExtra.Labels, firstExtra.Ts, firstExtra.Line)
	}
	return out
}

func total(m map[item]int) int {
	n := 0
	for _, v := range m {
		n += v
	}
	return n
}

func msgOf(line, fmtKind string) string {
	if fmtKind != "json" {
		return ""
	}
	var m map[string]any
	if json.Unmarshal([]byte(line), &m) == nil {
		if s, ok := m["msg"].(string); ok {
			return s
		}
	}
	return ""
}

// tagsOf lists the hostile pool members a case exercised (coverage counters).
func tagsOf(k *Conc, c *ACase) []string {
	var t []string
	for _, st := range c.Q.P {
		if st.K == "lf" {
			if st.Op == "|=" || st.Op == "!=" {
				t = append(t, "feature:"+k.Feat[st.Arg].Tag)
			} else {
				t = append(t, "lineregex:"+k.regexFl[st.Arg])
			}
		}
	}
	for _, m := range c.Q.M {
		if m.Val == "v1" || m.Val == "v2" {
			t = append(t, "value:"+k.ValTag[m.Val])
		}
		if fl := k.regexFl["val:"+m.Val]; fl != "" && (m.Op == "=~" || m.Op == "!~") {
			t = append(t, "valueregex:"+fl)
			seen := map[string]bool{}
			for _, e := range c.DB {
				if v := e.S[m.Name]; extAtoms[v] && !seen[v] {
					seen[v] = true
					t = append(t, "extvalue:"+v+":"+m.Op)
				}
			}
		}
	}
	return t
}

// devWhy names the structural trigger of a disagreement (stable across seeds): the first rule that applies.  The
// triggers of defects that are still open come first; the triggers of repaired defects are kept (a regression shows up
// under its old signature) but only name a disagreement that no open defect explains.
func devWhy(k *Conc, c *ACase) string {
	if w := logOpenWhy(k, c); w != "" {
		return w
	}
	if w := logFixedWhy(k, c); w != "" {
		return w
	}
	return logUnattributed(c)
}

// logOpenWhy: triggers of the open known findings.
func logOpenWhy(k *Conc, c *ACase) string {
	q := &c.Q
	for i, st := range q.P {
		if st.K == "json" && i+1 < len(q.P) && q.P[i+1].K == "lf" && (q.P[i+1].Op == "!=" || q.P[i+1].Op == "!~") {
			return "parser:json-keyword-read-as-label-filter"
		}
	}
	// a matcher that an absent label satisfies
	for _, m := range q.M {
		absentOK := (m.Op == "!=" && m.Val != "") || (m.Op == "=" && m.Val == "") || (m.Op == "=~" && m.Val == "R_any") ||
			(m.Op == "!~" && m.Val != "R_any")
		if !absentOK {
			continue
		}
		for _, e := range c.DB {
			if e.S[m.Name] == "" {
				return "selector:label-absent-from-stream|" + m.Op
			}
		}
	}
	return ""
}

// logFixedWhy: triggers of repaired defects (see known_findings.json "fixed").
func logFixedWhy(k *Conc, c *ACase) string {
	q := &c.Q
	if len(q.M) >= 9 {
		return "selector:9+matchers"
	}
	// a regex matcher and a stored value that merely starts with / ends with / contains a value it matches
	for _, m := range q.M {
		if (m.Op == "=~" || m.Op == "!~") && (m.Val == "R_v1" || m.Val == "R_v2" || m.Val == "R_v1v2") {
			for _, e := range c.DB {
				if extAtoms[e.S[m.Name]] {
					return "selector:regex-whole-value|" + m.Op
				}
			}
		}
	}
	firstParser, firstDrop := -1, -1
	for i, st := range q.P {
		if (st.K == "json" || st.K == "jsonp" || st.K == "regexp") && firstParser < 0 {
			firstParser = i
		}
		if (st.K == "drop" || st.K == "dropv") && firstDrop < 0 {
			firstDrop = i
		}
	}
	// like(samples.string ..) in the SELECT block created by the labels join
	lj := -1
	for i, st := range q.P {
		if st.K == "json" {
			break // Go engine from here on
		}
		if lj < 0 && (st.K == "jsonp" || st.K == "regexp" || st.K == "drop" || st.K == "dropv") {
			lj = i
		}
		if lj >= 0 && i > lj && st.K == "lf" && (st.Op == "|=" || st.Op == "!=" || strings.HasPrefix(st.Arg, "L_")) {
			renewed := false
			for j := lj; j < i; j++ {
				if (q.P[j].K == "jsonp" || q.P[j].K == "regexp") && !(q.P[j+1].K == "jsonp" || q.P[j+1].K == "regexp") {
					renewed = true
				}
			}
			if !renewed {
				return "linefilter:like-after-labels-join"
			}
		}
	}
	for _, st := range q.P {
		if st.K == "json" && q.Lim == 0 {
			return "go-engine:limit-omitted"
		}
	}
	for _, st := range q.P {
		if st.K == "lf" && st.Op == "!~" && !strings.HasPrefix(st.Arg, "L_") {
			return "linefilter:!~:non-literal-regex"
		}
	}
	for _, st := range q.P {
		if st.K == "jsonp" {
			for _, p := range st.Params {
				if strings.Contains(p.Path, ".") {
					return "json:nested-path"
				}
			}
		}
	}
	for i, st := range q.P {
		if st.K == "lbl" && firstDrop >= 0 && firstDrop < i && (firstParser < 0 || i < firstParser) {
			return "labelfilter:after-drop-before-parser"
		}
	}
	for i, st := range q.P {
		if st.K == "lbl" && firstParser >= 0 && firstParser < i {
			for j := i + 1; j < len(q.P); j++ {
				if q.P[j].K == "drop" || q.P[j].K == "dropv" {
					return "labelfilter:before-drop-in-same-select"
				}
			}
		}
	}
	// concrete triggers: hostile characters in line filter operands
	for _, st := range q.P {
		if st.K == "lf" {
			var operand, tag string
			if st.Op == "|=" || st.Op == "!=" {
				operand, tag = k.Feat[st.Arg].S, k.Feat[st.Arg].Tag
			} else if strings.HasPrefix(st.Arg, "L_") {
				f := map[string]string{"L_f1": "f1", "L_f2": "f2"}[st.Arg]
				operand, tag = k.Feat[f].S, k.Feat[f].Tag
			}
			if strings.HasSuffix(operand, "'") || strings.Contains(operand, `\`) {
				return "linefilter:like-escaping|" + tag + "|" + likeKind(st.Op)
			}
		}
	}
	return ""
}

// logUnattributed: no known trigger: the constructs of the query (sorted, without repetition)
func logUnattributed(c *ACase) string {
	q := &c.Q
	set := map[string]bool{}
	for _, st := range q.P {
		set[st.K+st.Op] = true
	}
	for _, m := range q.M {
		set["m"+m.Op] = true
	}
	if q.Lim > 0 {
		set["limit"] = true
	}
	if q.Fwd {
		set["forward"] = true
	}
	var ks []string
	for s := range set {
		ks = append(ks, s)
	}
	sort.Strings(ks)
	return "unattributed:" + strings.Join(ks, ",")
}

// likeHostile: the LIKE escaping of line filter operands is repaired; no modelled difference is masked any more.
func likeHostile(k *Conc, c *ACase) bool {
	return false
}

func likeKind(op string) string {
	switch op {
	case "|=", "|~":
		return "like"
	}
	return "notLike"
}

package main

func run(cases, out string, seed int64, replays string, maxReplays int) {
	fatal("not implemented")
}

package main

import (
	"fmt"

	"verif/harness/chsql"
)

// danglingQualifiers reports identifiers qualified by a table alias that is not in scope of their SELECT block
// (e.g. samples.string in a block whose FROM is `main ANY LEFT JOIN _time_series`). ClickHouse resolves identifiers
// when it analyses the statement, so such a statement fails whatever the tables contain; chsql only notices when a
// row reaches the expression. The check is restricted to the alias the planners use ("samples").
func danglingQualifiers(sql string) []string {
	st, err := chsql.Parse(sql)
	if err != nil {
		return nil
	}
	var out []string
	chsql.WalkStmt(st, chsql.Visitor{Select: func(s *chsql.Select, depth int, cte string) {
		scope := map[string]bool{}
		if s.From != nil {
			scope[s.From.Name()] = true
		}
		for _, j := range s.Joins {
			if j.Table != nil {
				scope[j.Table.Name()] = true
			}
		}
		if scope["samples"] {
			return
		}
		check := func(e chsql.Expr) {
			if e == nil {
				return
			}
			chsql.WalkExpr(e, func(x chsql.Expr) bool {
				if _, ok := x.(*chsql.Subquery); ok {
					return false
				}
				if id, ok := x.(*chsql.Ident); ok && len(id.Parts) >= 2 && id.Parts[0] == "samples" {
					out = append(out, fmt.Sprintf("%s in the SELECT block of %q whose FROM is %v", id.Name(), cte, keys(scope)))
				}
				return true
			})
		}
		for _, c := range s.Columns {
			check(c)
		}
		check(s.Prewhere)
		check(s.Where)
		check(s.Having)
	}})
	return out
}

func keys(m map[string]bool) []string {
	var r []string
	for k := range m {
		r = append(r, k)
	}
	return r
}

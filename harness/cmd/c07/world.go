package main

import (
	"encoding/json"
	"fmt"
	"net/url"
	"sort"
	"strconv"
	"strings"
	"time"

	"verif/harness/e2e"
)

// ---------------------------------------------------------------------------------------------------------------
// Concrete layer: a concrete database (streams, entries), a concrete request, the real reader route, the parsed
// response. Nothing here knows about the specification.
// ---------------------------------------------------------------------------------------------------------------

// CEntry is one stored sample.
type CEntry struct {
	Labels map[string]string `json:"labels"`
	TsNs   int64             `json:"ts_ns"`
	Line   string            `json:"line"`
	Value  float64           `json:"value"`
	Type   int               `json:"type"` // 1 = log, 2 = metric
	ID     int               `json:"id"`   // index of the abstract entry (-1: decoy added by the concretiser)
}

// CRequest is one HTTP request to the reader.
type CRequest struct {
	Query   string `json:"query"`
	StartNs int64  `json:"start_ns"`
	EndNs   int64  `json:"end_ns"`
	Limit   int    `json:"limit"` // 0 = parameter omitted
	Forward bool   `json:"forward"`
	StepS   string `json:"step,omitempty"` // "" = parameter omitted (log queries)
	Instant bool   `json:"instant,omitempty"`
}

// OStream is one element of data.result of a streams / matrix response.
type OStream struct {
	Labels map[string]string `json:"labels"`
	Values [][2]string       `json:"values"` // [timestamp text, line or value text]
}

type Observed struct {
	Code       int       `json:"code"`
	ResultType string    `json:"result_type,omitempty"`
	Streams    []OStream `json:"streams,omitempty"`
	Body       string    `json:"body,omitempty"` // kept when not parsable / not 200
	ParseErr   string    `json:"parse_err,omitempty"`
	SQL        []string  `json:"sql"`
	SQLErr     []string  `json:"sql_err,omitempty"`
	Rows       []int     `json:"sql_rows,omitempty"` // rows each statement delivered to the reader
	Unsup      []string  `json:"unsupported,omitempty"`
}

type seriesRow struct {
	Fingerprint uint64
	Labels      string
	Name        string
}

type World struct {
	W *e2e.World
	// series rows exactly as the real writer produces them, learnt once per label set by pushing through
	// /loki/api/v1/push and reading time_series back
	series map[string]seriesRow
	Pushes int
	Loads  int
}

func NewWorld() (*World, error) {
	w, err := e2e.New(e2e.Options{})
	if err != nil {
		return nil, err
	}
	return &World{W: w, series: map[string]seriesRow{}}, nil
}

func labelsKey(l map[string]string) string {
	ks := make([]string, 0, len(l))
	for k := range l {
		ks = append(ks, k)
	}
	sort.Strings(ks)
	var b strings.Builder
	for _, k := range ks {
		b.WriteString(strconv.Quote(k))
		b.WriteString("=")
		b.WriteString(strconv.Quote(l[k]))
		b.WriteString(",")
	}
	return b.String()
}

var logTables = []string{"time_series", "time_series_gin", "samples_v3", "metrics_15s"}

func (w *World) truncate() error {
	for _, t := range logTables {
		if err := w.W.Store.DB.Truncate(t); err != nil {
			return err
		}
	}
	return nil
}

// learn pushes one line per unknown label set through the REAL writer route and reads the series row back.
func (w *World) learn(sets []map[string]string) error {
	var need []map[string]string
	seen := map[string]bool{}
	for _, s := range sets {
		k := labelsKey(s)
		if _, ok := w.series[k]; ok || seen[k] {
			continue
		}
		seen[k] = true
		need = append(need, s)
	}
	if len(need) == 0 {
		return nil
	}
	if err := w.truncate(); err != nil {
		return err
	}
	type pstream struct {
		Stream map[string]string `json:"stream"`
		Values [][2]string       `json:"values"`
	}
	var body struct {
		Streams []pstream `json:"streams"`
	}
	for i, s := range need {
		body.Streams = append(body.Streams, pstream{Stream: s, Values: [][2]string{{"1600000000000000000", fmt.Sprintf("learn-%d", i)}}})
	}
	raw, _ := json.Marshal(body)
	w.Pushes++
	code, resp := w.W.Push("POST", "/loki/api/v1/push", "application/json", raw, nil)
	if code != 204 && code != 200 {
		return fmt.Errorf("learning push failed: %d %s", code, resp)
	}
	deadline := time.Now().Add(5 * time.Second)
	for {
		w.W.Settle()
		w.W.Settle()
		res, err := w.W.Store.DB.Query("SELECT fingerprint, labels, name FROM time_series")
		if err != nil {
			return err
		}
		res2, err := w.W.Store.DB.Query("SELECT fingerprint, string FROM samples_v3")
		if err != nil {
			return err
		}
		if len(res.Rows) >= len(need) && len(res2.Rows) >= len(need) {
			byFp := map[uint64]seriesRow{}
			for _, r := range res.Rows {
				fp := r[0].(uint64)
				byFp[fp] = seriesRow{Fingerprint: fp, Labels: r[1].(string), Name: r[2].(string)}
			}
			for _, r := range res2.Rows {
				fp := r[0].(uint64)
				line := r[1].(string)
				var i int
				if _, err := fmt.Sscanf(line, "learn-%d", &i); err != nil || i >= len(need) {
					return fmt.Errorf("unexpected sample while learning series: %q", line)
				}
				sr, ok := byFp[fp]
				if !ok {
					return fmt.Errorf("sample fingerprint %d has no series row", fp)
				}
				w.series[labelsKey(need[i])] = sr
			}
			for _, s := range need {
				if _, ok := w.series[labelsKey(s)]; !ok {
					return fmt.Errorf("writer produced no series for %v", s)
				}
			}
			break
		}
		if time.Now().After(deadline) {
			return fmt.Errorf("writer did not flush %d series within 5s (have %d series rows, %d samples; store errors %v)",
				len(need), len(res.Rows), len(res2.Rows), w.W.StoreErr)
		}
	}
	return w.truncate()
}

// Load replaces the contents of the log tables by the given entries. Series rows are the writer's own; samples are
// inserted directly (so that type and timestamps are exactly the case's); the real materialized views run.
func (w *World) Load(entries []CEntry, date time.Time) error {
	var sets []map[string]string
	for _, e := range entries {
		sets = append(sets, e.Labels)
	}
	if err := w.learn(sets); err != nil {
		return err
	}
	if err := w.truncate(); err != nil {
		return err
	}
	w.Loads++
	type sk struct {
		k  string
		ty int
	}
	done := map[sk]bool{}
	var srows, samples [][]any
	for _, e := range entries {
		k := labelsKey(e.Labels)
		sr := w.series[k]
		if !done[sk{k, e.Type}] {
			done[sk{k, e.Type}] = true
			srows = append(srows, []any{date, sr.Fingerprint, sr.Labels, sr.Name, uint8(e.Type)})
		}
		samples = append(samples, []any{sr.Fingerprint, e.TsNs, e.Value, e.Line, uint8(e.Type)})
	}
	if len(srows) > 0 {
		if err := w.W.Store.Insert("time_series", []string{"date", "fingerprint", "labels", "name", "type"}, srows); err != nil {
			return err
		}
	}
	if len(samples) > 0 {
		if err := w.W.Store.Insert("samples_v3", []string{"fingerprint", "timestamp_ns", "value", "string", "type"}, samples); err != nil {
			return err
		}
	}
	return nil
}

// Tables dumps the log tables for replay files.
func (w *World) Tables() map[string]any {
	out := map[string]any{}
	for _, q := range [][2]string{
		{"time_series", "SELECT date, fingerprint, labels, type FROM time_series"},
		{"time_series_gin", "SELECT date, key, val, fingerprint, type FROM time_series_gin"},
		{"samples_v3", "SELECT fingerprint, timestamp_ns, value, string, type FROM samples_v3"},
		{"metrics_15s", "SELECT fingerprint, timestamp_ns, countMerge(count) AS count, sum(sum) AS sum, sum(bytes) AS bytes, type FROM metrics_15s GROUP BY fingerprint, timestamp_ns, type"},
	} {
		res, err := w.W.Store.DB.Query(q[1])
		if err != nil {
			out[q[0]] = "error: " + err.Error()
			continue
		}
		var rows []string
		for _, r := range res.Rows {
			rows = append(rows, fmt.Sprintf("%v", r))
		}
		out[q[0]] = map[string]any{"cols": res.Cols, "rows": rows}
	}
	return out
}

// Run sends the request through the REAL reader route and parses the response.
func (w *World) Run(r CRequest) *Observed {
	w.W.Bridge.Drain()
	nUnsup := len(w.W.Bridge.Unsupported)
	q := url.Values{}
	q.Set("query", r.Query)
	path := "/loki/api/v1/query_range"
	if r.Instant {
		path = "/loki/api/v1/query"
		q.Set("time", strconv.FormatInt(r.EndNs, 10))
	} else {
		q.Set("start", strconv.FormatInt(r.StartNs, 10))
		q.Set("end", strconv.FormatInt(r.EndNs, 10))
	}
	if r.Limit > 0 {
		q.Set("limit", strconv.Itoa(r.Limit))
	}
	if r.Forward {
		q.Set("direction", "forward")
	}
	if r.StepS != "" {
		q.Set("step", r.StepS)
	}
	code, body := w.W.Get(path + "?" + q.Encode())
	o := &Observed{Code: code}
	for _, e := range w.W.Bridge.Drain() {
		o.SQL = append(o.SQL, e.SQL)
		o.Rows = append(o.Rows, e.Rows)
		if e.Err != nil {
			o.SQLErr = append(o.SQLErr, e.Err.Error())
		}
	}
	if len(w.W.Bridge.Unsupported) > nUnsup {
		o.Unsup = append(o.Unsup, w.W.Bridge.Unsupported[nUnsup:]...)
	}
	if code != 200 {
		o.Body = body
		return o
	}
	var doc struct {
		Status string `json:"status"`
		Data   struct {
			ResultType string            `json:"resultType"`
			Result     []json.RawMessage `json:"result"`
		} `json:"data"`
	}
	dec := json.NewDecoder(strings.NewReader(body))
	dec.UseNumber()
	if err := dec.Decode(&doc); err != nil {
		o.ParseErr = err.Error()
		o.Body = body
		return o
	}
	o.ResultType = doc.Data.ResultType
	for _, raw := range doc.Data.Result {
		var el struct {
			Stream map[string]string `json:"stream"`
			Metric map[string]string `json:"metric"`
			Values [][]any           `json:"values"`
			Value  []any             `json:"value"`
		}
		d := json.NewDecoder(strings.NewReader(string(raw)))
		d.UseNumber()
		if err := d.Decode(&el); err != nil {
			o.ParseErr = err.Error()
			o.Body = body
			return o
		}
		s := OStream{Labels: el.Stream}
		if el.Stream == nil {
			s.Labels = el.Metric
		}
		if s.Labels == nil {
			s.Labels = map[string]string{}
		}
		vals := el.Values
		if el.Value != nil {
			vals = append(vals, el.Value)
		}
		for _, v := range vals {
			if len(v) != 2 {
				o.ParseErr = "value is not a pair"
				o.Body = body
				return o
			}
			s.Values = append(s.Values, [2]string{fmt.Sprint(v[0]), fmt.Sprint(v[1])})
		}
		o.Streams = append(o.Streams, s)
	}
	return o
}

// c07 binds LogQLSem.tla / LogQLPlan.tla (properties C07 and C08) to the REAL reader: every case exported by TLC
// (abstract query + abstract database + the result the specification defines) is concretised with seeded pools of
// hostile strings, stored, queried through the real /loki/api/v1/query_range route of e2e.World (real LogQL parser,
// real planners, real Go post-processors, SQL executed by chsql over the real DDL) and the JSON answer is compared
// with the specification's result.
//
//	c07 run   -cases cases.json -out result.json -seed S [-replays dir] [-maxreplays N]
//	c07 adhoc -in concrete.json            one concrete database + requests, prints what the reader answers
package main

import (
	"encoding/json"
	"flag"
	"fmt"
	"os"
	"time"
)

func fatal(f string, a ...any) {
	fmt.Fprintf(os.Stderr, "c07: "+f+"\n", a...)
	os.Exit(2)
}

func main() {
	if len(os.Args) < 2 {
		fatal("usage: c07 run|adhoc ...")
	}
	os.Setenv("TZ", "UTC")
	time.Local = time.UTC
	switch os.Args[1] {
	case "adhoc":
		fs := flag.NewFlagSet("adhoc", flag.ExitOnError)
		in := fs.String("in", "", "concrete case file")
		fs.Parse(os.Args[2:])
		adhoc(*in)
	case "run":
		fs := flag.NewFlagSet("run", flag.ExitOnError)
		cases := fs.String("cases", "", "cases exported by TLC (JSON lines)")
		out := fs.String("out", "", "result file")
		seed := fs.Int64("seed", 1, "seed of the concretiser")
		replays := fs.String("replays", "", "directory for replay files of disagreeing cases")
		maxReplays := fs.Int("maxreplays", 40, "replay files written per signature")
		fs.Parse(os.Args[2:])
		run(*cases, *out, *seed, *replays, *maxReplays)
	default:
		fatal("unknown command %s", os.Args[1])
	}
}

type adhocIn struct {
	Entries  []CEntry   `json:"entries"`
	Requests []CRequest `json:"requests"`
	Tables   bool       `json:"tables"`
}

func adhoc(path string) {
	raw, err := os.ReadFile(path)
	if err != nil {
		fatal("%v", err)
	}
	var in adhocIn
	if err := json.Unmarshal(raw, &in); err != nil {
		fatal("%v", err)
	}
	w, err := NewWorld()
	if err != nil {
		fatal("world: %v", err)
	}
	date := time.Unix(0, in.Requests[0].StartNs).UTC().Truncate(24 * time.Hour)
	if err := w.Load(in.Entries, date); err != nil {
		fatal("load: %v", err)
	}
	enc := json.NewEncoder(os.Stdout)
	enc.SetIndent("", " ")
	enc.SetEscapeHTML(false)
	if in.Tables {
		enc.Encode(w.Tables())
	}
	for _, r := range in.Requests {
		t0 := time.Now()
		o := w.Run(r)
		enc.Encode(map[string]any{"request": r, "observed": o, "ms": float64(time.Since(t0).Microseconds()) / 1000})
	}
}

package main

func prepareMetricCase(c *ACase, seed int64) *prepared {
	return &prepared{c: c, out: &caseOutcome{infra: "metric cases not implemented"}}
}

func runMetricCase(w *World, p *prepared) *caseOutcome { return p.out }

package main

import (
	"encoding/json"
	"fmt"
	"math"
	"sort"
	"strconv"
	"strings"
	"time"
)

// ---------------------------------------------------------------------------------------------------------------
// C08: metric queries. The abstract case carries q.mq (range function, range, step, unit, groupings, vector
// aggregation, comparisons, topk) and the series the definition (LogQLSem!EvalMetric) yields: per series the points
// [t (tick), num/den (abstract rational), opt]. The concretiser fixes: seconds per tick = unit, the scale of byte
// lengths (lines are padded to lenUnit * len bytes) and of unwrapped numbers (n_k = k * u for a dyadic u), so that
// concrete value = num * scale / (den * (unit if the function is per second)).
// ---------------------------------------------------------------------------------------------------------------

type AMq struct {
	Fn    string   `json:"fn"`
	Range int      `json:"range"`
	Step  int      `json:"step"`
	Unit  int      `json:"unit"`
	UGrp  string   `json:"ugrp"`
	UGrpL []string `json:"uglbls"`
	Agg   string   `json:"agg"`
	Grp   string   `json:"grp"`
	GPos  string   `json:"gpos"`
	GrpL  []string `json:"glbls"`
	CmpL  ACmp     `json:"cmpl"`
	CmpA  ACmp     `json:"cmpa"`
	TopFn string   `json:"topfn"`
	TopK  int      `json:"topk"`
	CmpT  ACmp     `json:"cmpt"` // the comparison written after topk / bottomk
}

type ACmp struct {
	Op string `json:"op"`
	K4 int    `json:"k4"`
}

type MPoint struct {
	T   int  `json:"t"`
	Num int  `json:"num"`
	Den int  `json:"den"`
	Opt bool `json:"opt"`
}

type MSeries struct {
	Lbls map[string]string `json:"lbls"`
	Pts  []MPoint          `json:"pts"`
}

const lenUnit = 160 // bytes per abstract length unit

const getterBatch = 100 // LogQLPlan!GetterBatch: rows per slice of shared.ClickhouseGetterPlanner.ScanMatrix

var linearNumPool = []float64{1, 0.25, 2.5, 4}

func fnum(x float64) string { return strconv.FormatFloat(x, 'f', -1, 64) }

func isRate(fn string) bool { return fn == "rate" || fn == "bytes_rate" || fn == "rate_unwrap" }
func isUnwrapFn(fn string) bool {
	switch fn {
	case "sum_over_time", "avg_over_time", "min_over_time", "max_over_time", "first_over_time", "last_over_time", "rate_unwrap":
		return true
	}
	return false
}

func (k *Conc) durText(sec int) string {
	if sec%3600 == 0 && k.rng.Intn(2) == 0 {
		return fmt.Sprintf("%dh", sec/3600)
	}
	if sec%60 == 0 && k.rng.Intn(2) == 0 {
		return fmt.Sprintf("%dm", sec/60)
	}
	if k.rng.Intn(4) == 0 {
		return fmt.Sprintf("%dms", sec*1000)
	}
	return fmt.Sprintf("%ds", sec)
}

func (k *Conc) groupText(kind string, names []string) string {
	var ns []string
	for _, n := range names {
		ns = append(ns, k.Name[n])
	}
	sort.Strings(ns)
	return fmt.Sprintf("%s (%s)", kind, strings.Join(ns, ", "))
}

// thresholdText renders k4/4 (per second for a rate) with at most 6 decimals (the planner prints %f). The specification
// compares with k4 / (4 * range ticks) for a rate; a value counted by the vector aggregation count is not per second
// (concSeries), so a threshold behind it is not scaled by the seconds per tick either.
func thresholdText(mq *AMq, c ACmp, afterAgg bool) string {
	v := float64(c.K4) / 4
	if isRate(mq.Fn) {
		if afterAgg && mq.Agg == "count" {
			v /= float64(mq.Range)
		} else {
			v /= float64(mq.Range * mq.Unit)
		}
	}
	return strconv.FormatFloat(math.Round(v*1e6)/1e6, 'f', -1, 64)
}

func (k *Conc) metricQueryText(q *AQuery, mq *AMq) string {
	fn := mq.Fn
	if fn == "rate_unwrap" {
		fn = "rate"
	}
	inner := k.logSelectorAndPipe(q)
	rng := "[" + k.durText(mq.Range*mq.Unit) + "]"
	s := ""
	if mq.UGrp != "" {
		if k.rng.Intn(2) == 0 {
			s = fmt.Sprintf("%s %s (%s %s)", fn, k.groupText(mq.UGrp, mq.UGrpL), inner, rng)
		} else {
			s = fmt.Sprintf("%s(%s %s) %s", fn, inner, rng, k.groupText(mq.UGrp, mq.UGrpL))
		}
	} else {
		s = fmt.Sprintf("%s(%s %s)", fn, inner, rng)
	}
	if mq.CmpL.Op != "" {
		s += " " + mq.CmpL.Op + " " + thresholdText(mq, mq.CmpL, false)
	}
	if mq.Agg != "" {
		switch {
		case mq.Grp == "":
			s = fmt.Sprintf("%s(%s)", mq.Agg, s)
		case mq.GPos == "prefix":
			s = fmt.Sprintf("%s %s (%s)", mq.Agg, k.groupText(mq.Grp, mq.GrpL), s)
		default:
			s = fmt.Sprintf("%s(%s) %s", mq.Agg, s, k.groupText(mq.Grp, mq.GrpL))
		}
		if mq.CmpA.Op != "" {
			s += " " + mq.CmpA.Op + " " + thresholdText(mq, mq.CmpA, true)
		}
	}
	if mq.TopFn != "" {
		s = fmt.Sprintf("%s(%d, %s)", mq.TopFn, mq.TopK, s)
		if mq.CmpT.Op != "" {
			s += " " + mq.CmpT.Op + " " + thresholdText(mq, mq.CmpT, mq.Agg != "")
		}
	}
	return s
}

func pad(line, fmtKind string, want int) (string, bool) {
	if len(line) > want {
		return line, false
	}
	n := want - len(line)
	if n == 0 {
		return line, true
	}
	if fmtKind == "json" {
		// ,"pad":"~~~" before the closing brace: needs at least 9 bytes
		if n < 9 {
			return line, false
		}
		return line[:len(line)-1] + `,"pad":"` + strings.Repeat("~", n-9) + `"}`, true
	}
	return line + " " + strings.Repeat("~", n-1), true
}

func prepareMetricCase(c *ACase, seed int64) *prepared {
	out := &caseOutcome{}
	p := &prepared{c: c, out: out}
	var mq AMq
	if err := json.Unmarshal(c.Q.MqRaw, &mq); err != nil {
		out.infra = "mq: " + err.Error()
		return p
	}
	p.mq = &mq
	var k *Conc
	var lines []string
	ok := false
	for attempt := int64(0); attempt < 20 && !ok; attempt++ {
		k = newConc(c, seed+attempt*104729)
		k.metric = true
		k.scale = pick(k.rng, linearNumPool)
		for i := 0; i < 4; i++ {
			k.Nums[i] = fnum(float64(i) * k.scale)
			k.Val["n"+strconv.Itoa(i)] = k.Nums[i]
		}
		lines = lines[:0]
		ok = true
		for i := range c.DB {
			l, err := k.lineOf(&c.DB[i], i+1)
			if err != nil {
				out.infra = "line: " + err.Error()
				return p
			}
			var fits bool
			l, fits = pad(l, c.DB[i].Fmt, lenUnit*maxInt(c.DB[i].Len, 1))
			if !fits {
				ok = false
				out.infra = fmt.Sprintf("line longer than %d bytes", lenUnit*maxInt(c.DB[i].Len, 1))
				break
			}
			lines = append(lines, l)
		}
		if ok {
			if err := selfCheck(k, c, lines); err != nil {
				ok = false
				out.infra = "concretiser self-check: " + err.Error()
			}
		}
	}
	if !ok {
		return p
	}
	out.infra = ""
	unitNs := int64(mq.Unit) * 1e9
	base := int64(baseSec) * 1e9
	var entries []CEntry
	for i, e := range c.DB {
		lbls := map[string]string{}
		for n, v := range e.S {
			if v != "" {
				lbls[k.Name[n]] = k.val(v)
			}
		}
		ty := 1
		if e.Ty == "metric" {
			ty = 2
		}
		off := []int64{0, unitNs - 1, k.rng.Int63n(unitNs)}[k.rng.Intn(3)]
		entries = append(entries, CEntry{Labels: lbls, TsNs: base + int64(e.T)*unitNs + off, Line: lines[i], Type: ty, ID: i + 1, Value: 0})
	}
	k.FromNs = base + int64(c.Q.From)*unitNs
	k.ToNs = base + int64(c.Q.To)*unitNs
	p.k, p.lines, p.entries = k, lines, entries
	p.req = CRequest{Query: k.metricQueryText(&c.Q, &mq), StartNs: k.FromNs, EndNs: k.ToNs, StepS: strconv.Itoa(mq.Step * mq.Unit)}
	return p
}

func maxInt(a, b int) int {
	if a > b {
		return a
	}
	return b
}

type mpt struct {
	ts  float64
	val float64
	opt bool
}

func (p *prepared) scaleOf() float64 {
	switch p.mq.Fn {
	case "bytes_rate", "bytes_over_time":
		return lenUnit
	}
	if isUnwrapFn(p.mq.Fn) {
		return p.k.scale
	}
	return 1
}

func (p *prepared) concSeries(ss []MSeries, mechanism bool) map[string][]mpt {
	out := map[string][]mpt{}
	sc := p.scaleOf()
	if p.mq.Agg == "count" {
		sc = 1
	}
	for _, s := range ss {
		lt := labelsText(p.k.concLabels(s.Lbls, ""))
		for _, pt := range s.Pts {
			den := float64(pt.Den)
			if isRate(p.mq.Fn) && p.mq.Agg != "count" {
				den *= float64(p.mq.Unit)
			}
			out[lt] = append(out[lt], mpt{ts: float64(baseSec) + float64(pt.T*p.mq.Unit), val: float64(pt.Num) * sc / den, opt: pt.Opt})
		}
	}
	return out
}

func near(a, b float64) bool {
	if a == b {
		return true
	}
	d := math.Abs(a - b)
	return d <= 1e-9*math.Max(math.Abs(a), math.Abs(b))
}

// seriesAgree: every observed point is allowed by the definition; every non-optional expected point is observed.
func seriesAgree(exp, got map[string][]mpt) (bool, string, string) {
	keys := map[string]bool{}
	for l := range exp {
		keys[l] = true
	}
	for l := range got {
		keys[l] = true
	}
	var ks []string
	for l := range keys {
		ks = append(ks, l)
	}
	sort.Strings(ks)
	for _, l := range ks {
		e, g := exp[l], got[l]
		mandatory := false
		for _, x := range e {
			if !x.opt {
				mandatory = true
			}
		}
		if len(g) == 0 && mandatory {
			return false, "series-missing", fmt.Sprintf("series {%s} is missing", l)
		}
		if len(e) == 0 && len(g) > 0 {
			return false, "series-unexpected", fmt.Sprintf("unexpected series {%s} with %d points (first at %.3f = %v)", l, len(g), g[0].ts, g[0].val)
		}
		seenTs := map[int64]bool{}
		for _, y := range g {
			key := int64(math.Round(y.ts * 1000))
			if seenTs[key] {
				return false, "duplicate-instant", fmt.Sprintf("series {%s} has two points at %.3f", l, y.ts)
			}
			seenTs[key] = true
			okPt, tsKnown := false, false
			var want float64
			for _, x := range e {
				if math.Abs(x.ts-y.ts) < 1e-6 {
					tsKnown = true
					want = x.val
					if near(x.val, y.val) {
						okPt = true
					}
				}
			}
			if !okPt {
				if tsKnown {
					return false, "value", fmt.Sprintf("series {%s} at %.3f: value %v, the definition gives %v", l, y.ts, y.val, want)
				}
				return false, "instant-unexpected", fmt.Sprintf("series {%s} has a point at %.3f (= %v) where the definition has none", l, y.ts, y.val)
			}
		}
		for _, x := range e {
			if x.opt {
				continue
			}
			found := false
			for _, y := range g {
				if math.Abs(x.ts-y.ts) < 1e-6 {
					found = true
				}
			}
			if !found {
				return false, "instant-missing", fmt.Sprintf("series {%s} has no point at %.3f (the definition gives %v)", l, x.ts, x.val)
			}
		}
	}
	return true, "", ""
}

func runMetricCase(w *World, p *prepared) *caseOutcome {
	out, c, k, entries, mq := p.out, p.c, p.k, p.entries, p.mq
	if err := w.Load(entries, time.Unix(baseSec, 0).UTC().Truncate(24*time.Hour)); err != nil {
		out.infra = "load: " + err.Error()
		return out
	}
	req := p.req
	out.query = req.Query
	obs := w.Run(req)
	out.tags = append(tagsOf(k, c), "fn:"+mq.Fn, fmt.Sprintf("unit:%d", mq.Unit))
	if mq.Agg != "" {
		out.tags = append(out.tags, "agg:"+mq.Agg, "grouping:"+mq.Grp+":"+mq.GPos)
	}
	if mq.UGrp != "" {
		out.tags = append(out.tags, "range-grouping:"+mq.UGrp)
	}
	if mq.CmpL.Op != "" || mq.CmpA.Op != "" {
		out.tags = append(out.tags, "comparison:"+mq.CmpL.Op+mq.CmpA.Op)
	}
	if mq.TopFn != "" {
		out.tags = append(out.tags, mq.TopFn)
	}
	if mq.TopFn != "" && mq.CmpT.Op != "" {
		out.tags = append(out.tags, "topcmp:"+mq.TopFn+":"+mq.CmpT.Op)
		if c.OrdObs {
			// the specification says that applying the threshold to the operand of the k-selection gives another answer
			out.tags = append(out.tags, "topcmp-order-observable:"+mq.TopFn+":"+planningPath(c, mq))
		}
	}
	// the slices the rows of the last statement reach the Go post-processors in (shared.ClickhouseGetterPlanner.ScanMatrix
	// cuts every getterBatch rows): observed on the real statement, foretold by the specification for fragment B
	if n := len(obs.Rows); n > 0 && obs.Code == 200 {
		rows := obs.Rows[n-1]
		if rows > getterBatch {
			out.tags = append(out.tags, "getter-slices>1:"+planningPath(c, mq))
			if rows%getterBatch != 0 {
				out.tags = append(out.tags, "getter-slices>1")
			}
		}
		if c.Frag == "B" && (c.NRows > getterBatch) != (rows > getterBatch) {
			out.infra = fmt.Sprintf("fragment B: LogQLPlan!PlanMetricRows has %d rows, the statement of the real planner delivered %d: "+
				"not on the same side of the getter's slice length", c.NRows, rows)
			return out
		}
	}
	switch {
	case mq.Step < mq.Range:
		out.tags = append(out.tags, "step<range")
	case mq.Step == mq.Range:
		out.tags = append(out.tags, "step=range")
	default:
		out.tags = append(out.tags, "step>range")
	}
	var mexp, mpl []MSeries
	if err := json.Unmarshal(c.MExpRaw, &mexp); err != nil {
		out.infra = "mexp: " + err.Error()
		return out
	}
	exp := p.concSeries(mexp, false)
	out.nontrivial = len(mexp) > 0
	out.replay = map[string]any{"case": c, "logql": req.Query, "request": req, "entries": entries, "observed": obs,
		"expected_series": exp2json(exp), "concretisation": map[string]any{"values": k.Val, "features": k.Feat, "names": k.Name,
			"seconds_per_tick": mq.Unit, "bytes_per_len_unit": lenUnit, "unwrap_scale": k.scale}}
	if len(obs.Unsup) > 0 {
		out.infra = "chsql does not support: " + strings.Join(obs.Unsup, " | ")
		return out
	}
	if obs.Code == 200 && len(obs.SQL) > 0 {
		if d := danglingQualifiers(obs.SQL[len(obs.SQL)-1]); len(d) > 0 {
			obs.Code = 500
			obs.SQLErr = append(obs.SQLErr, "static: unknown identifier "+d[0]+" (chsql only reports it when a row reaches the expression)")
			out.replay["static_analysis"] = d
		}
	}
	out.replay["tables"] = w.Tables()
	why := metricWhy(k, c, mq)
	if obs.Code != 200 || obs.ParseErr != "" {
		out.matchesPl = c.Dev && c.PlErr
		if len(obs.SQLErr) > 0 {
			out.sig = why + "|error:sql-rejected"
			out.msg = fmt.Sprintf("the generated SQL is rejected: %s (query %s)", obs.SQLErr[0], req.Query)
		} else {
			out.sig = why + "|error:http-" + fmt.Sprint(obs.Code)
			out.msg = fmt.Sprintf("query %s fails: code %d body %.300s %s", req.Query, obs.Code, obs.Body, obs.ParseErr)
		}
		return out
	}
	if obs.ResultType != "matrix" {
		out.sig, out.msg = why+"|shape:resultType="+obs.ResultType, "metric query answered with resultType "+obs.ResultType
		return out
	}
	got := map[string][]mpt{}
	for _, s := range obs.Streams {
		lt := labelsText(s.Labels)
		for _, v := range s.Values {
			ts, err1 := strconv.ParseFloat(v[0], 64)
			val, err2 := strconv.ParseFloat(v[1], 64)
			if err1 != nil || err2 != nil {
				out.sig, out.msg = why+"|shape:unparsable-point", fmt.Sprintf("point %v of {%s} is not numeric", v, lt)
				return out
			}
			got[lt] = append(got[lt], mpt{ts: ts, val: val})
		}
	}
	out.replay["observed_series"] = exp2json(got)
	ok, cls, msg := seriesAgree(exp, got)
	if ok {
		return out
	}
	if c.Dev && !c.PlErr {
		json.Unmarshal(c.MPlRaw, &mpl)
		plok, _, _ := seriesAgree(p.concSeries(mpl, true), got)
		out.matchesPl = plok
	}
	out.sig = why + "|" + cls
	out.msg = fmt.Sprintf("%s step=%ss: %s", req.Query, req.StepS, msg)
	return out
}

// planningPath names the way the planner takes for the matrix functions of a metric query: the metrics_15s shortcut
// (planMetrics15Shortcut), or getFunctionOrder at a range below 15 s / at a longer range.
func planningPath(c *ACase, mq *AMq) string {
	sec := mq.Range * mq.Unit
	if sec < 15 {
		return "short-range"
	}
	short := (mq.Fn == "rate" || mq.Fn == "count_over_time") && sec%15 == 0
	for _, st := range c.Q.P {
		switch st.K {
		case "jsonp", "regexp", "json", "drop", "dropv", "lf", "unwrap":
			short = false
		}
	}
	if short {
		return "shortcut15s"
	}
	return "long-range-sql"
}

func exp2json(m map[string][]mpt) map[string][]string {
	out := map[string][]string{}
	for l, pts := range m {
		for _, p := range pts {
			o := ""
			if p.opt {
				o = " (optional)"
			}
			out[l] = append(out[l], fmt.Sprintf("%.3f = %v%s", p.ts, p.val, o))
		}
	}
	return out
}

// metricWhy names the structural trigger of a disagreement for metric queries (first rule that applies): the triggers of
// the open findings first, then those of repaired defects (kept so that a regression shows up under its old signature).
func metricWhy(k *Conc, c *ACase, mq *AMq) string {
	q := &c.Q
	hasParser, hasDrop, hasLbl, hasLf, hasUnwrap := false, false, false, false, false
	for _, st := range q.P {
		switch st.K {
		case "jsonp", "regexp", "json":
			hasParser = true
		case "drop", "dropv":
			hasDrop = true
		case "lbl":
			hasLbl = true
		case "lf":
			hasLf = true
		case "unwrap":
			hasUnwrap = true
		}
	}
	// (the range must be a multiple of 15 s since the repair of shortcut15s:range-not-multiple-of-15s)
	shortcut := (mq.Fn == "rate" || mq.Fn == "count_over_time") && mq.Range*mq.Unit >= 15 && (mq.Range*mq.Unit)%15 == 0 &&
		!hasParser && !hasDrop && !hasLf && !hasUnwrap
	wouldShortcut := (mq.Fn == "rate" || mq.Fn == "count_over_time") && mq.Range*mq.Unit >= 15 && !hasParser && !hasDrop && !hasLf && !hasUnwrap
	// ---- open findings
	if w := logOpenWhy(k, c); w != "" {
		return w
	}
	if isUnwrapFn(mq.Fn) {
		for _, e := range c.DB {
			if e.Fld["n"] == "n0" {
				return "zero-valued-point-dropped"
			}
		}
	}
	if mq.Step > mq.Range {
		return "step-greater-than-range"
	}
	// ---- repaired defects
	if hasUnwrap && !hasParser && !hasDrop {
		return "unwrap:no-labels-stage-before"
	}
	if wouldShortcut && hasLbl {
		return "shortcut15s:label-filter-not-planned"
	}
	if w := logFixedWhy(k, c); w != "" && !(wouldShortcut && strings.HasPrefix(w, "labelfilter:")) {
		return w
	}
	if wouldShortcut && (mq.Range*mq.Unit)%15 != 0 {
		return "shortcut15s:range-not-multiple-of-15s"
	}
	if mq.Fn == "bytes_over_time" {
		return "bytes_over_time:divided-by-range"
	}
	if hasDrop {
		return "drop:series-not-merged-in-range-aggregation"
	}
	if mq.Agg != "" && mq.Grp == "" {
		return "vector-aggregation:without-grouping-not-merged"
	}
	if isUnwrapFn(mq.Fn) {
		for _, e := range c.DB {
			if n := e.Fld["n"]; n == "" || n == "w" {
				return "unwrap:non-numeric-counted-as-zero"
			}
		}
	}
	parts := []string{"fn=" + mq.Fn}
	if mq.Agg != "" {
		parts = append(parts, "agg="+mq.Agg+":"+mq.Grp)
	}
	if mq.TopFn != "" {
		parts = append(parts, mq.TopFn)
	}
	if mq.CmpL.Op != "" || mq.CmpA.Op != "" {
		parts = append(parts, "cmp")
	}
	if mq.TopFn != "" && mq.CmpT.Op != "" {
		parts = append(parts, "cmp-after-"+mq.TopFn)
	}
	if shortcut {
		parts = append(parts, "shortcut15s")
	}
	return "unattributed:" + strings.Join(parts, ",")
}

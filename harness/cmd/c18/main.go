// c18 drives the REAL schema initialisation (ctrl/qryn/maintenance.Update) against fakeconn.
//
//	c18 ops    -out ops.json                 abstract ops of every migration script, per mode (input of Migrate.tla)
//	c18 sweep  -out sweep.json -trace t.ndjson [-pairs N -seed S]
//	                                         every statement x {fail, crash-before, crash-after} (+ sampled double faults),
//	                                         restarts until done; checks + event trace for Trace_Migrate.tla
//	c18 replay -sched sched.json -out r.json replays one fault schedule (from a TLC counterexample)
package main

import (
	"encoding/json"
	"flag"
	"fmt"
	"io"
	"math/rand"
	"os"
	"reflect"
	"regexp"
	"strings"

	"github.com/metrico/qryn/ctrl/qryn/maintenance"
	qsql "github.com/metrico/qryn/ctrl/qryn/sql"
	"github.com/sirupsen/logrus"
	"verif/harness/fakeconn"
)

type Mode struct {
	Name    string `json:"name"`
	Flags   int    `json:"flags"`
	Cluster string `json:"cluster"`
}

var modes = []Mode{
	{"single", maintenance.CLUST_MODE_SINGLE, ""},
	{"replicated", maintenance.CLUST_MODE_CLOUD, ""},
	{"clustered", maintenance.CLUST_MODE_SINGLE | maintenance.CLUST_MODE_DISTRIBUTED, "c1"},
	{"clustered_replicated", maintenance.CLUST_MODE_CLOUD | maintenance.CLUST_MODE_DISTRIBUTED, "c1"},
}

type stream struct {
	K    int
	Name string
	Text string
}

func streamsOf(m Mode) []stream {
	dist := m.Flags&maintenance.CLUST_MODE_DISTRIBUTED != 0
	res := []stream{{1, "log", qsql.LogScript}}
	if dist {
		res = append(res, stream{3, "log_dist", qsql.LogDistScript})
	}
	res = append(res, stream{2, "traces", qsql.TracesScript})
	if dist {
		res = append(res, stream{4, "traces_dist", qsql.TracesDistScript})
	}
	res = append(res, stream{5, "profiles", qsql.ProfilesScript})
	if dist {
		res = append(res, stream{6, "profiles_dist", qsql.ProfilesDistScript})
	}
	return res
}

// splitScripts is an independent implementation of the rule documented in the .sql headers:
// lines starting with ## are comments; queries are separated by ";" followed by one empty line.
func splitScripts(text string) []string {
	var lines []string
	for _, l := range strings.Split(text, "\n") {
		if strings.HasPrefix(l, "##") {
			continue
		}
		if strings.TrimSpace(l) == "" {
			l = ""
		}
		lines = append(lines, l)
	}
	var res []string
	var cur []string
	flush := func() {
		s := strings.TrimSpace(strings.Join(cur, "\n"))
		s = strings.TrimSuffix(s, ";")
		if s != "" {
			res = append(res, s)
		}
		cur = nil
	}
	for i, l := range lines {
		cur = append(cur, l)
		if strings.HasSuffix(strings.TrimRight(l, " \t"), ";") && (i+1 >= len(lines) || lines[i+1] == "") {
			flush()
		}
	}
	flush()
	return res
}

var reTpl = regexp.MustCompile(`\\\{\\\{[^}]*\\\}\\\}`)
var reWS = regexp.MustCompile(`\s+`)

func norm(s string) string { return strings.TrimSpace(reWS.ReplaceAllString(s, " ")) }

// matcher turns a script template into a regexp over normalised rendered text.
func matcher(tpl string) *regexp.Regexp {
	q := regexp.QuoteMeta(norm(tpl))
	q = reTpl.ReplaceAllString(q, ".*")
	q = strings.ReplaceAll(q, " ", " ?")
	return regexp.MustCompile("^" + q + " ?;?$")
}

type quietLogger struct{}

func (quietLogger) Error(args ...any) {}
func (quietLogger) Debug(args ...any) {}
func (quietLogger) Info(args ...any)  {}

// runUpdate calls the real Update; a fakeconn.Crash panic is a process kill.
func runUpdate(c *fakeconn.Conn, m Mode) (err error, crashed bool) {
	defer func() {
		if r := recover(); r != nil {
			if _, ok := r.(fakeconn.Crash); ok {
				crashed = true
				return
			}
			panic(r)
		}
	}()
	err = maintenance.Update(c, "qryn", m.Cluster, m.Flags, 7, "", "", false, quietLogger{})
	return err, false
}

type Event map[string]any

// eventsOf converts the statement log of one run into Trace_Migrate events.
func eventsOf(c *fakeconn.Conn, m Mode, scripts map[int][]*regexp.Regexp, infra *[]string) []Event {
	var ev []Event
	curK := 0
	for _, le := range c.Log {
		if strings.Contains(le.Err, "not understood") {
			*infra = append(*infra, le.Err)
		}
		st := "ok"
		if le.Fault == "fail" {
			st = "fail" // not executed, error returned
		} else if le.Fault == "crash-before" {
			st = "crash-before"
		} else if le.Fault == "crash-after" {
			st = "crash-after"
			if le.Err != "" {
				st = "crash-after-err"
			}
		} else if le.Err != "" {
			st = "err" // the database refused the statement
		}
		switch {
		case le.Op.Kind == "CreateINE" && (le.Op.Obj == "ver" || le.Op.Obj == "ver_dist"):
			ev = append(ev, Event{"ev": "CreateVer", "obj": le.Op.Obj, "st": st})
		case le.Op.Kind == "SelectVer":
			k := int(toU(le.Args[0]))
			curK = k
			v := -1
			if r, ok := le.Result.(uint64); ok {
				v = int(r)
			}
			ev = append(ev, Event{"ev": "ReadVer", "k": k, "tbl": le.Op.Obj, "st": st, "v": v})
		case le.Op.Kind == "InsertVer":
			ev = append(ev, Event{"ev": "RecordVer", "k": int(toU(le.Args[0])), "v": int(toU(le.Args[1])), "st": st})
		case le.Op.Kind == "ShowTables":
			// Cleanup(): no-op today
		default:
			idx := 0
			for i, re := range scripts[curK] {
				if re.MatchString(le.SQL) {
					// the same text may occur twice in a stream: prefer the first index not below the last one seen
					idx = i + 1
					if idx > lastIdx(ev, curK) {
						break
					}
				}
			}
			ev = append(ev, Event{"ev": "Exec", "k": curK, "i": idx, "st": st, "kind": le.Op.Kind, "obj": le.Op.Obj})
		}
	}
	return ev
}

func nextStream(ss []stream, cur int) int {
	if cur == 0 {
		return ss[0].K
	}
	for i, s := range ss {
		if s.K == cur && i+1 < len(ss) {
			return ss[i+1].K
		}
	}
	return cur
}

func lastIdx(ev []Event, k int) int {
	for i := len(ev) - 1; i >= 0; i-- {
		if ev[i]["ev"] == "Exec" && ev[i]["k"] == k {
			return ev[i]["i"].(int)
		}
		if ev[i]["ev"] == "ReadVer" && ev[i]["k"] == k {
			if v, ok := ev[i]["v"].(int); ok && v > 0 {
				return v
			}
			return 0
		}
	}
	return 0
}

func toU(v any) uint64 {
	rv := reflect.ValueOf(v)
	switch rv.Kind() {
	case reflect.Int, reflect.Int8, reflect.Int16, reflect.Int32, reflect.Int64:
		return uint64(rv.Int())
	}
	return rv.Uint()
}

type Fault struct {
	N      int    `json:"n"`      // statement number within the run (1-based); 0 = symbolic (At/K/I)
	Window string `json:"window"` // fail | crash-before | crash-after
	// symbolic position (from a TLC counterexample): statement kind At in {createVer, createVerDist, readVer, exec, record}
	At string `json:"at,omitempty"`
	K  int    `json:"k,omitempty"`
	I  int    `json:"i,omitempty"`
}

type CaseResult struct {
	Mode       string   `json:"mode"`
	Faults     []Fault  `json:"faults"` // fault of run 1, run 2, ...
	FaultStmt  []string `json:"fault_stmt"`
	Runs       int      `json:"runs"`
	Done       bool     `json:"done"`
	LastErr    string   `json:"last_err,omitempty"`
	SchemaOK   bool     `json:"schema_ok"`
	VerOK      bool     `json:"ver_ok"`
	IdleNoExec bool     `json:"idle_no_exec"`
	Violation  string   `json:"violation,omitempty"`
	Signature  string   `json:"signature,omitempty"`
}

type world struct {
	m        Mode
	streams  []stream
	scripts  map[int][]string
	matchers map[int][]*regexp.Regexp
	baseSnap map[string]any
	baseLen  int
}

func newWorld(m Mode) *world {
	w := &world{m: m, streams: streamsOf(m), scripts: map[int][]string{}, matchers: map[int][]*regexp.Regexp{}}
	for _, s := range w.streams {
		w.scripts[s.K] = splitScripts(s.Text)
		for _, t := range w.scripts[s.K] {
			w.matchers[s.K] = append(w.matchers[s.K], matcher(t))
		}
	}
	return w
}

// runCase executes Update with the given faults (one per run), then fault-free restarts until it succeeds
// (at most 3 more), then one more run on the up-to-date database.
func (w *world) runCase(faults []Fault, trace *[]Event, infra *[]string) CaseResult {
	db := fakeconn.NewDB()
	res := CaseResult{Mode: w.m.Name, Faults: faults}
	*trace = append(*trace, Event{"ev": "Reset", "mode": w.m.Name})
	var lastConn *fakeconn.Conn
	run := func(f *Fault) (error, bool) {
		c := fakeconn.NewConn(db)
		if f != nil && f.N == 0 {
			curK := 0
			fired := false
			ff := *f
			c.Pre = func(le *fakeconn.LogEntry) string {
				if fired {
					return ""
				}
				hit := false
				switch {
				case le.Op.Kind == "CreateINE" && le.Op.Obj == "ver":
					// the stream is identified by order: count streams started so far
					curK = nextStream(w.streams, curK)
					hit = ff.At == "createVer" && curK == ff.K
				case le.Op.Kind == "CreateINE" && le.Op.Obj == "ver_dist":
					hit = ff.At == "createVerDist" && curK == ff.K
				case le.Op.Kind == "SelectVer":
					hit = ff.At == "readVer" && int(toU(le.Args[0])) == ff.K
				case le.Op.Kind == "InsertVer":
					hit = ff.At == "record" && int(toU(le.Args[0])) == ff.K && int(toU(le.Args[1])) == ff.I
				case le.Op.Kind == "ShowTables":
				default:
					hit = ff.At == "exec" && curK == ff.K && ff.I >= 1 && ff.I <= len(w.matchers[curK]) && w.matchers[curK][ff.I-1].MatchString(le.SQL)
				}
				if hit {
					fired = true
					return ff.Window
				}
				return ""
			}
		} else if f != nil {
			switch f.Window {
			case "fail":
				c.FailAt[f.N] = true
			case "crash-before":
				c.CrashBefore = f.N
			case "crash-after":
				c.CrashAfter = f.N
			}
		}
		*trace = append(*trace, Event{"ev": "Start"})
		err, crashed := runUpdate(c, w.m)
		*trace = append(*trace, eventsOf(c, w.m, w.matchers, infra)...)
		if crashed {
			*trace = append(*trace, Event{"ev": "Crash"})
		} else if err != nil {
			*trace = append(*trace, Event{"ev": "ReturnErr"})
		} else {
			*trace = append(*trace, Event{"ev": "ReturnOK"})
		}
		if f != nil && f.N == 0 {
			for _, le := range c.Log {
				if le.Fault != "" {
					res.FaultStmt = append(res.FaultStmt, fmt.Sprintf("%s %s %s", le.Op.Kind, le.Op.Obj, le.Op.Obj2))
				}
			}
		} else if f != nil && f.N <= len(c.Log) {
			res.FaultStmt = append(res.FaultStmt, fmt.Sprintf("%s %s %s", c.Log[f.N-1].Op.Kind, c.Log[f.N-1].Op.Obj, c.Log[f.N-1].Op.Obj2))
		}
		lastConn = c
		res.Runs++
		return err, crashed
	}
	for i := range faults {
		run(&faults[i])
	}
	done := false
	for r := 0; r < 3 && !done; r++ {
		err, crashed := run(nil)
		if err == nil && !crashed {
			done = true
		} else if err != nil {
			res.LastErr = err.Error()
		}
	}
	res.Done = done
	if !done {
		// find the statement the database refuses
		stmt := ""
		for _, le := range lastConn.Log {
			if le.Err != "" {
				stmt = fmt.Sprintf("%s %s %s", le.Op.Kind, le.Op.Obj, le.Op.Obj2)
			}
		}
		res.Violation = fmt.Sprintf("after fault(s) %v at %v, initialisation never completes: every restart fails at [%s]: %s", faults, res.FaultStmt, strings.TrimSpace(stmt), res.LastErr)
		res.Signature = fmt.Sprintf("stuck|mode=%s|refused=%s", w.m.Name, strings.TrimSpace(stmt))
		return res
	}
	res.SchemaOK = reflect.DeepEqual(db.Snapshot(), w.baseSnap)
	res.VerOK = true
	for _, s := range w.streams {
		if int(db.MaxVer(uint64(s.K))) != len(w.scripts[s.K]) {
			res.VerOK = false
		}
	}
	// up-to-date database: one more run must execute no migration script
	run(nil)
	res.IdleNoExec = true
	for _, le := range lastConn.Log {
		switch le.Op.Kind {
		case "SelectVer", "ShowTables":
		case "CreateINE":
			if le.Op.Obj != "ver" && le.Op.Obj != "ver_dist" {
				res.IdleNoExec = false
			}
		default:
			res.IdleNoExec = false
		}
	}
	switch {
	case !res.SchemaOK:
		res.Violation = fmt.Sprintf("after fault(s) %v at %v and restart the schema differs from an uninterrupted run", faults, res.FaultStmt)
		res.Signature = "schema-differs|mode=" + w.m.Name
	case !res.VerOK:
		res.Violation = fmt.Sprintf("after fault(s) %v and restart the recorded versions do not equal the number of scripts", faults)
		res.Signature = "version-wrong|mode=" + w.m.Name
	case !res.IdleNoExec:
		res.Violation = "running initialisation on an up-to-date database executed a migration statement"
		res.Signature = "idle-exec|mode=" + w.m.Name
	}
	return res
}

func main() {
	logrus.SetOutput(io.Discard)
	if len(os.Args) < 2 {
		fmt.Fprintln(os.Stderr, "usage: c18 ops|sweep|replay ...")
		os.Exit(2)
	}
	cmd := os.Args[1]
	fs := flag.NewFlagSet(cmd, flag.ExitOnError)
	out := fs.String("out", "", "")
	tracePath := fs.String("trace", "", "")
	pairs := fs.Int("pairs", 0, "sampled double faults per mode")
	seed := fs.Int64("seed", 1, "")
	sched := fs.String("sched", "", "")
	fs.Parse(os.Args[2:])
	var infra []string
	result := map[string]any{}
	switch cmd {
	case "ops":
		for _, m := range modes {
			w := newWorld(m)
			c := fakeconn.NewConn(fakeconn.NewDB())
			mo := map[string]any{"dist": m.Cluster != "", "order": []int{}}
			var order []int
			ops := map[string]any{}
			for _, s := range w.streams {
				order = append(order, s.K)
				var l []fakeconn.Op
				for _, t := range w.scripts[s.K] {
					t = regexp.MustCompile(`\{\{[^}]*\}\}`).ReplaceAllString(t, " ")
					op, err := c.Classify(t)
					if err != nil {
						infra = append(infra, err.Error())
					}
					l = append(l, op)
				}
				ops[fmt.Sprint(s.K)] = l
			}
			mo["order"] = order
			mo["ops"] = ops
			result[m.Name] = mo
		}
	case "sweep":
		rnd := rand.New(rand.NewSource(*seed))
		var trace []Event
		var cases []CaseResult
		stats := map[string]any{}
		for _, m := range modes {
			w := newWorld(m)
			// uninterrupted baseline
			db := fakeconn.NewDB()
			c := fakeconn.NewConn(db)
			err, crashed := runUpdate(c, m)
			if err != nil || crashed {
				cases = append(cases, CaseResult{Mode: m.Name, Violation: fmt.Sprintf("uninterrupted initialisation fails: %v", err), Signature: "baseline-fails|mode=" + m.Name})
				continue
			}
			w.baseSnap = db.Snapshot()
			w.baseLen = len(c.Log)
			// every script must have been executed exactly once, in file order
			var tr []Event
			tr = append(tr, Event{"ev": "Reset", "mode": m.Name}, Event{"ev": "Start"})
			tr = append(tr, eventsOf(c, m, w.matchers, &infra)...)
			tr = append(tr, Event{"ev": "ReturnOK"})
			trace = append(trace, tr...)
			n := 0
			for stmt := 1; stmt <= w.baseLen; stmt++ {
				for _, win := range []string{"fail", "crash-before", "crash-after"} {
					cases = append(cases, w.runCase([]Fault{{N: stmt, Window: win}}, &trace, &infra))
					n++
				}
			}
			for p := 0; p < *pairs; p++ {
				f1 := Fault{N: 1 + rnd.Intn(w.baseLen), Window: []string{"fail", "crash-before", "crash-after"}[rnd.Intn(3)]}
				f2 := Fault{N: 1 + rnd.Intn(w.baseLen), Window: []string{"fail", "crash-before", "crash-after"}[rnd.Intn(3)]}
				cases = append(cases, w.runCase([]Fault{f1, f2}, &trace, &infra))
				n++
			}
			stats[m.Name] = map[string]any{"statements": w.baseLen, "cases": n}
		}
		result["cases"] = cases
		result["stats"] = stats
		if *tracePath != "" {
			f, _ := os.Create(*tracePath)
			enc := json.NewEncoder(f)
			for _, e := range trace {
				enc.Encode(e)
			}
			f.Close()
			result["events"] = len(trace)
		}
	case "replay":
		raw, err := os.ReadFile(*sched)
		if err != nil {
			fmt.Fprintln(os.Stderr, err)
			os.Exit(2)
		}
		var in struct {
			Mode   string  `json:"mode"`
			Faults []Fault `json:"faults"`
		}
		json.Unmarshal(raw, &in)
		for _, m := range modes {
			if m.Name != in.Mode {
				continue
			}
			w := newWorld(m)
			db := fakeconn.NewDB()
			c := fakeconn.NewConn(db)
			runUpdate(c, m)
			w.baseSnap = db.Snapshot()
			var trace []Event
			result["case"] = w.runCase(in.Faults, &trace, &infra)
			result["trace"] = trace
		}
	}
	result["infra"] = infra
	b, _ := json.MarshalIndent(result, "", " ")
	if *out != "" {
		os.WriteFile(*out, b, 0644)
	} else {
		fmt.Println(string(b))
	}
	if len(infra) > 0 {
		os.Exit(2)
	}
}
